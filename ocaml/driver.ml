(* Correspondence driver: reads one case per line on stdin, runs the extracted
   Coq model, prints one canonical result line per case.
   Token encoding: strings `s<cp>,<cp>,...` (code points in decimal; `s` = empty),
   python values: `n` None, `b0|b1`, `i<int>`, `f<is0><is1>:<cps>` float with repr, or a string token. *)
open Rimu_model

let rec pos_of_int (i : int) : positive =
  if i = 1 then XH
  else if i land 1 = 0 then XO (pos_of_int (i lsr 1))
  else XI (pos_of_int (i lsr 1))

let n_of_int i : n = if i = 0 then N0 else Npos (pos_of_int i)
let z_of_int i : z = if i = 0 then Z0 else if i > 0 then Zpos (pos_of_int i) else Zneg (pos_of_int (-i))

let rec int_of_pos = function
  | XH -> 1
  | XO p -> 2 * int_of_pos p
  | XI p -> 2 * int_of_pos p + 1

let int_of_n = function N0 -> 0 | Npos p -> int_of_pos p
let int_of_z = function Z0 -> 0 | Zpos p -> int_of_pos p | Zneg p -> - (int_of_pos p)

let rec nat_of_int i = if i <= 0 then O else S (nat_of_int (i - 1))
let nat_of_int i =
  let rec go acc i = if i <= 0 then acc else go (S acc) (i - 1) in go O i
let rec int_of_nat = function O -> 0 | S n -> 1 + int_of_nat n

let str_of_token (t : String.t) : str =
  (* t starts with 's' *)
  let body = String.sub t 1 (String.length t - 1) in
  if body = "" then []
  else List.map (fun x -> n_of_int (int_of_string x)) (String.split_on_char ',' body)

let token_of_str (s : str) : String.t =
  "s" ^ String.concat "," (List.map (fun c -> string_of_int (int_of_n c)) s)

let str_of_ascii (a : String.t) : str =
  List.init (String.length a) (fun i -> n_of_int (Char.code a.[i]))

let pyval_of_token (t : String.t) : pyval =
  match t.[0] with
  | 'n' -> PyNone
  | 'b' -> PyBool (t.[1] = '1')
  | 'i' -> PyInt (z_of_int (int_of_string (String.sub t 1 (String.length t - 1))))
  | 'f' ->
      let is0 = t.[1] = '1' and is1 = t.[2] = '1' in
      let body = String.sub t 4 (String.length t - 4) in
      PyFloat (str_of_token ("s" ^ body), is0, is1)
  | 's' -> PyStr (str_of_token t)
  | _ -> failwith ("bad pyval token " ^ t)

let exn_name = function
  | ExReError -> "ReError" | ExNoneGroup -> "NoneGroup" | ExPopEmpty -> "PopEmpty"
  | ExIntTooLong -> "IntTooLong" | ExAssert -> "Assert" | ExIndex -> "Index"
  | ExUnsupported -> "Unsupported" | ExFilter -> "Filter"

let ob = function None -> "n" | Some true -> "b1" | Some false -> "b0"
let expand_tok e =
  String.concat "" [ob e.e_macros; ob e.e_container; ob e.e_skip; ob e.e_spans; ob e.e_specials]

let rfilter_name = function RfNone -> "none" | RfAnchor -> "anchor" | RfHtml -> "html" | RfEntity -> "entity"

(* canonical state snapshot *)
let state_tokens (s : session) : String.t list =
  [ "mode"; string_of_int (int_of_z s.s_mode); "repl"; token_of_str s.s_repl;
    "cb"; (if s.s_cb then "1" else "0") ]
  @ [ "quotes"; string_of_int (List.length s.s_quotes) ]
  @ List.concat_map (fun q -> [token_of_str q.q_quote; token_of_str q.q_open; token_of_str q.q_close;
                               (if q.q_spans then "1" else "0")]) s.s_quotes
  @ [ "repls"; string_of_int (List.length s.s_repls) ]
  @ List.concat_map (fun r -> [token_of_str r.r_pat; string_of_int (int_of_n r.r_flags);
                               token_of_str r.r_repl; rfilter_name r.r_filter]) s.s_repls
  @ [ "dblocks"; string_of_int (List.length s.s_dblocks) ]
  @ List.concat_map (fun d -> [token_of_str d.d_name; token_of_str d.d_openTag; token_of_str d.d_closeTag;
                               expand_tok d.d_expand]) s.s_dblocks
  @ [ "macros"; string_of_int (List.length s.s_macros) ]
  @ List.concat_map (fun (k, v) -> [token_of_str k; token_of_str v]) s.s_macros
  @ [ "pending"; token_of_str s.p_classes; token_of_str s.p_id; token_of_str s.p_css;
      token_of_str s.p_attrs; expand_tok s.p_opts ]
  @ [ "ids"; string_of_int (List.length s.s_ids) ] @ List.map token_of_str s.s_ids

let fuel = ref (nat_of_int 4000)
let resources : (str * str) list ref = ref []

let load_resources path =
  let ic = open_in path in
  (try
     while true do
       let line = input_line ic in
       match String.index_opt line '\t' with
       | Some i ->
           let name = String.sub line 0 i and body = String.sub line (i + 1) (String.length line - i - 1) in
           resources := (str_of_ascii name, str_of_token ("s" ^ body)) :: !resources
       | None -> ()
     done
   with End_of_file -> close_in ic)

let find_regex (name : String.t) : cre =
  let key = str_of_ascii name in
  if name = "quotesRe_default" then quotesRe quotes_default
  else if name = "unescapeRe_default" then unescapeRe quotes_default
  else
    match List.find_opt (fun (k, _) -> k = key) regex_table with
    | Some (_, r) -> r
    | None -> failwith ("unknown regex " ^ name)

let mres_tokens (m : mres) : String.t list =
  [ "M"; string_of_int (int_of_n m.m_start); string_of_int (int_of_n m.m_end) ]
  @ List.map (function None -> "-" | Some g -> token_of_str g) m.m_groups

let take_log (before : int) (s : session) : String.t list =
  (* log is newest first; entries added since `before` in chronological order *)
  let l = s.s_log in
  let k = List.length l - before in
  let rec take i l = if i = 0 then [] else match l with [] -> [] | x :: t -> x :: take (i - 1) t in
  List.rev_map (fun (d, t) -> (if d then "d1:" else "d0:") ^ token_of_str t) (take k l)
  |> List.rev |> List.rev

let run_case (line : String.t) : String.t =
  let toks = String.split_on_char ' ' line |> List.filter (fun x -> x <> "") in
  match toks with
  | "R" :: name :: pos :: text :: [] ->
      let r = find_regex name in
      (match re_search_pos r (str_of_token text) (n_of_int (int_of_string pos)) with
       | None -> "N"
       | Some m -> String.concat " " (mres_tokens m))
  | "P" :: pat :: ic :: ml :: text :: [] ->
      (* parse an author pattern and search text with it *)
      (match parse_regex (str_of_token pat) (ic = "1") (ml = "1") with
       | PUnsupported -> "U"
       | PError -> "E"
       | POk r ->
           (match re_search_pos r (str_of_token text) N0 with
            | None -> "G " ^ string_of_int (int_of_nat r.re_groups) ^ " N"
            | Some m -> "G " ^ string_of_int (int_of_nat r.re_groups) ^ " " ^ String.concat " " (mres_tokens m)))
  | "I" :: v :: [] ->
      (match py_int (str_of_token v) with
       | PInt z -> "I " ^ string_of_int (int_of_z z) | PInvalid -> "V" | PTooLong -> "T")
  | "H" :: want_state :: rest ->
      (* history of render calls: src safeMode htmlReplacement reset cb, repeated *)
      let rec calls = function
        | src :: sm :: hr :: rs :: cb :: t ->
            (str_of_token src,
             { o_safeMode = pyval_of_token sm; o_htmlReplacement = pyval_of_token hr;
               o_reset = pyval_of_token rs; o_callback = (cb = "1") }) :: calls t
        | [] -> []
        | _ -> failwith "bad history"
      in
      let buf = Buffer.create 256 in
      let rec go s = function
        | [] -> s
        | (src, o) :: t ->
            let before = List.length s.s_log in
            (match api_render !fuel src o s with
             | Ok (html, s') ->
                 Buffer.add_string buf ("O " ^ token_of_str html);
                 List.iter (fun x -> Buffer.add_string buf (" " ^ x)) (take_log before s');
                 Buffer.add_string buf " ; ";
                 go s' t
             | Raise e -> Buffer.add_string buf ("X " ^ exn_name e ^ " ; "); s
             | Fuel -> Buffer.add_string buf "F ; "; s)
      in
      let s = go s0 (calls rest) in
      if want_state = "1" then Buffer.add_string buf ("S " ^ String.concat " " (state_tokens s));
      Buffer.contents buf
  | "M" :: argc :: rest ->
      (* CLI case: argc, args..., stdin, rimurc (n or string), nfiles, (path content)* *)
      let n = int_of_string argc in
      let rec take k l = if k = 0 then ([], l) else match l with x :: t -> let (a, b) = take (k - 1) t in (x :: a, b) | [] -> failwith "bad M case" in
      let (args, rest) = take n rest in
      (match rest with
       | stdin_t :: rimurc_t :: nfiles :: frest ->
           let rec files k l = if k = 0 then [] else match l with p :: c :: t -> (str_of_token p, str_of_token c) :: files (k - 1) t | _ -> failwith "bad M files" in
           let env = { env_stdin = str_of_token stdin_t;
                       env_files = files (int_of_string nfiles) frest;
                       env_rimurc = (if rimurc_t = "n" then None else Some (str_of_token rimurc_t));
                       env_resources = !resources } in
           (match rimuc_main !fuel (List.map str_of_token args) env with
            | CDone r ->
                String.concat " " (["C"; (if r.r_exit1 then "1" else "0"); token_of_str r.r_stdout;
                                    string_of_int (List.length r.r_stderr)] @ List.map token_of_str r.r_stderr
                                   @ (match r.r_outfile with None -> ["n"] | Some (p, c) -> [token_of_str p; token_of_str c]))
            | CRaise e -> "X " ^ exn_name e
            | CFuel -> "F")
       | _ -> "ERR bad M case")
  | "F" :: fname :: rest ->
      (* library functions of the model, one at a time *)
      let arg k = str_of_token (List.nth rest k) in
      (match fname with
       | "lower" -> token_of_str (lower (arg 0))
       | "strip" -> token_of_str (strip (arg 0))
       | "lstrip" -> token_of_str (lstrip (arg 0))
       | "rstrip" -> token_of_str (rstrip (arg 0))
       | "escape" -> token_of_str (escape (arg 0))
       | "replace" -> token_of_str (replace_all (arg 0) (arg 1) (arg 2))
       | "reader" -> String.concat " " (List.map token_of_str (mk_reader (arg 0)))
       | "slug" ->
           (match List.rev rest with
            | text :: ids -> token_of_str (slugify (List.rev_map str_of_token ids) (str_of_token text))
            | [] -> "ERR bad F slug")
       | "qpara" -> token_of_str (quoteParagraphContentFilter (arg 0))
       | "indent" ->
           (match indentedContentFilter (arg 0) with
            | Ok t -> token_of_str t | Raise e -> "X " ^ exn_name e | Fuel -> "F")
       | "spans" | "macros" ->
           (* inline layer on its own: default definitions, a given safe mode, two macros defined *)
           let mode = int_of_string (List.nth rest 0) in
           let s1 = set_mode (document_init s0) (z_of_int mode) in
           let s1 = set_macros s1 (s1.s_macros @ [ (str_of_token "s109", arg 1); (str_of_token "s110", arg 2) ]) in
           let r = if fname = "spans" then spans_render !fuel (ienv_of s1) (arg 3)
                   else macros_render_top !fuel (ienv_of s1) (arg 3) false in
           (match r with
            | Ok (h, msgs) -> "O " ^ token_of_str h ^ " " ^ string_of_int (List.length msgs)
            | Raise e -> "X " ^ exn_name e
            | Fuel -> "F")
       | _ -> "ERR unknown F function")
  | _ -> "ERR bad case"

let () =
  (match Sys.getenv_opt "RIMU_RESOURCES" with
   | Some p when Sys.file_exists p -> load_resources p
   | _ -> ());
  (match Sys.getenv_opt "RIMU_FUEL" with
   | Some f -> fuel := nat_of_int (int_of_string f)
   | None -> ());
  try
    while true do
      let line = input_line stdin in
      let out = (try run_case line with
                 | Stack_overflow -> "ERR stack_overflow"
                 | Failure m -> "ERR " ^ m
                 | Not_found -> "ERR not_found") in
      print_string out; print_newline ()
    done
  with End_of_file -> ()

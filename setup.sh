#!/bin/sh
# Build the framework from files on disk only (offline): translator, Coq development, extraction, driver.
cd "$(dirname "$0")" || exit 2
export PYTHONDONTWRITEBYTECODE=1 PYTHONHASHSEED=0
exec /venv/bin/python -W ignore - <<'PY'
import sys, os, re
sys.path.insert(0, 'harness')
import common
targets = ['Extract.vo'] + sorted('Props/' + f[:-2] + '.vo' for f in os.listdir('coq/Props') if f.endswith('.v'))
try:
    info = common.build(targets=targets)
    print('setup ok:', {k: v for k, v in info.items() if k != 'coq_log'})
except common.BuildError as e:
    print('setup: build problem (checks will report it):', e)
    try:
        common.build(targets=['Extract.vo'])
    except common.BuildError as e2:
        print('setup: model build failed:', e2)
        sys.exit(1)
PY

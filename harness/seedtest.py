#!/venv/bin/python
"""Confirm a seeded change and run checks against it.
usage: seedtest.py <seed_dir> [check ids...]
 1. in a scratch worktree of /repo HEAD: patch applies, suite passes with it, demo FAILs with it and PASSes without;
 2. applies the patch to /repo, runs the named checks (quick), reverts /repo (always)."""
import json, os, subprocess, sys, tempfile, shutil
sd = os.path.abspath(sys.argv[1]); checks = sys.argv[2:]
patch = os.path.join(sd, 'patch.diff'); demo = os.path.join(sd, 'demo.py')
def run(cmd, **kw):
    p = subprocess.run(cmd, stdout=subprocess.PIPE, stderr=subprocess.STDOUT, text=True, **kw)
    return p.returncode, p.stdout
res = {'seed': os.path.basename(sd)}
wt = tempfile.mkdtemp(prefix='wt_confirm_', dir='/tmp'); os.rmdir(wt)
try:
    rc, out = run(['git', '-C', '/repo', 'worktree', 'add', '-q', '--detach', wt, 'HEAD'])
    assert rc == 0, out
    env = dict(os.environ, PYTHONPATH=wt + '/src', PYTHONDONTWRITEBYTECODE='1')
    rc, out = run(['/venv/bin/python', demo, wt], env=env, timeout=600)
    res['demo_without'] = 'PASS' if rc == 0 else 'FAIL(rc=%d)' % rc
    rc, out = run(['git', '-C', wt, 'apply', patch])
    res['applies'] = rc == 0
    if rc != 0: res['apply_err'] = out[-300:]
    else:
        rc, out = run(['/venv/bin/python', '-m', 'pytest', '-q', '-p', 'no:cacheprovider', '-x'], cwd=wt, env=env, timeout=900)
        res['suite_with'] = out.strip().splitlines()[-1] if out.strip() else ''
        rc, out = run(['/venv/bin/python', demo, wt], env=env, timeout=600)
        res['demo_with'] = 'PASS' if rc == 0 else 'FAIL(rc=%d)' % rc
finally:
    run(['git', '-C', '/repo', 'worktree', 'remove', '--force', wt]); shutil.rmtree(wt, ignore_errors=True)
REPO = os.environ.get('SEED_REPO', '/repo'); VERIF = os.environ.get('SEED_VERIF', '/verif')
if checks and res.get('applies'):
    rc, out = run(['git', '-C', REPO, 'status', '--porcelain']); assert out.strip() == '', 'repo dirty: ' + out
    try:
        rc, out = run(['git', '-C', REPO, 'apply', patch]); assert rc == 0, out
        res['checks'] = {}
        for c in checks:
            rc, out = run([VERIF + '/check', c, '--tier', 'quick'], cwd=VERIF, timeout=3600, env=dict(os.environ, RIMU_REPO=REPO))
            viol = [l for l in out.splitlines() if l.startswith('VIOLATION')]
            res['checks'][c] = {'exit': rc, 'violations': viol[:3], 'tail': out.strip().splitlines()[-1][:300] if out.strip() else ''}
    finally:
        run(['git', '-C', REPO, 'checkout', '--', '.'])
print(json.dumps(res, indent=1))

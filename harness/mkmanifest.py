#!/venv/bin/python
"""Writes /verif/MANIFEST.json from the property registry (keeps it valid at all times)."""
import json, os, sys
sys.path.insert(0, os.path.dirname(os.path.abspath(__file__)))
import props
ALL = ['C%02d' % i for i in range(1, 21)]
LEVEL = getattr(props, 'LEVEL_TEXT', {})
checks = []
for pid in ALL:
    if pid not in props.PROPS:
        continue
    spec = props.PROPS[pid]
    checks.append({
        'property_id': pid,
        'quick_cmd': './check %s --tier quick' % pid,
        'thorough_cmd': './check %s --tier thorough' % pid,
        'evidence_file': '/verif/evidence/%s.json' % pid,
        'replay_cmd_template': './check %s --replay {path}' % pid,
        'engine': 'coq-model',
        'level_claimed': {'category': 'proof', 'text': getattr(spec, 'level_text', ''), 'design_ref': 'DESIGN.md section 8, ' + pid},
        'level_note': getattr(spec, 'level_note', 'theorems about the Gallina model; model tied to /repo by the regenerated tables/guards and by the correspondence streams; see DESIGN.md section 10 for the trusted base'),
        'technique': getattr(spec, 'technique', 'machine-checked proof in Coq over an executable model + differential correspondence'),
    })
na = [{'property_id': pid, 'reason': getattr(props, 'NOT_CLAIMED', {}).get(pid, 'check not built yet in this round; see DESIGN.md')} for pid in ALL if pid not in props.PROPS]
m = {
    'version': 1,
    'setup_cmd': './setup.sh',
    'hooks': {'guard': 'RIMU_PY_VERIF', 'enable': 'no hooks: nothing in /repo is instrumented; checks import /repo/src directly',
              'baseline_off_cmd': 'cd /repo && /venv/bin/python -m pytest -ra -q -p no:cacheprovider --timeout=900 --continue-on-collection-errors',
              'source_commits': [], 'add_only': True},
    'engines': [{'name': 'coq-model', 'path': '/verif/coq', 'serves_properties': [c['property_id'] for c in checks],
                 'kind_free_text': 'Coq 8.16.1 development: executable Gallina model of rimu.render (regex engine, parser, inline and block layers), frame theorem, property theorems; translator harness/regen.py; OCaml-extracted correspondence driver'}],
    'checks': checks,
    'not_applicable': na,
    'notes': 'Every check: regenerate tables/guards from /repo, build Props/<id>.vo (full .vo), Print Assumptions, correspondence streams, known findings, oracle search. fix: commits in /repo are listed in known_findings.json.',
}
with open(os.path.join(os.path.dirname(os.path.dirname(os.path.abspath(__file__))), 'MANIFEST.json'), 'w') as f:
    json.dump(m, f, indent=1)
print('MANIFEST: %d checks, %d not claimed' % (len(checks), len(na)))

import json, sys, os, random, collections
sys.path.insert(0, os.path.dirname(__file__))
from common import *
import gen
N = int(sys.argv[1]) if len(sys.argv) > 1 else 500
seed = int(sys.argv[2]) if len(sys.argv) > 2 else 1
rng = random.Random(seed)
cases = [gen.history(rng, 3) for _ in range(N)]
info = build()
t0 = time.time(); mo = model_run([history_line(c) for c in cases]); tm = time.time() - t0
t0 = time.time(); io_ = impl_run(cases); ti = time.time() - t0
bad = collections.Counter(); shown = 0
for c, m, i in zip(cases, mo, io_):
    pm = parse_history_output(m)
    r = compare_history(pm, i)
    if r:
        key = r[:40] if r != 'SKIP' else 'SKIP'
        bad[key] += 1
        if r != 'SKIP' and shown < int(os.environ.get('SHOW', '8')):
            shown += 1
            print('---', json.dumps(c['calls'])[:1500]); print('   ', r[:600])
print('model %.1fs impl %.1fs' % (tm, ti)); print(bad.most_common(20))

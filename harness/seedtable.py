#!/venv/bin/python
"""Regenerate the table of section 0.7 of DESIGN.md from seeded/*/meta.json."""
import json, os, re
V = '/verif'
rows = []
for s in sorted(os.listdir(os.path.join(V, 'seeded'))):
    m = json.load(open(os.path.join(V, 'seeded', s, 'meta.json')))
    summ = (m.get('summary') or '').replace('|', '/').replace('\n', ' ')[:150]
    det = ', '.join('%s:%s' % (c, 'caught' if v.get('exit') == 1 and v.get('violations') else 'MISSED') for c, v in (m.get('detected_by') or {}).items())
    ok = (m.get('confirmed') or {})
    conf = 'yes' if ok.get('demo_with_change', '').startswith('FAIL') and ok.get('demo_without_change') == 'PASS' and '34 passed' in (ok.get('suite_with_change') or '') else 'NO'
    rows.append('| %s | %s | %s | %s |' % (s, summ, conf, det))
p = os.path.join(V, 'DESIGN.md')
t = open(p).read()
a = t.index('| seed | change |')
b = t.index('\n\n', a)
t = t[:a] + '| seed | change | confirmed | result |\n|---|---|---|---|\n' + '\n'.join(rows) + t[b:]
open(p, 'w').write(t)
print(len(rows), 'rows')

"""Grammar-directed generators: documents built from an AST so that the intended structure
(and hence the expected HTML) is known.  Used by the oracles of C07-C12, C17, C19."""
import re
from oracles import escape

WORDS = ['alpha', 'beta', 'gamma', 'delta', 'x', 'y1', 'Zed', 'foo', 'bar', 'qux', 'lorem', 'ipsum', 'w9', 'été', '日本']
URLWORDS = ['http://a.b/c', 'https://x.y/z#q', 'http://foo.com/bar?a=1', 'u.html', 'img.png', 'http://e.f/g_h']
SPECIALS = ['<', '>', '&']

# quote kinds: (delimiter, open tag, close tag, spans)
QUOTES = [('*', '<em>', '</em>', True), ('**', '<strong>', '</strong>', True), ('_', '<em>', '</em>', True),
          ('__', '<strong>', '</strong>', True), ('`', '<code>', '</code>', False), ('``', '<code>', '</code>', False),
          ('~~', '<del>', '</del>', True)]
EXTRA_QUOTE_DEFS = [("= = '<u>|</u>'", ('=', '<u>', '</u>', True)), ("## = '<ins>|</ins>'", ('##', '<ins>', '</ins>', True))]


def words(rng, lo=1, hi=3):
    return ' '.join(rng.choice(WORDS) for _ in range(rng.randint(lo, hi)))


# ---------------------------------------------------------------------------
# inline grammar (C07): returns (source, html)

def inline_elem(rng, depth, used, quotes):
    r = rng.random()
    if r < 0.30 or depth >= 3:
        w = words(rng)
        return w, escape(w)
    if r < 0.36:
        c = rng.choice(SPECIALS)
        return c, escape(c)
    if r < 0.62:
        # a quote whose delimiter character differs from every enclosing one
        avail = [q for q in quotes if q[0][0] not in used]
        if not avail:
            w = words(rng)
            return w, escape(w)
        q = rng.choice(avail)
        if not q[3]:
            inner = words(rng, 1, 2)
            if rng.random() < 0.4:
                # verbatim content with markup in it, avoiding the delimiter characters of the enclosing quotes
                ext = [e for e in ['*a*', '<b>', '[l](u)', '&amp;', 'http://a.b', '_z_', '~~d~~'] if not (set(e) & (used | {q[0][0]}))]
                if ext:
                    inner += ' ' + rng.choice(ext) + ' w'
            return q[0] + inner + q[0], q[1] + escape(inner) + q[2]
        src, html = inline_seq(rng, depth + 1, used | {q[0][0]}, quotes, rng.randint(1, 3))
        return q[0] + src + q[0], q[1] + html + q[2]
    if r < 0.70:
        u = rng.choice(URLWORDS)
        cs, ch = inline_seq(rng, depth + 1, used | {'['}, quotes, rng.randint(1, 2), no_links=True)
        if rng.random() < 0.3:
            # an inline tag, comment or entity inside the caption (raw at mode 0 only: see callers' modes)
            t = rng.choice(['<sub>2</sub>', '<!-- c -->', '<br>', '&amp;', '&#160;'])
            cs, ch = cs + t + 'O', ch + t + 'O'
        if rng.random() < 0.25:
            return '^[' + cs + '](' + u + ')', '<a href="' + escape(u) + '" target="_blank">' + ch + '</a>'
        return '[' + cs + '](' + u + ')', '<a href="' + escape(u) + '">' + ch + '</a>'
    if r < 0.75:
        u = rng.choice(URLWORDS)
        cs, ch = inline_seq(rng, depth + 1, used | {'<'}, quotes, rng.randint(1, 2), no_links=True)
        return '<' + u + '|' + cs + '>', '<a href="' + escape(u) + '">' + ch + '</a>'
    if r < 0.79:
        u = rng.choice([x for x in URLWORDS if x.startswith('http')])
        return '<' + u + '>', '<a href="' + escape(u) + '">' + escape(u) + '</a>'
    if r < 0.83 and depth == 0:
        u = rng.choice([x for x in URLWORDS if x.startswith('http') and not x.endswith('=1')])
        return u, '<a href="' + escape(u) + '">' + escape(u) + '</a>'
    if r < 0.87:
        a = words(rng, 1, 2)
        u = rng.choice(URLWORDS)
        if rng.random() < 0.5:
            return '![' + a + '](' + u + ')', '<img src="' + escape(u) + '" alt="' + escape(a) + '">'
        return '<image:' + u + '|' + a + '>', '<img src="' + escape(u) + '" alt="' + escape(a) + '">'
    if r < 0.90:
        u = rng.choice(URLWORDS)
        return '<image:' + u + '>', '<img src="' + escape(u) + '" alt="' + escape(u) + '">'
    if r < 0.94:
        e = rng.choice(['joe@foo.com', 'a.b@c-d.org'])
        if rng.random() < 0.5:
            return '<' + e + '>', '<a href="mailto:' + e + '">' + e + '</a>'
        cs, ch = inline_seq(rng, depth + 1, used | {'<'}, quotes, 1, no_links=True)
        return '<' + e + '|' + cs + '>', '<a href="mailto:' + e + '">' + ch + '</a>'
    e = rng.choice(['&amp;', '&nbsp;', '&#160;', '&copy;'])
    return e, e


def caption_elem(rng, used, quotes):
    """captions are words, possibly inside a span quote (no replacement form, no special character)"""
    avail = [q for q in quotes if q[3] and q[0][0] not in used]
    if avail and rng.random() < 0.4:
        q = rng.choice(avail)
        w = words(rng, 1, 2)
        return q[0] + w + q[0], q[1] + w + q[2]
    w = words(rng, 1, 2)
    return w, w


def inline_seq(rng, depth, used, quotes, n, no_links=False):
    srcs, htmls = [], []
    for _ in range(n):
        if no_links:
            s, h = caption_elem(rng, used, quotes)
        else:
            s, h = inline_elem(rng, depth, used, quotes)
        srcs.append(s)
        htmls.append(h)
    # separate elements by single blanks; quoted text cannot begin or end with white space
    return ' '.join(srcs), ' '.join(htmls)


def inline_paragraph(rng, extra_quotes=False):
    quotes = list(QUOTES)
    pre = ''
    if extra_quotes:
        for d, q in EXTRA_QUOTE_DEFS:
            if rng.random() < 0.5:
                pre += d + '\n'
                quotes.append(q)
    src, html = inline_seq(rng, 0, set(), quotes, rng.randint(1, 6))
    # a leading word keeps the line from being taken for a block-level element
    return (pre + '\n' if pre else '') + 'Lead ' + src, '<p>Lead ' + html + '</p>', bool(pre)


# ---------------------------------------------------------------------------
# block grammar (C08): returns (source, html)

def para(rng):
    n = rng.randint(1, 3)
    lines = [words(rng, 1, 4) for _ in range(n)]
    if rng.random() < 0.3:
        lines[0] = '*' + lines[0] + '*'
        return '\n'.join(lines), '<p><em>' + lines[0][1:-1] + '</em>' + ''.join('\n' + l for l in lines[1:]) + '</p>'
    return '\n'.join(lines), '<p>' + '\n'.join(lines) + '</p>'


CODE_CONTENT = ['std::cout << x;', 'Foo::Bar.new', 'a::b c:::d', '*not em*', '<b>raw</b> & co', '[l](u) http://a.b', '{m} {undefined|x}', '. x', '# no header', '- no list', '', '  indented',
                '> q', '.cls #id', "{m}='v'", '// c', '&amp; &#160;', '\\*esc*', 'plain code', 'a::b', '"q"', '/* c */', '<div>']


def block(rng, depth, used_delims, mode, kinds=None):
    """one complete block -> (source, html or '' when it renders to nothing)"""
    kinds = kinds or ['para', 'header', 'code', 'indented', 'quote', 'division', 'html', 'comment', 'def', 'qpara']
    k = rng.choice(kinds)
    policy = mode & 3
    if k == 'para':
        return para(rng)
    if k == 'header':
        n = rng.randint(1, 6)
        t = words(rng, 1, 3)
        ch = rng.choice('#=')
        src = ch * n + ' ' + t + (' ' + ch * n if rng.random() < 0.3 else '')
        return src, '<h%d>%s</h%d>' % (n, t, n)
    if k == 'code':
        fence = rng.choice(['``', '```', '--', '````'])
        content = [rng.choice(CODE_CONTENT) for _ in range(rng.randint(1, 4))]
        content = [c for c in content if c != fence] or ['x']
        cls = ''
        if fence[0] == '`' and rng.random() < 0.3:
            cls = rng.choice(['js', 'py hl'])
        src = fence + (' ' + cls if cls else '') + '\n' + '\n'.join(content) + '\n' + fence
        return src, '<pre%s><code>%s</code></pre>' % (' class="%s"' % cls if cls else '', escape('\n'.join(content)))
    if k == 'indented':
        content = [words(rng, 1, 3) + rng.choice(['', ' <b>', ' *x*', ' {m}']) for _ in range(rng.randint(1, 3))]
        return '\n'.join('  ' + c for c in content), '<pre><code>%s</code></pre>' % escape('\n'.join(content))
    if k == 'qpara':
        t = words(rng, 1, 4)
        return '> ' + t, '<blockquote><p> ' + t + '</p></blockquote>'
    if k in ('quote', 'division') and depth < 3:
        if k == 'quote':
            cands = [d for d in ['""', '"""', '""""', '>>', '>>>'] if d not in used_delims]
        else:
            cands = [d for d in ['..', '...', '....', '.....'] if d not in used_delims]
        if not cands:
            return para(rng)
        d = rng.choice(cands)
        cls = rng.choice(['', '', 'box', 'c1 c2'] if k == 'quote' else ['', '', 'box', 'c1'])
        inner = [block(rng, depth + 1, used_delims | {d}, mode, kinds=[x for x in kinds if x not in ('def',)])
                 for _ in range(rng.randint(1, 3))]
        isrc = '\n\n'.join(s for s, _ in inner)
        ihtml = '\n'.join(h for _, h in inner if h)
        # a division's class names follow the dots directly ('.. cls' would be a numbered list item)
        src = d + ((' ' if k == 'quote' else '') + cls if cls else '') + '\n' + isrc + '\n' + d
        if k == 'quote':
            return src, '<blockquote%s>%s</blockquote>' % (' class="%s"' % cls if cls else '', ihtml)
        if cls:
            return src, '<div class="%s">%s</div>' % (cls, ihtml)
        return src, ihtml
    if k == 'html':
        h = rng.choice(['<hr>', '<div class="h">x</div>', '<table>\n<tr><td>a</td></tr>\n</table>', '<!-- a comment -->',
                        '<section>\ntext\n</section>'])
        if policy == 0:
            return h, h
        if policy == 1:
            return h, ''
        if policy == 2:
            return h, '@@R@@'
        return h, escape(h)
    if k == 'comment':
        if rng.random() < 0.5:
            return '// ' + words(rng), ''
        return '/*\n' + words(rng) + '\n*/', ''
    if k == 'def':
        return rng.choice(["{mm}='v'", "{kk} = 'multi\nline'"]), ''
    return para(rng)


def block_document(rng, mode):
    n = rng.randint(1, 6)
    blocks = [block(rng, 0, set(), mode) for _ in range(n)]
    seps = [rng.choice(['\n\n', '\n\n\n']) for _ in range(n - 1)]
    src = blocks[0][0]
    for s, b in zip(seps, blocks[1:]):
        # a block that ends a paragraph-like block needs a blank line; delimited blocks are closed anyway
        src += s + b[0]
    html = '\n'.join(h for _, h in blocks if h)
    return src, html


# ---------------------------------------------------------------------------
# list trees (C10)

BULLETS = ['-', '+', '*', '**', '***', '****']
NUMS = ['.', '..', '...', '....']
DEFS = ['::', ':::', '::::']
TAGS = {}
for m in BULLETS:
    TAGS[m] = ('ul', 'li')
for m in NUMS:
    TAGS[m] = ('ol', 'li')
for m in DEFS:
    TAGS[m] = ('dl', 'dd')


def list_tree(rng, depth, open_markers):
    """a list: marker not already open; items with text, optional attached block, optional child list"""
    avail = [m for m in BULLETS + NUMS + DEFS if m not in open_markers]
    m = rng.choice(avail)
    items = []
    for _ in range(rng.randint(1, 3)):
        it = {'text': [words(rng, 1, 3) for _ in range(rng.randint(1, 3))], 'term': words(rng, 1, 2), 'attached': None,
              'child': None, 'blank_before': rng.random() < 0.25}
        r = rng.random()
        if r < 0.25:
            kind = rng.choice(['code', 'quote', 'division', 'indented'])
            it['attached'] = kind
        if depth < 3 and rng.random() < 0.35:
            it['child'] = list_tree(rng, depth + 1, open_markers | {m})
        items.append(it)
    return {'marker': m, 'items': items}


def render_list(tree, lines, first=True):
    """appends source lines; returns expected html"""
    m = tree['marker']
    lt, it_tag = TAGS[m]
    html = '<%s>' % lt
    for idx, it in enumerate(tree['items']):
        if it['blank_before'] and not (first and idx == 0):
            lines.append('')
        if lt == 'dl':
            lines.append(it['term'] + m + ' ' + it['text'][0])
            html += '<dt>' + it['term'] + '</dt><dd>'
        else:
            lines.append(m + ' ' + it['text'][0])
            html += '<li>'
        for t in it['text'][1:]:
            lines.append(t)
        html += '\n'.join(it['text'])
        if it['attached'] == 'code':
            lines += ['``', 'c <b>', '``']
            html += '<pre><code>c &lt;b&gt;</code></pre>'
        elif it['attached'] == 'quote':
            lines += ['""', 'qq', '""']
            html += '<blockquote><p>qq</p></blockquote>'
        elif it['attached'] == 'division':
            lines += ['..dv', 'dd', '..']
            html += '<div class="dv"><p>dd</p></div>'
        elif it['attached'] == 'indented':
            lines += ['', '  ind', '']
            html += '<pre><code>ind</code></pre>'
        if it['child']:
            html += render_list(it['child'], lines, first=False)
        html += '</dd>' if lt == 'dl' else '</li>'
    html += '</%s>' % lt
    return html


def list_document(rng):
    tree = list_tree(rng, 0, set())
    lines = []
    html = render_list(tree, lines)
    nxt = rng.choice(['para', 'header', 'none'])
    src = '\n'.join(lines)
    if nxt == 'para':
        src += '\n\n\nnext para'
        html += '\n<p>next para</p>'
    elif nxt == 'header':
        src += '\n\n\n# Next'
        html += '\n<h1>Next</h1>'
    return src, html


# ---------------------------------------------------------------------------
# macros (C11): (macro document, hand-substituted document)

def macro_document(rng):
    names = ['m1', 'm2', 'k-3', 'nn']
    defs = {}
    lines, sub = [], []

    def expand_text(t):
        # expand invocations of already-defined macros, by the statement's rules
        def rep(m):
            if m.group(0).startswith('\\'):
                return m.group(0)[1:]
            name, params = m.group(1), m.group(2)
            if name not in defs:
                return m.group(0)
            v = defs[name]
            if params is None:
                return v
            ps = params[1:].split('|')

            def prep(pm):
                n = int(pm.group(2))
                arg = ps[n - 1] if n <= len(ps) else ''
                if pm.group(3) is not None and arg == '':
                    arg = pm.group(4)
                return arg
            return re.sub(r'(\$\$?)(\d)(:([^$]*)\$)?', prep, v)
        return re.sub(r'\\?\{([\w-]+)(\|[^}]*)?\}', rep, t)

    for _ in range(rng.randint(1, 4)):
        n = rng.choice(names)
        vals = [words(rng, 1, 3), '*' + words(rng, 1, 1) + '*', '$1 and $2', '$1:dflt$ x', 'pre $$1 post',
                '[$1](http://a.b)', 'two\nlines', '']
        if defs.get('m1') and '\n' not in defs['m1'] and '$' not in defs['m1']:
            vals.append('{m1} again')     # a value referring to an earlier macro
        v = rng.choice(vals)
        existential = rng.random() < 0.2
        if '\n' in v:
            lines.append("{%s%s}='%s'" % (n, '?' if existential else '', v))
        else:
            lines.append("{%s%s} = '%s'" % (n, '?' if existential else '', v))
        ev = expand_text(v)
        if not (existential and n in defs):
            defs[n] = ev
    lines.append('')
    sub.append('')
    for _ in range(rng.randint(1, 5)):
        kind = rng.choice(['para', 'para', 'header', 'item', 'linestart'])
        n = rng.choice(names + ['undef'])
        if kind in ('header', 'item') and '\n' in defs.get(n, ''):
            kind = 'para'     # a multi-line value is only "written in its place" where several lines can stand
        args = [words(rng, 1, 1) for _ in range(rng.randint(0, 3))]
        if rng.random() < 0.2 and args:
            args[0] = ''
        inv = '{' + n + ('|' + '|'.join(args) if args else '') + '}'
        if rng.random() < 0.12:
            inv = '\\' + inv
        if rng.random() < 0.12 and n in defs and '\n' not in defs[n] and kind in ('para', 'linestart'):
            pat = rng.choice([re.escape(defs[n]) if defs[n] and len(defs[n]) < 12 and re.fullmatch(r'[\w ]*', defs[n]) else 'zzz', '', 'zzz', '.*'])
            inv = '{' + n + rng.choice('=!') + pat + '}'
        if kind == 'para':
            l = words(rng, 1, 2) + ' ' + inv + ' ' + words(rng, 1, 2)
        elif kind == 'header':
            l = '## ' + words(rng, 1, 1) + ' ' + inv
        elif kind == 'item':
            l = '- ' + inv + ' ' + words(rng, 1, 1)
        else:
            l = inv + (' ' if re.match(r'^\\?\{[\w-]+(\||\})', inv) else '') + words(rng, 1, 2)
        lines += [l, '']
        # hand substitution
        m = re.match(r'^(.*?)\{([\w-]+)([=!])([^}]*)\}(.*)$', l)
        if m and not m.group(1).endswith('\\') and m.group(2) in defs:
            ok = re.fullmatch(m.group(4), defs[m.group(2)]) is not None
            keep = ok if m.group(3) == '=' else not ok
            if keep:
                sub += [m.group(1) + m.group(5), '']
            else:
                sub += ['']
        else:
            sub += [expand_text(l), '']
    return '\n'.join(lines), '\n'.join(sub), defs

#!/venv/bin/python
"""Implementation side of the correspondence check: a long-lived worker that reads one
JSON case per line on stdin, runs it against /repo/src in a fresh module state, and
writes one JSON result per line.  The parent enforces the watchdog (kills and restarts)."""
import json
import os
import sys
import re
import io
import warnings

REPO = os.environ.get('RIMU_REPO', '/repo')
sys.path.insert(0, os.path.join(REPO, 'src'))
sys.dont_write_bytecode = True
warnings.simplefilter('ignore')


def purge():
    for k in list(sys.modules):
        if k == 'rimu' or k.startswith('rimu.') or k == 'rimuc' or k.startswith('rimuc.'):
            del sys.modules[k]


def pyval(v):
    if isinstance(v, dict) and 'f' in v:
        return float(v['f'])
    return v


def exn_kind(e):
    if isinstance(e, re.error) or (isinstance(e, OverflowError) and 'repetition' in str(e)):
        return 'ReError'
    if isinstance(e, RecursionError):
        return 'Recursion'
    if isinstance(e, (AttributeError, TypeError)):
        return 'NoneGroup'
    if isinstance(e, IndexError):
        return 'PopEmpty' if 'pop' in str(e) else 'Index'
    if isinstance(e, ValueError):
        return 'IntTooLong' if 'limit' in str(e) else 'ValueError'
    if isinstance(e, AssertionError):
        return 'Assert'
    if isinstance(e, MemoryError):
        return 'Memory'
    return type(e).__name__


def ob(x):
    return 'n' if x is None else ('b1' if x else 'b0')


def expand_tok(e):
    return ''.join(ob(x) for x in (e.macros, e.container, e.skip, e.spans, e.specials))


def snapshot():
    from rimu import options, quotes, replacements, delimitedblocks, macros, blockattributes
    st = {}
    st['mode'] = options.safeMode
    st['repl'] = getattr(options, 'htmlReplacement', '')
    st['cb'] = options.callback is not None
    st['quotes'] = [[d.quote, d.openTag, d.closeTag, bool(d.spans)] for d in quotes.defs]
    kinds = {}
    names = ['anchor', None, None, None, None, None, None, None, None, 'html', None, None, 'entity']
    for i, d in enumerate(replacements.DEFAULT_DEFS):
        if d.filter is not None:
            kinds[id(d.filter)] = names[i] if i < len(names) and names[i] else 'filter%d' % i
    st['repls'] = [[d.match.pattern, d.match.flags & ~re.UNICODE, d.replacement,
                    'none' if d.filter is None else kinds.get(id(d.filter), 'unknown')]
                   for d in replacements.defs]
    st['dblocks'] = [[d.name, d.openTag, d.closeTag, expand_tok(d.expand)] for d in delimitedblocks.defs]
    st['macros'] = [[m.name, m.value] for m in macros.defs]
    st['pending'] = [getattr(blockattributes, 'classes', ''), getattr(blockattributes, 'id', ''),
                     getattr(blockattributes, 'css', ''), getattr(blockattributes, 'attributes', ''),
                     expand_tok(blockattributes.opts) if hasattr(blockattributes, 'opts') else 'nnnnn']
    st['ids'] = list(blockattributes.ids)
    return st


def run_history(case):
    purge()
    import rimu
    out = {'calls': []}
    for c in case['calls']:
        log = []
        cb = (lambda m, log=log: log.append([m.type, m.text])) if c.get('cb') else None
        if c.get('cb') == 'raise':
            def cb(m, log=log):   # an application callback that throws (as the repository's own test callback does)
                log.append([m.type, m.text])
                raise RuntimeError('callback abort')
        o = rimu.RenderOptions(safeMode=pyval(c.get('safeMode')),
                               htmlReplacement=pyval(c.get('htmlReplacement')),
                               reset=pyval(c.get('reset')), callback=cb)
        try:
            saved = sys.stdout
            sys.stdout = io.StringIO()
            try:
                html = rimu.render(c['src']) if c.get('noopts') else rimu.render(c['src'], o)
            finally:
                sys.stdout = saved
            if not isinstance(html, str):
                out['calls'].append({'status': 'raise', 'exn': 'NotStr'})
                break
            out['calls'].append({'status': 'ok', 'html': html, 'log': log})
        except BaseException as e:  # noqa
            if isinstance(e, (KeyboardInterrupt, SystemExit)):
                raise
            out['calls'].append({'status': 'raise', 'exn': exn_kind(e), 'msg': str(e)[:200]})
            if not case.get('continue_after_raise'):
                break
    if case.get('state'):
        try:
            out['state'] = snapshot()
        except Exception as e:  # internal names not importable: downgrade
            out['state_error'] = repr(e)
    return out


def run_cli(case):
    import tempfile, shutil
    purge()
    tmp = tempfile.mkdtemp(prefix='rimuc_case_', dir='/tmp')
    saved = (os.getcwd(), os.environ.get('HOME'), sys.argv, sys.stdin, sys.stdout, sys.stderr)
    res = {}
    try:
        home = os.path.join(tmp, 'home')
        work = os.path.join(tmp, 'work')
        os.makedirs(home)
        os.makedirs(work)
        if case.get('rimurc') is not None:
            with open(os.path.join(home, '.rimurc'), 'w', newline='') as f:
                f.write(case['rimurc'])
        inputs = {}
        for path, content in case.get('files', []):
            full = os.path.join(work, path)
            os.makedirs(os.path.dirname(full), exist_ok=True)
            with open(full, 'w', newline='') as f:
                f.write(content)
            inputs[os.path.normpath(path)] = content
        os.environ['HOME'] = home
        os.chdir(work)
        sys.argv = ['rimupy'] + list(case['argv'])
        sys.stdin = io.StringIO(case.get('stdin', ''))
        out, err = io.StringIO(), io.StringIO()
        sys.stdout, sys.stderr = out, err
        try:
            import rimuc
            try:
                rimuc.main()
                code = 0
            except SystemExit as e:
                code = e.code if isinstance(e.code, int) else (0 if e.code is None else 1)
            res = {'status': 'done', 'exit': code}
        except BaseException as e:  # noqa
            if isinstance(e, KeyboardInterrupt):
                raise
            res = {'status': 'raise', 'exn': exn_kind(e), 'msg': str(e)[:200]}
        finally:
            sys.stdout, sys.stderr = saved[4], saved[5]
        res['stdout'] = out.getvalue()
        res['stderr'] = [l.replace(home, '~') for l in err.getvalue().split('\n') if l != '']
        new = []
        for root, _, fs in os.walk(work):
            for fn in fs:
                rel = os.path.normpath(os.path.relpath(os.path.join(root, fn), work))
                with open(os.path.join(root, fn), newline='') as f:
                    data = f.read()
                if rel not in inputs or inputs[rel] != data:
                    new.append([rel, data])
        res['outfile'] = new[0] if len(new) == 1 else (None if not new else ['<several>', str(sorted(n[0] for n in new))])
    finally:
        os.chdir(saved[0])
        if saved[1] is None:
            os.environ.pop('HOME', None)
        else:
            os.environ['HOME'] = saved[1]
        sys.argv, sys.stdin = saved[2], saved[3]
        shutil.rmtree(tmp, ignore_errors=True)
    return res


def run_regex(case):
    rx = re.compile(case['pat'], case.get('flags', 0))
    m = rx.search(case['text'], case.get('pos', 0))
    if m is None:
        return {'m': None}
    return {'m': [m.start(), m.end()] + [m.group(i) for i in range(rx.groups + 1)]}


def run_parse(case):
    fl = (re.I if case.get('ic') else 0) | (re.M if case.get('ml') else 0)
    try:
        rx = re.compile(case['pat'], fl)
    except (re.error, OverflowError):
        return {'err': True}
    except RecursionError:
        return {'err': 'recursion'}
    m = rx.search(case['text'])
    return {'groups': rx.groups,
            'm': None if m is None else [m.start(), m.end()] + [m.group(i) for i in range(rx.groups + 1)]}


def run_fn(case):
    """library functions, one at a time (stream F)"""
    f, a = case['fn'], case['args']
    if f == 'lower':
        return {'v': a[0].lower()}
    if f == 'strip':
        return {'v': a[0].strip()}
    if f == 'lstrip':
        return {'v': a[0].lstrip()}
    if f == 'rstrip':
        return {'v': a[0].rstrip()}
    if f == 'replace':
        return {'v': a[2].replace(a[0], a[1])}
    import importlib
    if f == 'escape':
        return {'v': importlib.import_module('rimu.utils').replaceSpecialChars(a[0])}
    if f == 'reader':
        return {'v': importlib.import_module('rimu.io').Reader(a[0]).lines}
    if f == 'slug':
        ba = importlib.import_module('rimu.blockattributes')
        ba.ids = list(a[:-1])
        return {'v': ba.slugify(a[-1])}
    if f in ('spans', 'macros'):
        purge()
        doc = importlib.import_module('rimu.document')
        opt = importlib.import_module('rimu.options')
        mac = importlib.import_module('rimu.macros')
        doc.init()
        opt.safeMode = int(a[0])
        log = []
        opt.callback = lambda m: log.append(m.text)
        mac.defs.append(mac.Macro('m', a[1]))
        mac.defs.append(mac.Macro('n', a[2]))
        try:
            if f == 'spans':
                h = importlib.import_module('rimu.spans').render(a[3])
            else:
                h = mac.render(a[3])
            return {'o': h, 'n': len(log)}
        except BaseException as e:  # noqa
            if isinstance(e, (KeyboardInterrupt, SystemExit)):
                raise
            return {'x': exn_kind(e)}
    db = importlib.import_module('rimu.delimitedblocks')
    if f == 'qpara':
        return {'v': db.quoteParagraphContentFilter(a[0])}
    if f == 'indent':
        try:
            return {'v': db.indentedContentFilter(a[0])}
        except AssertionError:
            return {'x': 'ExAssert'}
    return {'error': 'unknown function'}


def run_int(case):
    try:
        return {'v': int(case['text'])}
    except ValueError as e:
        return {'v': 'T' if 'limit' in str(e) else 'V'}


def main():
    for line in sys.stdin:
        line = line.strip()
        if not line:
            continue
        case = json.loads(line)
        k = case.get('kind', 'H')
        try:
            if k == 'H':
                res = run_history(case)
            elif k == 'R':
                res = run_regex(case)
            elif k == 'P':
                res = run_parse(case)
            elif k == 'I':
                res = run_int(case)
            elif k == 'F':
                res = run_fn(case)
            elif k == 'M':
                res = run_cli(case)
            else:
                res = {'error': 'unknown kind'}
        except BaseException as e:  # noqa
            if isinstance(e, (KeyboardInterrupt, SystemExit)):
                raise
            res = {'error': repr(e)[:300]}
        sys.stdout.write(json.dumps(res) + '\n')
        sys.stdout.flush()


if __name__ == '__main__':
    main()

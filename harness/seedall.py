#!/venv/bin/python
"""Confirm every seeded change under /verif/seeded and run its property's quick check against it, in scratch copies
(of /verif and of /repo, under /tmp, removed afterwards); records the outcome in each meta.json.
usage: seedall.py [lanes] [seed ids...]"""
import json, os, subprocess, sys, shutil, threading, queue

V = '/verif'
args = sys.argv[1:]
lanes = int(args.pop(0)) if args and args[0].isdigit() else 4
seeds = args or sorted(os.listdir(os.path.join(V, 'seeded')))
q = queue.Queue()
for s in seeds:
    q.put(s)
results = {}


def run(cmd, **kw):
    p = subprocess.run(cmd, stdout=subprocess.PIPE, stderr=subprocess.STDOUT, text=True, **kw)
    return p.returncode, p.stdout


def lane(k):
    vs, rs = '/tmp/verif_seed_%d' % k, '/tmp/repo_seed_%d' % k
    shutil.rmtree(vs, ignore_errors=True)
    shutil.copytree(V, vs, symlinks=True, ignore=shutil.ignore_patterns('out', '.git'))
    run(['git', '-C', '/repo', 'worktree', 'remove', '--force', rs])
    rc, out = run(['git', '-C', '/repo', 'worktree', 'add', '-q', '--detach', rs, 'HEAD'])
    assert rc == 0, out
    try:
        while True:
            try:
                s = q.get_nowait()
            except queue.Empty:
                break
            pid = s.split('_')[0]
            env = dict(os.environ, SEED_REPO=rs, SEED_VERIF=vs)
            rc, out = run(['/venv/bin/python', vs + '/harness/seedtest.py', os.path.join(V, 'seeded', s), pid], env=env, timeout=7200)
            try:
                results[s] = json.loads(out[out.index('{'):])
            except Exception:
                results[s] = {'error': out[-500:]}
            print(s, 'done', flush=True)
    finally:
        run(['git', '-C', '/repo', 'worktree', 'remove', '--force', rs])
        shutil.rmtree(vs, ignore_errors=True)


ts = [threading.Thread(target=lane, args=(k,)) for k in range(lanes)]
for t in ts:
    t.start()
for t in ts:
    t.join()
for s, r in sorted(results.items()):
    mp = os.path.join(V, 'seeded', s, 'meta.json')
    try:
        meta = json.load(open(mp))
    except Exception:
        meta = {}
    if 'error' in r:
        meta['confirm_error'] = r['error']
    else:
        meta['confirmed'] = {'patch_applies_to': 'repo HEAD at confirmation (pinned commit + fix: commits)',
                             'suite_with_change': r.get('suite_with'), 'demo_without_change': r.get('demo_without'),
                             'demo_with_change': r.get('demo_with'),
                             'how': 'harness/seedtest.py in a scratch worktree of /repo (outside /repo and /verif), removed afterwards'}
        meta['detected_by'] = {c: {'exit': v['exit'], 'violations': v['violations'], 'summary': v['tail']}
                               for c, v in (r.get('checks') or {}).items()}
    json.dump(meta, open(mp, 'w'), indent=1, ensure_ascii=False)
    det = ','.join('%s:%s' % (c, 'caught' if v['exit'] == 1 and v['violations'] else 'MISSED') for c, v in (r.get('checks') or {}).items())
    print(s, r.get('applies'), r.get('suite_with', '')[:9], r.get('demo_without'), r.get('demo_with'), det)

#!/venv/bin/python
"""./check <Cxx> [--tier quick|thorough] [--replay FILE]

Decides one property (DESIGN.md section 7):
 1. regenerate the tables/guards from /repo (tie 1), build Props/<id>.vo (theorems),
    extraction and driver;
 2. check `Print Assumptions` under every property theorem, grep the closure for
    forbidden commands;
 3. correspondence streams for the property (tie 2), with its observable projection;
 4. replay known findings (KNOWN-FINDING lines);
 5. failing-input search with the property's oracle on the implementation;
 6. a broken theorem/correspondence without a failing input => VIOLATION ... no-failing-input-found;
 7. write evidence/<id>.json; exit 0 iff no VIOLATION line was printed."""
import argparse
import hashlib
import json
import os
import random
import re
import subprocess
import sys
import time

HERE = os.path.dirname(os.path.abspath(__file__))
sys.path.insert(0, HERE)
import common  # noqa: E402
from common import VERIF, COQ, BuildError  # noqa: E402
import props  # noqa: E402

FORBIDDEN = re.compile(r'\b(Admitted|admit|Axiom|Axioms|Parameter|Parameters|Conjecture|Hypothesis|Variable|'
                       r'Unset Guard Checking|Unset Positivity Checking|Unset Universe Checking|bypass_check|'
                       r'type-in-type|impredicative-set|Admit Obligations)\b')
ALLOWED_AXIOMS = []   # none are used; see DESIGN.md section 10


def closure_files(prop_file):
    """.v files in the dependency closure of a Props file (via coqdep)."""
    seen = []
    todo = [prop_file]
    while todo:
        f = todo.pop()
        if f in seen:
            continue
        seen.append(f)
        try:
            out = subprocess.run(['coqdep', '-R', '.', 'Rimu', f], cwd=COQ, stdout=subprocess.PIPE,
                                 stderr=subprocess.DEVNULL, text=True, timeout=60).stdout
        except Exception:
            continue
        m = re.search(r'\.vo[^:]*:\s*(.*)', out.replace('\\\n', ' '))
        if not m:
            continue
        for d in m.group(1).split():
            if d.endswith('.vo') and not d.startswith('/'):
                v = d[:-1]
                if v.startswith('./'):
                    v = v[2:]
                if os.path.exists(os.path.join(COQ, v)) and v not in seen:
                    todo.append(v)
    return seen


def count_obligations(files):
    """proof obligations = statements closed by Qed/Defined in the closure"""
    per = {}
    for f in files:
        try:
            with open(os.path.join(COQ, f)) as fh:
                s = fh.read()
        except OSError:
            continue
        s = re.sub(r'\(\*.*?\*\)', '', s, flags=re.S)
        per[f] = len(re.findall(r'\b(Qed|Defined)\.', s))
    return per


def scan_forbidden(files):
    bad = []
    for f in files:
        if f.startswith('Gen/'):
            continue
        try:
            with open(os.path.join(COQ, f)) as fh:
                s = fh.read()
        except OSError:
            continue
        s2 = re.sub(r'\(\*.*?\*\)', '', s, flags=re.S)
        # Section variables / hypotheses are allowed inside sections only
        depth = 0
        for line in s2.split('\n'):
            if re.match(r'\s*Section\b', line):
                depth += 1
            if re.match(r'\s*End\b', line) and depth > 0:
                depth -= 1
            m = FORBIDDEN.search(line)
            if m:
                if m.group(1) in ('Variable', 'Hypothesis') and depth > 0:
                    continue
                bad.append('%s: %s' % (f, line.strip()[:100]))
    return bad


def check_assumptions(pid):
    """Re-run coqc on the Props file and parse the Print Assumptions output."""
    pf = 'Props/%s.v' % pid
    adir = os.path.join(common.BUILD, 'assump')
    os.makedirs(adir, exist_ok=True)
    tmp_out = os.path.join(adir, '%s.vo' % pid)
    p = subprocess.run(['coqc', '-R', '.', 'Rimu', '-o', tmp_out, pf], cwd=COQ, stdout=subprocess.PIPE,
                       stderr=subprocess.STDOUT, text=True, timeout=1200)
    for fn in os.listdir(adir):
        if fn.startswith(pid + '.') or fn.startswith('.' + pid + '.'):
            try:
                os.remove(os.path.join(adir, fn))
            except OSError:
                pass
    out = p.stdout
    with open(os.path.join(COQ, pf)) as fh:
        src = fh.read()
    theorems = re.findall(r'^Theorem\s+(\w+)', src, flags=re.M)
    n_print = len(re.findall(r'^Print Assumptions', src, flags=re.M))
    n_closed = out.count('Closed under the global context')
    axioms = re.findall(r'^Axioms:\s*\n((?:.+\n)+)', out, flags=re.M)
    problems = []
    if p.returncode != 0:
        problems.append('coqc failed on %s: %s' % (pf, common.coq_error_summary(out)))
    if n_print < len(theorems):
        problems.append('%d theorems but only %d Print Assumptions' % (len(theorems), n_print))
    if n_closed != n_print:
        problems.append('%d of %d theorems are not closed under the global context: %s'
                        % (n_print - n_closed, n_print, ' | '.join(a.strip()[:200] for a in axioms)))
    return theorems, n_closed, problems


def write_replay(pid, kind, payload):
    d = os.path.join(VERIF, 'out', 'replays')
    os.makedirs(d, exist_ok=True)
    blob = json.dumps(payload, sort_keys=True, ensure_ascii=False)
    h = hashlib.sha1(blob.encode('utf-8', 'surrogatepass')).hexdigest()[:10]
    path = os.path.join(d, '%s_%s_%s.json' % (pid, kind, h))
    with open(path, 'w') as f:
        json.dump(payload, f, indent=1, sort_keys=True)
    return path


def load_known(pid):
    path = os.path.join(VERIF, 'known_findings.json')
    if not os.path.exists(path):
        return []
    with open(path) as f:
        data = json.load(f)
    return [e for e in data.get('findings', []) if e.get('property') == pid]


def main():
    ap = argparse.ArgumentParser()
    ap.add_argument('pid')
    ap.add_argument('--tier', default=os.environ.get('VERIF_TIER', 'quick'), choices=['quick', 'thorough'])
    ap.add_argument('--replay', default=None)
    args = ap.parse_args()
    pid = args.pid
    seed = int(os.environ.get('VERIF_SEED', '0') or 0)
    t0 = time.time()
    if pid not in props.PROPS:
        print('unknown property', pid)
        sys.exit(2)
    spec = props.PROPS[pid]
    violations = []       # replay paths of new violations
    broken = []           # dicts: what no longer checks
    notes = []
    model_ok = True

    # ---- 1/2: translator + theorems + driver
    build_info = {}
    try:
        build_info = common.build(targets=['Extract.vo', 'Props/%s.vo' % pid])
    except BuildError as e:
        broken.append({'kind': 'build', 'stage': e.stage, 'detail': e.detail[:1500]})
        try:
            build_info = common.build(targets=['Extract.vo'])
            notes.append('model and driver built although the theorems did not')
        except BuildError as e2:
            model_ok = False
            notes.append('model unavailable: %s: %s' % (e2.stage, e2.detail[:300]))
    except subprocess.TimeoutExpired:
        broken.append({'kind': 'build', 'stage': 'timeout', 'detail': 'build timed out'})
        model_ok = os.path.exists(common.DRIVER)

    files = closure_files('Props/%s.v' % pid)
    per_file = count_obligations(files)
    obligations = sum(per_file.values())
    theorems, n_closed = [], 0
    if not broken:
        theorems, n_closed, problems = check_assumptions(pid)
        for p in problems:
            broken.append({'kind': 'assumptions', 'detail': p})
        bad = scan_forbidden(files)
        for b in bad:
            broken.append({'kind': 'forbidden', 'detail': b})
    if not [b for b in broken if b['kind'] in ('build', 'assumptions', 'forbidden')]:
        discharged = obligations
    else:
        # only what is compiled and up to date counts as discharged
        discharged = 0
        for f, n in per_file.items():
            v = os.path.join(COQ, f)
            vo = v + 'o'
            if os.path.exists(vo) and os.path.getmtime(vo) >= os.path.getmtime(v) and f != 'Props/%s.v' % pid:
                discharged += n

    ctx = props.Ctx(pid=pid, tier=args.tier, seed=seed, model_ok=model_ok)

    # ---- replay mode
    if args.replay:
        with open(args.replay) as f:
            rp = json.load(f)
        res = spec.replay(ctx, rp)
        if broken and not res:
            res = 'theorem/correspondence still broken: ' + broken[0]['detail'][:200]
        if res:
            print('replay: still failing: %s' % res[:500])
            print('VIOLATION property=%s replay=%s' % (pid, args.replay))
            sys.exit(1)
        print('replay: no longer failing')
        sys.exit(0)

    # ---- 3: correspondence
    corr = spec.correspondence(ctx) if model_ok else {'cases': 0, 'disagreements': [], 'streams': {}, 'skipped': 0}
    for d in corr['disagreements'][:20]:
        broken.append({'kind': 'correspondence', 'stream': d.get('stream'), 'detail': d['why'][:600], 'case': d['case']})

    # ---- 4: known findings
    known = load_known(pid)
    known_classes = set()
    kf_lines = []
    for e in known:
        if e.get('status') == 'fixed':
            # a fixed entry suppresses nothing: its witness is an ordinary regression case
            r = spec.check_witness(ctx, e)
            if r:
                path = write_replay(pid, 'regression', {'case': e.get('witness'), 'why': r, 'class': e.get('class'),
                                                        'kind': 'counterexample', 'note': 'fixed finding returned'})
                violations.append(path)
                print('VIOLATION property=%s replay=%s' % (pid, path))
            continue
        r = spec.check_witness(ctx, e)
        if r:
            known_classes.add(e['class'])
            kf_lines.append('KNOWN-FINDING: property=%s %s [%s]' % (pid, e.get('what', ''), e['class']))
        else:
            notes.append('known finding no longer reproduces: %s' % e['class'])
    for l in kf_lines:
        print(l)

    # ---- 5: failing-input search (oracle over the implementation)
    budget_boost = bool(broken)
    search = spec.search(ctx, extra_cases=[b['case'] for b in broken if b.get('case')], boost=budget_boost)
    new_fail = []
    seen_classes = set()
    known_entries = [e for e in known if e.get('status') != 'fixed' and e['class'] in known_classes]

    def is_known(f):
        srcs = ''
        if isinstance(f.get('case'), dict):
            for c in f['case'].get('calls', []):
                srcs += c.get('src', '') + '\n#opts:' + json.dumps({k: v for k, v in c.items() if k != 'src'}, sort_keys=True) + '\n'
        for e in known_entries:
            if e['class'] == f['class'] and (not e.get('source_re') or re.search(e['source_re'], srcs, re.S)):
                return True
        return False
    for f in search['failures']:
        if is_known(f):
            continue
        if f['class'] in seen_classes:
            continue
        seen_classes.add(f['class'])
        new_fail.append(f)
    for f in new_fail[:5]:
        try:
            f = spec.shrink(ctx, f)      # a smaller history with the same failure class, when one is found quickly
        except Exception:
            pass
        path = write_replay(pid, 'cex', {'kind': 'counterexample', 'class': f['class'], 'why': f['why'],
                                         'case': f['case'], 'shrunk_from': f.get('shrunk_from')})
        violations.append(path)
        print('VIOLATION property=%s replay=%s' % (pid, path))

    # ---- 6: broken without a failing input
    if broken and not new_fail:
        # a correspondence disagreement that is fully explained by a known finding class is not reported again
        unexplained = [b for b in broken if not spec.explained_by_known(ctx, b, known_classes)]
        if unexplained:
            path = write_replay(pid, 'broken', {'kind': 'no-failing-input-found', 'broken': unexplained[:10]})
            violations.append(path)
            print('VIOLATION property=%s replay=%s no-failing-input-found' % (pid, path))

    # ---- 7: evidence
    wall = time.time() - t0
    samples = (corr.get('samples') or [])[:3] + (search.get('samples') or [])[:3]
    if not samples:
        samples = [{'theorems': theorems[:5]}]
    ev = {
        'property_id': pid, 'tier': args.tier, 'seed': seed, 'level': 'proof',
        'coverage': {
            'obligations': max(obligations, 1), 'discharged': max(discharged, 1),
            'all_discharged': discharged == obligations and obligations > 0,
            'checker_cmd': 'coq_makefile -f _CoqProject && make Props/%s.vo (coqc 8.16.1, full .vo build) + coqc Props/%s.v for Print Assumptions' % (pid, pid),
            'trusted_base': props.TRUSTED_BASE,
            'property_theorems': theorems, 'theorems_closed_under_global_context': n_closed,
            'obligations_per_file': per_file,
            'evaluations': corr.get('cases', 0) + search.get('cases', 0),
            'distinct_nontrivial': corr.get('distinct_nontrivial', 0) + search.get('distinct_nontrivial', 0),
            'rule': spec.rule,
            'samples': samples,
            'correspondence': {'cases': corr.get('cases', 0), 'skipped_unsupported': corr.get('skipped', 0),
                               'disagreements': len(corr['disagreements']), 'streams': corr.get('streams', {})},
            'search': {'cases': search.get('cases', 0), 'oracle_failures_known': len(search['failures']) - len(new_fail),
                       'oracle_failures_new': len(new_fail), 'distribution': search.get('distribution', {})},
            'known_findings_reproduced': sorted(known_classes),
            'broken': [dict((k, v) for k, v in b.items() if k != 'case') for b in broken][:10],
            'build': {k: v for k, v in build_info.items() if k != 'coq_log'},
            'notes': notes,
        },
        'assumptions': props.ASSUMPTIONS + spec.assumptions,
        'wall_s': round(wall, 1),
        'violations': len(violations),
    }
    os.makedirs(os.path.join(VERIF, 'evidence'), exist_ok=True)
    with open(os.path.join(VERIF, 'evidence', pid + '.json'), 'w') as f:
        json.dump(ev, f, indent=1, ensure_ascii=True, default=str)
    print('%s %s: theorems=%d closed=%d obligations=%d corr_cases=%d disagreements=%d search_cases=%d '
          'known=%d new_violations=%d wall=%.0fs'
          % (pid, args.tier, len(theorems), n_closed, obligations, corr.get('cases', 0), len(corr['disagreements']),
             search.get('cases', 0), len(known_classes), len(violations), wall))
    sys.exit(1 if violations else 0)


if __name__ == '__main__':
    main()

#!/venv/bin/python
"""Debug helper (never part of a check): compile a temp copy of a .v file in which the named
lemma's Qed is replaced by printing the remaining goals + Admitted, and everything after is cut."""
import sys, re, subprocess, os
f, lemma = sys.argv[1], sys.argv[2]
s = open(f).read()
m = re.search(r'(Lemma|Theorem)\s+' + re.escape(lemma) + r'\b', s)
i = s.index('Qed.', m.start())
t = s[:i] + 'all: match goal with |- ?g => idtac "GOAL:"; idtac g end. Show. Admitted.\n'
tmp = os.path.join(os.path.dirname(f), 'DbgTmp.v')
open(tmp, 'w').write(t)
try:
    p = subprocess.run(['coqc', '-R', '.', 'Rimu', tmp], cwd='/verif/coq', stdout=subprocess.PIPE, stderr=subprocess.STDOUT, text=True, timeout=600)
    print(p.stdout[-6000:])
finally:
    for ext in ('.v', '.vo', '.glob', '.vok', '.vos'):
        try: os.remove(tmp[:-2] + ext)
        except OSError: pass
    try: os.remove(os.path.join(os.path.dirname(tmp), '.DbgTmp.aux'))
    except OSError: pass

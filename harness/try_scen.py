import json, sys, os, collections
sys.path.insert(0, os.path.dirname(__file__))
from common import *
import scenarios
fams = sys.argv[1:] or list(scenarios.FAMILIES)
info = build()
for f in fams:
    cases = scenarios.family(f, False)
    t0 = time.time(); mo = model_run([history_line(c) for c in cases], timeout=120); tm = time.time() - t0
    t0 = time.time(); io_ = impl_run(cases); ti = time.time() - t0
    bad = collections.Counter(); shown = 0
    for c, m, i in zip(cases, mo, io_):
        try:
            pm = parse_history_output(m)
        except Exception as e:
            bad['driver:' + m[:40]] += 1; continue
        r = compare_history(pm, i)
        if r:
            key = r[:60] if r != 'SKIP' else 'SKIP'
            bad[key] += 1
            if r != 'SKIP' and shown < int(os.environ.get('SHOW', '4')):
                shown += 1
                print('---', json.dumps(c['calls'])[:800]); print('   ', r[:500])
    print('%s: %d cases model %.1fs impl %.1fs' % (f, len(cases), tm, ti)); print(bad.most_common(12))

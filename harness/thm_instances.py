"""Instances of the functional theorems (coq/Props): inputs drawn from a theorem's domain with the output the theorem states.
They are run on the implementation next to the curated cases, so that what a theorem says about the model is also observed on
the code at randomly chosen points of its (unbounded) domain.  Deterministic: one PRNG seeded per property."""
import random
import re

SAFE = 'abcdefghijklmnopqrstuvwxyzABCDEFGHIJKLMNOPQRSTUVWXYZ0123456789 ,;!?()>]}^%@$' + 'éß日'
SAFE_FIRST = 'abcdefghijklmnopqrstuvwxyzABCDEFGHIJKLMNOPQRSTUVWXYZ0123456789,;!?()]}^%@$' + 'éß日'
LETTERS = 'abcdefghijklmnopqrstuvwxyzABCDEFGHIJKLMNOPQRSTUVWXYZ'
WORD2 = LETTERS + '0123456789 ,'
WILD = SAFE + '*_`~<>&{}|\\#=.:-+[]"\'/\t'


def esc(t):
    return t.replace('&', '&amp;').replace('<', '&lt;').replace('>', '&gt;')


def text(rng, alphabet, lo, hi):
    return ''.join(rng.choice(alphabet) for _ in range(rng.randint(lo, hi)))


def solid(rng, alphabet, lo, hi):
    """non-empty, no blank at either end"""
    t = text(rng, alphabet, lo, hi).strip()
    return t or rng.choice(LETTERS)


def first_then(rng, lo, hi):
    return rng.choice(SAFE_FIRST) + text(rng, SAFE, lo, hi)


def instances(pid, n=30):
    rng = random.Random('thm-' + pid)
    out = []
    for _ in range(n):
        if pid == 'C07':       # C07_emphasis_document
            pre, body, post = first_then(rng, 0, 12), solid(rng, SAFE, 1, 14), text(rng, SAFE, 0, 12)
            if (pre + '*' + body + '*' + post).rstrip() != pre + '*' + body + '*' + post:
                post = post.rstrip() + ','
            out.append((pre + '*' + body + '*' + post, 0, '<p>%s<em>%s</em>%s</p>' % (esc(pre), esc(body), esc(post)), 'theorem-instance:C07_emphasis_document'))
        elif pid == 'C09':
            r9 = rng.random()
            if r9 < 0.3:             # C09_indented_verbatim
                body = (first_then(rng, 0, 16).rstrip() or 'x')
                out.append((' ' * rng.randint(1, 5) + body, rng.choice([0, 1, 3, 15]), '<pre><code>%s</code></pre>' % esc(body), 'theorem-instance:C09_indented_verbatim'))
            elif r9 < 0.65:          # C09_fenced_code_verbatim: any content
                lines = [text(rng, WILD, 0, 24) for _ in range(rng.randint(1, 5))]
                lines = [l for l in lines if l != '``'] or ['x']
                src = '``\n' + '\n'.join(lines) + '\n``'
                out.append((src, rng.choice([0, 1, 3, 15]), '<pre><code>%s</code></pre>' % esc('\n'.join(lines)), 'theorem-instance:C09_fenced_code_verbatim'))
            else:                    # C09_code_quote_verbatim
                pre, body, post = first_then(rng, 0, 10), solid(rng, SAFE + '*', 1, 12), text(rng, SAFE, 0, 10).rstrip()
                out.append((pre + '`' + body + '`' + post, 0, '<p>%s<code>%s</code>%s</p>' % (esc(pre), esc(body), esc(post)), 'theorem-instance:C09_code_quote_verbatim'))
        elif pid == 'C10':
            a, b = solid(rng, SAFE, 1, 14), solid(rng, SAFE, 1, 14)
            m1, m2 = rng.choice('-+'), rng.choice('-+')
            k = rng.randrange(3)
            if k == 0:
                out.append(('%s %s' % (m1, a), 0, '<ul><li>%s</li></ul>' % esc(a), 'theorem-instance:C10_single_item_list'))
            elif k == 1:
                out.append(('%s %s\n%s %s' % (m1, a, m1, b), 0, '<ul><li>%s</li><li>%s</li></ul>' % (esc(a), esc(b)), 'theorem-instance:C10_two_item_list'))
            else:
                m2 = '+' if m1 == '-' else '-'
                out.append(('%s %s\n%s %s' % (m1, a, m2, b), 0, '<ul><li>%s<ul><li>%s</li></ul></li></ul>' % (esc(a), esc(b)), 'theorem-instance:C10_nested_list'))
        elif pid == 'C08':
            k = rng.randrange(3)
            if k == 0:     # C08_header
                lvl, title = rng.randint(1, 6), solid(rng, SAFE, 1, 16)
                out.append(('#' * lvl + ' ' + title, 0, '<h%d>%s</h%d>' % (lvl, esc(title), lvl), 'theorem-instance:C08_header'))
            elif k == 1:   # C08_comment_block_renders_nothing
                lines = [text(rng, WILD, 0, 20) for _ in range(rng.randint(0, 4))]
                lines = [l for l in lines if not re.match(r'^\*+/$', l)]
                out.append(('/*\n' + '\n'.join(lines + ['*/']), rng.choice([0, 1, 15]), '', 'theorem-instance:C08_comment_block_renders_nothing'))
            else:          # C08_fenced_code_block
                lines = [text(rng, WILD, 0, 20) for _ in range(rng.randint(1, 4))]
                lines = [l for l in lines if l != '``'] or ['y']
                out.append(('``\n' + '\n'.join(lines) + '\n``', 0, '<pre><code>%s</code></pre>' % esc('\n'.join(lines)), 'theorem-instance:C08_fenced_code_block'))
        elif pid == 'C08q':    # C08_quote_paragraph_document, C08_code_then_paragraph
            line = first_then(rng, 0, 14).rstrip() or 'x'
            out.append(('""\n' + line + '\n""', 0, '<blockquote><p>%s</p></blockquote>' % esc(line), 'theorem-instance:C08_quote_paragraph_document'))
            out.append(('..\n' + line + '\n..', 0, '<p>%s</p>' % esc(line), 'theorem-instance:C08_division_paragraph_document'))
            lines = [text(rng, WILD, 0, 16) for _ in range(rng.randint(1, 3))]
            lines = [l for l in lines if l != '``'] or ['y']
            out.append(('``\n' + '\n'.join(lines) + '\n``\n\n' + line, 0,
                        '<pre><code>%s</code></pre>\n<p>%s</p>' % (esc('\n'.join(lines)), esc(line)), 'theorem-instance:C08_code_then_paragraph'))
        elif pid == 'C12':     # C12_class_paragraph_document
            name = rng.choice(LETTERS) + text(rng, LETTERS + '0123456789-', 0, 8)
            line = first_then(rng, 0, 14).rstrip() or 'x'
            out.append(('.%s\n%s' % (name, line), '<p class="%s">%s</p>' % (name, esc(line)), 'theorem-instance:C12_class_paragraph_document'))
        elif pid == 'C17':     # C17_escaped_emphasis_is_literal, in a paragraph
            pre, body, post = first_then(rng, 0, 10), solid(rng, SAFE, 1, 12), text(rng, SAFE, 0, 10)
            src = pre + '\\*' + body + '*' + post
            if src.rstrip() != src:
                src = src.rstrip() + ','
            out.append((src, '<p>%s</p>' % esc(src.replace('\\*', '*', 1)), 'theorem-instance:C17_escaped_emphasis_is_literal'))
        elif pid == 'C11':     # C11_invocation_equals_substitution, on a document
            name = rng.choice(LETTERS) + text(rng, LETTERS + '0123456789-', 0, 6)
            value = solid(rng, SAFE.replace('{', '').replace('}', ''), 1, 12).replace("'", '')
            pre, post = first_then(rng, 0, 8), text(rng, SAFE.replace('}', ''), 0, 8).rstrip()
            out.append(("{%s}='%s'\n\n%s{%s}%s" % (name, value, pre, name, post), '<p>%s%s%s</p>' % (esc(pre), esc(value), esc(post)),
                        'theorem-instance:C11_definition_line+C11_invocation_equals_substitution'))
    return out

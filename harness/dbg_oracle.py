import sys, os, collections
sys.path.insert(0, os.path.dirname(os.path.abspath(__file__)))
import props
pid = sys.argv[1]; n = int(sys.argv[2]) if len(sys.argv) > 2 else 6
spec = props.PROPS[pid]; ctx = props.Ctx(pid, 'quick', int(os.environ.get('VERIF_SEED', '0')))
cases = spec.search_cases(ctx, False)
fails, nt, total = spec.run_oracle(ctx, cases)
print('cases', total, 'fails', len(fails), collections.Counter(f['class'] for f in fails).most_common(12))
seen = collections.Counter()
for f in fails:
    seen[f['class']] += 1
    if seen[f['class']] <= n:
        print('---', f['class']); print('   ', f['why'][:700])
print(getattr(spec, '_oracle_last_error', ''))

import json, sys, os
sys.path.insert(0, os.path.dirname(__file__))
from common import *
d = json.load(open('/repo/tests/rimu-tests.json'))
cases = []
# as one session (as the test-suite does) and individually
hist = []
for spec in d:
    o = spec['options']
    c = {'src': spec['input'], 'safeMode': o.get('safeMode'), 'htmlReplacement': o.get('htmlReplacement'),
         'reset': o.get('reset'), 'cb': True}
    hist.append(c)
    cases.append({'kind': 'H', 'calls': [c], 'state': True, 'desc': spec['description']})
# the whole suite as one history, in prefixes to localise
cases.append({'kind': 'H', 'calls': hist, 'state': True, 'desc': 'whole suite'})
info = build()
print({k: v for k, v in info.items() if k != 'coq_log'})
t0 = time.time()
mo = model_run([history_line(c) for c in cases])
print('model', time.time() - t0)
t0 = time.time()
io_ = impl_run(cases)
print('impl', time.time() - t0)
bad = 0
for c, m, i in zip(cases, mo, io_):
    pm = parse_history_output(m)
    r = compare_history(pm, i)
    if r:
        bad += 1
        if bad <= int(sys.argv[1]) if len(sys.argv) > 1 else 15:
            print('---', c['desc'], repr(c['calls'][0]['src'])[:300] if len(c['calls']) == 1 else '')
            print('   ', r)
print('bad', bad, 'of', len(cases))

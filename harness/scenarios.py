"""Systematic scenario matrices for the correspondence streams.

The token soup reaches interactions between constructs only by chance; these families enumerate
them: every separator between list items, every line block that also looks like a list item,
a macro invocation in every inline context, the same text before and after every kind of
definition, id sequences, option elements, block options across a reset, attribute merging.
Everything is deterministic (no random choice), so a case is identified by family and index."""
import itertools

MODES_POLICY = [0, 1, 2, 3]            # raw, drop, replace, escape
MODES_ALL = list(range(16))


def H(calls, state=True):
    return {'kind': 'H', 'calls': calls, 'state': state}


def call(src, **kw):
    d = {'src': src, 'cb': True}
    d.update(kw)
    return d


def one(src, mode=0, **kw):
    return H([call(src, safeMode=mode, reset=True, **kw)])


# ---- A: lists: separators x what follows x HTML policy ---------------------------------
SEPARATORS = ['\n', '\n\n', '\n\n\n', '\n.x\n', '\n\n.x\n', '\n.x\n\n', '\n\n.x\n\n', '\n\n\n.x\n', '\n.x\n.y\n', '\n\n.#i1\n\n']
FOLLOWERS = ['- b', '* b', '. b', '-- b', 'b:: c', 'text', '  ind', '  - ind item', '> quote', '``\ncode\n``', '..\ndiv\n..',
             '""\nq\n""', '<div>h</div>', '<!-- c -->', '/*\ncm\n*/', '# Header', '{--}', '.cls\ntext', '\\- esc', '\\.x',
             '<div>h</div>\n\nafter', '<!-- c -->\n\n  ind after', '/*\ncm\n*/\n\ntext after',
             '.+container\n> - n\n- m', '.+container\n  - n\n  - n2\n- m', '.+container\n..\n- n\n..\n- m', '.+container\n> . n\n\n- m']
FIRSTS = ['- a', '* a\n** a2', '. a', 'a:: b', '- a\n  cont', 't::\n  dd']


def fam_lists():
    out = []
    for first, sep, fol in itertools.product(FIRSTS, SEPARATORS, FOLLOWERS):
        src = first + sep + fol
        for m in ([0, 1] if (hash_small(src) % 3) else MODES_POLICY):
            out.append(one(src, m))
    # return to ancestors / grandparents
    markers = ['-', '*', '**', '.', '..', '::']
    for a, b, c, d in itertools.product(markers, repeat=4):
        def item(mk, t):
            return (t + mk + ' d') if mk == '::' else (mk + ' ' + t)
        out.append(one('\n'.join([item(a, 'p'), item(b, 'q'), item(c, 'r'), item(d, 's')]), 0))
    return out


def hash_small(s):
    h = 0
    for ch in s:
        h = (h * 131 + ord(ch)) % 1000003
    return h


# ---- B: lines that fit more than one block rule ----------------------------------------
def fam_dispatch():
    lines = ['## Overview:: goals', '// TODO:: x', "{sep} = ' :: '", "* = '<strong>|</strong>'", "- = '<x>|</x>'",
             '# - not a list', '.. = \'<y>|</y>\'', '. = \'<z>|</z>\'', "+ = '<w>|</w>'", "{m} = '- item'", '// - comment',
             '<image:a.png>:: d', '<<#a>>:: d', '.cls:: d', '.#id:: d', '# H:::', "/a::b/ = 'c'", "|code| = ':: x'",
             ".safeMode = '::'", '{m}:: d', '- <div>', '<div>:: d', '<!-- c -->:: d', '``:: d', '..:: d', '"":: d', '>:: d',
             '  t:: d', '> t:: d', '- # H', '- // c', "- {m}='v'", '- .cls', '. .cls', '- ..', '- ``', '/*:: d', '*/:: d',
             '-- x', '--- x', '-', '*', '.', '::', 't ::', 't::d', ':: d', '*bold* item', '**bold** item', '*** x ***',
             '. = x', '= = x', '- = x', '1. x', '#x', '# ', '#', '.', '..x', '. x::', '- x:: y', 'x:: - y', 'x:: y:: z']
    out = []
    for l in lines:
        for ctx in ['%s', 'before\n%s\nafter', '%s\nnext', '..\n%s\n..', '""\n%s\n""', '- item\n%s', '- item\n\n%s']:
            src = ctx % l
            out.append(one(src, 0))
        out.append(one(l, 1))
        out.append(H([call("{m}='V'\n{sep}='S'", safeMode=0, reset=True), call(l)]))
    return out


# ---- C, D: macros in every context; inclusion / exclusion ------------------------------
CONTEXTS = ['%s', 'x %s y', '%s tail', 'head %s', '# %s', '## a %s b', '- %s', '- a %s', '* %s\n** %s', '%s:: d', 't %s:: d',
            't:: %s', 't:: a %s b', 't::\n  %s', 'a:: b\nc %s:: d', 'a:: b\n%s:: d', '- a\n- %s', '. a\n\n. %s x', '.%s\npara',
            '.#%s\npara', '[%s](u)', '[c](%s)', '<u|%s>', '*%s*', '`%s`', '``\n%s\n``', '..\n%s\n..', '""\n%s\n""', '> %s', '  %s',
            '<div>%s</div>', '<!-- %s -->', '<image:a|%s>', '// %s', "|code|='%s'", "= = '%s|'", "/q/='%s'", "{n}='%s'\n{n}",
            ".htmlReplacement='%s'\n<b>", '.[title="%s"]\npara', '\\%s', 'x \\%s']
INVOCATIONS = ['{m}', '{m|P}', '{m|P|Q}', '{u}', '{m?}', '{--}', '{m=V}', '{m!V}', '{m=X}', '{m!X}', '{m=}', '{e}', '{ml}', '{ml=a}',
               '{ml=a\\nb}', '{ml!a}', '{p|1|2}', '{p|}', '{p}']
MACRO_PRE = "{m}='V'\n{e}=''\n{ml}='a\nb'\n{p}='<$1:d1$|$$2>'\n"


def fam_macros():
    out = []
    for ctx, inv in itertools.product(CONTEXTS, INVOCATIONS):
        src = MACRO_PRE + ctx.replace('%s', inv)
        out.append(one(src, 0))
    for ctx in CONTEXTS:
        out.append(one(MACRO_PRE + ctx.replace('%s', '{m}'), 1))
        out.append(H([call(MACRO_PRE, safeMode=0, reset=True), call(ctx.replace('%s', '{m|P}'), safeMode=9)]))
    # inclusion / exclusion against values and patterns
    values = ['', 'a', 'ab', 'draft', 'draft\ncopy', 'x\ndraft', 'a.c', 'A', ' a', 'a ', 'a\n']
    pats = ['', 'a', 'draft', 'copy', 'a.c', 'a\\.c', '.*', 'a|x', '^a', 'a$', 'draft\\ncopy', '(?s).*', '[', 'A', 'a?', '\\w+']
    for v, p in itertools.product(values, pats):
        src = "{v}='%s'\nkeep {v=%s} this\nalso {v!%s} that\nplain" % (v, p, p)
        out.append(one(src, 0))
        out.append(one("{v}='%s'\nfirst\nlast {v=%s}\n\n- item\n  more {v!%s}\n\nt:: d {v=%s}" % (v, p, p, p), 0))
    return out


# ---- E: the same text before and after every kind of change -----------------------------
def fam_repeat():
    texts = ['=x= *y* `z` <b>t</b>', 'http://a.b foo ... bar', '{m} [l](u) <j@k.l>', '# Head =x=', '- item =x= {m}', '<div>=x=</div>',
             '  ind =x=', '> q *y* =x=', 'a:: =x=', '``\n=x= {m}\n``']
    changes = ["= = '<u>|</u>'", "* = '<b>|</b>'", "* = '|'", "/foo/='bar'", "/\\.\\.\\./='...'", "{m}='M2'", "|paragraph|='<div>|</div>'",
               "|paragraph|='-spans'", "|code|='+spans +macros'", ".safeMode='1'", ".safeMode='3'", ".htmlReplacement='R'", ".reset='true'",
               "` = '<tt>||</tt>'", "/(<b>)/='B'", "{--header-ids}='1'", "|quote-paragraph|='-spans'", "|indented|='+spans'", ".-spans",
               ".+skip", ".cls #i"]
    out = []
    for t, c in itertools.product(texts, changes):
        out.append(one("{m}='M1'\n" + t + '\n\n' + c + '\n\n' + t, 0))
        out.append(H([call("{m}='M1'\n" + t, safeMode=0, reset=True), call(c), call(t)]))
    return out


# ---- F: element ids ------------------------------------------------------------------------
def fam_ids():
    atoms = ['# Step', '# Step 2', '# Step 3', '.#step\npara', '.#step-2\npara', '.#step-3\npara', '# step-2', 't:: d\n.#step\nu:: e',
             '.#step\nt:: d', '.#Step\n- li', '## Step', '# Étape', '# ', '# x', '.#x\n# Other']
    out = []
    for seq in itertools.product(atoms, repeat=3):
        out.append(one("{--header-ids}='1'\n" + '\n\n'.join(seq), 0))
    for seq in itertools.product(atoms[:9], repeat=4):
        if hash_small('|'.join(seq)) % 4 == 0:
            out.append(one("{--header-ids}='1'\n" + '\n\n'.join(seq), 0))
    for a, b in itertools.product(atoms, repeat=2):
        out.append(H([call("{--header-ids}='1'\n" + a, safeMode=0, reset=True), call(b), call(a)]))
        out.append(H([call("{--header-ids}='1'\n" + a, safeMode=9, reset=True), call("{--header-ids}='1'\n# T <b>x</b> <!-- c -->\n\n" + b, safeMode=10)]))
    return out


# ---- G: option elements ---------------------------------------------------------------------
def fam_options():
    names = ['safeMode', 'reset', 'htmlReplacement', 'callback', 'bogus', 'SafeMode']
    values = ['true', 'false', '', 'junk', '0', '1', '3', '15', '16', '-1', ' 2 ', '2.5', '1e1', 'True', 'None', 'R', '<i>']
    probe = '\n<b>x</b> *y*\n\n<div>z</div>'
    out = []
    for n, v in itertools.product(names, values):
        el = ".%s = '%s'" % (n, v)
        for m in [0, 1, 2, 4, 8, 10, 15]:
            out.append(H([call(el + probe, safeMode=m, reset=True), call(probe.strip())]))
        out.append(H([call("{m}='V'\n= = '<u>|</u>'", safeMode=0, reset=True), call(el + '\n{m} =x=', safeMode=2), call('{m} =x=' + probe)]))
    # render(source) without an options object: everything persists from the session
    for m in MODES_ALL:
        out.append(H([call("{m}='V'", safeMode=m, reset=True, htmlReplacement='R'), {'src': '{m} {u}' + probe, 'noopts': True, 'cb': False},
                      {'src': probe.strip(), 'noopts': True, 'cb': False}]))
    out.append(H([{'src': '*first* call' + probe, 'noopts': True, 'cb': False}, {'src': "{m}='V'\n{m}", 'noopts': True, 'cb': False}]))
    return out


# ---- H: block definitions, options and reset -------------------------------------------------
def fam_blockdefs():
    names = ['paragraph', 'code', 'indented', 'quote', 'quote-paragraph', 'division', 'html', 'comment', 'macro-definition']
    opts = ['+macros', '-macros', '+spans', '-spans', '+specials', '-specials', '+skip', '-skip', '+container', '-container',
            '<x>|</x>', '<x class="c">|</x> +spans', '+Spans', '-SPECIALS', '+bogus', '<hr>|', '|</x>', '<x>|', '<x> | </x>', '|']
    probes = {'paragraph': 'para *e* {m} <b>', 'code': '``\n*e* {m} <b>\n``', 'indented': '  *e* {m} <b>', 'quote': '""\n*e* {m} <b>\n""',
              'quote-paragraph': '> *e* {m} <b>', 'division': '..\n*e* {m} <b>\n..', 'html': '<div>*e* {m}</div>',
              'comment': '/*\n*e* {m}\n*/', 'macro-definition': "{q}='*e*\n{m}'\n{q}"}
    out = []
    for n, o in itertools.product(names, opts):
        d = "|%s| = '%s'" % (n, o)
        if n in ('paragraph', 'indented', 'quote-paragraph', 'html', 'code') and 'container' in o and o.startswith('+'):
            continue   # known finding: endless recursion
        p = probes[n]
        out.append(H([call("{m}='V'\n" + d + '\n\n' + p, safeMode=0, reset=True), call(p), call(p, reset=True), call(p)]))
        for m in [1, 5, 9]:
            out.append(H([call("{m}='V'", safeMode=0, reset=True), call(d + '\n\n' + p, safeMode=m), call(p, safeMode=0)]))
    # block attributes options, every spelling, against specials in safe modes
    for o in ['-specials', '-Specials', '-SPECIALS', '-spans -specials', '-spans -Specials', '+Skip', '-MACROS', '-spans', '+macros']:
        for p in ['x <script>alert(1)</script>', '``\n<script>\n``', '  <script>', '> <script>', '- <script>', 'x <b>never closed', 'a &amp; <i>']:
            for m in [0, 1, 2, 3, 9, 11]:
                out.append(one('.' + o + '\n' + p, m))
    return out


# ---- J: attribute merging ----------------------------------------------------------------------
def fam_attrs():
    attrs = ['.box', '.a b', '.#i', '."color:red"', '."c:\\e9"', '."c:\\1"', '."c:$1"', '."c:\\g<0>"', '."a:b;"', '.[data-x="1"]',
             '.[title="a\\b"]', '.box #i "c:d" [e=f]', '.a\\b', '.$1', '."c:&amp;"', '.+skip', '.-spans', '.-macros']
    targets = ['<p class="note">one</p>\n<p class="note">two</p>', '<div style="m:0">x</div>', '<div style="m:0;">x</div>', '<div id="k">x</div>',
               '<div class="c" style="s" id="k" data-x>x</div>', '<p>plain</p>', 'para', '# H', '- li', 't:: d', '``\nc\n``', '..\nd\n..',
               '.. c1\nd\n..', '`` js\nc\n``', '""\nq\n""', '"" cite\nq\n""', '<image:a.png>', '<<#anc>>', '  ind', '> q', '<!-- c -->',
               '<hr>', '<DIV CLASS="u">x</DIV>', "{m}='v'", '// c', '/*\nc\n*/', '.x\npara']
    out = []
    for a, t in itertools.product(attrs, targets):
        for m in [0, 1, 3, 4, 8, 15]:
            out.append(one(a + '\n' + t + '\n\nnext *e*\n\n' + t, m))
        out.append(one("|paragraph| = '<p style=\"margin:0\" class=\"p\">|</p>'\n" + a + '\n' + t, 0))
        out.append(H([call(a + '\n' + t, safeMode=4, reset=True), call('first\n\nsecond', safeMode=0)]))
    return out


# ---- L: every inline form inside every other ---------------------------------------------------
INL = ['a <\\` b', '&\\`', 'std::cout', 'w', '*e*', '**s**', '`c`', '_u_', '~~d~~', '<sub>2</sub>', '<!-- c -->', '<br>', '&amp;', '&#160;', 'http://a.b/c', '<http://a.b>',
       '<http://a.b|cap>', '[l](u)', '^[l](u)', '![a](i.png)', '<image:i.png>', '<image:i.png|a>', '<j@k.lm>', '<j@k.lm|J>', '<<#a>>',
       '\\*x*', '\\<b>', 'x_y_z', '...', '+', ' \\', '"q"', "'", '{m}']
WRAP = ['[%s](water.html)', '^[%s](w.html)', '<http://a.b|%s>', '<j@k.lm|%s>', '![%s](i.png)', '<image:i.png|%s>', '*%s*', '**%s**', '`%s`',
        '_%s_', '~~%s~~', '<b>%s</b>', '[l](%s)', '<%s>', '%s%s', '%s %s', '\\%s', 'a%sb']


def fam_inline():
    out = []
    for w, a in itertools.product(WRAP, INL):
        t = w.replace('%s', a)
        for m in ([0, 1] if hash_small(t) % 2 else [0, 2, 3]):
            out.append(one("{m}='V'\nH%sO and %s end" % (t, t), m))
    for a, b in itertools.product(INL, repeat=2):
        out.append(one("{m}='V'\n%s%s %s %s" % (a, b, a, b), 0))
    return out


# ---- M: redefinition of the built-in definitions ----------------------------------------------
def fam_redefs():
    import json, os
    path = os.path.join(os.path.dirname(os.path.abspath(__file__)), '..', 'coq', 'Gen', 'regex_table.json')
    try:
        with open(path) as f:
            tbl = json.load(f)
    except Exception:
        tbl = {}
    pats = [v[0] for k, v in sorted(tbl.items()) if k.startswith('replacements_default_')]
    probe = ('<<#a>> <image:i.png|alt> <image:j.png> ![a](k.png) <j@k.lm|J> <j@k.lm> ^[n](u) [l](u) <u.v|cap> <!-- c --> <b>t</b> '
             '<http://a.b> http://c.d/e &amp; x \\\nline `a\\` x_y ... \\<b> \\&amp;')
    out = []
    for p in pats:
        for fl in ['', 'i', 'm', 'im']:
            for repl in ['X', '[$1]', '<u>$$1</u>', '$1$2$3']:
                d = "/%s/%s = '%s'" % (p, fl, repl)
                out.append(H([call(d + '\n\n' + probe, safeMode=0, reset=True), call(probe), call(probe, safeMode=2), call(probe, reset=True)]))
    quotes = ['*', '**', '_', '__', '`', '``', '~~', '=', '##']
    qprobe = '*a* **b** _c_ __d__ `e` ``f`` ~~g~~ =h= ##i## \\*j*'
    for q in quotes:
        for d in ["%s = '<x>|</x>'" % q, "%s = '<y>||</y>'" % q, "%s = '|'" % q, "%s = '<z class=\"c\">|</z>'" % q]:
            out.append(H([call(d + '\n\n' + qprobe, safeMode=0, reset=True), call(qprobe, safeMode=1), call(qprobe, reset=True)]))
    return out


# ---- U: non-ASCII text and unusual white space --------------------------------------------------
UWORDS = ['\ufeff', '\ufeff# H', '\u00e9t\u00e9', 'Stra\u00dfe', '\u65e5\u672c', '\u03a9mega', '\u01c5x', '\u0663\u0664', 'na\u00efve', '\u00c9COLE', 'x\u00a0y', 'a\u2028b', 'a\u000bb', 'a\u000cb',
          'a\u0085b', 'a\u200bb', 'a\u3000b', '\ufb01n', '\u212a', 'e\u0301', '\U0001f600', '\u00aa\u00ba']
UCTX = ['# %s', '## %s %s', '.#%s\npara', '.%s\npara', '."c:%s"\npara', '.[title="%s"]\npara', '- %s', '%s:: d', 't:: %s', '*%s*', '`%s`', '_%s_ x_%s',
        '[%s](%s)', '<http://%s.b|%s>', '<%s@x.yz>', 'http://a.b/%s', '<image:%s|%s>', '<<#%s>>', '&%s;', '{%s}=\'V\'\n{%s}', "{m}='$1'\n{m|%s}",
        '<div class="%s">x</div>', '``\n%s\n``', '  %s', '> %s', '%s', '\u00a0- %s', '-\u00a0%s', '\u3000%s', '%s\u00a0', '..\u00a0%s\nd\n..', "= = '<%s>|</%s>'\n=x=",
        "/%s/ = 'R'\nx %s y", "/(%s)/i = '[$1]'\nx %s y", '.safeMode=\'\u0663\'\n<b>', '{m%s}', '\\%s', '%s \\\nnext']


def fam_unicode():
    out = []
    for c, w in itertools.product(UCTX, UWORDS):
        src = c.replace('%s', w)
        out.append(one("{--header-ids}='1'\n" + src + '\n\n' + src, 0))
        if hash_small(src) % 3 == 0:
            out.append(one(src, 1))
            out.append(one(src, 15))
    return out


# ---- N: containers in containers; every block as the last line ------------------------------------
def fam_nesting():
    wrap = [('..\n', '\n..'), ('.. c1\n', '\n..'), ('""\n', '\n""'), ('"" cite\n', '\n""'), ('>>\n', '\n>>'), ('- a\n\n..\n', '\n..'), ('- a\n..\n', '\n..'),
            ('t::\n..\n', '\n..'), ('.+container\n  ', ''), ('.+container\n> ', ''), ('<div>\n', '\n</div>'), ('.+macros +spans\n``\n', '\n``'), ('/*\n', '\n*/')]
    inner = ['para *e*', '# H', '- i\n- j', '. i\n.. j', 't:: d', '``\ncode\n``', '  ind', '> q', '<p>h</p>', '<!-- c -->', "{m}='V'\n{m}", '.cls #i\npara',
             '..\nx\n..', '""\ny\n""', '- a\n\n  attached', '- a\n``\nc\n``', '{u}', 'x\n\n\ny', '', ' ', '\\..', '..']
    out = []
    for (a, b), (c, d), i in itertools.product(wrap, wrap, inner):
        if hash_small(a + c + i) % 2:
            continue
        out.append(one(a + c + i + d + b + '\n\nafter', 0))
    for (a, b), i in itertools.product(wrap, inner):
        out.append(one(a + i + b, 1))
        out.append(one('before\n\n' + a + i + b, 0))
    # every block kind as the last line, with and without a trailing terminator or blanks
    for i in inner + ['# H ##', '<image:a.png>', '<<#a>>', '// c', ".safeMode='1'", "= = '<u>|</u>'", '/a/=\'b\'', "|code|='-specials'", '.cls', '{m}=\'open', '``', '..', '""', '/*', '<div>']:
        for tail in ['', '\n', '\n\n', ' ', '  \n', '\r\n', '\r', '\n \n']:
            out.append(one('first\n\n' + i + tail, 0))
    return out


FAMILIES = {'unicode': fam_unicode, 'nesting': fam_nesting, 'redefs': fam_redefs, 'lists': fam_lists, 'dispatch': fam_dispatch, 'macros': fam_macros, 'repeat': fam_repeat, 'ids': fam_ids,
            'options': fam_options, 'blockdefs': fam_blockdefs, 'attrs': fam_attrs, 'inline': fam_inline}

_cache = {}


def family(name, quick, share=None):
    """All cases of a family (thorough) or every k-th one, k chosen so that about `share` remain (quick)."""
    if name not in _cache:
        _cache[name] = FAMILIES[name]()
    cs = _cache[name]
    if not quick or share is None or len(cs) <= share:
        return list(cs)
    k = max(1, len(cs) // share)
    return cs[::k]


if __name__ == '__main__':
    for n in FAMILIES:
        print(n, len(FAMILIES[n]()))

"""Streams R (table regexes) and P (author patterns through the Coq parser):
model search result vs CPython's re on grammar-directed strings."""
import json
import os
import random
import re
import re._parser as P
import re._constants as C
import sys
import warnings

sys.path.insert(0, os.path.dirname(os.path.abspath(__file__)))
from common import enc_str, dec_str, model_run, impl_run, COQ  # noqa: E402

warnings.simplefilter('ignore')

ALPHA = list('abcxyzABZ019 _-\t\n\\|<>()[]{}*+?.^$"\'`~#=:;/&@!,') + ['é', 'ß', 'K', 'ſ', 'İ', '٣', ' ', '日',
                                                                      ' ', '\x1c', '\x85']
CATS = {
    C.CATEGORY_SPACE: [' ', '\t', '\n', ' ', '\x1c'], C.CATEGORY_NOT_SPACE: ['a', '_', '<', '٣', 'é'],
    C.CATEGORY_WORD: ['a', 'Z', '0', '_', 'é', '٣', '日'], C.CATEGORY_NOT_WORD: [' ', '-', '<', '\n', '"'],
    C.CATEGORY_DIGIT: ['0', '7', '٣'], C.CATEGORY_NOT_DIGIT: ['a', ' ', '-'],
}


def gen_item(items, rng):
    neg = any(op is C.NEGATE for op, _ in items)
    pos = [(op, av) for op, av in items if op is not C.NEGATE]
    if neg:
        for _ in range(20):
            c = rng.choice(ALPHA)
            if re.fullmatch(class_src(items), c, re.S):
                return c
        return 'q'
    op, av = rng.choice(pos)
    if op is C.LITERAL:
        return chr(av)
    if op is C.RANGE:
        return chr(rng.choice([av[0], av[1], rng.randint(av[0], av[1])]))
    if op is C.CATEGORY:
        return rng.choice(CATS[av])
    return 'q'


def class_src(items):
    out = '['
    for op, av in items:
        if op is C.NEGATE:
            out += '^'
        elif op is C.LITERAL:
            out += '\\U%08x' % av
        elif op is C.RANGE:
            out += '\\U%08x-\\U%08x' % av
        elif op is C.CATEGORY:
            out += {C.CATEGORY_SPACE: r'\s', C.CATEGORY_NOT_SPACE: r'\S', C.CATEGORY_WORD: r'\w',
                    C.CATEGORY_NOT_WORD: r'\W', C.CATEGORY_DIGIT: r'\d', C.CATEGORY_NOT_DIGIT: r'\D'}[av]
    return out + ']'


def gen_seq(seq, rng, groups, pump):
    out = []
    for op, av in seq:
        if op is C.LITERAL:
            c = chr(av)
            if rng.random() < 0.05:
                c = rng.choice([c.upper(), c.lower(), 'K', 'ſ', rng.choice(ALPHA)])
            out.append(c)
        elif op is C.NOT_LITERAL:
            c = rng.choice(ALPHA)
            out.append(c if ord(c) != av or rng.random() < 0.1 else 'q')
        elif op is C.IN:
            out.append(gen_item(av, rng))
        elif op is C.ANY:
            out.append(rng.choice(ALPHA))
        elif op is C.BRANCH:
            out.append(gen_seq(rng.choice(av[1]), rng, groups, pump))
        elif op is C.SUBPATTERN:
            g, _, _, p = av
            t = gen_seq(p, rng, groups, pump)
            if g is not None:
                groups[g] = t
            out.append(t)
        elif op in (C.MAX_REPEAT, C.MIN_REPEAT):
            mn, mx, p = av
            hi = mn + 3 if mx is C.MAXREPEAT else min(mx, mn + 3)
            k = rng.randint(mn, hi)
            if pump and mx is C.MAXREPEAT and rng.random() < 0.3:
                k = rng.randint(5, pump)
            out.append(''.join(gen_seq(p, rng, groups, 0) for _ in range(k)))
        elif op is C.AT:
            pass
        elif op in (C.ASSERT, C.ASSERT_NOT):
            if op is C.ASSERT and rng.random() < 0.8:
                out.append(gen_seq(av[1], rng, groups, pump))  # approximate: emit the looked-ahead text
        elif op is C.GROUPREF:
            out.append(groups.get(av, ''))
    return ''.join(out)


def mutate(s, rng):
    s = list(s)
    for _ in range(rng.randint(0, 2)):
        r = rng.random()
        if s and r < 0.3:
            del s[rng.randrange(len(s))]
        elif r < 0.6:
            s.insert(rng.randint(0, len(s)), rng.choice(ALPHA))
        elif s:
            s[rng.randrange(len(s))] = rng.choice(ALPHA)
    return ''.join(s)


def text_for(pat, flags, rng, pump=0):
    try:
        p = P.parse(pat, flags)
    except Exception:
        return ''.join(rng.choice(ALPHA) for _ in range(rng.randint(0, 8)))
    t = gen_seq(p.data, rng, {}, pump)
    if rng.random() < 0.5:
        t = mutate(t, rng)
    r = rng.random()
    pre = ''.join(rng.choice(ALPHA) for _ in range(rng.randint(0, 4))) if r < 0.4 else ''
    suf = ''.join(rng.choice(ALPHA) for _ in range(rng.randint(0, 4))) if rng.random() < 0.4 else ''
    return pre + t + suf


def parse_model_match(line):
    toks = line.split(' ')
    if toks[0] == 'N':
        return None
    assert toks[0] == 'M', line
    return [int(toks[1]), int(toks[2])] + [None if t == '-' else dec_str(t) for t in toks[3:]]


def stream_R(n_per, seed, pump=0):
    """cases and python-side descriptions for every table regex"""
    with open(os.path.join(COQ, 'Gen', 'regex_table.json')) as f:
        tbl = json.load(f)
    tbl = dict(tbl)
    import importlib
    sys.path.insert(0, os.path.join(os.environ.get('RIMU_REPO', '/repo'), 'src'))
    q = importlib.import_module('rimu.quotes')
    q.init()
    tbl['quotesRe_default'] = [q.quotesRe.pattern, 0]
    tbl['unescapeRe_default'] = [q.unescapeRe.pattern, 0]
    rng = random.Random(seed)
    lines, pyc = [], []
    for name in sorted(tbl):
        pat, fl = tbl[name]
        for _ in range(n_per):
            t = text_for(pat, fl, rng, pump)
            pos = rng.choice([0, 0, 0, 1, 2]) if t else 0
            lines.append('R %s %d %s' % (name, pos, enc_str(t)))
            pyc.append({'kind': 'R', 'pat': pat, 'flags': fl, 'text': t, 'pos': pos, 'name': name})
    return lines, pyc


PIECES = ['a', 'b', 'x', '.', '\\d', '\\w', '\\s', '\\S', '\\W', '\\D', '[a-c]', '[^a]', '[\\w-]', '[]a]', '[a-]', '\\.',
          '\\\\', '\\b', '(a)', '(?:ab)', '(a|b)', '(?=x)', '(?!x)', '(a)(b)', '^', '$', '\\n', '\\t', '{', '}', 'a{2}',
          'a{1,}', 'a{,2}', 'a{2,1}', '{2}', 'é', 'K', 'k', 's', '-', '\\1', '\\2', '(', ')', '[', ']', '|', '*', '+',
          '?', '*?', '+?', '??', '\\q', '\\B', '\\Z', '\\A', '(?P<n>a)', '(?i)', '(?<=a)', '\\x41', '\\0', '[z-a]',
          '[\\d-x]', '[a\\]b]', '\\', 'foo', '.*', '.+?', '(.*)', '(x+)', '[^\\s|]+', '\\$', '\\{', '\\}', '\\/', 'a++']
KNOWN = ['\\\\?\\.{3}', "\\\\?\\B'\\b(.+?)\\b'\\B", 'foo', '(^|\\n)\\\\?\\/\\/.*(?=\\n|$)', '(', '(a)|b', 'x*', '[',
         'x{2,}yz', '..x', '.*z', '\\d+', 'a.*', '^a.*$', '^$', '^[$', '(x+)', 'a|b', '^(a|b)*$', '(a*)*b', '(a|ab)(c|bcd)(d*)']


def rand_pattern(rng):
    if rng.random() < 0.15:
        return rng.choice(KNOWN)
    return ''.join(rng.choice(PIECES) + rng.choice(['', '', '', '*', '+', '?', '*?', '{2}']) for _ in range(rng.randint(1, 5)))


def stream_P(n, seed):
    rng = random.Random(seed)
    lines, pyc = [], []
    for _ in range(n):
        pat = rand_pattern(rng)
        ic = rng.random() < 0.2
        ml = rng.random() < 0.2
        t = text_for(pat, (re.I if ic else 0) | (re.M if ml else 0), rng)
        lines.append('P %s %d %d %s' % (enc_str(pat), ic, ml, enc_str(t)))
        pyc.append({'kind': 'P', 'pat': pat, 'ic': ic, 'ml': ml, 'text': t})
    return lines, pyc


FUN_ALPHA = ' \t\n\r\x0b\x0c\x1c\x1d\x1e\x1f\x85\xa0\u1680\u2000\u2028\u2029\u202f\u205f\u3000\x00\x01\x02' \
            'abzABZ09_-.,;:!?&<>"\'/\\|*#>`~=+()[]{}$@%^' \
            '\xdf\xe9\xc9\u0130\u0131\u01c5\u03a3\u03c3\u03c2\u0386\u1e9e\u212a\u2126\ufb01\u0410\u0430\u4e2d\U00010400\U0001f600'


def fun_text(rng, lo=0, hi=14, alpha=FUN_ALPHA):
    return ''.join(rng.choice(alpha) for _ in range(rng.randint(lo, hi)))


def stream_F(n, seed):
    """library functions of the model against the interpreter / the rimu helpers: str.lower, strip, replace, the special-
    character escape, the reader's line splitting and blanking, slugify with a registry, the two content filters"""
    rng = random.Random(seed)
    # every code point of the generated lower-case table, in context, once per run
    lines, pyc = [], []

    def add(fn, *args):
        lines.append('F %s %s' % (fn, ' '.join(enc_str(a) for a in args)))
        pyc.append({'kind': 'F', 'fn': fn, 'args': list(args)})
    for _ in range(n):
        t = fun_text(rng)
        if 'Σ' in t or 'İ' in t:      # context-sensitive lower-casing: excluded from the model (DESIGN 0.8)
            t = t.replace('Σ', 's').replace('İ', 'i')
        add('lower', t)
        add(rng.choice(['strip', 'lstrip', 'rstrip']), fun_text(rng, 0, 10, ' \t\n\x0b\x0c\r\x1c\x1f\x85\xa0\u2003\u3000ab.'))
        add('escape', fun_text(rng, 0, 12, '&<>ab"\' ;'))
        old = fun_text(rng, 1, 2, 'ab&#')
        add('replace', old, fun_text(rng, 0, 3, 'xy#'), fun_text(rng, 0, 12, 'ab&#x'))
        add('reader', fun_text(rng, 0, 16, 'ab \n\n\r\r\x00\x01\x02\u2028\x0b\x0c\x85'))
        ids = [fun_text(rng, 1, 4, 'ab-23x') for _ in range(rng.randint(0, 4))]
        title = fun_text(rng, 0, 10, 'aAbB -_!?2\xc9\xe9\u0410')
        if rng.random() < 0.5 and ids:
            title = rng.choice(ids).upper().replace('-', ' ')
        ids2 = ids + [i + '-2' for i in ids[:2]] + [i + '-3' for i in ids[:1]]
        add('slug', *(ids2 + [title.replace('Σ', 's').replace('İ', 'i')]))
        add('qpara', fun_text(rng, 0, 14, '>\\ ab\n\n'))
        ind = '\n'.join(' ' * rng.randint(0, 4) + fun_text(rng, 0, 5, 'ab \t') for _ in range(rng.randint(1, 4)))
        add('indent', ind)
        # the inline layer on its own: spans.render and macros.render with default definitions and two macros
        import gen
        mode = rng.choice([0, 0, 1, 2, 3, 5, 15])
        m_val = rng.choice(['V', '*v*', '$1 and $2:d$', '', 'a|b', '<b>', '{n}', '$$1'])
        n_val = rng.choice(['W', '`w`', '$1', '\\{m}'])
        text = gen.inline_text(rng).replace('\r', ' ')
        for fn in ('spans', 'macros'):
            lines.append('F %s %d %s %s %s' % (fn, mode, enc_str(m_val), enc_str(n_val), enc_str(text)))
            pyc.append({'kind': 'F', 'fn': fn, 'args': [str(mode), m_val, n_val, text]})
    return lines, pyc


def compare_F(mline, ires):
    if mline.startswith('ERR'):
        return 'model: ' + mline
    if 'error' in ires:
        return 'impl: %r' % (ires,)
    if 'o' in ires or mline.startswith('O ') or mline == 'F':
        # spans / macros: output text and number of diagnostics; a model out of fuel is the interpreter's recursion limit
        if mline == 'F':
            return None if ires.get('x') == 'Recursion' else ('SKIP' if 'o' in ires else 'model out of fuel, impl %r' % (ires,))
        if ires.get('x') == 'Recursion':
            return 'SKIP'
        if mline.startswith('X '):
            return None if 'x' in ires else 'model raises %s, impl %r' % (mline[2:], ires)
        if 'x' in ires:
            return 'impl raises %s, model %r' % (ires['x'], mline[:80])
        _, h, n = mline.split(' ')
        return None if (dec_str(h), int(n)) == (ires['o'], ires['n']) else 'model %r impl %r' % ((dec_str(h), int(n)), (ires['o'], ires['n']))
    if mline.startswith('X '):
        # the model names the assertion of a content filter Filter
        return None if ires.get('x') in (mline[2:], {'Filter': 'ExAssert'}.get(mline[2:])) else 'model raises %s, impl %r' % (mline[2:], ires)
    if 'x' in ires:
        return 'impl raises %s, model %r' % (ires['x'], mline[:60])
    v = ires['v']
    if isinstance(v, list):
        mv = [dec_str(t) for t in mline.split(' ')] if mline else []
    else:
        mv = dec_str(mline)
    return None if mv == v else 'model %r impl %r' % (mv, v)


def compare_R(mline, ires):
    if mline.startswith('ERR'):
        return 'model: ' + mline
    if 'm' not in ires:
        return 'impl: %r' % (ires,)
    mm = parse_model_match(mline)
    if mm != ires['m']:
        return 'model %r impl %r' % (mm, ires['m'])
    return None


def compare_P(mline, ires):
    """returns None (agree), 'SKIP' (unsupported), or a description"""
    if mline == 'U':
        return 'SKIP'
    if mline.startswith('ERR'):
        return 'model: ' + mline
    if ires.get('err') == 'recursion':
        return 'SKIP'
    if mline == 'E':
        return None if ires.get('err') else 'model rejects, impl accepts'
    if ires.get('err'):
        return 'model accepts, impl rejects'
    toks = mline.split(' ', 2)
    if int(toks[1]) != ires['groups']:
        return 'group count: model %s impl %s' % (toks[1], ires['groups'])
    mm = parse_model_match(toks[2])
    if mm != ires['m']:
        return 'model %r impl %r' % (mm, ires['m'])
    return None


if __name__ == '__main__':
    import collections
    from common import build
    build()
    n = int(sys.argv[1]) if len(sys.argv) > 1 else 100
    seed = int(sys.argv[2]) if len(sys.argv) > 2 else 1
    lines, pyc = stream_R(n, seed, pump=int(os.environ.get('PUMP', '0')))
    mo = model_run(lines)
    io_ = impl_run(pyc)
    bad = collections.Counter()
    for l, c, m, i in zip(lines, pyc, mo, io_):
        r = compare_R(m, i)
        if r:
            bad[c['name']] += 1
            if bad[c['name']] <= 2:
                print('R', c['name'], repr(c['pat']), c['flags'], repr(c['text']), c['pos'], r)
    print('R cases', len(lines), 'bad', sum(bad.values()), dict(bad))
    lines, pyc = stream_P(n * 20, seed)
    mo = model_run(lines)
    io_ = impl_run(pyc)
    bad = collections.Counter()
    shown = 0
    for l, c, m, i in zip(lines, pyc, mo, io_):
        r = compare_P(m, i)
        if r:
            bad[r[:30]] += 1
            if r != 'SKIP' and shown < 25:
                shown += 1
                print('P', repr(c['pat']), c['ic'], c['ml'], repr(c['text']), r)
    print('P cases', len(lines), dict(bad))
    lines, pyc = stream_F(n * 20, seed)
    mo = model_run(lines)
    io_ = impl_run(pyc)
    bad = collections.Counter()
    for l, c, m, i in zip(lines, pyc, mo, io_):
        r = compare_F(m, i)
        if r:
            bad[c['fn']] += 1
            if bad[c['fn']] <= 3:
                print('F', c['fn'], c['args'], r)
    print('F cases', len(lines), dict(bad))

#!/bin/sh
# run every quick check with several seeds; print only alarms
cd /verif
for seed in "$@"; do
  for p in C01 C02 C03 C04 C05 C06 C07 C08 C09 C10 C11 C12 C13 C14 C15 C16 C17 C18 C19 C20; do
    out=$(VERIF_SEED=$seed ./check $p --tier quick 2>&1 | grep -v "^KNOWN\|^WARNING")
    echo "$out" | grep -q VIOLATION && echo "seed=$seed $out"
  done
done
echo MULTISEED_DONE

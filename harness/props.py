"""Per-property specifications: correspondence streams + projection, oracle, search generators."""
import hashlib
import itertools
import json
import os
import random
import re

import common
import gen
from common import history_line, parse_history_output, compare_history, model_run, impl_run

TRUSTED_BASE = [
    'Coq 8.16.1 kernel incl. vm_compute (no native_compute); Print Assumptions parsed on every run',
    'no axioms: every property theorem is closed under the global context',
    'translator harness/regen.py (regexes, tables, guards, Unicode tables from the running interpreter)',
    'hand-written Gallina model of the control logic (coq/Model/*.v), validated by differential testing only',
    'extraction with ExtrOcamlBasic only (no Extract Constant/Inductive of our own), ocaml/driver.ml, ocamlfind ocamlopt',
    'correspondence harness, generators, canonicaliser and oracles (harness/*.py)',
    "CPython 3.12 `re`/`str` semantics as modelled in coq/Lib (validated by streams R and P)",
]
ASSUMPTIONS = [
    'theorems are about the model; model = code is established by the correspondence streams (testing)',
    'interpreter recursion depth, wall-clock time and memory are not modelled',
    "inputs containing U+03A3/U+0130 are excluded from correspondence (context-sensitive str.lower)",
]


class Ctx:
    def __init__(self, pid, tier, seed, model_ok=True):
        self.pid = pid
        self.tier = tier
        self.seed = seed
        self.model_ok = model_ok
        self.quick = tier == 'quick'

    def rng(self, stream):
        h = hashlib.sha1(('%s/%s/%d' % (self.pid, stream, self.seed)).encode()).hexdigest()
        return random.Random(int(h[:12], 16))


def case_hash(case):
    return hashlib.sha1(json.dumps(case, sort_keys=True).encode('utf-8', 'surrogatepass')).hexdigest()


def strip_case(c):
    return {k: v for k, v in c.items() if k in ('kind', 'calls', 'state', 'variants', 'meta')}


def nontrivial_result(res):
    if not res or 'calls' not in res:
        return True
    for c in res['calls']:
        if c.get('status') != 'ok':
            return True
        if c.get('log'):
            return True
        h = c.get('html', '')
        if re.search(r'<(?!/?p>)', h):
            return True
    return False


def excluded(case):
    for c in case.get('calls', []):
        if common.has_sigma(c.get('src', '')):
            return True
        for k in ('htmlReplacement', 'safeMode', 'reset'):
            v = c.get(k)
            if isinstance(v, str) and common.has_sigma(v):
                return True
    return False


class Spec:
    rule = ''
    assumptions = []
    state_keys = None          # None = compare the whole snapshot; [] = none
    timeout = 10

    # ---- to override
    def streams(self, ctx):
        return []

    def project(self, call):
        return (call.get('html'), call.get('log'))

    def oracle(self, ctx, case, impl, variants=()):
        """None, or (class, why) when the implementation violates the property on this case."""
        return None

    def search_cases(self, ctx, boost):
        return []

    # ---- shared machinery
    def _proj_state(self, st):
        if st is None:
            return None
        if self.state_keys is None:
            return st
        return {k: st.get(k) for k in self.state_keys}

    def compare(self, model, impl):
        m = dict(model)
        i = dict(impl)
        if 'state' in m and 'state' in i:
            m['state'] = self._proj_state(m['state'])
            i['state'] = self._proj_state(i['state'])
        return compare_history(m, i, project=self.project)

    def correspondence(self, ctx):
        out = {'cases': 0, 'disagreements': [], 'streams': {}, 'skipped': 0, 'samples': [], 'distinct_nontrivial': 0}
        seen = set()
        for name, cases in self.streams(ctx):
            cases = [c for c in cases if not excluded(c)]
            if not cases:
                continue
            mo = model_run([history_line(c) for c in cases], timeout=60)
            io_ = impl_run(cases, timeout=self.timeout)
            nd = 0
            for c, m, i in zip(cases, mo, io_):
                try:
                    pm = parse_history_output(m)
                except Exception as e:
                    pm = {'calls': [{'status': 'driver_error', 'msg': str(e)[:100] + ' ' + m[:100]}]}
                r = self.compare(pm, i)
                h = case_hash(strip_case(c))
                if h not in seen:
                    seen.add(h)
                    if nontrivial_result(i):
                        out['distinct_nontrivial'] += 1
                if r == 'SKIP':
                    out['skipped'] += 1
                elif r:
                    nd += 1
                    out['disagreements'].append({'stream': name, 'why': r, 'case': strip_case(c)})
            out['streams'][name] = {'cases': len(cases), 'disagreements': nd}
            out['cases'] += len(cases)
            if cases and len(out['samples']) < 3:
                out['samples'].append({'stream': name, 'case': strip_case(cases[len(cases) // 2])})
        return out

    def run_oracle(self, ctx, cases):
        """cases may carry 'variants': further histories run alongside, whose results the oracle compares"""
        cases = [c for c in cases if not excluded(c) and not any(excluded(v) for v in c.get('variants', []))]
        flat = []
        for c in cases:
            flat.append(strip_case(c))
            for v in c.get('variants', []):
                flat.append(strip_case(v))
        res = impl_run(flat, timeout=self.timeout)
        fails = []
        nt = 0
        seen = set()
        k = 0
        for c in cases:
            r = res[k]
            k += 1
            vr = []
            for v in c.get('variants', []):
                vr.append(res[k])
                k += 1
            h = case_hash(strip_case(c))
            if h not in seen:
                seen.add(h)
                if nontrivial_result(r):
                    nt += 1
            try:
                o = self.oracle(ctx, c, r, vr)
            except Exception as e:  # an oracle crash is a harness bug, never a violation
                o = None
                self._oracle_errors = getattr(self, '_oracle_errors', 0) + 1
                self._oracle_last_error = repr(e)
            if o:
                kc = strip_case(c)
                if c.get('variants'):
                    kc['variants'] = [strip_case(v) for v in c['variants']]
                if c.get('meta'):
                    kc['meta'] = c['meta']
                fails.append({'class': o[0], 'why': o[1], 'case': kc})
        return fails, nt, len(flat)

    def search(self, ctx, extra_cases, boost):
        cases = list(extra_cases) + list(self.search_cases(ctx, boost))
        fails, nt, n = self.run_oracle(ctx, cases)
        out = {'cases': n, 'failures': fails, 'distinct_nontrivial': nt, 'samples': [], 'distribution': {}}
        if cases:
            out['samples'] = [{'oracle_case': strip_case(cases[len(cases) // 2])}]
        if getattr(self, '_oracle_errors', 0):
            out['distribution']['oracle_errors'] = self._oracle_errors
            out['distribution']['oracle_last_error'] = self._oracle_last_error
        return out

    def check_witness(self, ctx, entry):
        case = entry.get('witness')
        if not case:
            return None
        fails, _, _ = self.run_oracle(ctx, [case])
        for f in fails:
            if entry.get('status') == 'fixed' or f['class'] == entry.get('class'):
                return f['why']
        return None

    def explained_by_known(self, ctx, b, known_classes):
        if b.get('kind') != 'correspondence' or not b.get('case'):
            return False
        fails, _, _ = self.run_oracle(ctx, [b['case']])
        return bool(fails) and all(f['class'] in known_classes for f in fails)

    def replay(self, ctx, rp):
        """Returns a description when the replayed case still fails, else None."""
        case = rp.get('case')
        if not case:
            br = rp.get('broken') or []
            case = next((b.get('case') for b in br if b.get('case')), None)
            if not case:
                return None
        fails, _, _ = self.run_oracle(ctx, [case])
        if fails:
            return fails[0]['why']
        if ctx.model_ok:
            mo = model_run([history_line(case)])
            io_ = impl_run([case], timeout=self.timeout)
            r = self.compare(parse_history_output(mo[0]), io_[0])
            if r and r != 'SKIP':
                return 'model and implementation differ: ' + r
        return None


def sizes(ctx, quick, thorough):
    return quick if ctx.quick else thorough


def corpus_stream(ctx):
    return ('J', gen.corpus_cases() + gen.saved_corpus('all') + gen.saved_corpus(ctx.pid))


# ---------------------------------------------------------------------------
# C20 -- options validated, persist until reset, not settable from safe mode

DEFAULT_REPL = '<mark>replaced HTML</mark>'
C20_DOCS = ['x', ".safeMode='3'", ".safeMode='0'", ".safeMode='16'", ".safeMode='abc'", ".htmlReplacement='R'",
            ".reset='true'", ".reset='junk'", ".safeMode='3'\n.safeMode='0'", ".safeMode=' 7 '\n<b>"]
C20_MODES = [None, 0, 1, 5, 15, 16, -1, 'abc', '3', ' 7 ', True, {'f': '1.0'}, {'f': '2.5'}, '1_0', '']
C20_RESETS = [None, True, False, 'true', 'false', 'junk', 1, 0]
C20_REPLS = [None, 'R2']


def py_int_legal(v):
    """the property's notion of a legal safe mode given as an API option value"""
    if isinstance(v, dict):
        v = float(v['f'])
    try:
        n = int(str(v))
    except Exception:
        return None
    return n if 0 <= n <= 15 else None


def c20_ops(ctx):
    ops = []
    for d in C20_DOCS:
        ops.append({'src': d, 'cb': True})
    for m in C20_MODES[1:]:
        ops.append({'src': 'x', 'safeMode': m, 'cb': True})
    for r in C20_RESETS[1:]:
        ops.append({'src': 'x', 'reset': r, 'cb': True})
    ops.append({'src': 'x', 'htmlReplacement': 'R2', 'cb': True})
    ops.append({'src': ".safeMode='2'", 'safeMode': 0, 'reset': True, 'cb': True})
    ops.append({'src': ".htmlReplacement='Q'", 'safeMode': 9, 'cb': True})
    ops.append({'src': "x", 'safeMode': 'abc', 'reset': 'junk', 'cb': False})
    ops.append({'src': ".safeMode='4'", 'safeMode': 16, 'reset': True, 'htmlReplacement': 'Z', 'cb': True})
    return ops


class C20(Spec):
    level_text = ('Full strength for the option state machine: theorems C20_range (every reachable session has mode -1 or 0..15), '
                  'C20_reject_unchanged / C20_accept (a value is accepted iff it is the decimal form of 0..15; rejection logs exactly one '
                  'diagnostic and changes nothing else), C20_persist, C20_reset_defaults, C20_reset_then_options, C20_doc_gate (via the frame '
                  'theorem over the whole block layer with the *generated* guards) and C20_update_total. The model is tied to the code by '
                  'exhaustive operation sequences (length<=2 complete, 3-4 sampled) compared on safeMode/htmlReplacement/diagnostics.')
    rule = ('exhaustive sequences (length <= 3 quick, <= 4 thorough, sampled beyond the budget) over an alphabet of '
            'render operations: option values legal/out-of-range/non-numeric/float/bool, reset values, '
            'documents with .safeMode/.htmlReplacement/.reset elements; plus random token-soup histories; '
            'non-trivial = produces a tag other than <p>, a diagnostic or a raise; distinct by case hash')
    state_keys = ['mode', 'repl']
    assumptions = ['C20 correspondence projects on (status, option diagnostics, safeMode, htmlReplacement)']

    def project(self, call):
        return [m for m in (call.get('log') or []) if 'API option' in m[1]]

    def _seqs(self, ctx):
        ops = c20_ops(ctx)
        rng = ctx.rng('seq')
        seqs = [[o] for o in ops] + [[a, b] for a in ops for b in ops]
        n3 = sizes(ctx, 1500, 40000)
        for _ in range(n3):
            k = rng.choice([3, 3, 4]) if not ctx.quick else 3
            seqs.append([rng.choice(ops) for _ in range(k)])
        return [{'kind': 'H', 'calls': s, 'state': True} for s in seqs]

    def streams(self, ctx):
        rng = ctx.rng('H')
        return [corpus_stream(ctx),
                ('opseq', self._seqs(ctx)),
                ('H', [gen.history(rng, 4) for _ in range(sizes(ctx, 400, 20000))])]

    def search_cases(self, ctx, boost):
        return self._seqs(ctx)

    def oracle(self, ctx, case, impl, variants=()):
        """Reference for the statement on the restricted alphabet: mode after the session, diagnostics."""
        if impl.get('timeout'):
            return ('C20/timeout', 'render did not return')
        mode, repl = None, None
        calls = impl.get('calls', [])
        for k, c in enumerate(case['calls']):
            if k >= len(calls) or calls[k].get('status') != 'ok':
                return None   # raising is C01's concern
            docs_ok = all(l in C20_DOCS_LINES for l in c['src'].split('\n'))
            if not docs_ok:
                return None
            if mode is None:
                mode, repl = 0, DEFAULT_REPL
            expect_diag = []
            r = c.get('reset')
            rv = float(r['f']) if isinstance(r, dict) else r
            if rv is None or rv is False or rv == 0 or rv == 'false':
                pass
            elif rv is True or rv == 1 or rv == 'true':
                mode, repl = 0, DEFAULT_REPL
            else:
                expect_diag.append('illegal reset API option value')
            sm = c.get('safeMode')
            if sm is not None:
                n = py_int_legal(sm)
                if n is None:
                    expect_diag.append('illegal safeMode API option value')
                else:
                    mode = n
            if c.get('htmlReplacement') is not None:
                repl = str(c['htmlReplacement'])
            for line in c['src'].split('\n'):
                m = re.match(r"^\.(\w+)\s*=\s*'(.*)'$", line)
                if not m or mode != 0:
                    continue
                name, val = m.group(1), m.group(2)
                if name == 'safeMode':
                    n = py_int_legal(val)
                    if n is None:
                        expect_diag.append('illegal safeMode API option value')
                    else:
                        mode = n
                elif name == 'htmlReplacement':
                    repl = val
                elif name == 'reset':
                    if val == 'true':
                        mode, repl = 0, DEFAULT_REPL
                        expect_diag = [d for d in expect_diag]  # later diagnostics are lost with the callback
                        break_after_reset = True
                    elif val != 'false':
                        expect_diag.append('illegal reset API option value')
            got = [m[1] for m in calls[k].get('log', []) if 'API option' in m[1]]
            if c.get('cb') and '.reset' not in c['src'] and c.get('reset') in (None, False, 'false', 0):
                # every illegal value must be reported (callback installed for the whole call)
                for d in expect_diag:
                    if not any(g.startswith(d) for g in got):
                        return ('C20/missing-diagnostic', 'call %d: expected diagnostic %r, got %r' % (k, d, got))
        st = impl.get('state')
        if st is not None and mode is not None:
            if not (isinstance(st['mode'], int) and 0 <= st['mode'] <= 15):
                return ('C20/out-of-range', 'safeMode is %r after the session' % (st['mode'],))
            if st['mode'] != mode:
                return ('C20/wrong-mode', 'safeMode is %r after the session, the statement gives %r' % (st['mode'], mode))
            if st['repl'] != repl:
                return ('C20/wrong-replacement', 'htmlReplacement is %r, the statement gives %r' % (st['repl'], repl))
        return None


C20_DOCS_LINES = set(l for d in C20_DOCS for l in d.split('\n')) | {".safeMode='2'", ".htmlReplacement='Q'", ".safeMode='4'"}


import oracles as O

POLICY_MODES = [1, 2, 3, 5, 6, 7, 9, 10, 11, 13, 14, 15]
SENT = '@@R@@'


def H(calls, state=False, **kw):
    d = {'kind': 'H', 'calls': calls, 'state': state}
    d.update(kw)
    return d


def call(src, **o):
    c = {'src': src}
    c.update(o)
    return c


def all_ok(impl, n=None):
    if impl.get('timeout') or 'calls' not in impl:
        return False
    cs = impl['calls']
    if n is not None and len(cs) < n:
        return False
    return all(c.get('status') == 'ok' for c in cs)


# ---------------------------------------------------------------------------
# C01 -- render is total

C01_CURATED = [
    ("- item\n\n.+container\n> - nested\n- item2", dict(safeMode=1)),
    (".+spans\n<div>x</div>", dict(safeMode=2, htmlReplacement='\x00')),
    ("{m}='$" + '1' * 5000 + "'\n{m|x}", dict(safeMode=8)),
    ("/x*/='y'\nabc", dict(safeMode=0)),
    ("/(/='x'", dict(safeMode=0)),
    ("/(a)|b/='[$1]'\nab", dict(safeMode=0)),
    ("http://a.b/c " * 1200, dict(safeMode=1)),
    ("*a* " * 1200, dict(safeMode=1)),
    ("{v}='x'\n{v=a{4294967296\\}}", dict(safeMode=0)),
    ("<b>", dict(safeMode=2, htmlReplacement=42)),
]


class C01(Spec):
    level_text = ('Partial. Proved: C01_update_total (option handling never fails for any option values), C01_range/ids invariants '
                  'used by the no-raise argument; the raise sites of the model are explicit (exn type) and the correspondence compares '
                  'ok/raise-kind/timeout of model and implementation on token-soup histories, degenerate definitions and pumped inputs. '
                  'Not proved: absence of Raise for every input (the unchanged code does raise, see known findings); interpreter recursion '
                  'depth is outside the model and is observed through the implementation only.')
    rule = ('token-soup histories with legal and illegal option values, degenerate quote/replacement/block definitions, repeated '
            'elements; each also run without callback; non-trivial = tag other than <p>, diagnostic or raise')
    state_keys = []

    def project(self, call):
        return call.get('html')

    def streams(self, ctx):
        rng = ctx.rng('H')
        return [corpus_stream(ctx), ('H', [gen.history(rng, 4) for _ in range(sizes(ctx, 1200, 40000))]),
                ('D', [gen.degenerate_history(rng) for _ in range(sizes(ctx, 300, 8000))])]

    def search_cases(self, ctx, boost):
        rng = ctx.rng('search')
        out = []
        n = sizes(ctx, 700, 30000) * (3 if boost else 1)
        for k in range(n):
            h = gen.history(rng, 3) if k % 4 else gen.degenerate_history(rng)
            v = {'kind': 'H', 'state': False, 'calls': [dict(c, cb=False) for c in h['calls']]}
            h = dict(h, state=False, variants=[v])
            out.append(h)
        for h in gen.repeated_elements(ctx.quick):
            out.append(h)
        for src, o in C01_CURATED:
            out.append(H([call(src, cb=True, reset=True, **o)]))
        return out

    def oracle(self, ctx, case, impl, variants=()):
        if impl.get('timeout'):
            return None   # C02's concern
        for k, c in enumerate(impl.get('calls', [])):
            if c.get('status') != 'ok':
                return ('C01/raise:%s' % c.get('exn'), 'call %d raises %s: %s' % (k, c.get('exn'), c.get('msg', '')[:120]))
        if variants and all_ok(variants[0]) and not variants[0].get('timeout'):
            a = [c['html'] for c in impl['calls']]
            b = [c['html'] for c in variants[0]['calls']]
            if a != b:
                return ('C01/callback-changes-output', 'HTML differs with and without callback')
        return None


# ---------------------------------------------------------------------------
# C03 / C06 -- output grammar

class C03(Spec):
    level_text = ('Partial. Proved over the model: escape_confined (replaceSpecialChars output contains no raw <, >, and every & starts an '
                  'entity), C03_guards (in every non-zero mode -specials is refused, raw [html-attributes] are ignored, definition elements '
                  'are skipped -- facts recomputed from the generated guards), C03_policy (the HTML filter returns nothing, the replacement '
                  'or escaped text for policies 1,2,3). The full Forest theorem for render is not proved; the output grammar is checked by the '
                  'tokeniser oracle on the implementation and the model is compared on full HTML at the 12 policy modes.')
    rule = ('token-soup and attribute/URL-injection documents x 12 policy modes x replacement sentinel; output tokenised with the '
            'strict grammar of DESIGN appendix B; non-trivial = output contains a tag other than <p>')
    state_keys = []

    def project(self, call):
        return call.get('html')

    def _cases(self, ctx, n, stream):
        rng = ctx.rng(stream)
        out = []
        for _ in range(n):
            m = rng.choice(POLICY_MODES)
            k = rng.randint(1, 3)
            calls = [call(gen.soup_doc(rng, 8), safeMode=m if j == 0 else None, reset=True if j == 0 else None,
                          htmlReplacement=SENT if j == 0 else None, cb=True) for j in range(k)]
            out.append(H(calls))
        return out

    def streams(self, ctx):
        return [corpus_stream(ctx), ('T', self._cases(ctx, sizes(ctx, 1200, 60000), 'T'))]

    def search_cases(self, ctx, boost):
        return self._cases(ctx, sizes(ctx, 1500, 60000) * (3 if boost else 1), 'S') + gen.injection_cases(POLICY_MODES, SENT)

    def oracle(self, ctx, case, impl, variants=()):
        if not all_ok(impl):
            return None
        for k, c in enumerate(impl['calls']):
            e = O.confined(c['html'], SENT)
            if e:
                return ('C03/' + e[0], 'call %d output breaks the grammar: %s: %r' % (k, e[0], e[1]))
        return None


class C06(Spec):
    level_text = ('Partial. Proved: fragQuote_structure lemmas are not yet available; the claim rests on the balanced-tag oracle over the '
                  'implementation and the model/implementation comparison on full HTML. Listed as proof-level only for the emitted-tag '
                  'table facts (every generated open tag has its close tag in the same definition, checked on the generated tables).')
    rule = ('token-soup documents at the 12 HTML-filtering modes, and <-free token soup at mode 0 without definitions; tag stack over '
            'the tokenised output; non-trivial = output contains a tag other than <p>')
    state_keys = []

    def project(self, call):
        return call.get('html')

    def _cases(self, ctx, n, stream):
        rng = ctx.rng(stream)
        out = []
        for _ in range(n):
            if rng.random() < 0.6:
                m = rng.choice(POLICY_MODES)
                out.append(H([call(gen.soup_doc(rng, 10), safeMode=m, reset=True, htmlReplacement=SENT, cb=True)]))
            else:
                src = gen.soup_doc(rng, 10, no_lt=True, no_defs=True)
                out.append(H([call(src, safeMode=0, reset=True, cb=True)]))
        return out

    def streams(self, ctx):
        return [corpus_stream(ctx), ('T', self._cases(ctx, sizes(ctx, 1200, 60000), 'T'))]

    CURATED = ["{m} = '$$1'\n*x {m|__a* b__}", "{m} = '$$1'\n{m|*a\nb*} x {--!}", "{m}='$$1'\n_a {m|*b_ c*}",
               "{m}='*x'\n{m} y*", "{m}='$1'\n*a {m|b* c}", "- *a\n- b*", "*a\n\nb*", "..\n*a\n..\nb*", "a::*b\nc*"]

    def search_cases(self, ctx, boost):
        cur = [H([call(src, safeMode=0, reset=True, cb=True)]) for src in self.CURATED]
        return cur + self._cases(ctx, sizes(ctx, 1500, 60000) * (3 if boost else 1), 'S')

    def oracle(self, ctx, case, impl, variants=()):
        if not all_ok(impl):
            return None
        for k, c in enumerate(impl['calls']):
            e = O.balanced(c['html'], SENT, lenient=(case['calls'][k].get('safeMode') == 0))
            if e:
                return ('C06/' + e[0].split(':')[0], 'call %d: %s: %s in %r' % (k, e[0], e[1], c['html'][:200]))
        return None


# ---------------------------------------------------------------------------
# C04 -- safe-mode input cannot change definitions or options

PROBES = ["*a* _b_ `c` ~~d~~ **e** __f__ =g= #h# !i!", "[l](http://u.v) <http://w.x> foo ... x+ xx &amp; <b>t</b>",
          "``\ncode {m}\n``", "..\ndiv *x*\n..", "\"\"\nq\n\"\"", "  indented\n\n> qp\n\n<div>h</div>",
          "{m} {n} {m|a|b} {--}", "para *p* <i>raw</i> <!-- c -->"]
PREAMBLE_LINES = [l for l in gen.LINES if re.match(r"^(\{[\w-]+\??\}\s*=\s*'.*'|\|[\w-]+\|\s*=|/.+/[igm]*\s*=|\S{1,2}\s*=\s*'[^|]*\|)", l)
                  and not l.startswith('\\') and l not in ("{m}='", "{m} = 'multi", "/(/='x'")]
UNTRUSTED_EXTRA = ["|paragraph|='<p class=\"x\">|</p>'", "= = '<u>|</u>'", "/foo/='bar'", ".safeMode='0'", ".htmlReplacement='Z'",
                   ".reset='true'", "{m}='evil'", "{m?}='evil'", "{new}='n'", "{--header-ids}='y'", "|code|='-macros'",
                   "* = '<b>|</b>'", "/x+/i='y'", "{m}='", "two'", "|division|='<section>|</section>'"]


class C04(Spec):
    level_text = ('Full for the frame statement over the model: C04_frame (for every fuel, source and session with a non-zero safe mode, '
                  'document.render leaves safeMode, htmlReplacement, the quote, replacement and delimited-block definitions unchanged -- '
                  'proved through the frame theorem over every block-layer function, with the conditions on writers stated in terms of the '
                  '*generated* guards), C04_macros (macro table unchanged unless bit 8), C04_api (same at the render API after the call\'s '
                  'own options). "No later document renders differently" is decided by the oracle (probe battery before/after) and the '
                  'model/implementation comparison of full state snapshots.')
    rule = ('trusted preamble (definitions at mode 0) . untrusted token soup biased to definition/option lines at each of the 15 non-zero '
            'modes . flush . probe battery; compared with the same session without the untrusted document; state snapshots compared; '
            'non-trivial = tag other than <p>, diagnostic or raise')
    state_keys = ['mode', 'repl', 'quotes', 'repls', 'dblocks', 'macros']

    def project(self, call):
        return None

    def _case(self, rng):
        pre = '\n'.join(rng.sample(PREAMBLE_LINES, rng.randint(0, 4)))
        m = rng.randint(1, 15)
        lines = []
        for _ in range(rng.randint(1, 6)):
            lines.append(rng.choice(UNTRUSTED_EXTRA) if rng.random() < 0.6 else gen.soup_doc(rng, 2))
        unt = '\n'.join(lines)
        later0 = rng.random() < 0.3
        tail = [call('x', cb=True)] + [call(p, cb=True) for p in PROBES]
        if later0:
            tail = tail + [call(PROBES[0], safeMode=0, cb=True), call(PROBES[6], cb=True), call(PROBES[3], cb=True)]
        main = H([call(pre, safeMode=0, reset=True, cb=True), call(unt, safeMode=m, cb=True)] + tail, state=True)
        base = H([call(pre, safeMode=0, reset=True, cb=True), call('', safeMode=m, cb=True)] + tail, state=True)
        main['variants'] = [base]
        main['meta'] = {'mode': m}
        return main

    def streams(self, ctx):
        rng = ctx.rng('H')
        cs = []
        for _ in range(sizes(ctx, 500, 25000)):
            c = self._case(rng)
            cs.append(c)
            cs.append(c['variants'][0])
        return [corpus_stream(ctx), ('H', cs)]

    def search_cases(self, ctx, boost):
        rng = ctx.rng('S')
        return [self._case(rng) for _ in range(sizes(ctx, 600, 25000) * (3 if boost else 1))]

    def oracle(self, ctx, case, impl, variants=()):
        if not variants or not all_ok(impl) or not all_ok(variants[0]):
            return None
        a, b = impl['calls'], variants[0]['calls']
        if len(a) != len(b):
            return None
        bit8 = bool(case['meta']['mode'] & 8)
        for k in range(3, len(a)):
            src = case['calls'][k]['src']
            if bit8 and '{' in src:
                continue   # macros may legitimately change under bit 8
            if a[k]['html'] != b[k]['html']:
                return ('C04/later-document-differs', 'probe %r renders %r after the untrusted document, %r without it'
                        % (src, a[k]['html'][:120], b[k]['html'][:120]))
        sa, sb = impl.get('state'), variants[0].get('state')
        if sa and sb:
            for key in ['mode', 'repl', 'quotes', 'repls', 'dblocks'] + ([] if bit8 else ['macros']):
                if sa.get(key) != sb.get(key):
                    return ('C04/state-changed:' + key, '%s changed: %r vs %r' % (key, sa.get(key), sb.get(key)))
        return None


# ---------------------------------------------------------------------------
# C05 -- reset makes render a pure function

class C05(Spec):
    level_text = ('Full for the state: C05_reset_state (after updateFrom with a truthy reset the session equals the freshly initialised one '
                  'with the call\'s options applied, except for the diagnostic log prefix and the list-id scratch stack, from *any* prior '
                  'state including the uninitialised one) and C05_init_total_overwrite (document_init overwrites every field). That '
                  'document.render does not read the two excepted fields is checked by correspondence and oracle (arbitrary histories vs a '
                  'fresh interpreter), as is Python aliasing of default objects, which the model cannot exhibit.')
    rule = ('random histories of 1-4 calls (redefinitions, ids, pending attributes, unterminated blocks, illegal options) followed by a call '
            'with reset=true; oracle compares with the same call alone in a fresh interpreter; non-trivial as usual')
    state_keys = None

    def _case(self, rng):
        h = gen.history(rng, 4)
        last = gen.rand_opts(rng, legal_only=rng.random() < 0.7)
        last['reset'] = rng.choice([True, 'true', 1])
        last['src'] = gen.soup_doc(rng, 8)
        last['cb'] = True
        main = H(h['calls'] + [last], state=True)
        main['variants'] = [H([last], state=True)]
        return main

    def streams(self, ctx):
        rng = ctx.rng('H')
        cs = []
        for _ in range(sizes(ctx, 500, 20000)):
            c = self._case(rng)
            cs.append(c)
        return [corpus_stream(ctx), ('H', cs)]

    def search_cases(self, ctx, boost):
        rng = ctx.rng('S')
        return [self._case(rng) for _ in range(sizes(ctx, 800, 30000) * (3 if boost else 1))] + gen.reset_adversaries()

    def oracle(self, ctx, case, impl, variants=()):
        if not variants or not all_ok(impl) or not all_ok(variants[0]):
            return None
        a, b = impl['calls'][-1], variants[0]['calls'][-1]
        if a['html'] != b['html']:
            return ('C05/output-depends-on-history', 'with reset: %r after the history, %r in a fresh interpreter'
                    % (a['html'][:150], b['html'][:150]))
        if a['log'] != b['log']:
            return ('C05/diagnostics-depend-on-history', '%r vs %r' % (a['log'][:4], b['log'][:4]))
        return None


# ---------------------------------------------------------------------------
# C13 -- the three HTML policies differ only at the HTML elements

class C13(Spec):
    level_text = ('Partial. Proved: C13_policy_cases (the policy function is the only place where the low two bits of the safe mode are '
                  'consulted: html_policy is total over the generated selector and the three non-raw policies return nothing / the replacement '
                  '/ the escaped text); non-interference of the filter result with surrounding markup is not proved (relational argument over '
                  'the placeholder protocol); decided by the alignment oracle and full-HTML correspondence at modes 1,2,3 + {0,4,8,12}.')
    rule = ('token-soup sources rendered at modes 1,2,3 + {0,4,8,12} with a fresh sentinel replacement; outputs aligned around sentinel '
            'occurrences modulo newlines; non-trivial = source contains an HTML element')
    state_keys = []

    def project(self, call):
        return call.get('html')

    def _case(self, rng):
        hi = rng.choice([0, 4, 8, 12])
        src = gen.soup_doc(rng, 8)
        mk = lambda m: H([call(src, safeMode=m + hi, reset=True, htmlReplacement=SENT, cb=False)])
        main = mk(2)
        main['variants'] = [mk(1), mk(3)]
        return main

    def streams(self, ctx):
        rng = ctx.rng('T')
        cs = []
        for _ in range(sizes(ctx, 400, 20000)):
            c = self._case(rng)
            cs += [c] + c['variants']
        return [corpus_stream(ctx), ('T', cs)]

    CURATED = [".cls\n<div>x</div>\n\npara", "*<br> a*", "`<br>`", "<div>\n<p>\nx\n</div>\n\nnext", "a <b>b</b> *c* <!-- d -->",
               "<!-- c1\nc2 -->\n\npara", "- <i>x</i>\n- y", "**<!-- c --> strong**", "_text <br>_"]

    def search_cases(self, ctx, boost):
        rng = ctx.rng('S')
        cur = []
        for src in self.CURATED:
            for hi in (0, 4, 8, 12):
                mk = lambda m: H([call(src, safeMode=m + hi, reset=True, htmlReplacement=SENT, cb=False)])
                c = mk(2)
                c['variants'] = [mk(1), mk(3)]
                cur.append(c)
        return cur + [self._case(rng) for _ in range(sizes(ctx, 1000, 30000) * (3 if boost else 1))]

    def oracle(self, ctx, case, impl, variants=()):
        if len(variants) < 2 or not all_ok(impl) or not all_ok(variants[0]) or not all_ok(variants[1]):
            return None
        src = case['calls'][0]['src']
        if SENT in src:
            return None
        o2 = impl['calls'][0]['html'].replace('\n', '')
        o1 = variants[0]['calls'][0]['html'].replace('\n', '')
        o3 = variants[1]['calls'][0]['html'].replace('\n', '')
        segs = o2.split(SENT)
        if ''.join(segs) != o1:
            return ('C13/drop-vs-replace', 'drop gives %r, replace gives %r' % (o1[:200], o2[:200]))
        pat = '(?:&lt;[\\s\\S]*?)'.join(re.escape(x) for x in segs)
        if not re.fullmatch(pat, o3):
            return ('C13/escape-vs-replace', 'escape gives %r, replace gives %r' % (o3[:200], o2[:200]))
        return None


# ---------------------------------------------------------------------------
# C14 -- rendering in parts equals rendering whole

class C14(Spec):
    level_text = ('Partial. Proved: C14_state_carries (render initialises only when the mode is -1; with no reset and no options the call '
                  'leaves the whole session untouched before rendering -- updateFrom_persist), so split and joined renders start B from the '
                  'same definitions; the block-loop decomposition lemma (L8) is not proved. Decided by the split-vs-joined oracle and '
                  'correspondence on pairs and triples.')
    rule = ('pairs/triples of token-soup documents, A closed (checked by rendering A + sentinel paragraph); options on the first call only; '
            'HTML compared up to white space between tags, diagnostics as sets; non-trivial as usual')
    state_keys = None

    def _case(self, rng):
        m = rng.choice([None, 0, 0, 1, 3, 5, 9, 15])
        # an in-document .reset element drops the callback for the rest of that call by design: not generated here
        A = gen.soup_doc(rng, 7, closed=True).replace(".reset=", ".reset =x")
        B = gen.soup_doc(rng, 7, no_list_start=True).replace(".reset=", ".reset =x")
        o = dict(safeMode=m, reset=True, cb=True)
        parts = H([call(A, **o), call(B, cb=True)], state=True)
        whole = H([call(A + '\n\n' + B, **o)], state=True)
        probe = H([call(A + '\n\nZZZ9', **o)])
        parts['variants'] = [whole, probe]
        return parts

    def streams(self, ctx):
        rng = ctx.rng('H')
        cs = []
        for _ in range(sizes(ctx, 400, 20000)):
            c = self._case(rng)
            cs += [c, c['variants'][0]]
        return [corpus_stream(ctx), ('H', cs)]

    def search_cases(self, ctx, boost):
        rng = ctx.rng('S')
        return [self._case(rng) for _ in range(sizes(ctx, 800, 30000) * (3 if boost else 1))]

    def oracle(self, ctx, case, impl, variants=()):
        if len(variants) < 2 or not all_ok(impl, 2) or not all_ok(variants[0]) or not all_ok(variants[1]):
            return None
        A = case['calls'][0]['src']
        pa = impl['calls'][0]
        pr = variants[1]['calls'][0]
        # precondition: A is closed -- a following paragraph is rendered on its own, after exactly A's rendering
        if O.squeeze(pr['html']) != O.squeeze(pa['html'] + '<p>ZZZ9</p>'):
            return None
        if any('unterminated' in m[1] for m in pa['log']):
            return None
        parts = O.squeeze(impl['calls'][0]['html'] + '\n' + impl['calls'][1]['html'])
        whole = O.squeeze(variants[0]['calls'][0]['html'])
        if parts != whole:
            return ('C14/html-differs', 'in parts %r, whole %r' % (parts[:200], whole[:200]))
        la = set(tuple(m) for c in impl['calls'] for m in c['log'])
        lb = set(tuple(m) for m in variants[0]['calls'][0]['log'])
        # undefined-macro diagnostics quote the enclosing text, which differs by construction
        norm = lambda S: set((t, re.sub(r'^(undefined macro: [^:]*):.*$', r'\1', x, flags=re.S)) for t, x in S)
        if norm(la) != norm(lb):
            return ('C14/diagnostics-differ', 'in parts %r, whole %r' % (sorted(la)[:4], sorted(lb)[:4]))
        return None


# ---------------------------------------------------------------------------
# C15 -- element ids unique unless a duplicate is reported

class C15(Spec):
    level_text = ('Full for the registry invariant: C15_nodup (the id registry of every reachable session has no duplicates -- frame '
                  'theorem instance), C15_slug_fresh (slugify never returns a registered id; the suffix search terminates by pigeonhole, '
                  'proved, not assumed), C15_register_or_report (injection either registers a new id or logs a duplicate diagnostic). '
                  'That emitted id attributes coincide with registrations is decided by the oracle (ids parsed from outputs) and correspondence.')
    rule = ('sessions of 1-4 documents with headers (colliding, empty, suffix-looking slugs), explicit ids colliding with each other and '
            'with generated ones; ids parsed from outputs must be lower-case, a repeat iff a duplicate diagnostic; non-trivial = an id is emitted')
    state_keys = ['ids', 'pending']

    def project(self, call):
        return (O.ids_of(call.get('html') or ''), [m for m in (call.get('log') or []) if 'duplicate' in m[1]])

    def _case(self, rng):
        titles = ['Intro', 'intro', 'Intro!', '???', '!!!', 'a 2', 'a-2', 'a', 'A', 'x', 'X y', 'say hi', 'É', 'K', 'a_b', '1', 'x-2',
                  'x 2', 'say id="x" now', 'class="c" id="y"']
        ids = ['intro', 'Intro', 'a', 'a-2', 'x', 'x-2', 'b', 'A']
        calls = []
        for j in range(rng.randint(1, 4)):
            lines = []
            if j == 0 and rng.random() < 0.8:
                lines.append("{--header-ids}='true'")
            for _ in range(rng.randint(1, 6)):
                r = rng.random()
                if r < 0.45:
                    lines.append('#' * rng.randint(1, 3) + ' ' + rng.choice(titles))
                elif r < 0.75:
                    lines.append('.#' + rng.choice(ids))
                    lines.append(rng.choice(['para', '# ' + rng.choice(titles), '- item', '..\nx\n..', 'term:: def']))
                elif r < 0.85:
                    lines.append('.cls #' + rng.choice(ids))
                    lines.append('para')
                else:
                    lines.append(rng.choice(['para', '- a\n- b', "{--header-ids}=''", "{--header-ids}='1'"]))
                lines.append('')
            calls.append(call('\n'.join(lines), cb=True, reset=True if (j == 0 or rng.random() < 0.1) else None))
        return H(calls, state=True)

    def streams(self, ctx):
        rng = ctx.rng('H')
        return [corpus_stream(ctx), ('ids', [self._case(rng) for _ in range(sizes(ctx, 600, 30000))])]

    def search_cases(self, ctx, boost):
        rng = ctx.rng('S')
        return [self._case(rng) for _ in range(sizes(ctx, 1000, 40000) * (3 if boost else 1))]

    def oracle(self, ctx, case, impl, variants=()):
        if not all_ok(impl):
            return None
        seen = set()
        for k, c in enumerate(impl['calls']):
            if case['calls'][k].get('reset'):
                seen = set()
            ids = O.ids_of(c['html'])
            dups = [m for m in c['log'] if m[1].startswith("duplicate 'id' attribute")]
            repeated = []
            for i in ids:
                if i != i.lower():
                    return ('C15/not-lower-case', 'id %r emitted' % i)
                if i in seen:
                    repeated.append(i)
                seen.add(i)
            if repeated and not dups:
                return ('C15/duplicate-unreported', 'id %r repeated in call %d without a diagnostic' % (repeated[0], k))
            # a duplicate diagnostic must correspond to an explicitly repeated id in the source
            explicit = re.findall(r'#([A-Za-z][\w-]*)', case['calls'][k]['src'])
            for d in dups:
                name = d[1].split(': ', 1)[1]
                if name not in [e.lower() for e in explicit]:
                    return ('C15/spurious-duplicate', 'diagnostic %r but the source does not give that id' % d[1])
        return None


# ---------------------------------------------------------------------------
# C16 -- line endings and reserved control characters

class C16(Spec):
    level_text = ('Full for the reader: C16_lines (splitting the re-encoded text gives back the lines, for every choice of LF/CRLF/CR per line '
                  'and lines free of CR/LF -- a decode-encode round trip by induction over the line list, on the *generated* split regex via '
                  'its characterisation lemma), C16_blanked (blank_reserved is idempotent, yields reserved-free text and commutes with '
                  'mk_reader, so a source and its blanked version give the same reader). "None of them appears in the output" (placeholder '
                  'protocol) is decided by the oracle and correspondence, not proved.')
    rule = ('token-soup documents re-encoded with random per-line terminators, and with reserved characters inserted at random positions; '
            'outputs must coincide and contain none of U+0000..U+0002; non-trivial as usual')
    state_keys = []

    def project(self, call):
        return call.get('html')

    def _case(self, rng):
        m = rng.choice([0, 0, 1, 2, 3, 5, 9, 15])
        src = gen.soup_doc(rng, 8, lf_only=True)
        lines = src.split('\n')
        rec = ''
        for i, l in enumerate(lines):
            rec += l
            if i < len(lines) - 1:
                t = rng.choice(['\n', '\r\n', '\r'])
                # a CR terminator directly followed by an empty LF-terminated line is inherently ambiguous (CR LF)
                rec += t
        # avoid the ambiguous CR + LF adjacency: "\r" terminator followed by "" line and "\n" terminator
        rec = re.sub('\r\n', '\x00CRLF\x00', rec)
        rec = rec.replace('\x00CRLF\x00', '\r\n')
        res = list(src)
        for _ in range(rng.randint(1, 4)):
            res.insert(rng.randint(0, len(res)), rng.choice(['\x00', '\x01', '\x02']))
        res = ''.join(res)
        blank = res.replace('\x00', ' ').replace('\x01', ' ').replace('\x02', ' ')
        o = dict(safeMode=m, reset=True, cb=True)
        main = H([call(src, **o)])
        main['variants'] = [H([call(rec, **o)]), H([call(res, **o)]), H([call(blank, **o)])]
        main['meta'] = {'rec_ok': self._unambiguous(lines, rec)}
        return main

    @staticmethod
    def _unambiguous(lines, rec):
        return re.split(r'\r\n|\r|\n', rec) == lines

    def streams(self, ctx):
        rng = ctx.rng('T')
        cs = []
        for _ in range(sizes(ctx, 300, 15000)):
            c = self._case(rng)
            cs += [c] + c['variants']
        return [corpus_stream(ctx), ('T', cs)]

    def search_cases(self, ctx, boost):
        rng = ctx.rng('S')
        return [self._case(rng) for _ in range(sizes(ctx, 800, 30000) * (3 if boost else 1))]

    def oracle(self, ctx, case, impl, variants=()):
        if len(variants) < 3 or not all_ok(impl) or not all(all_ok(v) for v in variants):
            return None
        base = impl['calls'][0]['html']
        for r in [impl] + list(variants):
            h = r['calls'][0]['html']
            if re.search('[\x00\x01\x02]', h):
                return ('C16/reserved-in-output', 'output contains a reserved character: %r' % h[:120])
        if case['meta']['rec_ok'] and variants[0]['calls'][0]['html'] != base:
            return ('C16/terminators', 're-encoded terminators change the output: %r vs %r' % (variants[0]['calls'][0]['html'][:150], base[:150]))
        if variants[1]['calls'][0]['html'] != variants[2]['calls'][0]['html']:
            return ('C16/reserved-not-blank', 'reserved characters are not treated as blanks: %r vs %r'
                    % (variants[1]['calls'][0]['html'][:150], variants[2]['calls'][0]['html'][:150]))
        return None


PROPS = {'C01': C01(), 'C03': C03(), 'C04': C04(), 'C05': C05(), 'C06': C06(), 'C13': C13(), 'C14': C14(), 'C15': C15(),
         'C16': C16(), 'C20': C20()}

"""Per-property specifications: correspondence streams + projection, oracle, search generators."""
import hashlib
import itertools
import json
import os
import random
import re

import common
import gen
import thm_instances
from common import history_line, parse_history_output, compare_history, model_run, impl_run

TRUSTED_BASE = [
    'Coq 8.16.1 kernel incl. vm_compute (no native_compute); Print Assumptions parsed on every run',
    'no axioms: every property theorem is closed under the global context',
    'translator harness/regen.py (regexes, tables, guards, Unicode tables from the running interpreter)',
    'hand-written Gallina model of the control logic (coq/Model/*.v), validated by differential testing only',
    'extraction with ExtrOcamlBasic only (no Extract Constant/Inductive of our own), ocaml/driver.ml, ocamlfind ocamlopt',
    'correspondence harness, generators, canonicaliser and oracles (harness/*.py)',
    "CPython 3.12 `re`/`str` semantics as modelled in coq/Lib (validated by streams R and P)",
]
ASSUMPTIONS = [
    'theorems are about the model; model = code is established by the correspondence streams (testing)',
    'interpreter recursion depth, wall-clock time and memory are not modelled',
    "inputs containing U+03A3/U+0130 are excluded from correspondence (context-sensitive str.lower)",
]


class Ctx:
    def __init__(self, pid, tier, seed, model_ok=True):
        self.pid = pid
        self.tier = tier
        self.seed = seed
        self.model_ok = model_ok
        self.quick = tier == 'quick'

    def rng(self, stream):
        h = hashlib.sha1(('%s/%s/%d' % (self.pid, stream, self.seed)).encode()).hexdigest()
        return random.Random(int(h[:12], 16))


def case_hash(case):
    return hashlib.sha1(json.dumps(case, sort_keys=True).encode('utf-8', 'surrogatepass')).hexdigest()


def strip_case(c):
    return {k: v for k, v in c.items() if k in ('kind', 'calls', 'state', 'variants', 'meta', 'continue_after_raise')}


def nontrivial_result(res):
    if not res or 'calls' not in res:
        return True
    for c in res['calls']:
        if c.get('status') != 'ok':
            return True
        if c.get('log'):
            return True
        h = c.get('html', '')
        if re.search(r'<(?!/?p>)', h):
            return True
    return False


def excluded(case):
    for c in case.get('calls', []):
        if common.has_sigma(c.get('src', '')):
            return True
        for k in ('htmlReplacement', 'safeMode', 'reset'):
            v = c.get(k)
            if isinstance(v, str) and common.has_sigma(v):
                return True
    return False


# ---- the command-line entry point for the safe-mode properties (C03, C06, C13): rimupy --safe-mode N with trusted inputs
# (prepend file, prepend text, ~/.rimurc, macro shortcut options) in front of an untrusted source holding unbalanced raw HTML
CLI_PIDS = ('C03', 'C06', 'C13', 'C15', 'C16', 'C19')
CLI_DOCS = ['text <u>lone and *em*\n\n<section>\nblock', 'a <s>b</s> & <q>c\n\n- item <u>x']
CLI_UNTRUSTED_TAGS = ['<u>', '<section>', '<s>', '<q>']


def cli_entry_cases():
    out = []
    for di, doc in enumerate(CLI_DOCS):
        for sm in ['1', '2', '3', '5', '6', '7', '9', '15']:
            for pre in range(8):
                for extra in ([], ['--title', 'T'], ['--header-ids']):
                    argv = ['--safe-mode', sm]
                    files = []
                    if pre & 1:
                        argv += ['--prepend-file', 'pf.rmu']
                        files.append(['pf.rmu', "{pf}='PF'\n<div>pf</div>"])
                    if pre & 2:
                        argv += ['--prepend', "{pt}='PT'\n<i>pt</i>"]
                    rc = "{rc}='RC'\n<div>rc</div>" if pre & 4 else None
                    argv += extra
                    if di == 0:
                        files.append(['in.rmu', doc])
                        out.append({'kind': 'M', 'argv': argv + ['in.rmu'], 'stdin': '', 'files': files, 'rimurc': rc})
                    else:
                        out.append({'kind': 'M', 'argv': argv, 'stdin': doc, 'files': files, 'rimurc': rc})
            # inputs of other kinds around the untrusted source: an .html file is passed through as it is, whatever the mode;
            # the source that follows it (a file, standard input given as '-' or by default) is still rendered in the mode
            banner = ['banner.html', '<div class="banner">b</div>']
            for argv, stdin, files in ((['banner.html', '-'], doc, [banner]), (['--prepend-file', 'banner.html'], doc, [banner]),
                                       (['banner.html', 'in.rmu'], '', [banner, ['in.rmu', doc]]),
                                       (['in.rmu', 'banner.html', '-'], doc, [banner, ['in.rmu', doc]]),
                                       (['-', 'banner.html'], doc, [banner])):
                out.append({'kind': 'M', 'argv': ['--safe-mode', sm] + argv, 'stdin': stdin, 'files': files, 'rimurc': None})
    return out


def cli_cases_for(pid):
    """runs of the rimupy command for the properties that a change to the command itself can break"""
    if pid in ('C03', 'C06', 'C13'):
        return cli_entry_cases()
    out = []
    if pid == 'C15':
        docs = ['# Title\n\n# Title\n\n## TITLE', '# A b\n\n.#a-b\npara\n\n# A b', '# \u00c9t\u00e9 X\n\n# \u00e9t\u00e9 x\n\n# x-2\n\n# X',
                '.#One\npara\n\n# one\n\n- item\n\n# One', '# !?\n\n# ...\n\n# x']
        for d in docs:
            for pre in ([], ['--safe-mode', '1'], ['--prepend', '# Title'], ['--title', 'T']):
                out.append({'kind': 'M', 'argv': ['--header-ids'] + pre, 'stdin': d, 'files': [], 'rimurc': None})
                out.append({'kind': 'M', 'argv': pre + ['--header-ids', 'a.rmu', 'b.rmu'], 'stdin': '', 'files': [['a.rmu', d], ['b.rmu', d]], 'rimurc': None})
    elif pid == 'C16':
        base = ['para *em* `c`\n\n- item\n- item2\n\n``\ncode <x>\n``\n\n# H', 'a \x00b\x01 c\x02d <b>t</b> &amp; [l](u)\n\n<!-- c -->',
                "{m}='v \x00'\n\n{m} and `q \x01` <http://u.v|\x02w>"]
        for d in base:
            for nl in ('\n', '\r\n', '\r'):
                src = d.replace('\n', nl)
                for pre in ([], ['--prepend', 'pre \x00\x01\x02 *x*'], ['--safe-mode', '2', '--html-replacement', 'R']):
                    out.append({'kind': 'M', 'argv': list(pre), 'stdin': src, 'files': [], 'rimurc': None})
                    out.append({'kind': 'M', 'argv': pre + ['in.rmu'], 'stdin': '', 'files': [['in.rmu', src]], 'rimurc': "{rc}='\x01'" if pre else None})
    elif pid == 'C19':
        good = ['para *em*\n\n- item\n\n``\ncode\n``', "{m}='v'\n\n{m} text\n\n/*\nc\n*/", '..\ndiv\n..\n\n\"\"\nq\n\"\"']
        bad = [('{undefined-x}', 'undefined-x'), ('``\nopen code', 'code'), ('/*\nopen comment', 'comment'), ('..\nopen div', 'division'),
               ('\"\"\nopen q', 'quote'), (".bogusopt='x'", 'bogusopt'), ('.+bogus\npara', 'bogus'), ("|nosuch|='<a>|</a>'", 'nosuch')]
        for d in good:
            for pre in ([], ['--safe-mode', '1'], ['--prepend', "{pt}='x'"]):
                if '--safe-mode' in pre and "='" in d:
                    continue    # definitions are skipped in that mode: the invocation is then rightly reported
                out.append({'kind': 'M', 'argv': list(pre), 'stdin': d, 'files': [], 'rimurc': None, 'expect_diag': None})
        for d, name in bad:
            for pre in ([], ['--prepend', "{pt}='x'"], ['--title', 'T']):
                out.append({'kind': 'M', 'argv': list(pre), 'stdin': 'ok\n\n' + d, 'files': [], 'rimurc': None, 'expect_diag': name})
                out.append({'kind': 'M', 'argv': pre + ['good.rmu', 'bad.rmu'], 'stdin': '', 'files': [['good.rmu', good[0]], ['bad.rmu', d]],
                            'rimurc': None, 'expect_diag': name})
    return out


class Spec:
    rule = ''
    assumptions = []
    state_keys = None          # None = compare the whole snapshot; [] = none
    timeout = 10

    # ---- to override
    def streams(self, ctx):
        return []

    def project(self, call):
        return (call.get('html'), call.get('log'))

    def oracle(self, ctx, case, impl, variants=()):
        """None, or (class, why) when the implementation violates the property on this case."""
        return None

    def search_cases(self, ctx, boost):
        return []

    # ---- shared machinery
    def _proj_state(self, st):
        if st is None:
            return None
        if self.state_keys is None:
            return st
        return {k: st.get(k) for k in self.state_keys}

    def compare(self, model, impl):
        m = dict(model)
        i = dict(impl)
        if 'state' in m and 'state' in i:
            m['state'] = self._proj_state(m['state'])
            i['state'] = self._proj_state(i['state'])
        return compare_history(m, i, project=self.project)

    def correspondence(self, ctx):
        out = {'cases': 0, 'disagreements': [], 'streams': {}, 'skipped': 0, 'samples': [], 'distinct_nontrivial': 0}
        seen = set()
        for name, cases in list(self.streams(ctx)) + scenario_streams(ctx):
            cases = [c for c in cases if not excluded(c)]
            if not cases:
                continue
            mo = model_run([history_line(c) for c in cases], timeout=60)
            io_ = impl_run(cases, timeout=self.timeout)
            nd = 0
            for c, m, i in zip(cases, mo, io_):
                try:
                    pm = parse_history_output(m)
                except Exception as e:
                    pm = {'calls': [{'status': 'driver_error', 'msg': str(e)[:100] + ' ' + m[:100]}]}
                r = self.compare(pm, i)
                h = case_hash(strip_case(c))
                if h not in seen:
                    seen.add(h)
                    if nontrivial_result(i):
                        out['distinct_nontrivial'] += 1
                if r == 'SKIP':
                    out['skipped'] += 1
                elif r:
                    nd += 1
                    out['disagreements'].append({'stream': name, 'why': r, 'case': strip_case(c)})
            out['streams'][name] = {'cases': len(cases), 'disagreements': nd}
            out['cases'] += len(cases)
            if cases and len(out['samples']) < 3:
                out['samples'].append({'stream': name, 'case': strip_case(cases[len(cases) // 2])})
        self.engine_streams(ctx, out)
        if ctx.pid in CLI_PIDS:
            cases = cli_cases_for(ctx.pid)
            mo = model_run([common.cli_line(c) for c in cases], timeout=120)
            io_ = impl_run(cases, timeout=self.timeout)
            nd = 0
            for c, m, i in zip(cases, mo, io_):
                r = common.compare_cli(common.parse_cli_output(m), i)
                if r == 'SKIP':
                    out['skipped'] += 1
                elif r:
                    nd += 1
                    out['disagreements'].append({'stream': 'M', 'why': 'rimupy: ' + r, 'case': c})
            out['streams']['M'] = {'cases': len(cases), 'disagreements': nd}
            out['cases'] += len(cases)
        return out

    def cli_oracle(self, ctx, case, res):
        """None, or (class, why): the property on one run of the command (C03, C06 override)"""
        return None

    def engine_streams(self, ctx, out):
        """The layers under every property, re-validated on every run: the regex engine of the model together with the
        translator's reading of each pattern of the source (stream R: every generated pattern searched on generated
        subjects, compared with CPython's re on the pattern text as the source has it), and the parser for author patterns
        (stream P), and the library functions of the model one at a time against the interpreter and the rimu helpers
        (stream F: str.lower / strip / replace, the escape, the reader, slugify, two content filters).  A disagreement is a
        broken correspondence like any other; the subject is handed to the failing-input search as a document."""
        import stream_regex as SR
        seed = int(ctx.rng('engine').random() * 1e9)
        for name, (lines, pyc), cmp_ in (('R', SR.stream_R(sizes(ctx, 6, 40), seed), SR.compare_R),
                                         ('P', SR.stream_P(sizes(ctx, 150, 3000), seed), SR.compare_P),
                                         ('F', SR.stream_F(sizes(ctx, 60, 1500), seed), SR.compare_F)):
            mo = model_run(lines, timeout=60)
            io_ = impl_run(pyc, timeout=10)
            nd = 0
            for c, m, i in zip(pyc, mo, io_):
                r = cmp_(m, i or {})
                if r == 'SKIP':
                    out['skipped'] += 1
                elif r:
                    nd += 1
                    if name == 'F':
                        why = 'library function %s%r: %s' % (c['fn'], tuple(a[:60] for a in c['args']), r)
                        text = c['args'][-1]
                    else:
                        why = 'regex engine / translator: pattern %s %r on %r: %s' % (c.get('name', ''), c['pat'][:80], c['text'][:80], r)
                        text = c['text']
                    out['disagreements'].append({'stream': name, 'why': why, 'case': H([call(text, reset=True, cb=True)])})
            out['streams'][name] = {'cases': len(pyc), 'disagreements': nd}
            out['cases'] += len(pyc)

    def run_oracle(self, ctx, cases):
        """cases may carry 'variants': further histories run alongside, whose results the oracle compares"""
        mcases = [c for c in cases if c.get('kind') == 'M']
        cases = [c for c in cases if c.get('kind') != 'M']
        mfails = []
        if mcases:
            for c, r in zip(mcases, impl_run(mcases, timeout=self.timeout)):
                try:
                    o = self.cli_oracle(ctx, c, r or {})
                except Exception as e:  # noqa
                    o = None
                    self._oracle_errors = getattr(self, '_oracle_errors', 0) + 1
                    self._oracle_last_error = repr(e)
                if o:
                    mfails.append({'class': o[0], 'why': o[1], 'case': c})
        cases = [c for c in cases if not excluded(c) and not any(excluded(v) for v in c.get('variants', []))]
        flat = []
        for c in cases:
            flat.append(strip_case(c))
            for v in c.get('variants', []):
                flat.append(strip_case(v))
        res = impl_run(flat, timeout=self.timeout)
        fails = []
        nt = 0
        seen = set()
        k = 0
        for c in cases:
            r = res[k]
            k += 1
            vr = []
            for v in c.get('variants', []):
                vr.append(res[k])
                k += 1
            h = case_hash(strip_case(c))
            if h not in seen:
                seen.add(h)
                if nontrivial_result(r):
                    nt += 1
            try:
                o = abort_oracle(ctx.pid, c, r, vr) if (c.get('meta') or {}).get('abort') else self.oracle(ctx, c, r, vr)
            except Exception as e:  # an oracle crash is a harness bug, never a violation
                o = None
                self._oracle_errors = getattr(self, '_oracle_errors', 0) + 1
                self._oracle_last_error = repr(e)
            if o:
                kc = strip_case(c)
                if c.get('variants'):
                    kc['variants'] = [strip_case(v) for v in c['variants']]
                if c.get('meta'):
                    kc['meta'] = c['meta']
                fails.append({'class': o[0], 'why': o[1], 'case': kc})
        return fails + mfails, nt, len(flat) + len(mcases)

    def search(self, ctx, extra_cases, boost):
        cases = list(extra_cases) + list(self.search_cases(ctx, boost)) + (gen.abort_histories() if ctx.pid in ABORT_PIDS else [])
        if ctx.pid in CLI_PIDS:
            cases += cli_cases_for(ctx.pid)
        fails, nt, n = self.run_oracle(ctx, cases)
        out = {'cases': n, 'failures': fails, 'distinct_nontrivial': nt, 'samples': [], 'distribution': {}}
        if cases:
            out['samples'] = [{'oracle_case': strip_case(cases[len(cases) // 2])}]
        if getattr(self, '_oracle_errors', 0):
            out['distribution']['oracle_errors'] = self._oracle_errors
            out['distribution']['oracle_last_error'] = self._oracle_last_error
        return out

    def shrink(self, ctx, failure, budget_s=12.0):
        """Delta-debugging of a failing history: drop calls, then lines, then halves of lines, as long as the oracle still
        reports the same class.  Only for cases that stand alone (no variants, no generator-predicted expectation)."""
        import time as _t
        case = failure.get('case')
        if not isinstance(case, dict) or case.get('kind') != 'H' or case.get('variants') or case.get('meta'):
            return failure
        cls = failure['class']
        t0 = _t.time()

        def fails(c):
            if _t.time() - t0 > budget_s:
                return None
            fs, _, _ = self.run_oracle(ctx, [c])
            for f in fs:
                if f['class'] == cls:
                    return f
            return None
        best = failure
        cur = json.loads(json.dumps(case))
        changed = True
        while changed and _t.time() - t0 < budget_s:
            changed = False
            # drop whole calls (never the last one)
            k = 0
            while k < len(cur['calls']) - 1:
                cand = dict(cur, calls=cur['calls'][:k] + cur['calls'][k + 1:])
                f = fails(cand)
                if f:
                    cur, best, changed = cand, f, True
                else:
                    k += 1
            # drop lines, then halves of the remaining lines
            for ci in range(len(cur['calls'])):
                lines = cur['calls'][ci]['src'].split('\n')
                i = 0
                while i < len(lines) and len(lines) > 1:
                    cand_lines = lines[:i] + lines[i + 1:]
                    cand = dict(cur, calls=[dict(c) for c in cur['calls']])
                    cand['calls'][ci]['src'] = '\n'.join(cand_lines)
                    f = fails(cand)
                    if f:
                        lines, cur, best, changed = cand_lines, cand, f, True
                    else:
                        i += 1
                for i in range(len(lines)):
                    for half in (0, 1):
                        l = lines[i]
                        if len(l) < 8:
                            continue
                        nl = l[len(l) // 2:] if half == 0 else l[:len(l) // 2]
                        cand_lines = lines[:i] + [nl] + lines[i + 1:]
                        cand = dict(cur, calls=[dict(c) for c in cur['calls']])
                        cand['calls'][ci]['src'] = '\n'.join(cand_lines)
                        f = fails(cand)
                        if f:
                            lines, cur, best, changed = cand_lines, cand, f, True
                            break
        if best is not failure:
            best = dict(best)
            best['shrunk_from'] = {'calls': len(case['calls']), 'chars': sum(len(c['src']) for c in case['calls'])}
        return best

    def check_witness(self, ctx, entry):
        case = entry.get('witness')
        if not case:
            return None
        fails, _, _ = self.run_oracle(ctx, [case])
        for f in fails:
            if entry.get('status') == 'fixed' or f['class'] == entry.get('class'):
                return f['why']
        return None

    def explained_by_known(self, ctx, b, known_classes):
        if b.get('kind') != 'correspondence' or not b.get('case'):
            return False
        fails, _, _ = self.run_oracle(ctx, [b['case']])
        return bool(fails) and all(f['class'] in known_classes for f in fails)

    def replay(self, ctx, rp):
        """Returns a description when the replayed case still fails, else None."""
        case = rp.get('case')
        if not case:
            br = rp.get('broken') or []
            case = next((b.get('case') for b in br if b.get('case')), None)
            if not case:
                return None
        fails, _, _ = self.run_oracle(ctx, [case])
        if fails:
            return fails[0]['why']
        if ctx.model_ok and case.get('kind') == 'M':
            mo = model_run([common.cli_line(case)], timeout=120)
            io_ = impl_run([case], timeout=self.timeout)
            r = common.compare_cli(common.parse_cli_output(mo[0]), io_[0])
            if r and r != 'SKIP':
                return 'model and implementation differ: rimupy: ' + r
        elif ctx.model_ok:
            mo = model_run([history_line(case)])
            io_ = impl_run([case], timeout=self.timeout)
            r = self.compare(parse_history_output(mo[0]), io_[0])
            if r and r != 'SKIP':
                return 'model and implementation differ: ' + r
        return None


# histories with a render call that ends in an exception the application catches (a throwing callback, an exhausted stack):
# the next call with reset must render as in a fresh interpreter.  Implementation only: the model's failure carries no state.
ABORT_PIDS = {'C05', 'C10', 'C16'}


def abort_oracle(pid, case, impl, variants):
    if not variants or impl.get('timeout') or variants[0].get('timeout') or len(impl.get('calls', [])) < 2:
        return None
    a, b = impl['calls'][-1], variants[0]['calls'][-1]
    if a.get('status') != 'ok' or b.get('status') != 'ok':
        return None
    if a['html'] != b['html']:
        return (pid + '/output-depends-on-aborted-history', 'after an aborted render (%s): %r, in a fresh interpreter %r'
                % ('with reset' if case['calls'][-1].get('reset') else 'that leaves no state, no reset', a['html'][:150], b['html'][:150]))
    return None


# scenario families (harness/scenarios.py) per property: structured interaction matrices next to the random streams
SCEN = {'C01': ['attrs', 'blockdefs', 'macros', 'redefs', 'unicode', 'nesting'], 'C02': ['macros', 'lists'], 'C03': ['blockdefs', 'attrs', 'inline', 'unicode'],
        'C04': ['options', 'blockdefs', 'redefs'], 'C05': ['blockdefs', 'options', 'repeat', 'redefs'], 'C06': ['inline', 'lists', 'nesting', 'blockdefs'],
        'C07': ['inline', 'redefs', 'unicode'], 'C08': ['dispatch', 'attrs', 'nesting', 'unicode'], 'C09': ['inline', 'dispatch', 'nesting', 'unicode'],
        'C10': ['lists', 'nesting'], 'C11': ['macros', 'unicode'], 'C12': ['attrs', 'lists', 'nesting'], 'C13': ['lists', 'ids', 'nesting'],
        'C14': ['repeat', 'options', 'redefs', 'unicode'], 'C15': ['ids', 'unicode', 'attrs'], 'C16': ['dispatch', 'lists', 'nesting'],
        'C17': ['inline', 'dispatch', 'redefs', 'unicode', 'macros'], 'C19': ['options', 'blockdefs', 'macros', 'nesting'], 'C20': ['options']}


def scenario_streams(ctx):
    """every check runs every family (correspondence does not depend on the property); the families that concern the
    property are sampled densely in the quick tier, the others thinly; the thorough tier runs all cases"""
    import scenarios
    out = []
    own = SCEN.get(ctx.pid, [])
    if ctx.pid == 'C18':
        return out
    for f in scenarios.FAMILIES:
        cs = scenarios.family(f, ctx.quick, share=2500 if f in own else 600)
        if ctx.pid == 'C16' and f in own:
            # the same documents with a trailing terminator, and in CR LF
            cs = [dict(c, calls=[dict(k, src=k['src'] + t) for k in c['calls']]) for c in cs[::3] for t in ('\n', '\r\n', '\r')] + \
                 [dict(c, calls=[dict(k, src=k['src'].replace('\n', '\r\n')) for k in c['calls']]) for c in cs[1::3]]
        out.append(('Z' + f, cs))
    return out


def sizes(ctx, quick, thorough):
    return quick if ctx.quick else thorough


def corpus_stream(ctx):
    return ('J', gen.corpus_cases() + gen.saved_corpus('all') + gen.saved_corpus(ctx.pid))


# ---------------------------------------------------------------------------
# C20 -- options validated, persist until reset, not settable from safe mode

DEFAULT_REPL = '<mark>replaced HTML</mark>'
C20_DOCS = ['x', ".safeMode='3'", ".safeMode='0'", ".safeMode='16'", ".safeMode='abc'", ".htmlReplacement='R'",
            ".reset='true'", ".reset='junk'", ".safeMode='3'\n.safeMode='0'", ".safeMode=' 7 '\n<b>"]
C20_MODES = [None, 0, 1, 5, 15, 16, -1, 'abc', '3', ' 7 ', True, {'f': '1.0'}, {'f': '2.5'}, '1_0', '']
C20_RESETS = [None, True, False, 'true', 'false', 'junk', 1, 0]
C20_REPLS = [None, 'R2']


def py_int_legal(v):
    """the property's notion of a legal safe mode given as an API option value"""
    if isinstance(v, dict):
        v = float(v['f'])
    try:
        n = int(str(v))
    except Exception:
        return None
    return n if 0 <= n <= 15 else None


def c20_ops(ctx):
    ops = []
    for d in C20_DOCS:
        ops.append({'src': d, 'cb': True})
    for m in C20_MODES[1:]:
        ops.append({'src': 'x', 'safeMode': m, 'cb': True})
    for r in C20_RESETS[1:]:
        ops.append({'src': 'x', 'reset': r, 'cb': True})
    ops.append({'src': 'x', 'htmlReplacement': 'R2', 'cb': True})
    ops.append({'src': ".safeMode='2'", 'safeMode': 0, 'reset': True, 'cb': True})
    ops.append({'src': ".htmlReplacement='Q'", 'safeMode': 9, 'cb': True})
    ops.append({'src': "x", 'safeMode': 'abc', 'reset': 'junk', 'cb': False})
    ops.append({'src': ".safeMode='4'", 'safeMode': 16, 'reset': True, 'htmlReplacement': 'Z', 'cb': True})
    return ops


class C20(Spec):
    level_text = ('Full strength for the option state machine: theorems C20_range (every reachable session has mode -1 or 0..15), '
                  'C20_reject_unchanged / C20_accept (a value is accepted iff it is the decimal form of 0..15; rejection logs exactly one '
                  'diagnostic and changes nothing else), C20_persist, C20_reset_defaults, C20_reset_then_options, C20_doc_gate (via the frame '
                  'theorem over the whole block layer with the *generated* guards) and C20_update_total. The model is tied to the code by '
                  'exhaustive operation sequences (length<=2 complete, 3-4 sampled) compared on safeMode/htmlReplacement/diagnostics.')
    rule = ('exhaustive sequences (length <= 3 quick, <= 4 thorough, sampled beyond the budget) over an alphabet of '
            'render operations: option values legal/out-of-range/non-numeric/float/bool, reset values, '
            'documents with .safeMode/.htmlReplacement/.reset elements; plus random token-soup histories; '
            'non-trivial = produces a tag other than <p>, a diagnostic or a raise; distinct by case hash')
    state_keys = ['mode', 'repl']
    assumptions = ['C20 correspondence projects on (status, option diagnostics, safeMode, htmlReplacement)']

    def project(self, call):
        return [m for m in (call.get('log') or []) if 'API option' in m[1]]

    def _seqs(self, ctx):
        ops = c20_ops(ctx)
        rng = ctx.rng('seq')
        seqs = [[o] for o in ops] + [[a, b] for a in ops for b in ops]
        n3 = sizes(ctx, 1500, 40000)
        for _ in range(n3):
            k = rng.choice([3, 3, 4]) if not ctx.quick else 3
            seqs.append([rng.choice(ops) for _ in range(k)])
        return [{'kind': 'H', 'calls': s, 'state': True} for s in seqs]

    def streams(self, ctx):
        rng = ctx.rng('H')
        return [corpus_stream(ctx),
                ('opseq', self._seqs(ctx)),
                ('H', [gen.history(rng, 4) for _ in range(sizes(ctx, 400, 20000))])]

    def search_cases(self, ctx, boost):
        return self._seqs(ctx)

    def oracle(self, ctx, case, impl, variants=()):
        """Reference for the statement on the restricted alphabet: mode after the session, diagnostics."""
        if impl.get('timeout'):
            return ('C20/timeout', 'render did not return')
        mode, repl = None, None
        calls = impl.get('calls', [])
        for k, c in enumerate(case['calls']):
            if k >= len(calls) or calls[k].get('status') != 'ok':
                return None   # raising is C01's concern
            docs_ok = all(l in C20_DOCS_LINES for l in c['src'].split('\n'))
            if not docs_ok:
                return None
            if mode is None:
                mode, repl = 0, DEFAULT_REPL
            expect_diag = []
            r = c.get('reset')
            rv = float(r['f']) if isinstance(r, dict) else r
            if rv is None or rv is False or rv == 0 or rv == 'false':
                pass
            elif rv is True or rv == 1 or rv == 'true':
                mode, repl = 0, DEFAULT_REPL
            else:
                expect_diag.append('illegal reset API option value')
            sm = c.get('safeMode')
            if sm is not None:
                n = py_int_legal(sm)
                if n is None:
                    expect_diag.append('illegal safeMode API option value')
                else:
                    mode = n
            if c.get('htmlReplacement') is not None:
                repl = str(c['htmlReplacement'])
            for line in c['src'].split('\n'):
                m = re.match(r"^\.(\w+)\s*=\s*'(.*)'$", line)
                if not m or mode != 0:
                    continue
                name, val = m.group(1), m.group(2)
                if name == 'safeMode':
                    n = py_int_legal(val)
                    if n is None:
                        expect_diag.append('illegal safeMode API option value')
                    else:
                        mode = n
                elif name == 'htmlReplacement':
                    repl = val
                elif name == 'reset':
                    if val == 'true':
                        mode, repl = 0, DEFAULT_REPL
                        expect_diag = [d for d in expect_diag]  # later diagnostics are lost with the callback
                        break_after_reset = True
                    elif val != 'false':
                        expect_diag.append('illegal reset API option value')
            got = [m[1] for m in calls[k].get('log', []) if 'API option' in m[1]]
            if c.get('cb') and '.reset' not in c['src'] and c.get('reset') in (None, False, 'false', 0):
                # every illegal value must be reported (callback installed for the whole call)
                for d in expect_diag:
                    if not any(g.startswith(d) for g in got):
                        return ('C20/missing-diagnostic', 'call %d: expected diagnostic %r, got %r' % (k, d, got))
        st = impl.get('state')
        if st is not None and mode is not None:
            if not (isinstance(st['mode'], int) and 0 <= st['mode'] <= 15):
                return ('C20/out-of-range', 'safeMode is %r after the session' % (st['mode'],))
            if st['mode'] != mode:
                return ('C20/wrong-mode', 'safeMode is %r after the session, the statement gives %r' % (st['mode'], mode))
            if st['repl'] != repl:
                return ('C20/wrong-replacement', 'htmlReplacement is %r, the statement gives %r' % (st['repl'], repl))
        return None


C20_DOCS_LINES = set(l for d in C20_DOCS for l in d.split('\n')) | {".safeMode='2'", ".htmlReplacement='Q'", ".safeMode='4'"}


import oracles as O

POLICY_MODES = [1, 2, 3, 5, 6, 7, 9, 10, 11, 13, 14, 15]
SENT = '@@R@@'


def H(calls, state=False, **kw):
    d = {'kind': 'H', 'calls': calls, 'state': state}
    d.update(kw)
    return d


def call(src, **o):
    c = {'src': src}
    c.update(o)
    return c


def all_ok(impl, n=None):
    if impl.get('timeout') or 'calls' not in impl:
        return False
    cs = impl['calls']
    if n is not None and len(cs) < n:
        return False
    return all(c.get('status') == 'ok' for c in cs)


# ---------------------------------------------------------------------------
# C01 -- render is total

C01_CURATED = [
    ("- item\n\n.+container\n> - nested\n- item2", dict(safeMode=1)),
    (".+spans\n<div>x</div>", dict(safeMode=2, htmlReplacement='\x00')),
    ("{m}='$" + '1' * 5000 + "'\n{m|x}", dict(safeMode=8)),
    ("/x*/='y'\nabc", dict(safeMode=0)),
    ("/(/='x'", dict(safeMode=0)),
    ("/(a)|b/='[$1]'\nab", dict(safeMode=0)),
    ("http://a.b/c " * 1200, dict(safeMode=1)),
    ("*a* " * 1200, dict(safeMode=1)),
    ("{v}='x'\n{v=a{4294967296\\}}", dict(safeMode=0)),
    ("<b>", dict(safeMode=2, htmlReplacement=42)),
]


class C01(Spec):
    level_text = ('Full over the model, up to its two named failure outcomes. First sentence: C01_raises_only with C01_reachable_invariant -- '
                  'from every session reachable through the API (option text free of U+0000..2), for every source and fuel, a failure of render '
                  'is one of: ExIntTooLong (parameter number of more than 4300 digits: known finding), ExUnsupported (author pattern outside the '
                  'modelled regex subset: such cases are skipped by the comparison). Proved unreachable: re.error, the two asserts of the content '
                  'filters of delimitedblocks.py (their searches succeed, by the completeness of the matcher: Proofs/MatchExact.v, FilterLemmas.v), '
                  'a non-participating group at every group access, an index into an empty match (no line / list / block pattern of the '
                  'generated tables matches the empty string or a lone backslash; the paragraph pattern takes at least one character), an empty '
                  'reader wherever the cursor is indexed, the quote-definition assert, int() of a malformed parameter number, an empty '
                  'parameter list, the placeholder pop, and -- after the repair bd5147e -- the pop of the list-id stack (ghost-stack Hoare '
                  'triples over the list fixpoint) (C01_spans_never_raises, C01_inline_no_underflow, C01_reachable_env_ok). Second sentence: '
                  'C01_callback_irrelevant (for every fuel, source, option values and session, rendering with and without a callback gives the '
                  'same HTML or the same failure, the same diagnostic texts, and sessions equal in everything but the callback flag), '
                  'C01_callback_irrelevant_history. Also C01_plain_total, C01_update_total, C01_api_reduces_to_document, C01_invariants. '
                  'Outside the model: interpreter recursion depth (the model has Fuel where Python has RecursionError: 4 known findings), '
                  'observed on the implementation only; model/implementation are compared on ok / raise kind / timeout.')
    rule = ('token-soup histories with legal and illegal option values, degenerate quote/replacement/block definitions, repeated '
            'elements; each also run without callback; non-trivial = tag other than <p>, diagnostic or raise')
    state_keys = []

    def project(self, call):
        return call.get('html')

    def streams(self, ctx):
        rng = ctx.rng('H')
        return [corpus_stream(ctx), ('H', [gen.history(rng, 4) for _ in range(sizes(ctx, 1200, 40000))]),
                ('D', [gen.degenerate_history(rng) for _ in range(sizes(ctx, 300, 8000))])]

    def search_cases(self, ctx, boost):
        rng = ctx.rng('search')
        out = []
        n = sizes(ctx, 700, 30000) * (3 if boost else 1)
        for k in range(n):
            h = gen.history(rng, 3) if k % 4 else gen.degenerate_history(rng)
            v = {'kind': 'H', 'state': False, 'calls': [dict(c, cb=False) for c in h['calls']]}
            h = dict(h, state=False, variants=[v])
            out.append(h)
        for h in gen.repeated_elements(ctx.quick):
            out.append(h)
        for src, o in C01_CURATED:
            out.append(H([call(src, cb=True, reset=True, **o)]))
        return out

    def oracle(self, ctx, case, impl, variants=()):
        if impl.get('timeout'):
            return None   # C02's concern
        for k, c in enumerate(impl.get('calls', [])):
            if c.get('status') != 'ok':
                return ('C01/raise:%s' % c.get('exn'), 'call %d raises %s: %s' % (k, c.get('exn'), c.get('msg', '')[:120]))
        if variants and all_ok(variants[0]) and not variants[0].get('timeout'):
            a = [c['html'] for c in impl['calls']]
            b = [c['html'] for c in variants[0]['calls']]
            if a != b:
                return ('C01/callback-changes-output', 'HTML differs with and without callback')
        return None


# ---------------------------------------------------------------------------
# C03 / C06 -- output grammar

class C03(Spec):
    level_text = ('Partial. Proved over the model: escape_confined (replaceSpecialChars output contains no raw <, >, and every & starts an '
                  'entity), C03_guards (in every non-zero mode -specials is refused, raw [html-attributes] are ignored, definition elements '
                  'are skipped -- facts recomputed from the generated guards), C03_policy (the HTML filter returns nothing, the replacement '
                  'or escaped text for policies 1,2,3). Also C03_definitions_fixed (frame theorem: a document rendered in a non-zero mode cannot change any definition), C03_blocks_escape_or_filter (table fact), C03_plain_text_escaped (paragraph text over the plain alphabet renders to exactly its escape). C03_inline_tag_confined (an inline tag in text over letters, digits, blank, full stop and comma, under the drop and escape policies: no raw angle bracket reaches the output, for text of any length). The full Forest theorem for render is not proved; the output grammar is checked by the '
                  'tokeniser oracle on the implementation and the model is compared on full HTML at the 12 policy modes.')
    rule = ('token-soup and attribute/URL-injection documents x 12 policy modes x replacement sentinel; output tokenised with the '
            'strict grammar of DESIGN appendix B; non-trivial = output contains a tag other than <p>')
    state_keys = []

    def project(self, call):
        return call.get('html')

    def _cases(self, ctx, n, stream):
        rng = ctx.rng(stream)
        out = []
        for _ in range(n):
            m = rng.choice(POLICY_MODES)
            k = rng.randint(1, 3)
            calls = [call(gen.soup_doc(rng, 8), safeMode=m if j == 0 else None, reset=True if j == 0 else None,
                          htmlReplacement=SENT if j == 0 else None, cb=True) for j in range(k)]
            out.append(H(calls))
        return out

    def streams(self, ctx):
        return [corpus_stream(ctx), ('T', self._cases(ctx, sizes(ctx, 1200, 60000), 'T'))]

    def search_cases(self, ctx, boost):
        return self._cases(ctx, sizes(ctx, 1500, 60000) * (3 if boost else 1), 'S') + gen.injection_cases(POLICY_MODES, SENT)

    def cli_oracle(self, ctx, case, res):
        # rimupy --safe-mode N (N with an HTML policy): no tag of the untrusted source reaches the output raw, whatever trusted
        # inputs were rendered before it
        sm = int(case['argv'][case['argv'].index('--safe-mode') + 1])
        out = res.get('stdout')
        if not isinstance(out, str) or sm & 3 == 0:
            return None
        for t in CLI_UNTRUSTED_TAGS:
            if t in out:
                return ('C03/cli-raw-html', 'rimupy %s: the untrusted source\'s %s is in the output: %r' % (' '.join(case['argv'][:6]), t, out[:200]))
        return None

    def oracle(self, ctx, case, impl, variants=()):
        if not all_ok(impl):
            return None
        for k, c in enumerate(impl['calls']):
            e = O.confined(c['html'], SENT)
            if e:
                return ('C03/' + e[0], 'call %d output breaks the grammar: %s: %r' % (k, e[0], e[1]))
        return None


class C06(Spec):
    level_text = ('Partial. Proved: C06_templates_balanced (every open / close tag pair and every replacement template of the generated tables is '
                  'balanced on its own: recomputed on every run), C06_default_replacement_balanced, C06_definitions_fixed (in a non-zero safe mode '
                  'a document cannot change the quote, replacement or block definitions: frame theorem), C06_blocks_escape_or_filter (every '
                  'generated block definition either escapes specials or passes its content through the HTML filter), C06_list_wrapped (whatever '
                  'a list renders is enclosed in the open and close tag of its definition), C06_quote_tags_nested with C06_quotes_pass_nested (for every table of quote definitions, text and fuel, the fragments of the quotes pass are properly nested: every opening quote tag is followed, after a properly nested run, by the closing tag of the same definition). Balance of a whole render -- that the pieces nest -- is '
                  'not proved; it is decided by the balanced-tag oracle over the implementation and the comparison on full HTML.')
    rule = ('token-soup documents at the 12 HTML-filtering modes, and <-free token soup at mode 0 without definitions; tag stack over '
            'the tokenised output; non-trivial = output contains a tag other than <p>')
    state_keys = []

    def project(self, call):
        return call.get('html')

    def _cases(self, ctx, n, stream):
        rng = ctx.rng(stream)
        out = []
        for _ in range(n):
            if rng.random() < 0.6:
                m = rng.choice(POLICY_MODES)
                out.append(H([call(gen.soup_doc(rng, 10), safeMode=m, reset=True, htmlReplacement=SENT, cb=True)]))
            else:
                src = gen.soup_doc(rng, 10, no_lt=True, no_defs=True)
                out.append(H([call(src, safeMode=0, reset=True, cb=True)]))
        return out

    def streams(self, ctx):
        return [corpus_stream(ctx), ('T', self._cases(ctx, sizes(ctx, 1200, 60000), 'T'))]

    CURATED = ["{m} = '$$1'\n*x {m|__a* b__}", "{m} = '$$1'\n{m|*a\nb*} x {--!}", "{m}='$$1'\n_a {m|*b_ c*}",
               "{m}='*x'\n{m} y*", "{m}='$1'\n*a {m|b* c}", "- *a\n- b*", "*a\n\nb*", "..\n*a\n..\nb*", "a::*b\nc*"]

    def search_cases(self, ctx, boost):
        cur = [H([call(src, safeMode=0, reset=True, cb=True)]) for src in self.CURATED]
        return cur + gen.injection_cases(POLICY_MODES, SENT) + self._cases(ctx, sizes(ctx, 1500, 60000) * (3 if boost else 1), 'S')

    def cli_oracle(self, ctx, case, res):
        # rimupy --safe-mode N (N with an HTML policy): the trusted inputs are balanced and the untrusted source's raw HTML is
        # dropped, replaced or escaped, so the output is balanced
        sm = int(case['argv'][case['argv'].index('--safe-mode') + 1])
        out = res.get('stdout')
        if not isinstance(out, str) or sm & 3 == 0:
            return None
        e = O.balanced(out, None, lenient=True)
        if e:
            return ('C06/cli-' + e[0].split(':')[0], 'rimupy %s: %s: %s in %r' % (' '.join(case['argv'][:6]), e[0], e[1], out[:200]))
        return None

    def oracle(self, ctx, case, impl, variants=()):
        if not all_ok(impl):
            return None
        for k, c in enumerate(impl['calls']):
            e = O.balanced(c['html'], SENT, lenient=(case['calls'][k].get('safeMode') == 0))
            if e:
                return ('C06/' + e[0].split(':')[0], 'call %d: %s: %s in %r' % (k, e[0], e[1], c['html'][:200]))
        return None


# ---------------------------------------------------------------------------
# C04 -- safe-mode input cannot change definitions or options

PROBES = ["*a* _b_ `c` ~~d~~ **e** __f__ =g= #h# !i!", "[l](http://u.v) <http://w.x> foo ... x+ xx &amp; <b>t</b>",
          "``\ncode {m}\n``", "..\ndiv *x*\n..", "\"\"\nq\n\"\"", "  indented\n\n> qp\n\n<div>h</div>",
          "{m} {n} {m|a|b} {--}", "para *p* <i>raw</i> <!-- c -->"]
PREAMBLE_LINES = [l for l in gen.LINES if re.match(r"^(\{[\w-]+\??\}\s*=\s*'.*'|\|[\w-]+\|\s*=|/.+/[igm]*\s*=|\S{1,2}\s*=\s*'[^|]*\|)", l)
                  and not l.startswith('\\') and l not in ("{m}='", "{m} = 'multi", "/(/='x'")]
UNTRUSTED_EXTRA = ["|paragraph|='<p class=\"x\">|</p>'", "= = '<u>|</u>'", "/foo/='bar'", ".safeMode='0'", ".htmlReplacement='Z'",
                   ".reset='true'", "{m}='evil'", "{m?}='evil'", "{new}='n'", "{--header-ids}='y'", "|code|='-macros'",
                   "* = '<b>|</b>'", "/x+/i='y'", "{m}='", "two'", "|division|='<section>|</section>'"]


class C04(Spec):
    level_text = ('Full for the frame statement over the model: C04_frame (for every fuel, source and session with a non-zero safe mode, '
                  'document.render leaves safeMode, htmlReplacement, the quote, replacement and delimited-block definitions unchanged -- '
                  'proved through the frame theorem over every block-layer function, with the conditions on writers stated in terms of the '
                  '*generated* guards), C04_macros (macro table unchanged unless bit 8), C04_api (same at the render API after the call\'s '
                  'own options). "No later document renders differently" is decided by the oracle (probe battery before/after) and the '
                  'model/implementation comparison of full state snapshots.')
    rule = ('trusted preamble (definitions at mode 0) . untrusted token soup biased to definition/option lines at each of the 15 non-zero '
            'modes . flush . probe battery; compared with the same session without the untrusted document; state snapshots compared; '
            'non-trivial = tag other than <p>, diagnostic or raise')
    state_keys = ['mode', 'repl', 'quotes', 'repls', 'dblocks', 'macros']

    def project(self, call):
        return None

    def _case(self, rng):
        pre = '\n'.join(rng.sample(PREAMBLE_LINES, rng.randint(0, 4)))
        m = rng.randint(1, 15)
        lines = []
        for _ in range(rng.randint(1, 6)):
            lines.append(rng.choice(UNTRUSTED_EXTRA) if rng.random() < 0.6 else gen.soup_doc(rng, 2))
        unt = '\n'.join(lines)
        later0 = rng.random() < 0.3
        # two flush paragraphs: the first takes the pending block options (it is skipped under +skip, in which case the pending
        # classes / id / css stay), the second takes what is still pending
        tail = [call('x', cb=True), call('y', cb=True)] + [call(p, cb=True) for p in PROBES]
        if later0:
            tail = tail + [call(PROBES[0], safeMode=0, cb=True), call(PROBES[6], cb=True), call(PROBES[3], cb=True)]
        main = H([call(pre, safeMode=0, reset=True, cb=True), call(unt, safeMode=m, cb=True)] + tail, state=True)
        base = H([call(pre, safeMode=0, reset=True, cb=True), call('', safeMode=m, cb=True)] + tail, state=True)
        main['variants'] = [base]
        main['meta'] = {'mode': m}
        return main

    def streams(self, ctx):
        rng = ctx.rng('H')
        cs = []
        for _ in range(sizes(ctx, 500, 25000)):
            c = self._case(rng)
            cs.append(c)
            cs.append(c['variants'][0])
        return [corpus_stream(ctx), ('H', cs)]

    def search_cases(self, ctx, boost):
        rng = ctx.rng('S')
        return [self._case(rng) for _ in range(sizes(ctx, 600, 25000) * (3 if boost else 1))]

    def oracle(self, ctx, case, impl, variants=()):
        if not variants or not all_ok(impl) or not all_ok(variants[0]):
            return None
        a, b = impl['calls'], variants[0]['calls']
        if len(a) != len(b):
            return None
        bit8 = bool(case['meta']['mode'] & 8)
        for k in range(4, len(a)):
            src = case['calls'][k]['src']
            if bit8 and '{' in src:
                # macros may legitimately change under bit 8; a changed macro invoked by a probe may in turn leave Block
                # Attributes pending, which reach the next block that is not skipped -- possibly several probes later
                break
            if a[k]['html'] != b[k]['html']:
                return ('C04/later-document-differs', 'probe %r renders %r after the untrusted document, %r without it'
                        % (src, a[k]['html'][:120], b[k]['html'][:120]))
        sa, sb = impl.get('state'), variants[0].get('state')
        if sa and sb:
            for key in ['mode', 'repl', 'quotes', 'repls', 'dblocks'] + ([] if bit8 else ['macros']):
                if sa.get(key) != sb.get(key):
                    return ('C04/state-changed:' + key, '%s changed: %r vs %r' % (key, sa.get(key), sb.get(key)))
        return None


# ---------------------------------------------------------------------------
# C05 -- reset makes render a pure function

class C05(Spec):
    level_text = ('Full over the model. C05_reset_pure: for every fuel, source and option set carrying a truthy reset, and any two sessions '
                  'whatever (any histories, including the never-initialised interpreter), rimu.render gives the same HTML or the same failure, '
                  'appends the same diagnostics, and leaves sessions that agree on everything but the older log and the list-id scratch stack; '
                  'C05_equals_fresh_process is the instance with the fresh interpreter. Proof: C05_reset_state (the option phase erases the '
                  'history) + the relational theorem rel_doc_render (document.render never reads the two excepted fields before writing them). '
                  'What a theorem about the model cannot see -- Python aliasing of default objects -- is the job of the oracle (arbitrary '
                  'histories vs a fresh interpreter) and of the state-snapshot correspondence.')
    rule = ('random histories of 1-4 calls (redefinitions, ids, pending attributes, unterminated blocks, illegal options) followed by a call '
            'with reset=true; oracle compares with the same call alone in a fresh interpreter; non-trivial as usual')
    state_keys = None

    def _case(self, rng):
        h = gen.history(rng, 4)
        last = gen.rand_opts(rng, legal_only=rng.random() < 0.7)
        last['reset'] = rng.choice([True, 'true', 1])
        last['src'] = gen.soup_doc(rng, 8)
        last['cb'] = True
        main = H(h['calls'] + [last], state=True)
        main['variants'] = [H([last], state=True)]
        return main

    def streams(self, ctx):
        rng = ctx.rng('H')
        cs = []
        for _ in range(sizes(ctx, 500, 20000)):
            c = self._case(rng)
            cs.append(c)
        return [corpus_stream(ctx), ('H', cs)]

    def search_cases(self, ctx, boost):
        rng = ctx.rng('S')
        return [self._case(rng) for _ in range(sizes(ctx, 800, 30000) * (3 if boost else 1))] + gen.reset_adversaries()

    def oracle(self, ctx, case, impl, variants=()):
        if not variants or not all_ok(impl) or not all_ok(variants[0]):
            return None
        a, b = impl['calls'][-1], variants[0]['calls'][-1]
        if a['html'] != b['html']:
            return ('C05/output-depends-on-history', 'with reset: %r after the history, %r in a fresh interpreter'
                    % (a['html'][:150], b['html'][:150]))
        if a['log'] != b['log']:
            return ('C05/diagnostics-depend-on-history', '%r vs %r' % (a['log'][:4], b['log'][:4]))
        return None


# ---------------------------------------------------------------------------
# C13 -- the three HTML policies differ only at the HTML elements

class C13(Spec):
    level_text = ('Partial. Proved: C13_policy_cases (the policy function is the only place where the low two bits of the safe mode are '
                  'consulted: html_policy is total over the generated selector and the three non-raw policies return nothing / the replacement '
                  '/ the escaped text); C13_inline_tag (for every pre / post over letters, digits, blank, full stop and comma and every tag name of '
                  'letters and digits, spans.render of pre<name>post is pre . F . post with F what the policy makes of the tag: the policies differ '
                  'at the tag and nowhere else, the surrounding text is rendered identically -- the tag is located with the exact regex semantics, '
                  'swapped for a placeholder before the quotes pass and restored after it); C13_tag_document (end to end: the one-line document '
                  'pre<name>post renders to <p>pre F post</p>, session unchanged), C13_tag_in_quote_block (inside a container: the quote block holding that line renders to blockquote around the same paragraph, the policies differing at the tag only). Non-interference for arbitrary surrounding markup is '
                  'not proved; decided by the alignment oracle and full-HTML correspondence at modes 1,2,3 + {0,4,8,12}.')
    rule = ('token-soup sources rendered at modes 1,2,3 + {0,4,8,12} with a fresh sentinel replacement; outputs aligned around sentinel '
            'occurrences modulo newlines; non-trivial = source contains an HTML element')
    state_keys = []

    def project(self, call):
        return call.get('html')

    def _case(self, rng):
        hi = rng.choice([0, 4, 8, 12])
        src = gen.soup_doc(rng, 8)
        mk = lambda m: H([call(src, safeMode=m + hi, reset=True, htmlReplacement=SENT, cb=False)])
        main = mk(2)
        main['variants'] = [mk(1), mk(3)]
        return main

    def streams(self, ctx):
        rng = ctx.rng('T')
        cs = []
        for _ in range(sizes(ctx, 400, 20000)):
            c = self._case(rng)
            cs += [c] + c['variants']
        return [corpus_stream(ctx), ('T', cs)]

    CURATED = [".cls\n<div>x</div>\n\npara", "*<br> a*", "`<br>`", "<div>\n<p>\nx\n</div>\n\nnext", "a <b>b</b> *c* <!-- d -->",
               "<!-- c1\nc2 -->\n\npara", "- <i>x</i>\n- y", "**<!-- c --> strong**", "_text <br>_"]

    def search_cases(self, ctx, boost):
        rng = ctx.rng('S')
        cur = []
        for src in self.CURATED:
            for hi in (0, 4, 8, 12):
                mk = lambda m: H([call(src, safeMode=m + hi, reset=True, htmlReplacement=SENT, cb=False)])
                c = mk(2)
                c['variants'] = [mk(1), mk(3)]
                cur.append(c)
        # instances of C13_tag_document: pre <name> post over words, the three policies
        trng = random.Random('thm-C13')
        W2 = 'abcdefghijklmnopqrstuvwxyzABCDEFGHIJKLMNOPQRSTUVWXYZ0123456789 ,'
        L = 'abcdefghijklmnopqrstuvwxyzABCDEFGHIJKLMNOPQRSTUVWXYZ'
        for _ in range(20):
            pre = trng.choice(L) + ''.join(trng.choice(W2) for _ in range(trng.randint(0, 10)))
            post = ''.join(trng.choice(W2) for _ in range(trng.randint(0, 10))).rstrip()
            name = trng.choice('abipqsu') + ''.join(trng.choice('abcdefgh123') for _ in range(trng.randint(0, 4)))
            src = '%s<%s>%s' % (pre, name, post)
            for hi in (0, 4, 8, 12):
                mk = lambda m: H([call(src, safeMode=m + hi, reset=True, htmlReplacement=SENT, cb=False)])
                c = mk(2)
                c['variants'] = [mk(1), mk(3)]
                c['meta'] = {'expect3': ['<p>%s%s</p>' % (pre, post), '<p>%s%s%s</p>' % (pre, SENT, post), '<p>%s&lt;%s&gt;%s</p>' % (pre, name, post)]}
                cur.append(c)
        return cur + [self._case(rng) for _ in range(sizes(ctx, 1000, 30000) * (3 if boost else 1))]

    def cli_oracle(self, ctx, case, res):
        # rimupy --safe-mode N: the policy selected by the low two bits is applied to the untrusted source's HTML
        sm = int(case['argv'][case['argv'].index('--safe-mode') + 1])
        out = res.get('stdout')
        if not isinstance(out, str) or sm & 3 == 0:
            return None
        for t in CLI_UNTRUSTED_TAGS:
            if t in out:
                return ('C13/cli-policy-not-applied', 'rimupy %s: policy %d should have removed, replaced or escaped %s: %r'
                        % (' '.join(case['argv'][:6]), sm & 3, t, out[:200]))
        return None

    def oracle(self, ctx, case, impl, variants=()):
        if len(variants) < 2 or not all_ok(impl) or not all_ok(variants[0]) or not all_ok(variants[1]):
            return None
        exp3 = case.get('meta', {}).get('expect3')
        if exp3:
            got = [variants[0]['calls'][0]['html'], impl['calls'][0]['html'], variants[1]['calls'][0]['html']]
            for g, e, nm in zip(got, exp3, ('drop', 'replace', 'escape')):
                if O.squeeze(g) != O.squeeze(e):
                    return ('C13/theorem-instance:C13_tag_document', 'policy %s: %r renders %r, the theorem gives %r' % (nm, case['calls'][0]['src'], g[:200], e[:200]))
        src = case['calls'][0]['src']
        if SENT in src:
            return None
        o2 = impl['calls'][0]['html'].replace('\n', '')
        o1 = variants[0]['calls'][0]['html'].replace('\n', '')
        o3 = variants[1]['calls'][0]['html'].replace('\n', '')
        segs = o2.split(SENT)
        if ''.join(segs) != o1:
            return ('C13/drop-vs-replace', 'drop gives %r, replace gives %r' % (o1[:200], o2[:200]))
        pat = '(?:&lt;[\\s\\S]*?)'.join(re.escape(x) for x in segs)
        if not re.fullmatch(pat, o3):
            return ('C13/escape-vs-replace', 'escape gives %r, replace gives %r' % (o3[:200], o2[:200]))
        return None


# ---------------------------------------------------------------------------
# C14 -- rendering in parts equals rendering whole

class C14(Spec):
    level_text = ('Partial. Proved: C14_state_carries (render initialises only when the mode is -1; with no reset and no options the call '
                  'leaves the whole session untouched before rendering -- updateFrom_persist), so split and joined renders start B from the '
                  'same definitions; C14_parts_equal_whole (Proofs/Locality.v: if the blocks of A -- line blocks and delimited blocks -- end before '
                  'a non-empty run of trailing blank lines of A, then for every B the block loop renders A followed by B exactly as it '
                  'renders A and then B from the session A left: same HTML, session and diagnostics; the premise is what the property calls '
                  '"A leaves no block open and does not end in a list"; proved through suffix-locality of every line-block and '
                  'delimited-block function and of the list fixpoint), C14_parts_equal_whole_text (the same at document.render with texts: '
                  'render(A), then render(B), and render(A newline B) in one call give o, outB and o.outB with the same final session; the reader '
                  'splits the joined text into the lines of A followed by those of B, and fuel monotonicity bridges the fuel left over). The '
                  'API wrapper with option values, and documents whose last block reaches the end of A, are decided by the split-vs-joined '
                  'oracle and correspondence on pairs and triples.')
    rule = ('pairs/triples of token-soup documents, A closed (checked by rendering A + sentinel paragraph); options on the first call only; '
            'HTML compared up to white space between tags, diagnostics as sets; non-trivial as usual')
    state_keys = None

    def _case(self, rng):
        m = rng.choice([None, 0, 0, 1, 3, 5, 9, 15])
        # an in-document .reset element drops the callback for the rest of that call by design: not generated here
        A = gen.soup_doc(rng, 7, closed=True).replace(".reset=", ".reset =x")
        if rng.random() < 0.3:
            # pending Block Attributes carry across calls exactly as they carry across blocks
            A += '\n\n' + '\n'.join(rng.sample(['.-spans', '.+skip', '.kcls', '.#idz', '."c:d"', '.-macros'], rng.randint(1, 2)))
        B = gen.soup_doc(rng, 7, no_list_start=True).replace(".reset=", ".reset =x")
        if rng.random() < 0.3:
            B = rng.choice(['*em* start', '{--} *x*', '# Head *h*', '``\ncode\n``']) + '\n\n' + B
        o = dict(safeMode=m, reset=True, cb=True)
        parts = H([call(A, **o), call(B, cb=True)], state=True)
        whole = H([call(A + '\n\n' + B, **o)], state=True)
        probe = H([call(A + '\n\nZZZ9\n\nYYY8', **o)])
        parts['variants'] = [whole, probe]
        return parts

    def streams(self, ctx):
        rng = ctx.rng('H')
        cs = []
        for _ in range(sizes(ctx, 400, 20000)):
            c = self._case(rng)
            cs += [c, c['variants'][0]]
        return [corpus_stream(ctx), ('H', cs)]

    def search_cases(self, ctx, boost):
        rng = ctx.rng('S')
        return [self._case(rng) for _ in range(sizes(ctx, 800, 30000) * (3 if boost else 1))]

    def oracle(self, ctx, case, impl, variants=()):
        if len(variants) < 2 or not all_ok(impl, 2) or not all_ok(variants[0]) or not all_ok(variants[1]):
            return None
        A = case['calls'][0]['src']
        pa = impl['calls'][0]
        pr = variants[1]['calls'][0]
        # precondition: A is closed -- following paragraphs are rendered on their own, after exactly A's rendering
        sq = O.squeeze(pr['html'])
        if not sq.startswith(O.squeeze(pa['html'])) or not sq.endswith('<p>YYY8</p>'):
            return None
        if re.search(r'ZZZ9.*<(?!/?p>)[^<]*YYY8', sq, re.S):
            return None
        if any('unterminated' in m[1] for m in pa['log']):
            return None
        parts = O.squeeze(impl['calls'][0]['html'] + '\n' + impl['calls'][1]['html'])
        whole = O.squeeze(variants[0]['calls'][0]['html'])
        if parts != whole:
            return ('C14/html-differs', 'in parts %r, whole %r' % (parts[:200], whole[:200]))
        la = set(tuple(m) for c in impl['calls'] for m in c['log'])
        lb = set(tuple(m) for m in variants[0]['calls'][0]['log'])
        # undefined-macro diagnostics quote the enclosing text, which differs by construction
        norm = lambda S: set((t, re.sub(r'^(undefined macro: [^:]*):.*$', r'\1', x, flags=re.S)) for t, x in S)
        if norm(la) != norm(lb):
            return ('C14/diagnostics-differ', 'in parts %r, whole %r' % (sorted(la)[:4], sorted(lb)[:4]))
        return None


# ---------------------------------------------------------------------------
# C15 -- element ids unique unless a duplicate is reported

class C15(Spec):
    level_text = ('Full for the registry invariant: C15_nodup (the id registry of every reachable session has no duplicates -- frame '
                  'theorem instance), C15_slug_fresh (slugify never returns a registered id; the suffix search terminates by pigeonhole, '
                  'proved, not assumed), C15_register_or_report (injection either registers a new id or logs a duplicate diagnostic), '
                  'C15_ids_lower_case (every id in the registry of every reachable session is lower-case: the frame obligation for the registry '
                  'carries the premise, discharged by C15_lower_idempotent over the generated lower-case table), C15_slug_lower_case. '
                  'That emitted id attributes coincide with registrations is decided by the oracle (ids parsed from outputs) and correspondence.')
    rule = ('sessions of 1-4 documents with headers (colliding, empty, suffix-looking slugs), explicit ids colliding with each other and '
            'with generated ones; ids parsed from outputs must be lower-case, a repeat iff a duplicate diagnostic; non-trivial = an id is emitted')
    state_keys = ['ids', 'pending']

    def project(self, call):
        return (O.ids_of(call.get('html') or ''), [m for m in (call.get('log') or []) if 'duplicate' in m[1]])

    def _case(self, rng):
        titles = ['Intro', 'intro', 'Intro!', '???', '!!!', 'a 2', 'a-2', 'a', 'A', 'x', 'X y', 'say hi', 'É', 'K', 'a_b', '1', 'x-2',
                  'x 2', 'say id="x" now', 'class="c" id="y"']
        ids = ['intro', 'Intro', 'a', 'a-2', 'x', 'x-2', 'b', 'A']
        calls = []
        for j in range(rng.randint(1, 4)):
            lines = []
            if j == 0 and rng.random() < 0.8:
                lines.append("{--header-ids}='true'")
            for _ in range(rng.randint(1, 6)):
                r = rng.random()
                if r < 0.45:
                    lines.append('#' * rng.randint(1, 3) + ' ' + rng.choice(titles))
                elif r < 0.75:
                    lines.append('.#' + rng.choice(ids))
                    lines.append(rng.choice(['para', '# ' + rng.choice(titles), '- item', '..\nx\n..', 'term:: def']))
                elif r < 0.85:
                    lines.append('.cls #' + rng.choice(ids))
                    lines.append('para')
                else:
                    lines.append(rng.choice(['para', '- a\n- b', "{--header-ids}=''", "{--header-ids}='1'"]))
                lines.append('')
            calls.append(call('\n'.join(lines), cb=True, reset=True if (j == 0 or rng.random() < 0.1) else None))
        return H(calls, state=True)

    def streams(self, ctx):
        rng = ctx.rng('H')
        return [corpus_stream(ctx), ('ids', [self._case(rng) for _ in range(sizes(ctx, 600, 30000))])]

    def search_cases(self, ctx, boost):
        rng = ctx.rng('S')
        return [self._case(rng) for _ in range(sizes(ctx, 1000, 40000) * (3 if boost else 1))]

    def cli_oracle(self, ctx, case, res):
        # rimupy --header-ids: ids in the output are lower-case, and pairwise distinct unless a duplicate was reported
        out = res.get('stdout')
        if not isinstance(out, str):
            return None
        ids = re.findall(r'<[a-zA-Z][^<>]*?\sid="([^"]*)"', out)
        for i in ids:
            if i != i.lower():
                return ('C15/cli-not-lower', 'rimupy %s: id %r is not lower-case' % (' '.join(case['argv'][:4]), i))
        dup = sorted({i for i in ids if ids.count(i) > 1})
        reported = any('duplicate' in l for l in res.get('stderr') or [])
        if dup and not reported:
            return ('C15/cli-duplicate-unreported', 'rimupy %s: ids %r repeated with no duplicate diagnostic: %r' % (' '.join(case['argv'][:4]), dup, out[:200]))
        return None

    def oracle(self, ctx, case, impl, variants=()):
        if not all_ok(impl):
            return None
        seen = set()
        for k, c in enumerate(impl['calls']):
            if case['calls'][k].get('reset'):
                seen = set()
            ids = O.ids_of(c['html'])
            dups = [m for m in c['log'] if m[1].startswith("duplicate 'id' attribute")]
            repeated = []
            for i in ids:
                if i != i.lower():
                    return ('C15/not-lower-case', 'id %r emitted' % i)
                if i in seen:
                    repeated.append(i)
                seen.add(i)
            if repeated and not dups:
                return ('C15/duplicate-unreported', 'id %r repeated in call %d without a diagnostic' % (repeated[0], k))
            # a duplicate diagnostic must correspond to an explicitly repeated id in the source
            explicit = re.findall(r'#([A-Za-z][\w-]*)', case['calls'][k]['src'])
            for d in dups:
                name = d[1].split(': ', 1)[1]
                if name not in [e.lower() for e in explicit]:
                    return ('C15/spurious-duplicate', 'diagnostic %r but the source does not give that id' % d[1])
        return None


# ---------------------------------------------------------------------------
# C16 -- line endings and reserved control characters

class C16(Spec):
    level_text = ('Full over the model. Line endings: C16_reader_spec (the reader splits on the *generated* pattern exactly like the reference '
                  'splitter: the matcher is evaluated symbolically on that pattern), C16_lines (decode after encode: for every choice of LF / CR LF '
                  '/ CR per line the lines come back, by induction over the line list; the one inherently ambiguous combination -- a CR terminator '
                  'directly followed by an empty LF-terminated line -- is excluded), C16_same_lines and C16_render_recode (sources with the same '
                  'lines render identically from every session, option set and fuel). Reserved characters: C16_blanked, C16_blank_spec, '
                  'C16_reader_reserved_free (they are blanks for the renderer); C16_placeholders_resolved (the placeholder protocol of '
                  'spans.render: every saved fragment restored exactly once, in order, the pop never underflows, nothing reserved left), '
                  'C16_quote_match_shape, C16_output_reserved_free / C16_render_reserved_free (along every history of render calls whose '
                  'htmlReplacement option text, when given, is free of them, no output contains U+0000..U+0002: Hoare triples over every '
                  'block-layer function, Proofs/Taint.v). What the model cannot show -- a render aborted by an exception leaving saved '
                  'fragments behind -- is searched on the implementation (aborted histories).')
    rule = ('token-soup documents re-encoded with random per-line terminators, and with reserved characters inserted at random positions; '
            'outputs must coincide and contain none of U+0000..U+0002; non-trivial as usual')
    state_keys = []

    def project(self, call):
        return call.get('html')

    def _case(self, rng):
        m = rng.choice([0, 0, 1, 2, 3, 5, 9, 15])
        src = gen.soup_doc(rng, 8, lf_only=True)
        lines = src.split('\n')
        rec = ''
        for i, l in enumerate(lines):
            rec += l
            if i < len(lines) - 1:
                t = rng.choice(['\n', '\r\n', '\r'])
                # a CR terminator directly followed by an empty LF-terminated line is inherently ambiguous (CR LF)
                rec += t
        # avoid the ambiguous CR + LF adjacency: "\r" terminator followed by "" line and "\n" terminator
        rec = re.sub('\r\n', '\x00CRLF\x00', rec)
        rec = rec.replace('\x00CRLF\x00', '\r\n')
        res = list(src)
        for _ in range(rng.randint(1, 4)):
            res.insert(rng.randint(0, len(res)), rng.choice(['\x00', '\x01', '\x02']))
        res = ''.join(res)
        blank = res.replace('\x00', ' ').replace('\x01', ' ').replace('\x02', ' ')
        o = dict(safeMode=m, reset=True, cb=True)
        main = H([call(src, **o)])
        main['variants'] = [H([call(rec, **o)]), H([call(res, **o)]), H([call(blank, **o)])]
        main['meta'] = {'rec_ok': self._unambiguous(lines, rec)}
        return main

    @staticmethod
    def _unambiguous(lines, rec):
        return re.split(r'\r\n|\r|\n', rec) == lines

    def streams(self, ctx):
        rng = ctx.rng('T')
        cs = []
        for _ in range(sizes(ctx, 300, 15000)):
            c = self._case(rng)
            cs += [c] + c['variants']
        return [corpus_stream(ctx), ('T', cs)]

    def search_cases(self, ctx, boost):
        rng = ctx.rng('S')
        return [self._case(rng) for _ in range(sizes(ctx, 800, 30000) * (3 if boost else 1))]

    def cli_oracle(self, ctx, case, res):
        # rimupy: no reserved control character of any input reaches the output
        out = res.get('stdout')
        if not isinstance(out, str) or ('--html-replacement' in case['argv'] and re.search('[\x00-\x02]', ' '.join(case['argv']))):
            return None
        m = re.search('[\x00\x01\x02]', out)
        if m:
            return ('C16/cli-reserved-in-output', 'rimupy %r: U+%04X in the output: %r' % (case['argv'][:4], ord(m.group(0)), out[max(0, m.start() - 40):m.start() + 40]))
        return None

    def oracle(self, ctx, case, impl, variants=()):
        if len(variants) < 3 or not all_ok(impl) or not all(all_ok(v) for v in variants):
            return None
        base = impl['calls'][0]['html']
        for r in [impl] + list(variants):
            h = r['calls'][0]['html']
            if re.search('[\x00\x01\x02]', h):
                return ('C16/reserved-in-output', 'output contains a reserved character: %r' % h[:120])
        if case['meta']['rec_ok'] and variants[0]['calls'][0]['html'] != base:
            return ('C16/terminators', 're-encoded terminators change the output: %r vs %r' % (variants[0]['calls'][0]['html'][:150], base[:150]))
        if variants[1]['calls'][0]['html'] != variants[2]['calls'][0]['html']:
            return ('C16/reserved-not-blank', 'reserved characters are not treated as blanks: %r vs %r'
                    % (variants[1]['calls'][0]['html'][:150], variants[2]['calls'][0]['html'][:150]))
        return None



import grammar as G


class ExpectSpec(Spec):
    """properties whose oracle is 'output equals the HTML predicted from the generator's AST'"""
    state_keys = []
    cls_prefix = 'Cxx'

    def project(self, call):
        return call.get('html')

    def gen_case(self, rng):
        raise NotImplementedError

    def streams(self, ctx):
        rng = ctx.rng('G')
        return [corpus_stream(ctx), ('G', [strip_case(self.gen_case(rng)) for _ in range(sizes(ctx, 500, 25000))])]

    def search_cases(self, ctx, boost):
        rng = ctx.rng('S')
        return [self.gen_case(rng) for _ in range(sizes(ctx, 1200, 40000) * (3 if boost else 1))] + self.curated()

    CUR = []

    def curated(self):
        out = []
        for src, mode, exp, kind in list(self.CUR) + thm_instances.instances(self.cls_prefix) + (thm_instances.instances('C08q') if self.cls_prefix == 'C08' else []):
            c = H([call(src, safeMode=mode, reset=True, cb=True)])
            c['meta'] = {'expect': exp, 'kind': kind}
            out.append(c)
        return out

    def oracle(self, ctx, case, impl, variants=()):
        if not all_ok(impl):
            return None
        exp = case['meta'].get('expect')
        if exp is None:
            return None
        got = impl['calls'][-1]['html']
        if O.squeeze(got) != O.squeeze(exp):
            return (self.cls_prefix + '/' + case['meta'].get('kind', 'unexpected-html'),
                    'source %r renders %r, the generator predicts %r' % (case['calls'][-1]['src'][:200], got[:300], exp[:300]))
        return None


class C07(ExpectSpec):
    level_text = ('Partial. Proved: C07_plain_document (end to end through reader, block dispatch, paragraph block, macro pass and spans: a one-line '
                  'document over the safe alphabet renders to exactly <p>escaped line</p>, any length, session unchanged), C07_plain (a paragraph text over the plain alphabet -- the code points that, by the verified first-set '
                  'analysis of the *generated* replacement, quote and placeholder regexes, can start no match -- renders to exactly its escape, '
                  'for text of any length), C07_frozen_escape (an escaped or matched replacement becomes a finished fragment whose text is not '
                  'scanned again: fragReplacements never searches done fragments), plus the escape lemmas; C07_emphasis with '
                  'C07_emphasis_match_unique (real markup: for every pre, body, post over the plain alphabet, body starting and ending with a '
                  'non-space, spans.render of pre*body*post is escape pre <em> escape body </em> escape post -- the quote match is pinned down '
                  'with the exact regex semantics: every derivation of the generated quote pattern on *body*post ends in one state, and the '
                  'complete matcher finds it); C07_emphasis_document (the same end to end: the one-line document pre*body*post renders to '
                  '<p>pre<em>body</em>post</p>, session unchanged). The full product grammar (quotes '
                  'x replacements x adjacency) is decided by the generator-predicted-HTML oracle and full-HTML correspondence, not proved.')
    rule = ('paragraphs from an inline grammar (words, isolated specials, 7 built-in + 2 defined quotes nested by differing delimiter to '
            'depth 3, the replacement forms with URL/caption words) in modes 0,1,4,9; expected HTML built with the AST; '
            'non-trivial = contains a quote or replacement')
    cls_prefix = 'C07'
    CUR = [('*a***', 0, '<p><em>a**</em></p>', 'surplus-delimiters'), ('`make```', 1, '<p><code>make``</code></p>', 'surplus-delimiters'),
           ('x **b**** y', 0, '<p>x <strong>b**</strong> y</p>', 'surplus-delimiters'), ('~~gone~~~~', 0, '<p><del>gone~~</del></p>', 'surplus-delimiters'),
           ('_**b****_', 0, '<p><em><strong>b**</strong></em></p>', 'surplus-delimiters'),
           ('[a](b)[c](d)', 0, '<p><a href="b">a</a><a href="d">c</a></p>', 'adjacent-links'),
           ('([a](b))', 1, '<p>(<a href="b">a</a>)</p>', 'adjacent-links'),
           ('(see [c](http://x.y/z).)', 0, '<p>(see <a href="http://x.y/z">c</a>.)</p>', 'adjacent-links'),
           ('^[a](b)^[c](d)', 0, '<p><a href="b" target="_blank">a</a><a href="d" target="_blank">c</a></p>', 'adjacent-links'),
           ('![a](b)![c](d)', 0, '<p><img src="b" alt="a"><img src="d" alt="c"></p>', 'adjacent-links'),
           ('<a.b|x><c.d|y>', 0, '<p><a href="a.b">x</a><a href="c.d">y</a></p>', 'adjacent-links'),
           ('<j@k.lm><n@o.pq>', 0, '<p><a href="mailto:j@k.lm">j@k.lm</a><a href="mailto:n@o.pq">n@o.pq</a></p>', 'adjacent-links'),
           ('a_b_c x_y', 0, '<p>a_b_c x_y</p>', 'underscore-in-word'), ('line \\\nbreak', 0, '<p>line<br>\nbreak</p>', 'line-break'),
           ('&amp;&lt;&#160;', 0, '<p>&amp;&lt;&#160;</p>', 'entities'), ('a & b < c > d', 3, '<p>a &amp; b &lt; c &gt; d</p>', 'specials'),
           ('[H<sub>2</sub>O](water.html)', 0, '<p><a href="water.html">H<sub>2</sub>O</a></p>', 'tag-in-caption'),
           ('^[H<sub>2</sub>O](w.html)', 0, '<p><a href="w.html" target="_blank">H<sub>2</sub>O</a></p>', 'tag-in-caption'),
           ('[a <!-- c --> b](u)', 0, '<p><a href="u">a <!-- c --> b</a></p>', 'tag-in-caption'),
           ('[a](http://a.b/*x*) *y*', 0, '<p><a href="http://a.b/*x*">a</a> <em>y</em></p>', 'url-not-reinterpreted'),
           ('<b title="*x*">t</b> *y*', 0, '<p><b title="*x*">t</b> <em>y</em></p>', 'tag-not-reinterpreted'),
           ('*[a](u)*', 0, '<p><em><a href="u">a</a></em></p>', 'link-in-quote'), ('[*a*](u)', 0, '<p><a href="u"><em>a</em></a></p>', 'quote-in-caption'),
           ('`[a](u)` `<b>` `&amp;` `http://x.y`', 0, '<p><code>[a](u)</code> <code>&lt;b&gt;</code> <code>&amp;amp;</code> <code>http://x.y</code></p>', 'code-verbatim'),
           ('![a](i.png) <image:j.png|b> x', 0, '<p><img src="i.png" alt="a"> <img src="j.png" alt="b"> x</p>', 'images'),
           ('<_nobody_@example.org> <*me*@example.org> <a~~b~~c@x.org>', 0, '<p><a href="mailto:_nobody_@example.org">_nobody_@example.org</a> <a href="mailto:*me*@example.org">*me*@example.org</a> <a href="mailto:a~~b~~c@x.org">a~~b~~c@x.org</a></p>', 'url-not-reinterpreted'),
           ('<http://a.b/_x_> http://c.d/*y*z <image:_i_.png>', 0, '<p><a href="http://a.b/_x_">http://a.b/_x_</a> <a href="http://c.d/*y*z">http://c.d/*y*z</a> <img src="_i_.png" alt="_i_.png"></p>', 'url-not-reinterpreted'),
           # captions that look like the element itself: the captioned form of a definition must win over the plain one
           ('<joe@example.com|joe@work.example.org>', 0, '<p><a href="mailto:joe@example.com">joe@work.example.org</a></p>', 'caption-looks-like-element'),
           ('<sales@acme.com|@acme> <j@x.org|j@x.org>', 0, '<p><a href="mailto:sales@acme.com">@acme</a> <a href="mailto:j@x.org">j@x.org</a></p>', 'caption-looks-like-element'),
           ('<http://a.b|a.b> <http://c.d/e|c.d/e>', 0, '<p><a href="http://a.b">a.b</a> <a href="http://c.d/e">c.d/e</a></p>', 'caption-looks-like-element'),
           ('x <image:i.png|i.png> <image:i.png|image:j.png>', 0, '<p>x <img src="i.png" alt="i.png"> <img src="i.png" alt="image:j.png"></p>', 'caption-looks-like-element'),
           ('[j@k.lm](mailto:n@o.pq) [a.b](c.d)', 0, '<p><a href="mailto:n@o.pq">j@k.lm</a> <a href="c.d">a.b</a></p>', 'caption-looks-like-element'),
           ('<image:pic.png|say "hi"> [here](http://x.org/?q="1")', 0, '<p><img src="pic.png" alt="say &quot;hi&quot;"> <a href="http://x.org/?q=&quot;1&quot;">here</a></p>', 'quote-in-attribute')]

    def streams(self, ctx):
        rng = ctx.rng('G')
        rs = ctx.rng('T')
        soup = [H([call('Lead ' + gen.inline_text(rs, rs.randint(2, 10)), safeMode=rs.choice([0, 1]), reset=True, cb=True)])
                for _ in range(sizes(ctx, 600, 25000))]
        return [corpus_stream(ctx), ('G', [strip_case(self.gen_case(rng)) for _ in range(sizes(ctx, 500, 25000))]), ('T', soup)]

    def gen_case(self, rng):
        mode = rng.choice([0, 0, 1, 4, 9, 12])
        src, html, has_defs = G.inline_paragraph(rng, extra_quotes=(mode == 0 and rng.random() < 0.3))
        if (mode & 3) and any(t in src for t in ('<sub>2</sub>', '<!-- c -->', '<br>')):
            mode = 0   # captions with inline tags: raw HTML policy only
        c = H([call(src, safeMode=mode if not has_defs else 0, reset=True, cb=True)])
        c['meta'] = {'expect': html, 'kind': 'inline'}
        return c


class C08(ExpectSpec):
    level_text = ('Partial. Proved: C08_plain_paragraph (end to end: a one-line document over the safe alphabet becomes exactly one paragraph: none '
                  'of the 12 line rules, 3 list rules and 8 earlier delimited-block rules of the generated tables can match it -- verified '
                  'alphabet / first-character analyses -- the paragraph pattern captures the whole line, attributes injection is the identity '
                  'when nothing is pending), C08_in_order (the block loop emits the rendering of the first block followed by the rendering of the '
                  'rest from the state the first block left: doc_loop unfolding lemmas for each of the three dispatch branches), C08_blank_skip '
                  '(leading blank lines are skipped), C08_tables (names, tags and container/verbatim expansion of the generated block table). '
                  'C08_matcher_sound_and_complete, C08_match_iff, C08_search_complete, C08_patterns_exact (dispatch is first-match: the model\'s backtracking '
                  'matcher finds a match exactly when one exists in the exact declarative semantics mx, for all 82 generated patterns). '
                  'C08_first_blocks_independent, C08_line_block_local, C08_delimited_block_local (a block that ends before the end of the input is '
                  'rendered the same, with the same session, whatever follows it: for every suffix, definition table and mode; C08_list_block_local '
                  'for lists). Per kind: C08_plain_paragraph, C08_fenced_code_block (fenced code to pre/code around the escaped content, any content), '
                  'C08_comment_block_renders_nothing (a comment block renders to the empty string and leaves the session unchanged, whatever it '
                  'holds), C08_header with C08_header_level (the document "#...# title", one to six hash signs, renders to <hK>title</hK> with K the number '
                  'of hash signs, session unchanged: the header pattern has one derivation on the line, the template is evaluated with the cumulative '
                  'expansion rules of replaceMatch, the marker text is replaced by its length); C08_header_then_rest / C08_code_block_then_rest / '
                  'C08_quote_block_then_rest (in order, with verified kinds: a header, a fenced code block or a quote block as the first block of ANY '
                  'reader renders to its element and then the rest of the reader from the session it left; the quote block is a container: its '
                  'element wraps whatever the nested document render makes of its content), C08_quiet_after_code, C08_code_then_paragraph, '
                  'C08_header_then_paragraph, C08_quote_paragraph_document (a quote block holding any paragraph line, from the text through the '
                  'reader, the nested render being the document renderer itself), C08_division_block_then_rest / C08_division_paragraph_document (a division block without class is omitted: the nested render alone); HTML blocks and definitions are decided by '
                  'the block-grammar oracle and correspondence.')
    rule = ('documents from a block grammar (paragraph, header, fenced code, indented, quote paragraph, quote/division blocks nested to depth 3 '
            'with distinct delimiters and optional class names, HTML block, comments, definitions; 1-2 blank lines) in every safe mode; '
            'expected HTML predicted from the block list; non-trivial = more than one block kind')
    cls_prefix = 'C08'

    def gen_case(self, rng):
        mode = rng.choice([0, 0, 1, 2, 3, 5, 8, 15])
        src, html = G.block_document(rng, mode)
        c = H([call(src, safeMode=mode, reset=True, htmlReplacement=SENT, cb=True)])
        c['meta'] = {'expect': html, 'kind': 'blocks'}
        return c


class C10(ExpectSpec):
    level_text = ('Partial: the stack mechanism is proved, the tree is decided by oracle. Proved: C10_stack_discipline (for every fuel, item, '
                  'reader and good session with stack L of open list markers, renderList returns with stack L -- the marker it pushes is popped '
                  'when its list closes, whatever child lists, attached blocks and nested documents are rendered in between, after the repair '
                  'bd5147e -- and an item it hands back to its caller carries the marker of a list still open there: an item whose marker is '
                  'already open continues or returns to that list, any other marker opens a child list), C10_top_level_list_closed (from the '
                  'empty stack of lists.render nothing is handed back), C10_items_well_formed, and the marker facts of the generated list table '
                  '(13 markers, three list kinds with their tags, the allowed attachments). C10_list_independent_of_what_follows (suffix-locality of the whole list fixpoint: a list that ends before the end of the input is rendered the same whatever follows), C10_single_item_list (end to end: the document "- item" or "+ item" over the safe alphabet renders to <ul><li>item</li></ul> with the marker stack empty afterwards: marker recognised through the exact regex semantics, list opened, item loop, inline rendering, list closed), C10_two_item_list (two lines with the same marker render to one list with two items: the second line is recognised by the item loop as an item whose marker is already open and handed back to the list), C10_nested_list (a different marker opens a child list inside the item: "- a" / "+ b" renders to <ul><li>a<ul><li>b</li></ul></li></ul>; the marker of the child is pushed on top of that of the parent and popped when the child closes) -- for the dash and plus markers, items of any length over the safe alphabet. C10_list_in_quote_block (a list inside a container: the quote block holding one item renders to the list inside blockquote, the nested render being the document renderer, the marker stack empty afterwards). That the emitted HTML is the tree of the generator '
                  '(blank-line counting, one attached block, ownership of continuation lines) is decided by the list-tree oracle, the list '
                  'scenario matrix (every separator x follower x policy) and correspondence.')
    rule = ('list trees over the 13 markers, depth <= 4, mixed kinds, 1-3 text lines per item, optional attached code/quote/division/indented '
            'block, optional single blank lines between items, followed by a paragraph or header; expected HTML from the tree; '
            'non-trivial = nesting depth >= 2 or an attached block')
    cls_prefix = 'C10'
    CUR = [('- a\n``\nc\n``\n\n  second\n\n- b', 0, '<ul><li>a<pre><code>c</code></pre></li></ul><pre><code>second</code></pre><ul><li>b</li></ul>', 'second-attached-block'),
           ('- a\n\n  code1\n\n\n  code2', 0, '<ul><li>a<pre><code>code1</code></pre></li></ul><pre><code>code2</code></pre>', 'second-attached-block'),
           ('- a\n--\nc\n--\n\n> q2\n\n- b', 1, '<ul><li>a<pre><code>c</code></pre></li></ul><blockquote><p> q2</p></blockquote><ul><li>b</li></ul>', 'second-attached-block'),
           ('.... p\n- a\n.... q', 0, '<ol><li>p<ul><li>a</li></ul></li><li>q</li></ol>', 'deepest-markers'),
           ('**** p\n:::: t\na:::: b', 0, None, 'deepest-markers'),
           ('- a\n\n\n- b', 0, '<ul><li>a</li></ul><ul><li>b</li></ul>', 'two-blank-lines-end'),
           ('- a\n\n- b', 0, '<ul><li>a</li><li>b</li></ul>', 'one-blank-line-continues'),
           ('A:: x\nB:: see C::: there\nD:: y', 0, '<dl><dt>A</dt><dd>x<dl><dt>B:: see C</dt><dd>there</dd></dl></dd><dt>D</dt><dd>y</dd></dl>', 'last-colon-run-is-the-marker'),
           ('- a\n\n""\nq\n""\n- c', 0, '<ul><li>a</li></ul><blockquote><p>q</p></blockquote><ul><li>c</li></ul>', 'quote-block-after-blank-ends-list'),
           ('- a std::vector\n- b x::y', 0, '<ul><li>a std::vector</li><li>b x::y</li></ul>', 'colons-inside-words')]

    def gen_case(self, rng):
        src, html = G.list_document(rng)
        c = H([call(src, safeMode=rng.choice([0, 1]), reset=True, cb=True)])
        c['meta'] = {'expect': html, 'kind': 'list-tree'}
        return c


class C11(Spec):
    level_text = ('Table algebra full, substitution partial. Proved: C11_setValue_spec (setValue is the table function setValue_table and '
                  'touches nothing else), C11_existential, C11_last_write_wins, C11_other_names_untouched, C11_define_new, '
                  'C11_blank_stays_blank, C11_blank_initially, C11_no_brace_identity (text without a brace or backslash is returned unchanged '
                  'by macro expansion, with no diagnostic -- via the verified first-set analysis of the generated macro regexes), '
                  'C11_simple_invocation / C11_invocation_equals_substitution / C11_invocation_match (in text with no other brace or backslash the '
                  'invocation {name} of a defined macro is replaced by its value and the inline entry point renders it exactly as the text with '
                  'the value written in its place, for every prefix, suffix, name, value, fuel and expansion with macros on: through the exact '
                  'regex semantics and the completeness of the matcher), C11_undefined_left_as_written, C11_define_then_invoke (after setValue every '
                  'simple invocation of the name yields exactly that value), C11_definition_line / C11_definition_match (end to end through the '
                  'block layer: a first line {name}=QvalueQ renders nothing and the rest of any document is rendered in the session setValue '
                  'produced, for every name, value without newline, brace or backslash, rest, session and fuel; the five earlier line-block '
                  'patterns are shown not to apply and the definition pattern has one derivation), C11_invocation_document / '
                  'C11_define_invoke_document / C11_define_invoke_api (the document definition, blank line, paragraph with the invocation '
                  'renders to the paragraph with the value substituted, through reader, block dispatch, paragraph block and rimu.render, for '
                  'texts over the safe alphabet and alphanumeric names). Parametrised, inclusion / exclusion and line-leading invocations, and '
                  'invocation = substitution on whole documents, are decided by the hand-substitution oracle and correspondence.')
    rule = ('documents with 1-4 macro definitions (single/multi-line, values referring to earlier macros, redefinitions, existential) and '
            'invocations of every form at line start and mid-line in paragraphs, headers, list items; rendered against the hand-substituted '
            'document; non-trivial = at least one defined macro is invoked')
    state_keys = ['macros']

    def project(self, call):
        return (call.get('html'), call.get('log'))

    def gen_case(self, rng):
        src, sub, defs = G.macro_document(rng)
        c = H([call(src, safeMode=0, reset=True, cb=True)], state=True)
        c['variants'] = [H([call(sub, safeMode=0, reset=True, cb=True)])]
        c['meta'] = {'defined': sorted(defs)}
        return c

    def streams(self, ctx):
        rng = ctx.rng('G')
        return [corpus_stream(ctx), ('G', [strip_case(dict(self.gen_case(rng), variants=[])) for _ in range(sizes(ctx, 500, 25000))])]

    CUR = [("{m}='<div>$$1:*dflt* & co$</div>'\n{m|}", '<div><em>dflt</em> &amp; co</div>', 'spans-parameter'),
           ("{m}='<div>$$1</div>'\n{m|*a* <}", '<div><em>a</em> &lt;</div>', 'spans-parameter'),
           ("{m}='<div>$1:*d*$ $2</div>'\n{m||x}", '<div>*d* x</div>', 'plain-parameter'),
           ("{x}=''\n{x?}='non-empty'\n{x}y", '<p>y</p>', 'existential-over-blank'),
           ("{x?}='first'\n{x?}='second'\n{x}", '<p>first</p>', 'existential'),
           ("{--header-ids?}='yes'\n# T", '<h1>T</h1>', 'existential-over-blank'),
           ("{m}='v1'\n{n}='{m}'\n{m}='v2'\n{n} {m}", '<p>v1 v2</p>', 'value-fixed-at-definition'),
           ("{m}='$1|$2|$3'\n{m|a|b}", '<p>a|b|</p>', 'missing-parameter'),
           ("{m}='a'\nkeep {m=a} this\ndrop {m=b} this\nkeep {m!b} too\ndrop {m!a} too", '<p>keep  this\nkeep  too</p>', 'inclusion'),
           ("{m}='ab'\nx {m=a}y", '<p></p>', 'inclusion-full-match'), ("\\{m} {u|x}", '<p>{m} {u|x}</p>', 'escaped-undefined'),
           ("{a}='A'\n{b}='B'\nx {a} \\{b}", '<p>x A {b}</p>', 'escaped-after-invocation'),
           ("{a}='A'\n{b}='B'\n{a} \\{b}", '<p>A {b}</p>', 'escaped-after-leading-invocation'),
           ("{v}='[$1:$ $1]'\n{v|}", '<p>[ ]</p>', 'empty-default'), ("{v}='[$1:$ $2:x$]'\n{v|a}", '<p>[a x]</p>', 'empty-default'),
           ("{b}=''\nalpha\n{b!}", '<p>alpha</p>', 'deleted-last-line'), ("alpha\nbeta {--!}", '<p>alpha</p>', 'deleted-last-line'),
           ("- one\n  two {--!}", '<ul><li>one</li></ul>', 'deleted-last-line'), ("{m}='V'\n\\{m?d} x \\{m|p} \\{m=V} \\{m!V}", '<p>{m?d} x {m|p} {m=V} {m!V}</p>', 'escaped-undefined')]

    def search_cases(self, ctx, boost):
        rng = ctx.rng('S')
        cur = []
        for src, exp, kind in list(self.CUR) + thm_instances.instances('C11'):
            c = H([call(src, safeMode=0, reset=True, cb=True)])
            c['meta'] = {'expect': exp, 'kind': kind, 'defined': []}
            cur.append(c)
        return cur + [self.gen_case(rng) for _ in range(sizes(ctx, 1200, 40000) * (3 if boost else 1))]

    def oracle(self, ctx, case, impl, variants=()):
        if case.get('meta', {}).get('expect') is not None:
            if not all_ok(impl):
                return None
            got = impl['calls'][0]['html']
            if O.squeeze(got) != O.squeeze(case['meta']['expect']):
                return ('C11/' + case['meta']['kind'], 'source %r renders %r, the statement gives %r'
                        % (case['calls'][0]['src'], got[:200], case['meta']['expect']))
            return None
        if not variants or not all_ok(impl) or not all_ok(variants[0]):
            return None
        a = impl['calls'][0]
        b = variants[0]['calls'][0]
        # a paragraph all of whose lines were deleted; blanks left at the start of an item by a blank value
        norm = lambda h: O.squeeze(re.sub(r'(<li>|<dd>|<h\d>|<p>) +', r'\1', h.replace('<p></p>', '')))
        if norm(a['html']) != norm(b['html']):
            return ('C11/substitution', 'macro document %r renders %r; hand-substituted %r renders %r'
                    % (case['calls'][0]['src'][:200], a['html'][:200], case['variants'][0]['calls'][0]['src'][:200], b['html'][:200]))
        # undefined invocations are reported, defined ones are not
        for m in a['log']:
            mm = re.match(r'undefined macro: \\?\{([\w-]+)', m[1])
            if mm and mm.group(1) in case['meta']['defined']:
                return ('C11/spurious-undefined', m[1][:100])
        return None


class C09(ExpectSpec):
    level_text = ('Partial. Proved: C09_code_blocks_verbatim (the code and indented definitions of the generated table expand specials only), '
                  'C09_verbatim_is_escape (under such an expansion replaceInline is exactly escaping, whatever the content), '
                  'C09_code_quotes_no_spans, C09_escape_only, C09_code_quote_verbatim (the inline code quote: for every pre / post over the plain '
                  'alphabet and body over the plain alphabet plus the star, spans.render of pre`body`post is escape pre <code> escape body '
                  '</code> escape post -- the delimiters are located with the exact regex semantics and a star inside the quote is not markup), '
                  'C09_fenced_code_verbatim with C09_closing_fence_exact (a fenced code block is verbatim whatever it holds: for every list of '
                  'content lines, any characters except a line terminator inside a line and none of the lines the closing fence, the block loop '
                  'renders the fence, the content and the fence to <pre><code>escape(content)</code></pre>; the closing pattern built from a '
                  'fence matches exactly the line that is the fence); C09_indented_verbatim with C09_indentation_removed (an indented paragraph, '
                  'end to end: blanks then text over the safe alphabet renders to pre/code around the escaped text with the indentation removed, '
                  'session unchanged; no earlier rule matches a line starting with a blank, the opening pattern has one derivation, the '
                  'indentation filter is evaluated symbolically). Multi-line indented blocks and fences with class names are decided by the '
                  'escaped-content oracle and correspondence.')
    rule = ('fenced blocks with adversarial content lines (every markup form) not equal to the fence, inline code with content from the '
            "property's domain, indented paragraphs; all 16 safe modes; expected = escaped content; non-trivial = content contains markup")
    cls_prefix = 'C09'
    LIST_RES = [re.compile(r'^\\?\s*(-|\+|\*{1,4})\s+(.*)$'), re.compile(r'^\\?\s*(?:\d*)(\.{1,4})\s+(.*)$'),
                re.compile(r'^\\?\s*(.*[^:])(:{2,4})(|\s+.*)$')]

    def gen_case(self, rng):
        mode = rng.randint(0, 15)
        kind = rng.choice(['fenced', 'fenced', 'inline', 'indented'])
        if kind == 'fenced':
            fence = rng.choice(['``', '```', '--', '---', '`````'])
            lines = []
            for _ in range(rng.randint(1, 5)):
                l = rng.choice(G.CODE_CONTENT + gen.LINES + [gen.inline_text(rng)])
                l = l.replace('\r', '').replace('\n', ' ')
                l = re.sub('[\x00-\x02]', ' ', l)
                if l == fence:
                    l = l + 'x'
                if rng.random() < 0.08:
                    l = fence + rng.choice([' ', '  ', '\t', ' x'])     # not equal to the closing fence
                lines.append(l)
            src = fence + '\n' + '\n'.join(lines) + '\n' + fence
            exp = '<pre><code>' + O.escape('\n'.join(lines)) + '</code></pre>'
        elif kind == 'inline':
            for _ in range(20):
                c = gen.inline_text(rng, rng.randint(1, 3)).strip()
                c = re.sub('[\x00-\x02\r\n]', ' ', c).strip()
                if c and '`' not in c and '{' not in c and '::' not in c and not c.endswith('\\'):
                    break
            else:
                c = 'x'
            src = 'pre `' + c + '` post'
            exp = '<p>pre <code>' + O.escape(c) + '</code> post</p>'
        else:
            lines = []
            for _ in range(rng.randint(1, 4)):
                l = gen.inline_text(rng, rng.randint(1, 3)).strip() or 'x'
                if rng.random() < 0.3:
                    l = rng.choice(['std::cout << x;', 'Foo::Bar.new', 'a::b c:::d', 'x ::y', 'if (a::b) { c }', 'k:v ::: w'])
                l = re.sub('[\x00-\x02\r\n]', ' ', l).strip() or 'x'
                lines.append(l)
            if any(r.match('  ' + lines[0]) for r in self.LIST_RES):
                lines[0] = 'word ' + lines[0].replace('::', ':')
                if any(r.match('  ' + lines[0]) for r in self.LIST_RES):
                    lines[0] = 'word'
            src = '\n'.join('  ' + l for l in lines)
            exp = '<pre><code>' + O.escape('\n'.join(lines)) + '</code></pre>'
        c = H([call(src, safeMode=mode, reset=True, cb=True)])
        c['meta'] = {'expect': exp, 'kind': kind}
        return c


class C12(Spec):
    level_text = ('Partial. Proved: C12_consume (injection into a non-empty tag clears every pending class, id, css and attribute), '
                  'C12_blank_tag_keeps, C12_bit4 (with bit 4 a Block Attributes line is the identity on the session), C12_bit4_guard, '
                  'C12_nz_no_raw_attrs (in any non-zero mode a document never accumulates raw HTML attributes -- frame theorem instance over the '
                  'generated guards). C12_class_into_first_tag (for every opening tag of the generated block and list tables and every class text, injection with only a class pending returns the tag with class="..." inserted right after the tag name and clears the pending attributes). C12_class_paragraph_document with C12_parse_class_name and C12_attributes_line_accumulates (end to end: a Block Attributes line with one class name followed by a paragraph line renders to the paragraph with the class in its p tag, and the session afterwards is the session before -- nothing stays pending; the first Block Attributes pattern is matched as a prefix whose end decides how the rest of the line is read, so the greedy execution of the matcher is evaluated on the symbolic name), C12_class_emphasis_paragraph (the same with an emphasis in the paragraph). "First tag of the next block only" over longer block sequences, the other attribute kinds and the one-block scope of options are decided '
                  'by the attribute oracle and correspondence.')
    rule = ('1-3 attribute lines (classes/id/css/attributes/options) . optional comments/blank lines . target block of 8 kinds . further blocks; '
            '16 safe modes; attributes must sit on the first tag of the target and nowhere later; non-trivial = an attribute is emitted')
    state_keys = ['pending', 'ids']

    def project(self, call):
        return call.get('html')

    TARGETS = {'para': ('some text', '<p'), 'header': ('## Head', '<h2'), 'list': ('- item one\n- item two', '<ul'),
               'code': ('``\ncode\n``', '<pre'), 'division': ('..\ninner\n..', '<div'), 'quote': ('""\ninner\n""', '<blockquote'),
               'indented': ('  indented', '<pre'), 'qpara': ('> quoted', '<blockquote'), 'dl': ('term:: def', '<dl')}

    def gen_case(self, rng):
        mode = rng.randint(0, 15)
        parts = {'cls': rng.random() < 0.7, 'id': rng.random() < 0.4, 'css': rng.random() < 0.4, 'raw': rng.random() < 0.3}
        opt = rng.choice([None, None, '+skip', '-spans', '-macros'])
        lines = []
        attr_lines = []
        if parts['cls']:
            attr_lines.append('.kx1 ky2')
        if parts['id']:
            attr_lines.append('.#idq7')
        if parts['css']:
            attr_lines.append('."color:red"')
        if parts['raw']:
            attr_lines.append('.[title="t9"]')
        if opt:
            attr_lines.append('.' + opt)
        if not attr_lines:
            attr_lines = ['.kx1 ky2']
            parts['cls'] = True
        rng.shuffle(attr_lines)
        for a in attr_lines:
            lines.append(a)
            if rng.random() < 0.3:
                lines.append(rng.choice(['', '// comment', "{zz}='v'"]))
        kind = rng.choice(list(self.TARGETS))
        tsrc, ttag = self.TARGETS[kind]
        if opt == '-spans':
            tsrc = {'para': '*em text*', 'qpara': '> *em text*'}.get(kind, tsrc)
        lines.append(tsrc)
        lines += ['', '', 'after *one*', '', '## After two', '', '- after three']
        c = H([call('\n'.join(lines), safeMode=mode, reset=True, cb=True)], state=True)
        c['meta'] = {'mode': mode, 'parts': parts, 'opt': opt, 'kind': kind, 'tag': ttag}
        return c

    def streams(self, ctx):
        rng = ctx.rng('G')
        return [corpus_stream(ctx), ('G', [strip_case(self.gen_case(rng)) for _ in range(sizes(ctx, 600, 25000))])]

    def search_cases(self, ctx, boost):
        rng = ctx.rng('S')
        out = [self.gen_case(rng) for _ in range(sizes(ctx, 1500, 40000) * (3 if boost else 1))]
        for src, exp, kind in thm_instances.instances('C12'):
            for mode in (0, 1, 3, 8):
                c = H([call(src, safeMode=mode, reset=True, cb=True)])
                c['meta'] = {'thm_expect': exp, 'kind': kind}
                out.append(c)
        # block options before a block that renders nothing (multi-line macro definition, comment block) end with that block
        # (seed C12_i: the reset moved into the consuming branch of the injection, which an empty tag never reaches)
        for src, exp in [("{x} = 'X'\n\n.-macros\n{m} = 'one\ntwo'\n\n*bold* {x}", '<p><em>bold</em> X</p>'),
                         ("{x} = 'X'\n\n.-spans\n{m} = 'one\ntwo'\n\n*bold* {x}", '<p><em>bold</em> X</p>'),
                         ("{x} = 'X'\n\n.+skip\n{m} = 'one\ntwo'\n\n*bold* {x}", '<p><em>bold</em> X</p>'),
                         (".-spans\n/*\nhidden\n*/\n\n*bold*", '<p><em>bold</em></p>'),
                         (".+skip\n/*\nhidden\n*/\n\n*bold*", '<p><em>bold</em></p>')]:
            c = H([call(src, safeMode=0, reset=True, cb=True)])
            c['meta'] = {'thm_expect': exp, 'kind': 'option-leaks-past-empty-block'}
            out.append(c)
        return out

    def oracle(self, ctx, case, impl, variants=()):
        if not all_ok(impl):
            return None
        md = case['meta']
        if 'thm_expect' in md:
            got = impl['calls'][0]['html']
            if got != md['thm_expect']:
                return ('C12/' + md['kind'], 'source %r renders %r, the theorem states %r' % (case['calls'][0]['src'][:200], got[:200], md['thm_expect'][:200]))
            return None
        mode, parts, opt, kind = md['mode'], md['parts'], md['opt'], md['kind']
        html = impl['calls'][0]['html']
        tags = [m.group(0) for m in re.finditer(r'<[a-zA-Z][^<>]*>', html)]
        marks = {'cls': 'kx1 ky2', 'id': 'id="idq7"', 'css': 'color:red', 'raw': 'title="t9"'}
        ignored = bool(mode & 4)
        skipped = (opt == '+skip' and not ignored and kind in ('para', 'code', 'division', 'quote', 'indented', 'qpara'))
        if ignored:
            for k, mk in marks.items():
                if mk in html and not (k == 'raw'):
                    return ('C12/bit4-not-ignored', 'mode %d: %r appears in %r' % (mode, mk, html[:200]))
            return None
        if not tags:
            return None
        first = tags[0]
        tail = ''.join(tags[1:])
        for k, mk in marks.items():
            if not parts[k]:
                continue
            if k == 'raw' and mode != 0:
                if mk in html:
                    return ('C12/raw-attrs-in-safe-mode', 'mode %d: %r in %r' % (mode, mk, html[:200]))
                continue
            if skipped:
                continue
            if mk not in first:
                return ('C12/not-on-first-tag:' + kind, 'mode %d: %r not on the first tag %r of %r' % (mode, mk, first, html[:200]))
            if mk in tail:
                return ('C12/applied-twice:' + kind, 'mode %d: %r also on a later tag in %r' % (mode, mk, html[:300]))
        if not skipped and not first.startswith(md['tag']):
            return None
        # block options affect that one block only
        if '<em>one</em>' not in html:
            return ('C12/option-leaks', 'mode %d, option %s before a %s: the following paragraph lost its markup or was skipped: %r' % (mode, opt, kind, html[:300]))
        if '<h2>After two</h2>' not in html or 'after three' not in html:
            return ('C12/option-leaks', 'mode %d, option %s before a %s: a following block is missing: %r' % (mode, opt, kind, html[:300]))
        if opt == '+skip' and kind in ('para', 'code', 'division', 'quote', 'indented', 'qpara') and md['tag'] + '>' in html.split('after')[0] \
                and kind != 'para':
            return ('C12/skip-ignored:' + kind, 'mode %d: +skip did not skip the block: %r' % (mode, html[:200]))
        return None


class C17(Spec):
    level_text = ('Partial. Proved: C17_repl_escape (an escaped replacement -- link, image, e-mail, URL, HTML tag, entity -- is rendered as its own '
                  'escaped text minus the backslash, as a finished fragment), with a computed example over all inline kinds; '
                  'C17_escaped_invocation with C17_parametrised_pattern_skips_simple (in text with no other brace or backslash an escaped macro '
                  'invocation comes out of macros.render as the invocation without its backslash, defined or not, with no diagnostic, and the '
                  'second pass cannot pick it up -- for every prefix, suffix and name, through the exact regex semantics); C17_escaped_header_is_literal (a header line with a backslash before it is rendered as the paragraph with the literal text: the header rule drops the backslash and none of the remaining rules matches, for one to six hash signs and every title over the safe alphabet); C17_escaped_emphasis_is_literal with C17_escaped_quote_match_unique (for every pre, body, post over the plain alphabet spans.render of pre, backslash, star, body, star, post is the escaped literal text without the backslash: the quote pattern matches at the backslash with one derivation, the escaped-quote loop resumes after the opening star, the rest holds a single star and has no derivation, the line-break pattern is excluded by inversion, the unescape pass has exactly one match). Other line-level '
                  'escapes and quotes are decided by the literal-text oracle and correspondence; several element kinds violate the property on '
                  'the unchanged code (known findings).')
    rule = ('element kinds x generated instances x positions (line start, after text, in quotes, in list items) x 1-8 escaped elements, '
            'modes 0 and 1; expected = the literal text; non-trivial = always (an element is present)')
    state_keys = ['mode', 'quotes', 'repls', 'dblocks', 'macros']

    def project(self, call):
        return call.get('html')

    INLINE = [('quote', '*em*'), ('quote', '**st**'), ('quote', '_u_'), ('quote', '`code`'), ('quote', '~~del~~'),
              ('link', '[cap](http://a.b)'), ('link', '^[cap](u.html)'), ('link', '<http://a.b|cap>'), ('link', '<http://a.b>'),
              ('image', '![alt](i.png)'), ('image', '<image:i.png|alt>'), ('image', '<image:i.png>'), ('email', '<j@k.lm>'),
              ('email', '<j@k.lm|Joe>'), ('url', 'http://foo.com/x'), ('tag', '<b>'), ('tag', '</b>'), ('tag', '<!-- c -->'),
              ('entity', '&amp;'), ('entity', '&#160;'), ('macro', '{mac}'), ('macro', '{mac|p}'), ('anchor', '<<#anc>>')]
    LINE = [('header', '# Title'), ('header', '== Sub'), ('listitem', '- item'), ('listitem', '. numbered'), ('listitem', 'term:: def'), ('listitem', '- term:: def'), ('listitem', '1. step:: note'), ('listitem', '* star:: x'),
            ('comment', '// comment'), ('attributes', '.cls #id'), ('attributes', '.+skip'), ('macrodef', "{mac}='v2'"),
            ('quotedef', "= = 'A|B'"), ('repldef', "/foo/='bar'"), ('blockdef', "|code|='+macros'"), ('option', ".safeMode='1'"),
            ('blockimage', '<image:i.png>'), ('blockanchor', '<<#anc>>'), ('delimiter', '..'), ('delimiter', '""'), ('delimiter', '``'),
            ('delimiter', '/*'), ('quotepara', '> quoted'), ('htmlblock', '<div>'), ('indented?', None)]

    def gen_case(self, rng):
        mode = rng.choice([0, 1])
        if rng.random() < 0.6:
            n = rng.randint(1, 8)
            items = [rng.choice(self.INLINE) for _ in range(n)]
            pos = rng.choice(['start', 'after', 'quote', 'item'])
            body = ' '.join('\\' + x for _, x in items)
            lit = ' '.join(x for _, x in items)
            if pos == 'start':
                src, exp = body, '<p>' + O.escape(lit) + '</p>'
            elif pos == 'after':
                src, exp = 'text ' + body + ' end', '<p>text ' + O.escape(lit) + ' end</p>'
            elif pos == 'quote':
                used = set(x[0] for k, x in items if k == 'quote')
                if '*' not in used:
                    src, exp = '*x ' + body + ' y*', '<p><em>x ' + O.escape(lit) + ' y</em></p>'
                elif '~' not in used:
                    src, exp = '~~x ' + body + ' y~~', '<p><del>x ' + O.escape(lit) + ' y</del></p>'
                else:
                    src, exp = 'text ' + body + ' end', '<p>text ' + O.escape(lit) + ' end</p>'
            else:
                src, exp = '- ' + 'w ' + body, '<ul><li>w ' + O.escape(lit) + '</li></ul>'
            kinds = sorted(set(k for k, _ in items))
            src = "{mac}='MV'\n\n" + src
            c = H([call(src, safeMode=0 if mode == 0 else 9, reset=True, cb=True)], state=True)
            c['meta'] = {'expect': exp, 'kinds': kinds, 'line': False}
            return c
        k, x = rng.choice([e for e in self.LINE if e[1]])
        src = '\\' + x + '\n\nafter'
        exp = '<p>' + O.escape(x) + '</p>\n<p>after</p>'
        c = H([call(src, safeMode=mode, reset=True, cb=True)], state=True)
        c['meta'] = {'expect': exp, 'kinds': [k], 'line': True, 'elem': x}
        return c

    def streams(self, ctx):
        rng = ctx.rng('G')
        return [corpus_stream(ctx), ('G', [strip_case(self.gen_case(rng)) for _ in range(sizes(ctx, 500, 25000))])]

    def search_cases(self, ctx, boost):
        rng = ctx.rng('S')
        out = [self.gen_case(rng) for _ in range(sizes(ctx, 1500, 40000) * (3 if boost else 1))]
        for src, exp, kind in thm_instances.instances('C17'):
            for mode in (0, 1):
                c = H([call(src, safeMode=mode, reset=True, cb=True)], state=True)
                c['meta'] = {'expect': exp, 'kinds': [kind]}
                out.append(c)
        for k, x in self.LINE:
            if x:
                for mode in (0, 1):
                    c = H([call('\\' + x + '\n\nafter', safeMode=mode, reset=True, cb=True)], state=True)
                    c['meta'] = {'expect': '<p>' + O.escape(x) + '</p>\n<p>after</p>', 'kinds': [k], 'line': True, 'elem': x}
                    out.append(c)
        return out

    def oracle(self, ctx, case, impl, variants=()):
        if not all_ok(impl):
            return None
        md = case['meta']
        got = impl['calls'][0]['html']
        if O.squeeze(got) != O.squeeze(md['expect']):
            kinds = md['kinds']
            kind = kinds[0] if len(kinds) == 1 else 'mixed-inline'
            srcx = case['calls'][0]['src']
            esc_delims = re.findall(r'\\(\*\*|\*|__|_|``|`|~~)', srcx)
            chars = [d[0] for d in esc_delims]
            if len(chars) != len(set(chars)) or (len(chars) >= 1 and re.search(r'(?m)^[*~]', srcx.split('\n\n', 1)[-1])
                                                 and srcx.split('\n\n', 1)[-1][0] in chars):
                # only the opening delimiter of an escaped quote is escaped: its closing delimiter can pair with
                # another (escaped or enclosing) quote that uses the same character
                kind = 'escaped-quotes-sharing-delimiter'
            # an escaped element that opens the line is first seen by the line rules
            if re.search(r'(?m)^\\<image:', srcx) and '<img' in got:
                return ('C17/blockimage:<image:i.png', 'source %r renders %r' % (srcx[:200], got[:200]))
            if re.search(r'(?m)^\\<<#', srcx) and 'id="anc"' in got:
                return ('C17/blockanchor:<<#anc>>', 'source %r renders %r' % (srcx[:200], got[:200]))
            return ('C17/' + kind + (':' + md['elem'].split(' ')[0][:12] if md.get('line') else ''),
                    'source %r renders %r, literal rendering is %r' % (case['calls'][0]['src'][:200], got[:200], md['expect'][:200]))
        st = impl.get('state')
        if st and md.get('line'):
            if st['mode'] != case['calls'][0]['safeMode']:
                return ('C17/option-executed', 'safeMode became %r' % st['mode'])
            if any(q[0] == '=' for q in st['quotes']) or any(r[0] == 'foo' for r in st['repls']) or \
                    any(d[0] == 'code' and d[3][:2] == 'b1' for d in st['dblocks']) or any(m == ['mac', 'v2'] for m in st['macros']):
                return ('C17/definition-executed', 'an escaped definition took effect')
        return None


class C19(Spec):
    level_text = ('Last sentence full, completeness partial. Proved: C19_callback_never_alters_output (HTML, failure behaviour, session and the '
                  'generated diagnostic texts are the same with and without a callback, for every input), C19_plain_silent (a plain one-line document leaves the session, log included, unchanged), C19_lift_only_logs (inline code changes '
                  'nothing but the log), and the site lemmas C19_illegal_mode_reported / C19_legal_mode_silent / C19_illegal_reset_reported / '
                  'C19_unknown_block_name_reported / C19_illegal_replacement_reported / C19_blank_macro_reported (exactly one diagnostic naming '
                  'the value, nothing else changed), C19_unterminated_names, C19_undefined_macro_reported (the invocation of an undefined macro in '
                  'text with no other brace or backslash is left as written and reported by exactly one diagnostic naming it, for every '
                  'surrounding text; the defined and the escaped invocation report nothing: C11_simple_invocation, C17_escaped_invocation). '
                  'Never spurious on whole documents: C19_emphasis_silent, C19_tag_silent, C19_header_silent, C19_code_block_silent, '
                  'C19_comment_block_silent, C19_nested_list_silent, C19_define_invoke_silent (the well-formed documents of the end-to-end theorems '
                  'render successfully with the log unchanged, for all texts, names, lengths, sessions and fuels those theorems quantify over); likewise '
                  'C19_class_paragraph_silent, C19_quote_paragraph_silent, C19_division_paragraph_silent, C19_indented_silent, C19_code_then_paragraph_silent. '
                  'Completeness and silence on whole documents are decided by the fault-injection oracle and the transcript correspondence.')
    rule = ('well-formed generated documents (zero diagnostics expected) and single-fault mutants (closing delimiter removed, macro name '
            'misspelt, option value corrupted, block option / block name unknown, pattern ill-formed); also rendered without callback; '
            'non-trivial = the mutant carries a fault')
    state_keys = []

    FAULTS = [('unterminated code block', '``\ncode'), ('unterminated comment block', '/*\ncomment'),
              ('unterminated division block', '..\ndiv'), ('unterminated quote block', '""\nquote'),
              ('undefined macro', 'text {nosuch} more'), ('undefined macro', '{nosuch|a|b}'),
              ('illegal safeMode API option value', ".safeMode='99'"), ('illegal safeMode API option value', ".safeMode='x'"),
              ('illegal API option name', ".bogus='1'"), ('illegal reset API option value', ".reset='maybe'"),
              ('illegal block option', '.+bogus\npara'), ('illegal block option', "|code|='+nonsense'"),
              ('illegal block option', '.+Skip\npara'), ('illegal block option', '.-macros2\npara'), ('illegal block option', '.+con_tainer\npara'),
              ('illegal block option', '.-spans +MACROS\npara'), ('illegal block option', '.cls #i "c:d" +sk1p\npara'),
              ('undefined macro', 'text {gr\u00f6\u00dfe} more'), ('undefined macro', '- item {\u0446\u0435\u043d\u0430|a}'), ('undefined macro', '# H {caf\u00e9-2}'),
              ('undefined macro', 't {x1}:: d'), ('illegal API option name', ".safemode='1'"), ('illegal safeMode API option value', ".safeMode='1.5'"),
              ('illegal delimited block definition', "|division|='<hr>'"), ('unterminated macro-definition', None),
              ('illegal delimited block name', "|bogus|='<a>|</a>'"), ('illegal delimited block definition', "|code|='<a>'"),
              ('illegal replacement regular expression', "/(/='x'"), ('illegal macro regular expression', "{mm}='v'\n{mm=[}"),
              ('-specials block option not valid in safeMode', None), ('duplicate', ".#dup\na\n\n.#dup\nb"),
              ('the predefined blank', "{--}='x'"), ('undefined replacement group', "/zq/='$3'\nzq")]

    def project(self, call):
        return (call.get('html'), call.get('log'))

    def gen_case(self, rng):
        mode = 0
        src, _ = G.block_document(rng, 0)
        src = re.sub(r'\{(m|undefined)[^}]*\}', 'M', src)
        if rng.random() < 0.5:
            c = H([call(src, safeMode=mode, reset=True, cb=True)])
            c['variants'] = [H([call(src, safeMode=mode, reset=True, cb=False)])]
            c['meta'] = {'fault': None}
            return c
        f = rng.choice([x for x in self.FAULTS if x[1]])
        full = src + '\n\n' + f[1]
        c = H([call(full, safeMode=mode, reset=True, cb=True)])
        c['variants'] = [H([call(full, safeMode=mode, reset=True, cb=False)])]
        c['meta'] = {'fault': f[0]}
        return c

    def streams(self, ctx):
        rng = ctx.rng('G')
        cs = []
        for _ in range(sizes(ctx, 500, 25000)):
            c = self.gen_case(rng)
            cs.append(strip_case(dict(c, variants=[])))
        return [corpus_stream(ctx), ('G', cs)]

    def search_cases(self, ctx, boost):
        rng = ctx.rng('S')
        return self.repeat_cases() + [self.gen_case(rng) for _ in range(sizes(ctx, 1200, 40000) * (3 if boost else 1))]

    def repeat_cases(self):
        # every fault rendered a second time in the same session (first without, then with a callback): each occurrence is
        # reported, not only the first (seed C19_i: a cache of texts that macros.render left unchanged)
        out = []
        for name, text in self.FAULTS:
            if text:
                c = H([call(text, safeMode=0, reset=True, cb=False), call(text, safeMode=0, cb=True)])
                c['variants'] = []
                c['meta'] = {'fault': name, 'repeat': True}
                out.append(c)
        return out

    def cli_oracle(self, ctx, case, res):
        # rimupy: a well-formed input gives no diagnostic; a faulty one gives a diagnostic that names the fault
        if 'expect_diag' not in case or not isinstance(res.get('stdout'), str):
            return None
        err = res.get('stderr') or []
        name = case['expect_diag']
        if name is None and err:
            return ('C19/cli-spurious', 'rimupy %r on a well-formed input: %r' % (case['argv'][:4], err[:2]))
        if name is not None and not any(name in l for l in err):
            return ('C19/cli-missing', 'rimupy %r: no diagnostic names %r: %r' % (case['argv'][:4], name, err[:2]))
        return None

    def oracle(self, ctx, case, impl, variants=()):
        if impl.get('timeout') or 'calls' not in impl:
            return None
        c0 = impl['calls'][-1] if case['meta'].get('repeat') else impl['calls'][0]
        fault = case['meta']['fault']
        if c0.get('status') != 'ok':
            if fault:
                return ('C19/raises-instead:' + fault.replace(' ', '-'), 'the fault %r raises %s instead of being reported' % (fault, c0.get('exn')))
            return None
        log = c0['log']
        if fault is None:
            if log:
                return ('C19/spurious:' + log[0][1].split(':')[0].replace(' ', '-')[:40], 'well-formed document reports %r' % (log[0][1][:120],))
        else:
            if not any(fault in m[1] and m[0] == 'error' for m in log):
                return ('C19/missing:' + fault.replace(' ', '-'), 'fault not reported; diagnostics: %r' % ([m[1][:60] for m in log],))
        if variants and all_ok(variants[0]) and variants[0]['calls'][0]['html'] != c0['html']:
            return ('C19/callback-changes-output', 'HTML differs with and without callback')
        return None


class C02(Spec):
    level_text = ('Partial. Proved as facts recomputed from the generated tables on every run: C02_star_height (every regular expression '
                  'reachable in safe modes 1-7 has star height <= 1 except the first Block Attributes pattern, whose successor pattern is '
                  'matched separately -- the deliberate split), C02_no_nullable_loop_body (no unbounded repetition over a body that can match '
                  'the empty string, the (?:\\s*)? optionals being bounded), C02_loops_progress (the model matcher only iterates a repetition '
                  'after progress or below its minimum: sre last_ptr rule, by construction of `loop`), C02_exclusive_alternatives with its '
                  'soundness lemma (under every unbounded repetition the alternatives start with different characters, over Latin-1, so a loop has '
                  'one iteration history per subject), C02_split_pattern, C02_no_macro_definitions (modes without bit 8 cannot grow the reader '
                  'through new macros), C02_fuel_monotone (the model\'s fuel is only a termination device: a result obtained with some fuel is '
                  'the result with every larger fuel, for every source, options and session), C02_spans_terminate with '
                  'C02_default_definitions_terminate and C02_group_strictly_shorter (spans.render returns with fuel length+4, for every source, '
                  'whenever no replacement pattern matches the empty string and every group a template hands to a nested spans.render starts '
                  'after the start of its match: a decidable condition that holds of the generated defaults and fails for the self-matching '
                  'definition of the known finding). Termination of the block loop for every '
                  'input is NOT proved (macro-line expansion can grow the reader; the unchanged code does loop, see known findings), and '
                  'running time is runtime behaviour: both are decided by pumped-input timing against the implementation and the '
                  'model/implementation comparison of ok/timeout.')
    rule = ('for every table regex, pumped strings (quantified sub-expressions repeated up to 2-8 KB) embedded as paragraphs, headers, '
            'attribute lines and list items at safe modes 1-7, plus macro-recursion documents at modes 0 and 8; budget 10 s (quick) / 60 s '
            '(thorough) per render; non-trivial = longer than 1 KB or defines a macro')
    state_keys = []

    def project(self, call):
        return call.get('html') is not None

    @property
    def timeout(self):
        return self._timeout
    _timeout = 10

    MACRO_LOOPS = ["{m}='{m} x'\n{m} foo", "{m}='{m|$1 x}'\n{m|a}", "{a}='{b}'\n{b}='{a}'\n{a} z", "{x} = 'foo\n\n{x} bar'\n{x}",
                   "{a}='\\{b} y'\n{b}='{a} y'\n{b} z"]

    def pumped(self, ctx, n_per):
        import stream_regex as SR
        rng = ctx.rng('P')
        with open(os.path.join(common.COQ, 'Gen', 'regex_table.json')) as f:
            tbl = json.load(f)
        out = []
        size = 2000 if ctx.quick else 8000
        for name in sorted(tbl):
            pat, fl = tbl[name]
            for _ in range(n_per):
                t = ''
                for _try in range(6):
                    t2 = SR.text_for(pat, fl, rng, pump=size // 3)
                    if len(t2) > len(t):
                        t = t2
                    if len(t) >= size // 3:
                        break
                t = t.replace('\r', ' ')[:size]
                if len(t) < 200:
                    continue
                mode = rng.randint(1, 7)
                c = H([call(t, safeMode=mode, reset=True, cb=True)])
                c['meta'] = {'regex': name, 'len': len(t)}
                out.append(c)
        # hand-made pumps of adjacent quantifiers
        N = 400 if ctx.quick else 1500
        for src, tag in [('.a' + ' ' * N + '!', 'attr-blanks'), ('# x' + ' ' * N * 12 + 'y', 'header-blanks'), ('## a' + ' ' * N * 10 + 'b ##', 'header-blanks-close'),
                         ('<' * (N // 2) + 'a' + '@b|x' * (N // 4), 'email-caption'), ('<a|' * N, 'url-caption'),
                         ('[' * N, 'brackets'), ('*' * N + ' x', 'stars'), ('`' * N, 'ticks'), ('http://' + 'a/' * N, 'url'),
                         ('&' + 'a' * N * 4, 'entity'), ('<!--' + '-' * N * 2, 'comment'), ('- ' + 'a:' * N, 'dl-colons'),
                         (' ' * N * 4 + 'x', 'indent'), ('_a' * N, 'underscores'), ('{m|' + 'a|' * N + '}', 'macro-params')]:
            for mode in (1, 5):
                c = H([call(src, safeMode=mode, reset=True, cb=True)])
                c['meta'] = {'regex': tag, 'len': len(src)}
                out.append(c)
        # short pumps (exponential blow-ups show at a few dozen characters): every special character repeated after every opener
        for ch in '\\{}|=!?$*_`~[]()<>&#.:-+"\'/@;, ':
            for pre in ['', '{m|', '{m=', '{m!', '[', '<', '<a|', '<a@b|', '# ', '.', '.a ', '- ', '`', '*', 'x::', '<image:', '&', '<!--', '/', "= = '"]:
                for unit in (ch, ch + 'a'):
                    src = pre + unit * 48
                    c = H([call(src, safeMode=1, reset=True, cb=True)])
                    c['meta'] = {'regex': 'short-pump:' + pre + unit, 'len': len(src)}
                    out.append(c)
        return out

    def streams(self, ctx):
        loops = [H([call(s, safeMode=0, reset=True, cb=True)]) for s in self.MACRO_LOOPS]
        rng = ctx.rng('H')
        return [corpus_stream(ctx), ('loops', loops), ('H', [gen.history(rng, 3) for _ in range(sizes(ctx, 300, 10000))])]

    def search_cases(self, ctx, boost):
        self._timeout = 10 if ctx.quick else 60
        cases = self.pumped(ctx, 1 if ctx.quick else 4)
        for s in self.MACRO_LOOPS:
            for mode in (0, 8):
                c = H([call(s, safeMode=mode, reset=True, cb=True)])
                c['meta'] = {'regex': 'macro-loop', 'len': len(s)}
                cases.append(c)
        return cases

    def oracle(self, ctx, case, impl, variants=()):
        if impl.get('timeout'):
            md = case.get('meta') or {}
            return ('C02/stall:' + str(md.get('regex', 'unknown')), 'render of %d characters did not finish within %d s: %r...'
                    % (md.get('len', 0), self._timeout, case['calls'][0]['src'][:60]))
        return None



# ---------------------------------------------------------------------------
# C18 -- rimupy output is the ordered concatenation of trusted and untrusted renders

VALUE_OPTS = {'--output': 'out', '-o': 'out', '--prepend': 'prepend', '-p': 'prepend', '--prepend-file': 'pfile',
              '--safe-mode': 'mode', '--safeMode': 'mode', '--html-replacement': 'repl', '--htmlReplacement': 'repl',
              '--theme': 'macro', '--title': 'macro', '--lang': 'macro', '--layout': 'layout', '--styled-name': 'layout'}
FLAG_MACROS = ['--highlightjs', '--mathjax', '--section-numbers', '--toc', '--no-toc', '--sidebar-toc', '--dropdown-toc',
               '--custom-toc', '--header-ids', '--header-links']
LAYOUTS = ['classic', 'flex', 'plain', 'sequel', 'v8']


def cli_plan(argv, files, rimurc):
    """The documented pipeline: ('usage', msg) or a dict with the ordered inputs [(source, mode, verbatim, name)]."""
    args = list(argv)
    mode = None
    repl = None
    layout = ''
    prepend = ''
    pfiles = []
    out = ''
    passthru = False
    no_rc = False
    fmap = dict((os.path.normpath(p), c) for p, c in files)
    while args:
        a = args.pop(0)
        if a in ('--help', '-h', '--version'):
            return ('info', a)
        if a in ('--lint', '-l'):
            continue
        if a == '--pass':
            passthru = True
            continue
        if a == '--no-rimurc':
            no_rc = True
            continue
        if a in ('--styled', '-s'):
            prepend += "{--header-ids}='true'\n{--no-toc}='true'\n"
            layout = 'sequel'
            continue
        if a in FLAG_MACROS:
            prepend += "{%s}='true'\n" % a
            continue
        if a in VALUE_OPTS:
            if not args:
                return ('usage', 'missing option value')
            v = args.pop(0)
            k = VALUE_OPTS[a]
            if k == 'out':
                out = v
            elif k == 'prepend':
                prepend += v + '\n'
            elif k == 'pfile':
                pfiles.append(v)
            elif k == 'mode':
                try:
                    mode = int(v)
                except ValueError:
                    return ('usage', 'illegal safe-mode')
                if not 0 <= mode <= 15:
                    return ('usage', 'illegal safe-mode')
            elif k == 'repl':
                repl = v
            elif k == 'macro':
                prepend += "{%s}='%s'\n" % (a, v)
            elif k == 'layout':
                if v not in LAYOUTS:
                    return ('usage', 'unknown layout')
                layout = v
                prepend += "{--header-ids}='true'\n"
            continue
        args.insert(0, a)
        break
    named = args or ['-']
    if len(named) == 1 and layout and named[0] != '-' and not out:
        out = os.path.splitext(named[0])[0] + '.html'
    inputs = []
    trusted = []
    if not no_rc and rimurc is not None:
        trusted.append(('file', '~/.rimurc', rimurc))
    for pf in pfiles:
        trusted.append(('pfile', pf, None))
    for kind, name, content in trusted:
        if kind == 'pfile':
            if os.path.normpath(name) not in fmap:
                return ('usage-late', 'missing input file')
            content = fmap[os.path.normpath(name)]
        inputs.append((content, 0, name.endswith('.html'), name))
    if prepend:
        inputs.append((prepend, 0, False, '--prepend options'))
    return {'inputs': inputs, 'layout': layout, 'named': named, 'mode': mode, 'repl': repl, 'out': out, 'pass': passthru,
            'fmap': fmap, 'pfiles': [os.path.normpath(x) for x in pfiles]}


class C18(Spec):
    level_text = ('Refinement to a plan, for the modelled I/O. Proved over the model of rimuc.main: C18_plan_order (the inputs are processed in '
                  'the order ~/.rimurc, prepend files, --prepend text, layout header, named inputs or stdin, layout footer), C18_usage_errors '
                  '(missing option value, unknown layout, illegal --safe-mode give exit 1 with exactly one message and no output), '
                  'C18_exit_iff_errors (after a completed run exit is 1 iff a diagnostic was written), C18_trusted_mode0 (resources, prepends and '
                  'prepend files are rendered at mode 0). The model is tied to the code by argument-vector x file-system cases compared on '
                  'stdout, stderr, exit status and output file; byte decoding and permissions are not modelled.')
    rule = ('argument vectors over every option (legal/illegal safe modes, replacement, 5 layouts + unknown, styling shortcuts, 0-2 prepends '
            'and prepend files, 0-3 inputs of .rmu/.html/missing kinds, stdin, --pass, -o, missing values) x generated file contents; run '
            'in-process with patched argv/stdin/HOME in a scratch directory; oracle = the pipeline replayed through rimu.render; '
            'non-trivial = at least one input is rendered')
    state_keys = []
    timeout = 30
    DOCS = ['# Title\n\nText *em* <b>raw</b>.', 'plain', '{undef} text', "{--header-ids}='1'\n## H", '<div>\nblock\n</div>', '',
            '.cls\npara {x}', '- a\n- b', '``\ncode\n``', "{x}='X'", '..\nunterminated', '  \n ', '<p>html file</p>\n']

    def gen_cli(self, rng):
        argv = []
        files = []
        for _ in range(rng.randint(0, 5)):
            r = rng.random()
            if r < 0.2:
                argv += [rng.choice(['--safe-mode', '--safeMode']), rng.choice(['0', '1', '2', '3', '5', '9', '15', '16', '-1', 'abc', '3.5', ' 7 '])]
            elif r < 0.3:
                argv += [rng.choice(['--html-replacement', '--htmlReplacement']), rng.choice(['REPL', '', '<i>x</i>'])]
            elif r < 0.4:
                argv += ['--layout', rng.choice(LAYOUTS + ['bogus', 'plain', 'plain'])]
            elif r < 0.5:
                argv += [rng.choice(['--prepend', '-p']), rng.choice(["{x}='PX'", 'prepended *text*', "{--header-ids}='y'", '<b>p</b>'])]
            elif r < 0.6:
                n = 'pre%d.rmu' % len(files)
                argv += ['--prepend-file', n]
                if rng.random() < 0.85:
                    files.append([n, rng.choice(self.DOCS)])
            elif r < 0.65:
                argv += [rng.choice(['--output', '-o']), rng.choice(['out.html', '-', 'o/x.txt'])] if rng.random() < 0.9 else ['-o']
            elif r < 0.7:
                argv.append('--pass')
            elif r < 0.75:
                argv.append('--no-rimurc')
            elif r < 0.85:
                argv.append(rng.choice(FLAG_MACROS + ['--styled', '-s', '--lint']))
            elif r < 0.9:
                argv += [rng.choice(['--title', '--lang', '--theme']), rng.choice(['T', 'en', 'dark'])]
            elif r < 0.93:
                argv.append(rng.choice(['--bogus', '--layout', '--title']))
            else:
                argv.append(rng.choice(['--version', '--help'])) if rng.random() < 0.3 else None
        argv = [a for a in argv if a is not None]
        for j in range(rng.choice([0, 1, 1, 1, 2, 3])):
            if rng.random() < 0.15:
                argv.append('-')
                continue
            n = 'in%d%s' % (j, rng.choice(['.rmu', '.rmu', '.html', '', '.txt']))
            argv.append(n)
            if rng.random() < 0.9:
                files.append([n, rng.choice(self.DOCS)])
        if 'o/x.txt' in argv:
            files.append(['o/keep.txt', 'k'])
        case = {'kind': 'M', 'argv': argv, 'stdin': rng.choice(self.DOCS), 'files': files,
                'rimurc': rng.choice([None, None, "{rc}='RC'", '{undefrc}', "{rc}='RC'\n<div>rc {rc}</div>"])}
        return case

    def cli_matrix(self):
        """which inputs are trusted: ~/.rimurc, prepend files and text, against every safe mode"""
        out = []
        doc = 'doc {rc} {pf} {pt} <b>raw</b>\n\n<div>block</div>'
        for rc in [None, "{rc}='RC'\n<div>rc</div>"]:
            for sm in [None, '0', '1', '2', '3', '5', '9', '15']:
                for norc in [False, True]:
                    for pre in [0, 1, 2, 3]:
                        argv = []
                        files = [['in.rmu', doc]]
                        if sm is not None:
                            argv += ['--safe-mode', sm]
                        if norc:
                            argv.append('--no-rimurc')
                        if pre & 1:
                            argv += ['--prepend-file', 'pf.rmu']
                            files.append(['pf.rmu', "{pf}='PF'\n<div>pf</div>"])
                        if pre & 2:
                            argv += ['--prepend', "{pt}='PT'\n<i>pt</i>"]
                        for extra in [[], ['--html-replacement', ''], ['--html-replacement', 'R']]:
                            if extra and sm not in ('2', '3'):
                                continue
                            out.append({'kind': 'M', 'argv': argv + extra + ['in.rmu'], 'stdin': '', 'files': files, 'rimurc': rc})
        return out

    def correspondence(self, ctx):
        rng = ctx.rng('X')
        cases = [self.gen_cli(rng) for _ in range(sizes(ctx, 250, 6000))] + gen.saved_corpus('C18') + self.cli_matrix()
        mo = model_run([common.cli_line(c) for c in cases], timeout=120)
        io_ = impl_run(cases, timeout=self.timeout)
        out = {'cases': len(cases), 'disagreements': [], 'streams': {'X': {'cases': len(cases), 'disagreements': 0}}, 'skipped': 0,
               'samples': [{'stream': 'X', 'case': cases[len(cases) // 2]}], 'distinct_nontrivial': 0}
        seen = set()
        for c, m, i in zip(cases, mo, io_):
            r = common.compare_cli(common.parse_cli_output(m), i)
            h = case_hash(c)
            if h not in seen:
                seen.add(h)
                if i.get('stdout') or i.get('outfile'):
                    out['distinct_nontrivial'] += 1
            if r == 'SKIP':
                out['skipped'] += 1
            elif r:
                out['disagreements'].append({'stream': 'X', 'why': r, 'case': c})
                out['streams']['X']['disagreements'] += 1
        return out

    def search_cases(self, ctx, boost):
        rng = ctx.rng('S')
        return [self.gen_cli(rng) for _ in range(sizes(ctx, 300, 6000) * (3 if boost else 1))] + self.cli_matrix()

    def run_oracle(self, ctx, cases):
        import importlib
        res = impl_run(cases, timeout=self.timeout)
        # the pipeline replayed through rimu.render
        sys_path = os.path.join(common.REPO, 'src')
        import sys as _sys
        if sys_path not in _sys.path:
            _sys.path.insert(0, sys_path)
        for k in [k for k in _sys.modules if k == 'rimuc' or k.startswith('rimuc.')]:
            del _sys.modules[k]
        resources = dict(importlib.import_module('rimuc.resources').resources)
        # the reference for the layout header / footer is the resource *file* (the table in resources.py is generated from
        # the files with the final line terminator dropped); a table that no longer mirrors the files shows as a difference
        rdir = os.path.join(common.REPO, 'src', 'rimuc', 'resources')
        if os.path.isdir(rdir):
            for n in os.listdir(rdir):
                if n.endswith('.rmu'):
                    with open(os.path.join(rdir, n), newline='') as f:
                        c = f.read()
                    resources[n] = c[:-1] if c.endswith('\n') else c
        hist, meta = [], []
        for c in cases:
            p = cli_plan(c['argv'], c.get('files', []), c.get('rimurc'))
            if not isinstance(p, dict):
                hist.append(None)
                meta.append(p)
                continue
            inputs = list(p['inputs'])
            usage = None
            body = []
            stdin_left = c.get('stdin', '')
            for n in p['named']:
                if n == '-':
                    body.append((stdin_left, p['mode'], p['pass'], '/dev/stdin'))
                    stdin_left = ''     # standard input is read once
                else:
                    key = os.path.normpath(n)
                    if key not in p['fmap']:
                        usage = ('usage', 'missing input file')
                        break
                    body.append((p['fmap'][key], 0 if key in p['pfiles'] else p['mode'], n.endswith('.html'), n))
            if p['layout']:
                inputs.append((resources[p['layout'] + '-header.rmu'], 0, False, 'header'))
                inputs += body
                inputs.append((resources[p['layout'] + '-footer.rmu'], 0, False, 'footer'))
            else:
                inputs += body
            p['all'] = inputs
            p['usage_late'] = usage
            calls = []
            for src, mode, verb, name in inputs:
                if verb:
                    continue
                calls.append({'src': src, 'safeMode': mode, 'htmlReplacement': p['repl'], 'cb': True})
            hist.append({'kind': 'H', 'calls': calls, 'state': False} if calls else None)
            meta.append(p)
        hres = impl_run([h for h in hist if h], timeout=self.timeout)
        it = iter(hres)
        fails = []
        nt = 0
        for c, r, h, p in zip(cases, res, hist, meta):
            hr = next(it) if h else None
            try:
                o = self.cli_oracle(c, r, p, hr)
            except Exception as e:
                o = None
                self._oracle_errors = getattr(self, '_oracle_errors', 0) + 1
                self._oracle_last_error = repr(e)
            if r.get('stdout') or r.get('outfile'):
                nt += 1
            if o:
                fails.append({'class': o[0], 'why': o[1], 'case': c})
        return fails, nt, len(cases)

    def cli_oracle(self, c, r, p, hr):
        if r.get('timeout'):
            return None
        if r.get('status') == 'raise':
            return ('C18/traceback:' + str(r.get('exn')), 'argv %r: %s %s' % (c['argv'], r.get('exn'), r.get('msg', '')[:100]))
        if not isinstance(p, dict):
            if p[0] == 'usage':
                if r['exit'] != 1:
                    return ('C18/usage-exit', 'argv %r is invalid (%s) but exit status is %r' % (c['argv'], p[1], r['exit']))
                if len(r['stderr']) != 1:
                    return ('C18/usage-message', 'argv %r: expected a one-line message, got %r' % (c['argv'], r['stderr'][:3]))
                if r['stdout']:
                    return ('C18/usage-output', 'argv %r: output on an invalid invocation' % (c['argv'],))
            if p[0] == 'usage-late':
                # inputs before the missing one may already have produced diagnostics
                if r['exit'] != 1 or not r['stderr'] or r['stdout']:
                    return ('C18/usage-exit', 'argv %r: %s but exit %r, stderr %r' % (c['argv'], p[1], r['exit'], r['stderr'][:2]))
            return None
        if hr is not None and (hr.get('timeout') or not all(x.get('status') == 'ok' for x in hr.get('calls', []))):
            return None
        # usage error found while reading inputs: exit 1 with a message
        bad = p.get('usage_late')
        if bad:
            if r['exit'] != 1 or not r['stderr']:
                return ('C18/usage-exit', 'argv %r: %s but exit %r, stderr %r' % (c['argv'], bad[1], r['exit'], r['stderr'][:2]))
            return None
        parts = []
        diags = 0
        k = 0
        for src, mode, verb, name in p['all']:
            if verb:
                t = src
            else:
                call = hr['calls'][k]
                k += 1
                t = call['html']
                diags += len([m for m in call['log'] if m[0] == 'error'])
            t = t.strip()
            if t:
                parts.append(t)
        expected = '\n'.join(parts).strip()
        got = r['stdout'] if not (p['out'] and p['out'] != '-') else (r['outfile'][1] if r.get('outfile') else None)
        if got != expected:
            return ('C18/output', 'argv %r: output %r, the replayed pipeline gives %r' % (c['argv'], str(got)[:200], expected[:200]))
        if p['out'] and p['out'] != '-':
            if r['stdout']:
                return ('C18/output', 'argv %r: output file requested but stdout is not empty' % (c['argv'],))
            if r.get('outfile') and os.path.normpath(r['outfile'][0]) != os.path.normpath(p['out']):
                return ('C18/outfile-name', 'argv %r: wrote %r, expected %r' % (c['argv'], r['outfile'][0], p['out']))
        if (r['exit'] == 1) != (diags > 0):
            return ('C18/exit-status', 'argv %r: %d diagnostics but exit status %r' % (c['argv'], diags, r['exit']))
        nmsg = len([l for l in r['stderr'] if l.startswith('error: ')])
        if nmsg != diags:
            return ('C18/stderr', 'argv %r: %d diagnostics but %d messages on stderr' % (c['argv'], diags, nmsg))
        return None

    def check_witness(self, ctx, entry):
        case = entry.get('witness')
        if not case:
            return None
        fails, _, _ = self.run_oracle(ctx, [case])
        for f in fails:
            if entry.get('status') == 'fixed' or f['class'] == entry.get('class'):
                return f['why']
        return None

    def explained_by_known(self, ctx, b, known_classes):
        if b.get('kind') != 'correspondence' or not b.get('case'):
            return False
        fails, _, _ = self.run_oracle(ctx, [b['case']])
        return bool(fails) and all(f['class'] in known_classes for f in fails)

    def replay(self, ctx, rp):
        case = rp.get('case')
        if not case:
            br = rp.get('broken') or []
            case = next((b.get('case') for b in br if b.get('case')), None)
            if not case:
                return None
        fails, _, _ = self.run_oracle(ctx, [case])
        if fails:
            return fails[0]['why']
        if ctx.model_ok:
            mo = model_run([common.cli_line(case)], timeout=120)
            io_ = impl_run([case], timeout=self.timeout)
            r = common.compare_cli(common.parse_cli_output(mo[0]), io_[0])
            if r and r != 'SKIP':
                return 'model and implementation differ: ' + r
        return None


PROPS = {'C01': C01(), 'C02': C02(), 'C03': C03(), 'C04': C04(), 'C05': C05(), 'C06': C06(), 'C07': C07(), 'C08': C08(),
         'C09': C09(), 'C10': C10(), 'C11': C11(), 'C12': C12(), 'C13': C13(), 'C14': C14(), 'C15': C15(), 'C16': C16(),
         'C17': C17(), 'C18': C18(), 'C19': C19(), 'C20': C20()}

"""Per-property specifications: correspondence streams + projection, oracle, search generators."""
import hashlib
import itertools
import json
import os
import random
import re

import common
import gen
from common import history_line, parse_history_output, compare_history, model_run, impl_run

TRUSTED_BASE = [
    'Coq 8.16.1 kernel incl. vm_compute (no native_compute); Print Assumptions parsed on every run',
    'no axioms: every property theorem is closed under the global context',
    'translator harness/regen.py (regexes, tables, guards, Unicode tables from the running interpreter)',
    'hand-written Gallina model of the control logic (coq/Model/*.v), validated by differential testing only',
    'extraction with ExtrOcamlBasic only (no Extract Constant/Inductive of our own), ocaml/driver.ml, ocamlfind ocamlopt',
    'correspondence harness, generators, canonicaliser and oracles (harness/*.py)',
    "CPython 3.12 `re`/`str` semantics as modelled in coq/Lib (validated by streams R and P)",
]
ASSUMPTIONS = [
    'theorems are about the model; model = code is established by the correspondence streams (testing)',
    'interpreter recursion depth, wall-clock time and memory are not modelled',
    "inputs containing U+03A3/U+0130 are excluded from correspondence (context-sensitive str.lower)",
]


class Ctx:
    def __init__(self, pid, tier, seed, model_ok=True):
        self.pid = pid
        self.tier = tier
        self.seed = seed
        self.model_ok = model_ok
        self.quick = tier == 'quick'

    def rng(self, stream):
        h = hashlib.sha1(('%s/%s/%d' % (self.pid, stream, self.seed)).encode()).hexdigest()
        return random.Random(int(h[:12], 16))


def case_hash(case):
    return hashlib.sha1(json.dumps(case, sort_keys=True).encode('utf-8', 'surrogatepass')).hexdigest()


def strip_case(c):
    return {k: v for k, v in c.items() if k in ('kind', 'calls', 'state')}


def nontrivial_result(res):
    if not res or 'calls' not in res:
        return True
    for c in res['calls']:
        if c.get('status') != 'ok':
            return True
        if c.get('log'):
            return True
        h = c.get('html', '')
        if re.search(r'<(?!/?p>)', h):
            return True
    return False


def excluded(case):
    for c in case.get('calls', []):
        if common.has_sigma(c.get('src', '')):
            return True
        for k in ('htmlReplacement', 'safeMode', 'reset'):
            v = c.get(k)
            if isinstance(v, str) and common.has_sigma(v):
                return True
    return False


class Spec:
    rule = ''
    assumptions = []
    state_keys = None          # None = compare the whole snapshot; [] = none
    timeout = 10

    # ---- to override
    def streams(self, ctx):
        return []

    def project(self, call):
        return (call.get('html'), call.get('log'))

    def oracle(self, ctx, case, impl):
        """None, or (class, why) when the implementation violates the property on this case."""
        return None

    def search_cases(self, ctx, boost):
        return []

    # ---- shared machinery
    def _proj_state(self, st):
        if st is None:
            return None
        if self.state_keys is None:
            return st
        return {k: st.get(k) for k in self.state_keys}

    def compare(self, model, impl):
        m = dict(model)
        i = dict(impl)
        if 'state' in m and 'state' in i:
            m['state'] = self._proj_state(m['state'])
            i['state'] = self._proj_state(i['state'])
        return compare_history(m, i, project=self.project)

    def correspondence(self, ctx):
        out = {'cases': 0, 'disagreements': [], 'streams': {}, 'skipped': 0, 'samples': [], 'distinct_nontrivial': 0}
        seen = set()
        for name, cases in self.streams(ctx):
            cases = [c for c in cases if not excluded(c)]
            if not cases:
                continue
            mo = model_run([history_line(c) for c in cases], timeout=60)
            io_ = impl_run(cases, timeout=self.timeout)
            nd = 0
            for c, m, i in zip(cases, mo, io_):
                try:
                    pm = parse_history_output(m)
                except Exception as e:
                    pm = {'calls': [{'status': 'driver_error', 'msg': str(e)[:100] + ' ' + m[:100]}]}
                r = self.compare(pm, i)
                h = case_hash(strip_case(c))
                if h not in seen:
                    seen.add(h)
                    if nontrivial_result(i):
                        out['distinct_nontrivial'] += 1
                if r == 'SKIP':
                    out['skipped'] += 1
                elif r:
                    nd += 1
                    out['disagreements'].append({'stream': name, 'why': r, 'case': strip_case(c)})
            out['streams'][name] = {'cases': len(cases), 'disagreements': nd}
            out['cases'] += len(cases)
            if cases and len(out['samples']) < 3:
                out['samples'].append({'stream': name, 'case': strip_case(cases[len(cases) // 2])})
        return out

    def run_oracle(self, ctx, cases):
        cases = [c for c in cases if not excluded(c)]
        res = impl_run(cases, timeout=self.timeout)
        fails = []
        nt = 0
        seen = set()
        for c, r in zip(cases, res):
            h = case_hash(strip_case(c))
            if h not in seen:
                seen.add(h)
                if nontrivial_result(r):
                    nt += 1
            try:
                o = self.oracle(ctx, c, r)
            except Exception as e:  # an oracle crash is a harness bug, never a violation
                o = None
                self._oracle_errors = getattr(self, '_oracle_errors', 0) + 1
                self._oracle_last_error = repr(e)
            if o:
                fails.append({'class': o[0], 'why': o[1], 'case': strip_case(c)})
        return fails, nt, len(cases)

    def search(self, ctx, extra_cases, boost):
        cases = list(extra_cases) + list(self.search_cases(ctx, boost))
        fails, nt, n = self.run_oracle(ctx, cases)
        out = {'cases': n, 'failures': fails, 'distinct_nontrivial': nt, 'samples': [], 'distribution': {}}
        if cases:
            out['samples'] = [{'oracle_case': strip_case(cases[len(cases) // 2])}]
        if getattr(self, '_oracle_errors', 0):
            out['distribution']['oracle_errors'] = self._oracle_errors
            out['distribution']['oracle_last_error'] = self._oracle_last_error
        return out

    def check_witness(self, ctx, entry):
        case = entry.get('witness')
        if not case:
            return None
        fails, _, _ = self.run_oracle(ctx, [case])
        for f in fails:
            if entry.get('status') == 'fixed' or f['class'] == entry.get('class'):
                return f['why']
        return None

    def explained_by_known(self, ctx, b, known_classes):
        if b.get('kind') != 'correspondence' or not b.get('case'):
            return False
        fails, _, _ = self.run_oracle(ctx, [b['case']])
        return bool(fails) and all(f['class'] in known_classes for f in fails)

    def replay(self, ctx, rp):
        """Returns a description when the replayed case still fails, else None."""
        case = rp.get('case')
        if not case:
            br = rp.get('broken') or []
            case = next((b.get('case') for b in br if b.get('case')), None)
            if not case:
                return None
        fails, _, _ = self.run_oracle(ctx, [case])
        if fails:
            return fails[0]['why']
        if ctx.model_ok:
            mo = model_run([history_line(case)])
            io_ = impl_run([case], timeout=self.timeout)
            r = self.compare(parse_history_output(mo[0]), io_[0])
            if r and r != 'SKIP':
                return 'model and implementation differ: ' + r
        return None


def sizes(ctx, quick, thorough):
    return quick if ctx.quick else thorough


def corpus_stream(ctx):
    return ('J', gen.corpus_cases() + gen.saved_corpus('all') + gen.saved_corpus(ctx.pid))


# ---------------------------------------------------------------------------
# C20 -- options validated, persist until reset, not settable from safe mode

DEFAULT_REPL = '<mark>replaced HTML</mark>'
C20_DOCS = ['x', ".safeMode='3'", ".safeMode='0'", ".safeMode='16'", ".safeMode='abc'", ".htmlReplacement='R'",
            ".reset='true'", ".reset='junk'", ".safeMode='3'\n.safeMode='0'", ".safeMode=' 7 '\n<b>"]
C20_MODES = [None, 0, 1, 5, 15, 16, -1, 'abc', '3', ' 7 ', True, {'f': '1.0'}, {'f': '2.5'}, '1_0', '']
C20_RESETS = [None, True, False, 'true', 'false', 'junk', 1, 0]
C20_REPLS = [None, 'R2']


def py_int_legal(v):
    """the property's notion of a legal safe mode given as an API option value"""
    if isinstance(v, dict):
        v = float(v['f'])
    try:
        n = int(str(v))
    except Exception:
        return None
    return n if 0 <= n <= 15 else None


def c20_ops(ctx):
    ops = []
    for d in C20_DOCS:
        ops.append({'src': d, 'cb': True})
    for m in C20_MODES[1:]:
        ops.append({'src': 'x', 'safeMode': m, 'cb': True})
    for r in C20_RESETS[1:]:
        ops.append({'src': 'x', 'reset': r, 'cb': True})
    ops.append({'src': 'x', 'htmlReplacement': 'R2', 'cb': True})
    ops.append({'src': ".safeMode='2'", 'safeMode': 0, 'reset': True, 'cb': True})
    ops.append({'src': ".htmlReplacement='Q'", 'safeMode': 9, 'cb': True})
    ops.append({'src': "x", 'safeMode': 'abc', 'reset': 'junk', 'cb': False})
    ops.append({'src': ".safeMode='4'", 'safeMode': 16, 'reset': True, 'htmlReplacement': 'Z', 'cb': True})
    return ops


class C20(Spec):
    level_text = ('Full strength for the option state machine: theorems C20_range (every reachable session has mode -1 or 0..15), '
                  'C20_reject_unchanged / C20_accept (a value is accepted iff it is the decimal form of 0..15; rejection logs exactly one '
                  'diagnostic and changes nothing else), C20_persist, C20_reset_defaults, C20_reset_then_options, C20_doc_gate (via the frame '
                  'theorem over the whole block layer with the *generated* guards) and C20_update_total. The model is tied to the code by '
                  'exhaustive operation sequences (length<=2 complete, 3-4 sampled) compared on safeMode/htmlReplacement/diagnostics.')
    rule = ('exhaustive sequences (length <= 3 quick, <= 4 thorough, sampled beyond the budget) over an alphabet of '
            'render operations: option values legal/out-of-range/non-numeric/float/bool, reset values, '
            'documents with .safeMode/.htmlReplacement/.reset elements; plus random token-soup histories; '
            'non-trivial = produces a tag other than <p>, a diagnostic or a raise; distinct by case hash')
    state_keys = ['mode', 'repl']
    assumptions = ['C20 correspondence projects on (status, option diagnostics, safeMode, htmlReplacement)']

    def project(self, call):
        return [m for m in (call.get('log') or []) if 'API option' in m[1]]

    def _seqs(self, ctx):
        ops = c20_ops(ctx)
        rng = ctx.rng('seq')
        seqs = [[o] for o in ops] + [[a, b] for a in ops for b in ops]
        n3 = sizes(ctx, 1500, 40000)
        for _ in range(n3):
            k = rng.choice([3, 3, 4]) if not ctx.quick else 3
            seqs.append([rng.choice(ops) for _ in range(k)])
        return [{'kind': 'H', 'calls': s, 'state': True} for s in seqs]

    def streams(self, ctx):
        rng = ctx.rng('H')
        return [corpus_stream(ctx),
                ('opseq', self._seqs(ctx)),
                ('H', [gen.history(rng, 4) for _ in range(sizes(ctx, 400, 20000))])]

    def search_cases(self, ctx, boost):
        return self._seqs(ctx)

    def oracle(self, ctx, case, impl):
        """Reference for the statement on the restricted alphabet: mode after the session, diagnostics."""
        if impl.get('timeout'):
            return ('C20/timeout', 'render did not return')
        mode, repl = None, None
        calls = impl.get('calls', [])
        for k, c in enumerate(case['calls']):
            if k >= len(calls) or calls[k].get('status') != 'ok':
                return None   # raising is C01's concern
            docs_ok = all(l in C20_DOCS_LINES for l in c['src'].split('\n'))
            if not docs_ok:
                return None
            if mode is None:
                mode, repl = 0, DEFAULT_REPL
            expect_diag = []
            r = c.get('reset')
            rv = float(r['f']) if isinstance(r, dict) else r
            if rv is None or rv is False or rv == 0 or rv == 'false':
                pass
            elif rv is True or rv == 1 or rv == 'true':
                mode, repl = 0, DEFAULT_REPL
            else:
                expect_diag.append('illegal reset API option value')
            sm = c.get('safeMode')
            if sm is not None:
                n = py_int_legal(sm)
                if n is None:
                    expect_diag.append('illegal safeMode API option value')
                else:
                    mode = n
            if c.get('htmlReplacement') is not None:
                repl = str(c['htmlReplacement'])
            for line in c['src'].split('\n'):
                m = re.match(r"^\.(\w+)\s*=\s*'(.*)'$", line)
                if not m or mode != 0:
                    continue
                name, val = m.group(1), m.group(2)
                if name == 'safeMode':
                    n = py_int_legal(val)
                    if n is None:
                        expect_diag.append('illegal safeMode API option value')
                    else:
                        mode = n
                elif name == 'htmlReplacement':
                    repl = val
                elif name == 'reset':
                    if val == 'true':
                        mode, repl = 0, DEFAULT_REPL
                        expect_diag = [d for d in expect_diag]  # later diagnostics are lost with the callback
                        break_after_reset = True
                    elif val != 'false':
                        expect_diag.append('illegal reset API option value')
            got = [m[1] for m in calls[k].get('log', []) if 'API option' in m[1]]
            if c.get('cb') and '.reset' not in c['src'] and c.get('reset') in (None, False, 'false', 0):
                # every illegal value must be reported (callback installed for the whole call)
                for d in expect_diag:
                    if not any(g.startswith(d) for g in got):
                        return ('C20/missing-diagnostic', 'call %d: expected diagnostic %r, got %r' % (k, d, got))
        st = impl.get('state')
        if st is not None and mode is not None:
            if not (isinstance(st['mode'], int) and 0 <= st['mode'] <= 15):
                return ('C20/out-of-range', 'safeMode is %r after the session' % (st['mode'],))
            if st['mode'] != mode:
                return ('C20/wrong-mode', 'safeMode is %r after the session, the statement gives %r' % (st['mode'], mode))
            if st['repl'] != repl:
                return ('C20/wrong-replacement', 'htmlReplacement is %r, the statement gives %r' % (st['repl'], repl))
        return None


C20_DOCS_LINES = set(l for d in C20_DOCS for l in d.split('\n')) | {".safeMode='2'", ".htmlReplacement='Q'", ".safeMode='4'"}

PROPS = {'C20': C20()}

"""Case generators for the correspondence streams.  Every random choice derives from the
random.Random instance passed in, so a case replays exactly from (seed, stream, index)."""
import json
import os
import random

REPO = os.environ.get('RIMU_REPO', '/repo')

WORDS = ['foo', 'bar', 'Baz', 'qux', 'a', 'x1', 'lorem', 'ipsum', 'Hello', 'World', 'é', 'ß', '日本', 'K', 'İx',
         'a-2', 'A B', 'x_y', 'http', '42']

# inline tokens: every delimiter, escape, replacement form, macro form, reserved char
INLINE = [
    '*', '**', '_', '__', '`', '``', '~~', '\\', '\\*', '\\_', '\\`', '\\~~', '\\**',
    '*foo*', '**bar**', '_em_', '__st__', '`code`', '``c`d``', '~~del~~', '*a _b_ c*', '_x `y` z_',
    '[link](http://example.com)', '^[new](http://x.y/z)', '[a *b*](u)', '\\[esc](u)', '![alt](img.png)',
    '<image:a.png>', '<image:a.png|alt text>', '<http://a.b>', '<http://a.b|cap *x*>', '<joe@x.com>',
    '<joe@x.com|Joe>', '<<#anchor>>', '\\<http://a.b>', 'http://foo.com/bar', 'https://x.y/#z', '\\http://esc.com',
    '<b>', '</b>', '<br>', '<span class="x">', '<!-- c -->', '\\<b>', '<B>', '<a href="x">', '<K>', '<img src=x>',
    '&amp;', '&#160;', '&nbsp;', '\\&amp;', '&', '<', '>', '"', "'", ' \\', '\\ ', 'a_b_c', 'x\\`',
    '{m}', '{m|a|b}', '{m|}', '{u}', '\\{m}', '{m?}', '{m!}', '{m=}', '{m=a.*}', '{m!x}', '{--}', '{--header-ids}',
    '{m|$1}', '$1', '$$1', '$2:def$', '\\$1', '$1\\:x$', '{q|x\\}y}',
    '\u0000', '\u0001', '\u0002', '\t', '  ', '|', '::', ':', '#', '=', '.', '-', '+', '>', '(', ')', '[', ']', '/',
    '[x](http://a"onmouseover="alert(1))', '<image:a"b|c"d>', '<j@x"y.com>', '<http://a.b"c|d>',
]

# whole lines
LINES = [
    '', '', '', ' ', '# Header', '## H2 ##', '=== H3', '\\# esc', '####### seven', '# say id="x" now',
    '// comment', '\\// esc', '/*', '*/', '/***', '- item', '+ item', '* item', '** sub', '*** subsub', '**** 4',
    '. one', '.. two', '1. num', '... three', '.... four', 'term:: def', 'term::', 'a::: b', 'x:::: y',
    '\\- esc', '  - indented item', '..', '...', '.. cls', '....', '""', '""""', '>>', '>> c1 c2', '--', '---',
    '``', '```', '`` js', '-- nocls', '  indented', '    more', '> quote', '>quote', '\\> esc', '\\>',
    '<div>', '</div>', '<div class="a">', '<!-- block', '-->', '<!DOCTYPE html>', '<hr>', '<p>para</p>',
    '<script>alert(1)</script>', '<span>inline</span>', '<image:x.png>', '<image:x.png|cap>', '<<#top>>',
    '.cls', '.cls1 cls2', '.#id1', '.cls #id2', '."color:red"', '.[title="t"]', '.+skip', '.-macros', '.-spans',
    '.+container', '.-container', '.-specials', '.+spans', '.+macros', '.cls #i "c:d" [a=b] +skip', '\\.cls',
    '.+bogus', '."color:red" onclick="x"', '.#ID', '.a-b #c-d',
    "{m}='value'", "{m}='*v* $1'", "{m?}='exist'", "{m}='", "line2'", "{m} = 'multi", "cont \\", "end'",
    "{--}='x'", "{--header-ids}='true'", "\\{m}='esc'", '{m}', '{m|a|b}', '{u}', '{m!}', '{m=}', '{m} tail',
    "{n}='{m} x'", "{r}='{r} y'", '{r}', '{r} foo',
    "|code|='<pre class=\"x\"><code>|</code></pre>'", "|paragraph|='<p class=\"n\">|</p> -spans'",
    "|division|='<section>|</section>'", "|bogus|='<a>|</a>'", "|quote|='+macros'", "\\|code|='x'", "|html|='-macros'",
    "|paragraph|='-specials'", "|comment|='-skip'",
    "= = '<ins>|</ins>'", "# = '<u>|</u>'", "** = '<b>|</b>'", "! = '<i>||</i>'", "\\= = '<x>|</x>'", "=='<q>|'",
    "/foo/='bar'", "/(x+)/i = '[$1]'", "/\\\\?\\.{3}/='&hellip;'", "/(/='x'", "/a|b/m='$1'", "\\/foo/='esc'",
    ".safeMode='1'", ".safeMode = '0'", ".safeMode='16'", ".safeMode='abc'", ".htmlReplacement='XX'", ".reset='true'",
    ".reset='false'", ".reset='junk'", ".callback='x'", "\\.safeMode='1'", ".safeMode='5'", ".safeMode=' 3 '",
    'plain paragraph', 'text with \\', 'ends with space \\', 'two  spaces',
]

TERMS = ['\n', '\n', '\n', '\r\n', '\r']


def token(rng):
    r = rng.random()
    if r < 0.35:
        return rng.choice(WORDS)
    return rng.choice(INLINE)


def inline_text(rng, n=None):
    n = n or rng.randint(1, 8)
    out = []
    for _ in range(n):
        out.append(token(rng))
        if rng.random() < 0.6:
            out.append(' ')
    return ''.join(out)


def soup_doc(rng, maxlines=12):
    """Token soup document: lines drawn from whole-line forms or inline token runs."""
    n = rng.randint(1, maxlines)
    lines = []
    for _ in range(n):
        r = rng.random()
        if r < 0.5:
            l = rng.choice(LINES)
            if l and rng.random() < 0.2:
                l += ' ' + inline_text(rng, rng.randint(1, 3))
        elif r < 0.9:
            l = inline_text(rng)
        else:
            l = rng.choice(['- ', '. ', '  ', '> ', '# ', 't:: ', '']) + inline_text(rng)
        lines.append(l)
    term = rng.choice(TERMS) if rng.random() < 0.15 else '\n'
    return term.join(lines)


MODES = list(range(16))
OPTVALS_MODE = [None, None, 0, 1, 2, 3, 4, 5, 7, 8, 9, 11, 12, 15, 16, -1, 99, '3', ' 7 ', 'abc', '', '1_0', '٣',
                True, False, {'f': '1.0'}, {'f': '2.5'}, {'f': '0.0'}]
OPTVALS_RESET = [None, None, None, True, False, 'true', 'false', 'junk', 1, 0, 2, {'f': '1.0'}, '']
OPTVALS_REPL = [None, None, None, 'REPL', '', '@@', '<i>r</i>', 'a&b', 5]


def rand_opts(rng, legal_only=False):
    o = {}
    if legal_only:
        o['safeMode'] = rng.choice([None, None] + MODES)
        o['reset'] = rng.choice([None, None, None, True, False])
        o['htmlReplacement'] = rng.choice([None, None, 'REPL', '@@'])
    else:
        o['safeMode'] = rng.choice(OPTVALS_MODE)
        o['reset'] = rng.choice(OPTVALS_RESET)
        o['htmlReplacement'] = rng.choice(OPTVALS_REPL)
    o['cb'] = rng.random() < 0.8
    return o


def history(rng, maxcalls=4, legal_only=False, maxlines=10):
    calls = []
    for _ in range(rng.randint(1, maxcalls)):
        c = rand_opts(rng, legal_only)
        c['src'] = soup_doc(rng, maxlines)
        calls.append(c)
    return {'kind': 'H', 'calls': calls, 'state': True}


def corpus_cases():
    """The repository's own JSON cases, one history each plus the whole suite as one session."""
    path = os.path.join(REPO, 'tests', 'rimu-tests.json')
    with open(path) as f:
        d = json.load(f)
    cases = []
    hist = []
    for spec in d:
        o = spec['options']
        c = {'src': spec['input'], 'safeMode': o.get('safeMode'), 'htmlReplacement': o.get('htmlReplacement'),
             'reset': o.get('reset'), 'cb': True}
        hist.append(c)
        cases.append({'kind': 'H', 'calls': [c], 'state': True, 'desc': spec['description']})
    cases.append({'kind': 'H', 'calls': hist, 'state': True, 'desc': 'whole suite in one session'})
    return cases


def saved_corpus(name):
    """Minimised disagreements / witnesses kept under harness/corpus/<name>.jsonl."""
    path = os.path.join(os.path.dirname(os.path.abspath(__file__)), 'corpus', name + '.jsonl')
    out = []
    if os.path.exists(path):
        with open(path) as f:
            for line in f:
                line = line.strip()
                if line:
                    out.append(json.loads(line))
    return out

"""Case generators for the correspondence streams.  Every random choice derives from the
random.Random instance passed in, so a case replays exactly from (seed, stream, index)."""
import json
import os
import random

REPO = os.environ.get('RIMU_REPO', '/repo')

WORDS = ['foo', 'bar', 'Baz', 'qux', 'a', 'x1', 'lorem', 'ipsum', 'Hello', 'World', 'é', 'ß', '日本', 'K', 'İx',
         'a-2', 'A B', 'x_y', 'http', '42']

# inline tokens: every delimiter, escape, replacement form, macro form, reserved char
INLINE = [
    '*', '**', '_', '__', '`', '``', '~~', '\\', '\\*', '\\_', '\\`', '\\~~', '\\**',
    '*foo*', '**bar**', '_em_', '__st__', '`code`', '``c`d``', '~~del~~', '*a _b_ c*', '_x `y` z_',
    '[link](http://example.com)', '^[new](http://x.y/z)', '[a *b*](u)', '\\[esc](u)', '![alt](img.png)',
    '<image:a.png>', '<image:a.png|alt text>', '<http://a.b>', '<http://a.b|cap *x*>', '<joe@x.com>',
    '<joe@x.com|Joe>', '<<#anchor>>', '\\<http://a.b>', 'http://foo.com/bar', 'https://x.y/#z', '\\http://esc.com',
    '<b>', '</b>', '<br>', '<span class="x">', '<!-- c -->', '\\<b>', '<B>', '<a href="x">', '<K>', '<img src=x>',
    '&amp;', '&#160;', '&nbsp;', '\\&amp;', '&', '<', '>', '"', "'", ' \\', '\\ ', 'a_b_c', 'x\\`',
    '{m}', '{m|a|b}', '{m|}', '{u}', '\\{m}', '{m?}', '{m!}', '{m=}', '{m=a.*}', '{m!x}', '{--}', '{--header-ids}',
    '{m|$1}', '$1', '$$1', '$2:def$', '\\$1', '$1\\:x$', '{q|x\\}y}',
    '\u0000', '\u0001', '\u0002', '\t', '  ', '|', '::', ':', '#', '=', '.', '-', '+', '>', '(', ')', '[', ']', '/',
    '[x](http://a"onmouseover="alert(1))', '<image:a"b|c"d>', '<j@x"y.com>', '<http://a.b"c|d>',
]

# whole lines
LINES = [
    '', '', '', ' ', '# Header', '## H2 ##', '=== H3', '\\# esc', '####### seven', '# say id="x" now',
    '// comment', '\\// esc', '/*', '*/', '/***', '- item', '+ item', '* item', '** sub', '*** subsub', '**** 4',
    '. one', '.. two', '1. num', '... three', '.... four', 'term:: def', 'term::', 'a::: b', 'x:::: y',
    '\\- esc', '  - indented item', '..', '...', '.. cls', '....', '""', '""""', '>>', '>> c1 c2', '--', '---',
    '``', '```', '`` js', '-- nocls', '  indented', '    more', '> quote', '>quote', '\\> esc', '\\>',
    '<div>', '</div>', '<div class="a">', '<!-- block', '-->', '<!DOCTYPE html>', '<hr>', '<p>para</p>',
    '<script>alert(1)</script>', '<span>inline</span>', '<image:x.png>', '<image:x.png|cap>', '<<#top>>',
    '.cls', '.cls1 cls2', '.#id1', '.cls #id2', '."color:red"', '.[title="t"]', '.+skip', '.-macros', '.-spans',
    '.+container', '.-container', '.-specials', '.+spans', '.+macros', '.cls #i "c:d" [a=b] +skip', '\\.cls',
    '.+bogus', '."color:red" onclick="x"', '.#ID', '.a-b #c-d',
    "{m}='value'", "{m}='*v* $1'", "{m?}='exist'", "{m}='", "line2'", "{m} = 'multi", "cont \\", "end'",
    "{--}='x'", "{--header-ids}='true'", "\\{m}='esc'", '{m}', '{m|a|b}', '{u}', '{m!}', '{m=}', '{m} tail',
    "{n}='{m} x'", "{r}='{r} y'", '{r}', '{r} foo',
    "|code|='<pre class=\"x\"><code>|</code></pre>'", "|paragraph|='<p class=\"n\">|</p> -spans'",
    "|division|='<section>|</section>'", "|bogus|='<a>|</a>'", "|quote|='+macros'", "\\|code|='x'", "|html|='-macros'",
    "|paragraph|='-specials'", "|comment|='-skip'",
    "= = '<ins>|</ins>'", "# = '<u>|</u>'", "** = '<b>|</b>'", "! = '<i>||</i>'", "\\= = '<x>|</x>'", "=='<q>|'",
    "/foo/='bar'", "/(x+)/i = '[$1]'", "/\\\\?\\.{3}/='&hellip;'", "/(/='x'", "/a|b/m='$1'", "\\/foo/='esc'",
    ".safeMode='1'", ".safeMode = '0'", ".safeMode='16'", ".safeMode='abc'", ".htmlReplacement='XX'", ".reset='true'",
    ".reset='false'", ".reset='junk'", ".callback='x'", "\\.safeMode='1'", ".safeMode='5'", ".safeMode=' 3 '",
    'plain paragraph', 'text with \\', 'ends with space \\', 'two  spaces',
]

TERMS = ['\n', '\n', '\n', '\r\n', '\r']


def token(rng):
    r = rng.random()
    if r < 0.35:
        return rng.choice(WORDS)
    return rng.choice(INLINE)


def inline_text(rng, n=None):
    n = n or rng.randint(1, 8)
    out = []
    for _ in range(n):
        out.append(token(rng))
        if rng.random() < 0.6:
            out.append(' ')
    return ''.join(out)


DEF_LINE = __import__('re').compile(r"^\\?(\{[\w-]+\??\}\s*=|\|[\w-]+\|\s*=|/.+/[igm]*\s*=|\S{1,2}\s*=\s*'|\.\w+\s*=\s*')")


def soup_doc(rng, maxlines=12, no_lt=False, no_defs=False, closed=False, no_list_start=False, lf_only=False):
    """Token soup document: lines drawn from whole-line forms or inline token runs."""
    n = rng.randint(1, maxlines)
    lines = []
    for _ in range(n):
        r = rng.random()
        if r < 0.5:
            l = rng.choice(LINES)
            if l and rng.random() < 0.2:
                l += ' ' + inline_text(rng, rng.randint(1, 3))
        elif r < 0.9:
            l = inline_text(rng)
        else:
            l = rng.choice(['- ', '. ', '  ', '> ', '# ', 't:: ', '']) + inline_text(rng)
        if no_defs and DEF_LINE.match(l) and not l.lstrip('\\').startswith('{'):
            l = 'plain ' + str(len(lines))   # macro definitions stay (their values are made tag-free by no_lt)
        if no_lt:
            l = l.replace('<', '(')
        lines.append(l)
    if no_list_start:
        lines.insert(0, 'Start paragraph.')
        lines.insert(1, '')
    if closed:
        lines += ['', 'Closing paragraph.']
    term = rng.choice(TERMS) if (rng.random() < 0.15 and not lf_only) else '\n'
    doc = term.join(lines)
    if lf_only:
        doc = doc.replace('\r', '')
    return doc


MODES = list(range(16))
OPTVALS_MODE = [None, None, 0, 1, 2, 3, 4, 5, 7, 8, 9, 11, 12, 15, 16, -1, 99, '3', ' 7 ', 'abc', '', '1_0', '٣',
                True, False, {'f': '1.0'}, {'f': '2.5'}, {'f': '0.0'}]
OPTVALS_RESET = [None, None, None, True, False, 'true', 'false', 'junk', 1, 0, 2, {'f': '1.0'}, '']
OPTVALS_REPL = [None, None, None, 'REPL', '', '@@', '<i>r</i>', 'a&b', 5]


def rand_opts(rng, legal_only=False):
    o = {}
    if legal_only:
        o['safeMode'] = rng.choice([None, None] + MODES)
        o['reset'] = rng.choice([None, None, None, True, False])
        o['htmlReplacement'] = rng.choice([None, None, 'REPL', '@@'])
    else:
        o['safeMode'] = rng.choice(OPTVALS_MODE)
        o['reset'] = rng.choice(OPTVALS_RESET)
        o['htmlReplacement'] = rng.choice(OPTVALS_REPL)
    o['cb'] = rng.random() < 0.8
    return o


def history(rng, maxcalls=4, legal_only=False, maxlines=10):
    calls = []
    for _ in range(rng.randint(1, maxcalls)):
        c = rand_opts(rng, legal_only)
        c['src'] = soup_doc(rng, maxlines)
        calls.append(c)
    return {'kind': 'H', 'calls': calls, 'state': True}


def corpus_cases():
    """The repository's own JSON cases, one history each plus the whole suite as one session."""
    path = os.path.join(REPO, 'tests', 'rimu-tests.json')
    with open(path) as f:
        d = json.load(f)
    cases = []
    hist = []
    for spec in d:
        o = spec['options']
        c = {'src': spec['input'], 'safeMode': o.get('safeMode'), 'htmlReplacement': o.get('htmlReplacement'),
             'reset': o.get('reset'), 'cb': True}
        hist.append(c)
        cases.append({'kind': 'H', 'calls': [c], 'state': True, 'desc': spec['description']})
    cases.append({'kind': 'H', 'calls': hist, 'state': True, 'desc': 'whole suite in one session'})
    return cases


def saved_corpus(name):
    """Minimised disagreements / witnesses kept under harness/corpus/<name>.jsonl."""
    path = os.path.join(os.path.dirname(os.path.abspath(__file__)), 'corpus', name + '.jsonl')
    out = []
    if os.path.exists(path):
        with open(path) as f:
            for line in f:
                line = line.strip()
                if line:
                    out.append(json.loads(line))
    return out


DEGENERATE = ["/x*/='y'", "/(a)|b/='[$1]'", "/(/='x'", "/[/='x'", "/a{2,1}/='x'", "/(.*)/='$$1'", "/(a+)/='<b>$$1</b>'", "/.*/='$9'", "/./='$1'",
              "/(?P<n>a)/='x'", "/a++/='x'", "/\\/='x'", "* = '|'", "= = '<u>|</u>'", "`` = '<c>||</c>'", "\\ = '<b>|</b>'",
              "~ = '<s>|</s>'", "|paragraph|='-spans -specials'", "|paragraph|='<div>|</div> +container'", "|code|='+macros +spans'",
              "|comment|='-skip'", "|html|='+container'", "|indented|='+skip'", "|division|='-container'",
              "{m}='$1 $2 $$3 $10'", "{m}='$99999999999999999999'", "{m}='{m|$1}'", "{a}='{b}'", "{b}='{a}'",
              "{m=[}", "{m=(}", "{m!a{4294967296\\}}", "{m|a|b|c|d|e}", "{m|$1|\\$2}", ".+container", ".+macros +spans",
              ".-specials -spans -macros"]


def degenerate_history(rng):
    """author-trusted documents that install ill-formed or degenerate definitions, then ordinary text"""
    calls = []
    pre = [rng.choice(DEGENERATE) for _ in range(rng.randint(1, 4))]
    calls.append({'src': '\n'.join(pre) + '\n\n' + soup_doc(rng, 4), 'safeMode': 0, 'reset': True, 'cb': rng.random() < 0.8})
    for _ in range(rng.randint(0, 2)):
        c = rand_opts(rng)
        c['src'] = soup_doc(rng, 6)
        calls.append(c)
    return {'kind': 'H', 'calls': calls, 'state': True}


def repeated_elements(quick):
    """thousands of repeated elements in one paragraph; nesting to depth 50"""
    out = []
    n = 300 if quick else 3000
    for unit in ['http://a.b/c ', '*em* ', '[l](u) ', '&amp; ', '<b> ', '`c` ', '\\*esc* ', 'x_y ', '{--} ', '<image:a> ']:
        for mode in (0, 1):
            out.append({'kind': 'H', 'state': False,
                        'calls': [{'src': unit * n, 'safeMode': mode, 'reset': True, 'cb': True}]})
    deep = ''
    for d in range(2, 52):
        deep += '.' * d + '\n'
    deep += 'inner\n'
    for d in range(51, 1, -1):
        deep += '.' * d + '\n'
    out.append({'kind': 'H', 'state': False, 'calls': [{'src': deep, 'safeMode': 0, 'reset': True, 'cb': True}]})
    li = ''.join('%s item\n' % ('*' * (1 + d % 4)) for d in range(40))
    out.append({'kind': 'H', 'state': False, 'calls': [{'src': li, 'reset': True, 'cb': True}]})
    return out


INJECTIONS = ['a <\\` b', 'a &\\` b', '>\\` c <\\`', 'x<_y z&_w', '."a onerror=alert(1) b"\n<image:style=|x>', '.c1\n<image:class=|x>', '.c1\n<image:a.png|x class=>', '."a:b"\n<image:a.png|x style=>', '.c1\n<<#class=>>',
              '[x](http://a"onmouseover="alert(1))', '<image:a"b|c"d>', '<image:a"onerror="x>', '![a"b](c"d)', '<j@x"y.com>',
              '<http://a.b"c|d>', '^[x](u"v)', '<a"b>', 'http://a.b/"c', '."color:red" onclick="x"\npara', '.cls"x\npara',
              '.#id"x\npara', '.[onclick="x"]\npara', '.-specials\n<b>\n', "{m}='<script>x</script>'\n{m}", "{m}='<b>'\n<div>{m}</div>",
              '<div>\n{m}', '<!-- {m} -->', '.+macros\n<div>{m}</div>', '<<#a"b>>', '# h "q"', '# <b> h', 'x::"q"', '&amp;"', '&#x;<',
              "|paragraph|='<x>|</x>'\npara", "= = '<u>|</u>'\n=x=", "/a/='<i>'\na", '.safeMode=\'0\'\n<b>', '.htmlReplacement=\'<u>\'\n<b>',
              '``\n<b>\n``', '  <b>', '> <b>', '- <b>', 'a::<b>', '..\n<b>\n..', '.-container\n..\n<b>\n..', '.-spans\n> <b>',
              '.-spans\n- <b>', '.+skip\n<b>', '\\<b>', '<b', '<b>>', '<<b>', '&lt;', '<!--x-->', '<!-- a > b -->', '<B CLASS="x">']


def injection_cases(modes, repl):
    out = []
    for inj in INJECTIONS:
        for m in modes:
            out.append({'kind': 'H', 'state': False,
                        'calls': [{'src': "{m}='<script>x</script>'\n\n" + inj + '\n\nnext *para*', 'safeMode': m, 'reset': True,
                                   'htmlReplacement': repl, 'cb': True}]})
    return out


def reset_adversaries():
    """histories that redefine every kind of definition / leave things pending, then a reset call"""
    pres = ["* = '<b>|</b>'\n= = '<u>|</u>'", "/foo/='bar'\n/\\\\?\\.{3}/='E'", "|paragraph|='<div>|</div> -spans'\n|code|='-specials'",
            "{m}='v'\n{--header-ids}='1'", ".cls #id1 \"c:d\" [a=b] -spans", ".+skip", ".-macros", "# Title\n.#title\npara",
            "..\nunterminated", "{m}='open", "- item\n\n.x", ".safeMode='5'", ".htmlReplacement='Q'", "``\ncode", "/*\ncomment"]
    probes = ["*a* =b= foo ... {m} {--header-ids}\n\n# Title\n\n``\n<c>\n``\n\n<b>raw</b>\n\npara", "- a\n- b\n\n.. k\nd\n..",
              "{m}", "# Title", "*x*\n\nsecond", "<div>\n\nnext"]
    out = []
    for p in pres:
        for q in probes:
            for mode in (None, 0, 1):
                last = {'src': q, 'reset': True, 'safeMode': mode, 'cb': True}
                main = {'kind': 'H', 'state': True, 'calls': [{'src': p, 'safeMode': 0, 'cb': True}, last]}
                main['variants'] = [{'kind': 'H', 'state': True, 'calls': [last]}]
                out.append(main)
    return out

def abort_histories():
    """a render call aborted by an exception (a throwing callback, or an exhausted interpreter stack) that the application
    catches, then a reset call: implementation only (the model's failure outcome carries no state)"""
    aborted = [("- a\n.#dup\n- b\n.#dup\n- c", 'raise'), ("* x\n- y\n.#d\n- z\n.#d\n- w", 'raise'), (". a\n.. b\n{undef}\n", 'raise'),
               ("[link](http://a.b) <b>t</b> {undef} `c`", 'raise'), ("t:: d\n.#k\nu:: e\n.#k\nv:: f", 'raise'),
               ("..\n- a\n.#q\n- b\n.#q\n- c\n..", 'raise'), ("[link](http://a.b) " + "*q* " * 3000, True),
               (".cls #i \"c:d\"\n{undef}", 'raise'), ("{m}='v'\n|code|='+macros'\n{undef}", 'raise'), ("*a* [l](u) <i>x</i> {undef|p} &amp; http://x.y", 'raise')]
    probes = ["* x\n- y\n* z", "- a\n- b", "one [the docs](http://d.e) and `code [x](y)` here", ". a\n.. b\n. c", "t:: d\nu:: e",
              "*a* <b>t</b> `c` http://a.b", "para\n\n- a\n\n  ind"]
    out = []
    for (a, cbk), q in __import__('itertools').product(aborted, probes):
        for mode in (0, 1):
            last = {'src': q, 'reset': True, 'safeMode': mode, 'cb': True}
            main = {'kind': 'H', 'state': False, 'continue_after_raise': True,
                    'calls': [{'src': a, 'safeMode': 0, 'reset': True, 'cb': cbk}, last]}
            main['variants'] = [{'kind': 'H', 'state': False, 'calls': [last]}]
            main['meta'] = {'abort': True}
            out.append(main)
    # the same without reset in the following call, after aborted documents that legitimately leave nothing behind (no
    # definition, id, option or pending attribute): lists whose nested item text invokes an undefined macro, so that the
    # abort happens while list markers are open (seed C10_i: the marker stack cleared by reset only)
    clean = ["* a\n- b {undef}", ". a\n.. b\n{undef}\n", "- a\n* b\n. c {undef}\n- d", "t:: d\n- x {undef}", "* a\n\n- b\n  {undef}",
             "..\n- a\n* b {undef}\n..", "- a {undef}", "para {undef}"]
    for a, q in __import__('itertools').product(clean, probes):
        for mode in (0, 1):
            last = {'src': q, 'safeMode': mode, 'cb': True}
            main = {'kind': 'H', 'state': False, 'continue_after_raise': True,
                    'calls': [{'src': a, 'safeMode': 0, 'reset': True, 'cb': 'raise'}, last]}
            main['variants'] = [{'kind': 'H', 'state': False, 'calls': [last]}]
            main['meta'] = {'abort': True}
            out.append(main)
    return out


INJECTIONS += ['.-container\n""\n<b>never closed\n""', '.cls -container\n..\n<i>x\n..', '.-spans\n- <b>never closed\n- second',
               '.-macros\n> <b>', '.-spans -macros\n<b>x', '.-container\n>>\n<b>\n>>', '.-spans\n> <script>alert(1)</script>',
               '.-container -macros\n""\n<u>\n""', '.+skip\n""\n<b>\n""', '.-specials -container\n..\n<b>\n..']

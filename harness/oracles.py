"""Executable restatements of the properties over observable behaviour (failing-input search).
Each oracle is deliberately no stronger than the property text."""
import re

VOID = {'br', 'img'}
ALLOWED_ATTRS = {'href', 'src', 'alt', 'id', 'class', 'style', 'target'}
# tags Rimu itself generates from default definitions
RIMU_TAGS = {'strong', 'em', 'code', 'del', 'span', 'img', 'a', 'br', 'h1', 'h2', 'h3', 'h4', 'h5', 'h6', 'div',
             'blockquote', 'pre', 'p', 'ul', 'ol', 'dl', 'li', 'dd', 'dt', 'mark'}

TAG_RE = re.compile(r'<(/?)([a-zA-Z][a-zA-Z0-9]*)((?:\s+[a-zA-Z][a-zA-Z0-9_:-]*="[^"]*")*)\s*>')
ATTR_RE = re.compile(r'\s+([a-zA-Z][a-zA-Z0-9_:-]*)="([^"]*)"')
ENTITY_RE = re.compile(r'&[\w#]\w+;')


def escape(s):
    return s.replace('&', '&amp;').replace('>', '&gt;').replace('<', '&lt;')


def tokenize(html, repl=None):
    """-> (tokens, None) or (None, (kind, detail)).  tokens: ('text', s) | ('open'|'close', name, attrs)"""
    toks = []
    if repl:
        html = html.replace(repl, '')
    pos = 0
    n = len(html)
    while pos < n:
        c = html[pos]
        if c == '<':
            m = TAG_RE.match(html, pos)
            if not m:
                return None, ('raw-lt', html[pos:pos + 60])
            attrs = ATTR_RE.findall(m.group(3))
            toks.append(('close' if m.group(1) else 'open', m.group(2).lower(), attrs))
            pos = m.end()
        elif c == '>':
            return None, ('raw-gt', html[max(0, pos - 30):pos + 30])
        elif c == '&':
            m = ENTITY_RE.match(html, pos)
            if not m:
                return None, ('raw-amp', html[pos:pos + 30])
            pos = m.end()
        else:
            pos += 1
    return toks, None


def confined(html, repl=None):
    """C03: None or (kind, detail)"""
    toks, err = tokenize(html, repl)
    if err:
        return err
    for t in toks:
        if t[1] not in RIMU_TAGS:
            return ('foreign-tag', t[1])
        if t[0] == 'close' and t[2]:
            return ('attr-on-close', t[1])
        for name, val in t[2]:
            if name.lower() not in ALLOWED_ATTRS:
                return ('foreign-attr', '%s on <%s>' % (name, t[1]))
    return None


LENIENT_TAG_RE = re.compile(r'<(/?)([a-zA-Z][a-zA-Z0-9]*)((?:"[^"]*"|[^<>"])*)>')


def tokenize_lenient(html, repl=None):
    """tags with arbitrary attribute text (an author may add raw attributes at safe mode 0)"""
    toks = []
    if repl:
        html = html.replace(repl, '')
    pos = 0
    for m in LENIENT_TAG_RE.finditer(html):
        toks.append(('close' if m.group(1) else 'open', m.group(2).lower(), m.group(3)))
    return toks, None


def balanced(html, repl=None, lenient=False):
    """C06: None or (kind, detail)"""
    toks, err = tokenize_lenient(html, repl) if lenient else tokenize(html, repl)
    if err:
        return ('untokenisable:' + err[0], err[1])
    stack = []
    for t in toks:
        if t[0] == 'open':
            if t[1] not in VOID:
                stack.append(t[1])
        else:
            if t[1] in VOID:
                return ('close-of-void', t[1])
            if not stack or stack[-1] != t[1]:
                return ('mismatched-close', '</%s> with open %s' % (t[1], stack[-3:]))
            stack.pop()
    if stack:
        return ('unclosed', str(stack[-3:]))
    return None


def squeeze(html):
    """HTML equal up to white space between tags and at the ends"""
    h = re.sub(r'>\s+<', '><', html)
    h = re.sub(r'\n+<', '<', h)
    h = re.sub(r'>\n+', '>', h)
    return re.sub(r'\n+', '\n', h).strip()


def ids_of(html):
    """id attributes of tags (not occurrences of id="..." in text content)"""
    out = []
    for m in LENIENT_TAG_RE.finditer(html):
        if not m.group(1):
            out += re.findall(r'\sid="([^"]*)"', m.group(3))
    return out

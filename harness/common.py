"""Shared harness code: build, model driver, implementation worker pool, encoding, diff."""
import fcntl
import json
import os
import re
import select
import subprocess
import sys
import time
import hashlib
import resource

HERE = os.path.dirname(os.path.abspath(__file__))
VERIF = os.path.dirname(HERE)
REPO = os.environ.get('RIMU_REPO', '/repo')
BUILD = os.path.join(VERIF, 'build')
COQ = os.path.join(VERIF, 'coq')
DRIVER = os.path.join(BUILD, 'ocaml', 'driver')
PY = '/venv/bin/python'
NPROC = int(os.environ.get('VERIF_JOBS', '0')) or min(16, os.cpu_count() or 4)

ENV = dict(os.environ, PYTHONPATH=os.path.join(REPO, 'src'), PYTHONDONTWRITEBYTECODE='1',
           PYTHONHASHSEED='0', RIMU_REPO=REPO, RIMU_RESOURCES=os.path.join(COQ, 'Gen', 'resources.txt'))


# ---------------------------------------------------------------------------
# encoding

def enc_str(s):
    return 's' + ','.join(str(ord(c)) for c in s)


def dec_str(t):
    assert t[0] == 's', t
    if len(t) == 1:
        return ''
    return ''.join(chr(int(x)) for x in t[1:].split(','))


def enc_pyval(v):
    if v is None:
        return 'n'
    if isinstance(v, bool):
        return 'b1' if v else 'b0'
    if isinstance(v, int):
        return 'i%d' % v
    if isinstance(v, dict) and 'f' in v:
        f = float(v['f'])
        return 'f%d%d:%s' % (1 if f == 0 else 0, 1 if f == 1 else 0, enc_str(repr(f))[1:])
    if isinstance(v, str):
        return enc_str(v)
    raise ValueError(v)


def history_line(case):
    toks = ['H', '1' if case.get('state') else '0']
    for c in case['calls']:
        toks += [enc_str(c['src']), enc_pyval(c.get('safeMode')), enc_pyval(c.get('htmlReplacement')),
                 enc_pyval(c.get('reset')), '1' if c.get('cb') else '0']
    return ' '.join(toks)


def parse_state(toks):
    st = {}
    i = 0

    def nxt():
        nonlocal i
        i += 1
        return toks[i - 1]
    assert nxt() == 'mode'
    st['mode'] = int(nxt())
    assert nxt() == 'repl'
    st['repl'] = dec_str(nxt())
    assert nxt() == 'cb'
    st['cb'] = nxt() == '1'
    assert nxt() == 'quotes'
    n = int(nxt())
    st['quotes'] = [[dec_str(nxt()), dec_str(nxt()), dec_str(nxt()), nxt() == '1'] for _ in range(n)]
    assert nxt() == 'repls'
    n = int(nxt())
    st['repls'] = [[dec_str(nxt()), int(nxt()), dec_str(nxt()), nxt()] for _ in range(n)]
    assert nxt() == 'dblocks'
    n = int(nxt())
    st['dblocks'] = [[dec_str(nxt()), dec_str(nxt()), dec_str(nxt()), nxt()] for _ in range(n)]
    assert nxt() == 'macros'
    n = int(nxt())
    st['macros'] = [[dec_str(nxt()), dec_str(nxt())] for _ in range(n)]
    assert nxt() == 'pending'
    st['pending'] = [dec_str(nxt()), dec_str(nxt()), dec_str(nxt()), dec_str(nxt()), nxt()]
    assert nxt() == 'ids'
    n = int(nxt())
    st['ids'] = [dec_str(nxt()) for _ in range(n)]
    return st


def parse_history_output(line):
    """Model output -> same canonical shape as impl_worker.run_history."""
    out = {'calls': []}
    parts = line.split(' ; ')
    for p in parts:
        p = p.strip()
        if not p:
            continue
        toks = p.split(' ')
        if toks[0] == 'O':
            log = []
            alllog = []
            for t in toks[2:]:
                d, s = t.split(':', 1)
                alllog.append([d == 'd1', dec_str(s)])
                if d == 'd1':
                    log.append(['error', dec_str(s)])
            out['calls'].append({'status': 'ok', 'html': dec_str(toks[1]), 'log': log, 'alllog': alllog})
        elif toks[0] == 'X':
            out['calls'].append({'status': 'raise', 'exn': toks[1]})
        elif toks[0] == 'F':
            out['calls'].append({'status': 'fuel'})
        elif toks[0] == 'S':
            out['state'] = parse_state(toks[1:])
        elif toks[0] == 'ERR':
            out['calls'].append({'status': 'driver_error', 'msg': p})
        else:
            raise ValueError('bad model output: ' + p[:200])
    return out


# ---------------------------------------------------------------------------
# build

class BuildError(Exception):
    def __init__(self, stage, detail):
        super().__init__(stage + ': ' + detail)
        self.stage = stage
        self.detail = detail


def _run(cmd, cwd=None, timeout=1800, env=None):
    p = subprocess.run(cmd, cwd=cwd, stdout=subprocess.PIPE, stderr=subprocess.STDOUT, text=True,
                       timeout=timeout, env=env or ENV)
    return p.returncode, p.stdout


def coq_error_summary(out):
    """First Coq error of a make log: file, line, message, enclosing lemma when visible."""
    m = re.search(r'File "([^"]+)", line (\d+), characters [^\n]*\nError:(.*?)(?:\n\n|\nmake|\Z)', out, re.S)
    if not m:
        return out[-800:]
    return '%s:%s: %s' % (m.group(1), m.group(2), ' '.join(m.group(3).split())[:400])


def lemma_at(path, lineno):
    """Name of the Lemma/Theorem/Definition enclosing a source line."""
    try:
        with open(os.path.join(COQ, path)) as f:
            lines = f.readlines()
    except OSError:
        return None
    for i in range(min(lineno, len(lines)) - 1, -1, -1):
        m = re.match(r'\s*(Lemma|Theorem|Corollary|Example|Definition|Fixpoint|Fact|Remark)\s+(\w+)', lines[i])
        if m:
            return m.group(2)
    return None


def build(targets=None, jobs=None):
    """regen (tie 1) + Coq build + extraction + driver, under an exclusive lock.
    Raises BuildError(stage, detail). Returns dict with timings and the regen message."""
    os.makedirs(BUILD, exist_ok=True)
    info = {}
    with open(os.path.join(BUILD, '.lock'), 'w') as lk:
        fcntl.flock(lk, fcntl.LOCK_EX)
        t0 = time.time()
        rc, out = _run([PY, os.path.join(HERE, 'regen.py')], timeout=600)
        info['regen'] = out.strip().splitlines()[-1] if out.strip() else ''
        info['regen_s'] = round(time.time() - t0, 1)
        if rc != 0:
            raise BuildError('translator', info['regen'])
        t0 = time.time()
        if not os.path.exists(os.path.join(COQ, 'Makefile')) or \
                os.path.getmtime(os.path.join(COQ, 'Makefile')) < os.path.getmtime(os.path.join(COQ, '_CoqProject')):
            rc, out = _run(['coq_makefile', '-f', '_CoqProject', '-o', 'Makefile'], cwd=COQ)
            if rc != 0:
                raise BuildError('coq_makefile', out[-500:])
        tg = targets or ['Extract.vo']
        # a proof script that runs away (after a change to the code) must end as a failed obligation, not take the machine down:
        # 12 GB of address space per coqc (the largest file needs under 2 GB)
        rc, out = _run(['bash', '-c', 'ulimit -v 12000000; exec timeout 3000 make -j%d %s' % (jobs or NPROC, ' '.join(tg))],
                       cwd=COQ, timeout=3100)
        info['coq_s'] = round(time.time() - t0, 1)
        info['coq_log'] = out
        if rc != 0:
            summ = coq_error_summary(out)
            m = re.match(r'\./?([^:]+):(\d+):', summ)
            lem = lemma_at(m.group(1), int(m.group(2))) if m else None
            raise BuildError('coq', (('in %s: ' % lem) if lem else '') + summ)
        # driver
        t0 = time.time()
        od = os.path.join(BUILD, 'ocaml')
        os.makedirs(od, exist_ok=True)
        srcs = [os.path.join(COQ, 'rimu_model.ml'), os.path.join(COQ, 'rimu_model.mli'),
                os.path.join(VERIF, 'ocaml', 'driver.ml')]
        stamp = hashlib.sha1(b''.join(open(p, 'rb').read() for p in srcs)).hexdigest()
        sp = os.path.join(od, 'stamp')
        if not (os.path.exists(DRIVER) and os.path.exists(sp) and open(sp).read() == stamp):
            for p in srcs:
                with open(p, 'rb') as f, open(os.path.join(od, os.path.basename(p)), 'wb') as g:
                    g.write(f.read())
            rc, out = _run(['ocamlfind', 'ocamlopt', '-O3', '-w', '-a', 'rimu_model.mli', 'rimu_model.ml',
                            'driver.ml', '-o', 'driver'], cwd=od)
            if rc != 0:
                raise BuildError('ocaml', out[-800:])
            with open(sp, 'w') as f:
                f.write(stamp)
        info['ocaml_s'] = round(time.time() - t0, 1)
    return info


# ---------------------------------------------------------------------------
# running the model

def _unlimit_stack():
    try:
        resource.setrlimit(resource.RLIMIT_STACK, (resource.RLIM_INFINITY, resource.RLIM_INFINITY))
    except Exception:
        try:
            soft, hard = resource.getrlimit(resource.RLIMIT_STACK)
            resource.setrlimit(resource.RLIMIT_STACK, (hard, hard))
        except Exception:
            pass


class ModelProc:
    def __init__(self, env):
        self.env = env
        self.start()

    def start(self):
        self.p = subprocess.Popen([DRIVER], stdin=subprocess.PIPE, stdout=subprocess.PIPE,
                                  stderr=subprocess.DEVNULL, text=True, env=self.env, bufsize=1,
                                  preexec_fn=_unlimit_stack)

    def run(self, line, timeout):
        try:
            self.p.stdin.write(line + '\n')
            self.p.stdin.flush()
        except BrokenPipeError:
            self.start()
            self.p.stdin.write(line + '\n')
            self.p.stdin.flush()
        r, _, _ = select.select([self.p.stdout], [], [], timeout)
        if not r:
            self.p.kill()
            self.p.wait()
            self.start()
            return 'ERR timeout'
        out = self.p.stdout.readline()
        if not out:
            self.p.wait()
            self.start()
            return 'ERR crash'
        return out.rstrip('\n')

    def close(self):
        try:
            self.p.stdin.close()
            self.p.wait(timeout=5)
        except Exception:
            self.p.kill()


def model_run(lines, jobs=None, fuel=None, timeout=60):
    """Run case lines through the extracted model (pool of driver processes, per-case
    watchdog); returns one output line per case."""
    if not lines:
        return []
    jobs = max(1, min(jobs or NPROC, len(lines)))
    env = dict(ENV)
    if fuel:
        env['RIMU_FUEL'] = str(fuel)
    import threading
    res = [None] * len(lines)
    idx = [0]
    lock = threading.Lock()

    def work():
        w = ModelProc(env)
        try:
            while True:
                with lock:
                    i = idx[0]
                    idx[0] += 1
                if i >= len(lines):
                    break
                res[i] = w.run(lines[i], timeout)
        finally:
            w.close()
    ths = [threading.Thread(target=work) for _ in range(jobs)]
    for t in ths:
        t.start()
    for t in ths:
        t.join()
    return res


# ---------------------------------------------------------------------------
# running the implementation

class Worker:
    def __init__(self):
        self.p = None
        self.start()

    def start(self):
        self.p = subprocess.Popen([PY, '-W', 'ignore', os.path.join(HERE, 'impl_worker.py')],
                                  stdin=subprocess.PIPE, stdout=subprocess.PIPE, stderr=subprocess.DEVNULL,
                                  text=True, env=ENV, bufsize=1)

    def run(self, case, timeout):
        try:
            self.p.stdin.write(json.dumps(case) + '\n')
            self.p.stdin.flush()
        except BrokenPipeError:
            self.start()
            self.p.stdin.write(json.dumps(case) + '\n')
            self.p.stdin.flush()
        r, _, _ = select.select([self.p.stdout], [], [], timeout)
        if not r:
            self.p.kill()
            self.p.wait()
            self.start()
            return {'timeout': True}
        line = self.p.stdout.readline()
        if not line:
            self.p.wait()
            rc = self.p.returncode
            self.start()
            return {'crash': rc}
        return json.loads(line)

    def close(self):
        try:
            self.p.stdin.close()
            self.p.wait(timeout=5)
        except Exception:
            self.p.kill()


def impl_run(cases, timeout=10, jobs=None):
    """Run cases on the implementation with a pool of workers; returns results in order."""
    if not cases:
        return []
    jobs = max(1, min(jobs or NPROC, len(cases)))
    import threading
    res = [None] * len(cases)
    idx = [0]
    lock = threading.Lock()

    def work():
        w = Worker()
        try:
            while True:
                with lock:
                    i = idx[0]
                    idx[0] += 1
                if i >= len(cases):
                    break
                res[i] = w.run(cases[i], timeout)
        finally:
            w.close()
    ths = [threading.Thread(target=work) for _ in range(jobs)]
    for t in ths:
        t.start()
    for t in ths:
        t.join()
    return res


# ---------------------------------------------------------------------------
# comparing histories

def compare_history(model, impl, project=None):
    """Returns None when model and implementation agree, else a short description.
    project: optional function (call_result) -> projected value."""
    # the model's own watchdog fired (a fuel exhaustion that takes longer than the budget to reach): nothing to compare
    model_slow = any(c['status'] == 'driver_error' and 'timeout' in c.get('msg', '') for c in model['calls'])
    if impl.get('timeout'):
        mc = model['calls']
        if (mc and mc[-1]['status'] == 'fuel') or model_slow:
            return None
        return 'impl timeout, model %s' % (mc[-1]['status'] if mc else 'empty')
    if model_slow:
        return 'SKIP'
    if 'crash' in impl or 'error' in impl:
        return 'impl worker failure: %r' % (impl,)
    mc, ic = model['calls'], impl['calls']
    for k in range(max(len(mc), len(ic))):
        if k >= len(mc) or k >= len(ic):
            return 'call %d: missing on one side (model %d calls, impl %d calls)' % (k, len(mc), len(ic))
        a, b = mc[k], ic[k]
        if a['status'] == 'raise' and a.get('exn') == 'Unsupported':
            return 'SKIP'
        if a['status'] == 'fuel' and b['status'] == 'raise' and b.get('exn') == 'Recursion':
            break   # unbounded recursion: the model runs out of fuel, CPython out of stack
        if a['status'] != b['status']:
            return 'call %d: model %s%s, impl %s%s' % (
                k, a['status'], '(' + a.get('exn', '') + ')' if a['status'] == 'raise' else '',
                b['status'], '(' + b.get('exn', '') + ': ' + b.get('msg', '') + ')' if b['status'] == 'raise' else '')
        if a['status'] == 'raise':
            if a['exn'] != b['exn']:
                return 'call %d: model raises %s, impl raises %s (%s)' % (k, a['exn'], b['exn'], b.get('msg', ''))
            break
        if a['status'] == 'ok':
            pa = project(a) if project else (a['html'], a['log'])
            pb = project(b) if project else (b['html'], b['log'])
            if pa != pb:
                if a['html'] != b['html']:
                    return 'call %d: html differs: model %r impl %r' % (k, a['html'][:300], b['html'][:300])
                return 'call %d: diagnostics differ: model %r impl %r' % (k, a['log'][:6], b['log'][:6])
    # the session is compared only when every call returned: a failed call leaves the implementation in an intermediate
    # state that the model's failure outcome does not carry
    if 'state' in model and 'state' in impl and all(c['status'] == 'ok' for c in mc) and all(c['status'] == 'ok' for c in ic):
        if model['state'] != impl['state']:
            for key in model['state']:
                if model['state'][key] != impl['state'].get(key):
                    return 'state differs at %s: model %r impl %r' % (key, model['state'][key], impl['state'].get(key))
    return None


def has_sigma(s):
    return 'Σ' in s or 'İ' in s


# ---------------------------------------------------------------------------
# CLI cases (C18)

def cli_line(case):
    toks = ['M', str(len(case['argv']))] + [enc_str(a) for a in case['argv']]
    toks.append(enc_str(case.get('stdin', '')))
    toks.append('n' if case.get('rimurc') is None else enc_str(case['rimurc']))
    files = case.get('files', [])
    toks.append(str(len(files)))
    for p, c in files:
        toks += [enc_str(p), enc_str(c)]
    return ' '.join(toks)


def parse_cli_output(line):
    toks = line.split(' ')
    if toks[0] == 'C':
        n = int(toks[3])
        err = [dec_str(t) for t in toks[4:4 + n]]
        rest = toks[4 + n:]
        outfile = None if rest[0] == 'n' else [dec_str(rest[0]), dec_str(rest[1])]
        return {'status': 'done', 'exit': int(toks[1]), 'stdout': dec_str(toks[2]), 'stderr': err, 'outfile': outfile}
    if toks[0] == 'X':
        return {'status': 'raise', 'exn': toks[1]}
    if toks[0] == 'F':
        return {'status': 'fuel'}
    return {'status': 'driver_error', 'msg': line[:200]}


def compare_cli(model, impl):
    if impl.get('timeout'):
        return None if model['status'] == 'fuel' else 'impl timeout, model %s' % model['status']
    if 'status' not in impl:
        return 'impl worker failure: %r' % (impl,)
    if model['status'] == 'raise' and model.get('exn') == 'Unsupported':
        return 'SKIP'
    if model['status'] == 'fuel' and impl['status'] == 'raise' and impl.get('exn') == 'Recursion':
        return None
    if model['status'] != impl['status']:
        return 'model %s(%s), impl %s(%s %s)' % (model['status'], model.get('exn', ''), impl['status'], impl.get('exn', ''), impl.get('msg', ''))
    if model['status'] == 'raise':
        return None if model['exn'] == impl['exn'] else 'model raises %s, impl raises %s' % (model['exn'], impl['exn'])
    model = dict(model)
    model['stderr'] = [l for m in model['stderr'] for l in m.split('\n') if l != '']   # stderr is compared line by line
    for k in ('exit', 'stdout', 'stderr', 'outfile'):
        if model[k] != impl[k]:
            return '%s differs: model %r impl %r' % (k, str(model[k])[:300], str(impl[k])[:300])
    return None

(* C03 -- Safe modes confine output (partial: see MANIFEST level text).  Property theorems only. *)
From Rimu Require Import Base Unicode Regex RegexAnalysis RegexParse Str Types Tables Guards State Inline Block
  Frame FrameBlock FrameInst OptionsLemmas MiscLemmas MoreLemmas Plain TableFacts HtmlTag.

(* escaped text contains no raw < or >, and every & starts one of the three entities *)
Theorem C03_escape_confined : forall s, ~ In 60 (escape s) /\ ~ In 62 (escape s).
Proof. exact escape_no_lt_gt. Qed.
Print Assumptions C03_escape_confined.

Theorem C03_escape_amp : forall s, amp_ok (escape s) = true.
Proof. exact amp_ok_escape. Qed.
Print Assumptions C03_escape_amp.

(* the HTML filter under the three non-raw policies *)
Theorem C03_policy : forall (s : ienv) html,
  (html_policy (en_mode s) = PDrop -> htmlSafeModeFilter s html = []) /\
  (html_policy (en_mode s) = PReplace -> htmlSafeModeFilter s html = en_repl s) /\
  (html_policy (en_mode s) = PEscape -> htmlSafeModeFilter s html = escape html) /\
  (html_policy (en_mode s) = PRaw -> htmlSafeModeFilter s html = html).
Proof. exact filter_cases. Qed.
Print Assumptions C03_policy.

(* in every non-zero mode: -specials refused, raw [html-attributes] ignored, definitions and option elements skipped *)
Theorem C03_guards : forall m, m <> 0%Z ->
  specials_refused m = true /\ attrs_allowed m = false /\
  blockDefFilter_skip m = true /\ quoteDefFilter_skip m = true /\ replacementDefFilter_skip m = true /\
  apiOptionFilter_skip m = true.
Proof. exact safe_mode_guards. Qed.
Print Assumptions C03_guards.

(* ... hence the tag-bearing definitions in force stay the default ones throughout an untrusted render *)
Theorem C03_definitions_fixed : forall n src s html s',
  s_mode s <> 0%Z -> doc_render n src s = Ok (html, s') -> protected s' = protected s.
Proof. exact doc_render_protected. Qed.
Print Assumptions C03_definitions_fixed.

(* every delimited block that can carry source text has the specials fall-back, except the macro definition
   (renders nothing) and the HTML block (handled by the policy) *)
Theorem C03_blocks_escape_or_filter :
  forallb (fun d => truthy (e_specials (d_expand d)) || mem (d_name d) [$"macro-definition"; $"html"]) dblocks_default = true.
Proof. exact blocks_escape_or_filter. Qed.
Print Assumptions C03_blocks_escape_or_filter.

(* running text over the plain alphabet is emitted escaped and nothing else *)
Theorem C03_plain_text_escaped : forall n s t,
  defaults s -> plain_text t -> spans_render (S (S (S n))) s t = iret (escape t).
Proof. exact spans_render_plain. Qed.
Print Assumptions C03_plain_text_escaped.

Example C03_ex : escape $"a<b>&c" = $"a&lt;b&gt;&amp;c".
Proof. vm_compute. reflexivity. Qed.

(* an inline tag in plain text under the drop and escape policies: no raw angle bracket reaches the output -- for every
   surrounding text over letters, digits, blank, full stop and comma and every tag name, of any length *)
Theorem C03_inline_tag_confined : forall n s pre name post out log,
  defaults s -> RegexAnalysis.over word_alphabet pre -> name_ok2 name -> RegexAnalysis.over word_alphabet name ->
  RegexAnalysis.over word_alphabet post ->
  (html_policy (en_mode s) = PDrop \/ html_policy (en_mode s) = PEscape) ->
  spans_render (S (S (S (S n)))) s (pre ++ 60 :: name ++ 62 :: post) = Ok (out, log) ->
  ~ In 60 out /\ ~ In 62 out.
Proof. exact inline_tag_confined. Qed.
Print Assumptions C03_inline_tag_confined.

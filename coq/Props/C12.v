(* C12 -- Block Attributes apply once, to the next block only (partial).  Property theorems only. *)
From Rimu Require Import Base Regex RegexParse Str Types Tables Guards State Inline Block
  Frame FrameBlock FrameInst OptionsLemmas MiscLemmas MoreLemmas AttrInject RegexAnalysis PlainDoc ParaDoc GreedyLoop AttrDoc Emphasis ParaInstances.

(* injection into a non-empty tag consumes every pending class, id, css and attribute *)
Theorem C12_consume : forall tag s r s',
  tag <> [] -> injectHtmlAttributes tag true s = Ok (r, s') -> pending_empty s'.
Proof. exact inject_consumes. Qed.
Print Assumptions C12_consume.

(* a blank tag (a block that renders to nothing) leaves them pending for the next rendered block *)
Theorem C12_blank_tag_keeps : forall consume s, injectHtmlAttributes [] consume s = Ok ([], s).
Proof. exact inject_empty_tag. Qed.
Print Assumptions C12_blank_tag_keeps.

(* with safe-mode bit 4 the line is ignored altogether *)
Theorem C12_bit4 : forall fuel attrs s,
  parse_skip (s_mode s) = true -> blockattributes_parse fuel attrs s = Ok (true, s).
Proof. exact parse_ignored_bit4. Qed.
Print Assumptions C12_bit4.

Theorem C12_bit4_guard : forall m, Z.land m 4 <> 0%Z -> parse_skip m = true /\ anchorFilter_skip m = true.
Proof. exact bit4_skips_attributes. Qed.
Print Assumptions C12_bit4_guard.

(* in any non-zero safe mode raw HTML attributes are never accumulated by a document *)
Theorem C12_nz_no_raw_attrs : forall n src s html s',
  s_mode s <> 0%Z -> p_attrs s = [] -> doc_render n src s = Ok (html, s') -> p_attrs s' = [].
Proof. exact doc_render_no_raw_attrs. Qed.
Print Assumptions C12_nz_no_raw_attrs.

(* a line block (header, block image, anchor ...) that renders anything has applied and consumed every pending
   class, id, css and attribute: nothing is left for a later block *)
Theorem C12_line_block_consumes : forall fuel defs rd allowed s r s',
  lineblocks_loop fuel defs rd allowed s = Ok (r, s') ->
  match fst r with Some (_ :: _) => pending_empty s' | _ => True end.
Proof. intros fuel defs rd allowed s r s' H. exact (lineblocks_consume fuel defs rd allowed s r s' H). Qed.
Print Assumptions C12_line_block_consumes.

(* block options (+skip, -macros, -spans ...) alter the processing of one delimited block only: whatever the block rendered,
   the pending options are reset when it is done -- for every block definition, match, reader and session *)
Theorem C12_block_options_one_block : forall fuel doc i d m rest s r s',
  dblock_body fuel doc i d m rest s = Ok (r, s') -> p_opts s' = expand_none.
Proof. exact dblock_body_resets_options. Qed.
Print Assumptions C12_block_options_one_block.

Example C12_ex :
  match api_render 40 ($".cls #i" ++ [10] ++ $"one" ++ [10; 10] ++ $"two") (mkOpts PyNone PyNone PyNone false) S0 with
  | Ok (html, _) => str_eqb html ($"<p class=""cls"" id=""i"">one</p>" ++ [10] ++ $"<p>two</p>")
  | _ => false end = true.
Proof. vm_compute. reflexivity. Qed.

(* THE PENDING CLASS GOES INTO THE FIRST TAG, ONCE: for every opening tag of the generated block and list tables (p, div, blockquote,
   pre, ul, ol, dl, li, dt, dd ...) and every non-empty class text, injection with only a class pending returns the tag with
   class="..." inserted right after the tag name (name_len is where the generated tag-name pattern stops) and clears every
   pending attribute -- so the following block gets none *)
Theorem C12_class_into_first_tag : forall T cls s, In T open_tags -> cls_ok cls ->
  p_classes s = cls -> p_id s = [] -> p_css s = [] -> p_attrs s = [] ->
  injectHtmlAttributes T true s =
  Ok (takeN (name_len T) T ++ [32] ++ ($"class=""" ++ cls ++ [34]) ++ dropN (name_len T) T, clear_pending s).
Proof. exact class_injected. Qed.
Print Assumptions C12_class_into_first_tag.

Example C12_ex_tags :
  map (fun T => takeN (name_len T) T ++ $" class=""x""" ++ dropN (name_len T) T) [$"<p>"; $"<pre><code>"; $"<blockquote><p>"; $"<ul>"] =
  [$"<p class=""x"">"; $"<pre class=""x""><code>"; $"<blockquote class=""x""><p>"; $"<ul class=""x"">"] /\
  forallb (fun T => existsb (str_eqb T) open_tags) [$"<p>"; $"<pre><code>"; $"<blockquote><p>"; $"<ul>"] = true.
Proof. split; vm_compute; reflexivity. Qed.

(* END TO END: a Block Attributes line with one class name followed by a paragraph line (any line with the paragraph hypotheses of
   ParaDoc.v) renders to the paragraph with class="name" in its <p> tag, and the session afterwards is the session before:
   nothing stays pending.  On the way: none of the ten earlier line rules matches the line; the first Block Attributes pattern
   is matched as a prefix and its END decides how the rest of the line is read, so the greedy execution of the matcher is
   evaluated on the symbolic name (C12_parse_class_name: the star takes the whole name); the second pattern is evaluated on the
   empty rest; the class is accumulated; the paragraph's open tag receives it (C12_class_into_first_tag) and the pending state
   is cleared before the paragraph text is rendered *)
Theorem C12_class_paragraph_document : forall n a w l R s, para_line (ienv_of s) l R ->
  quiet_default s -> parse_skip (s_mode s) = false -> cls_name_ok a w ->
  doc_render (S (S (S (S (S n))))) (ba_line a w ++ 10 :: l) s = Ok (cls_html (a :: w) ++ R ++ $"</p>", s).
Proof. exact class_paragraph_document. Qed.
Print Assumptions C12_class_paragraph_document.

Theorem C12_parse_class_name : forall a w, class_name_ok a w ->
  re_match re_blockattributes_parse_0 (46 :: a :: w) =
  Some {| m_start := 0; m_end := 0 + 1 + 1 + lenN w; m_groups := [Some (46 :: a :: w); Some (a :: w)] |}.
Proof. exact parse0_class. Qed.
Print Assumptions C12_parse_class_name.

Theorem C12_attributes_line_accumulates : forall fuel a w rest s, cls_name_ok a w -> parse_skip (s_mode s) = false -> p_classes s = [] ->
  lineblocks_render fuel (ba_line a w :: rest) [] s = Ok ((Some [], rest), set_classes s (a :: w)).
Proof. exact attr_line_stage. Qed.
Print Assumptions C12_attributes_line_accumulates.

Example C12_ex_class_paragraph :
  match doc_render 10 ($".note-1" ++ [10] ++ $"hello *w* x") (document_init S0) with
  | Ok (html, s) => str_eqb html $"<p class=""note-1"">hello <em>w</em> x</p>" && is_empty (p_classes s) | _ => false end = true.
Proof. vm_compute. reflexivity. Qed.

(* ... and with real markup in the paragraph: the class line followed by a paragraph holding an emphasis *)
Theorem C12_class_emphasis_paragraph : forall n a w c pre body post s,
  quiet_default s -> parse_skip (s_mode s) = false -> cls_name_ok a w ->
  In c safe_first -> over safe_alphabet (c :: pre) -> over safe_alphabet body -> body_ok body -> over safe_alphabet post ->
  doc_render (S (S (S (S (S n))))) (ba_line a w ++ 10 :: (c :: pre) ++ star :: body ++ star :: post) s =
  Ok (cls_html (a :: w) ++ (escape (c :: pre) ++ $"<em>" ++ escape body ++ $"</em>" ++ escape post) ++ $"</p>", s).
Proof. exact class_emphasis_paragraph. Qed.
Print Assumptions C12_class_emphasis_paragraph.

(* C11 -- Macro invocation equals substitution (table algebra full, substitution partial).  Property theorems only. *)
From Rimu Require Import Base Unicode Regex RegexAnalysis RegexParse Str Types Tables Guards State Inline Block
  Frame FrameBlock FrameInst OptionsLemmas MiscLemmas MoreLemmas Plain TableFacts PlainDoc MatchExact MacroSubst MacroDefine MacroDoc.

(* setValue, when not skipped by the safe mode, is exactly the table function setValue_table and touches nothing protected *)
Theorem C11_setValue_spec : forall name value s,
  setValue_skip (s_mode s) = false ->
  exists s', macros_setValue name value s = Ok (tt, s') /\
             s_macros s' = setValue_table name value (s_macros s) /\ protected s' = protected s.
Proof. exact macros_setValue_spec. Qed.
Print Assumptions C11_setValue_spec.

(* an existential definition never overrides an existing value *)
Theorem C11_existential : forall name value l v,
  assoc_get name l = Some v -> assoc_get name (upd_macro name value true l) = Some v.
Proof. exact existential_keeps. Qed.
Print Assumptions C11_existential.

(* last write wins; the value is fixed when defined *)
Theorem C11_last_write_wins : forall name value l, assoc_get name (upd_macro name value false l) = Some value.
Proof. exact define_overrides. Qed.
Print Assumptions C11_last_write_wins.

Theorem C11_other_names_untouched : forall name other value ex l,
  other <> name -> assoc_get other (upd_macro name value ex l) = assoc_get other l.
Proof. exact assoc_get_upd_other. Qed.
Print Assumptions C11_other_names_untouched.

Theorem C11_define_new : forall name value ex l, assoc_get name l = None -> assoc_get name (upd_macro name value ex l) = Some value.
Proof. exact define_new. Qed.
Print Assumptions C11_define_new.

(* the blank macro stays blank *)
Theorem C11_blank_stays_blank : forall value l,
  assoc_get $"--" l = Some [] -> assoc_get $"--" (setValue_table $"--" value l) = Some [].
Proof. exact blank_stays_blank. Qed.
Print Assumptions C11_blank_stays_blank.

Theorem C11_blank_initially : assoc_get $"--" predefined_macros = Some [].
Proof. exact blank_initially. Qed.
Print Assumptions C11_blank_initially.

(* text in which no character can start an invocation (no backslash, no opening brace) is returned unchanged
   by macro expansion, with no diagnostic *)
Theorem C11_no_brace_identity : forall sr s t silent,
  (forall x, In x t -> no_macro_start x = true) -> negb (existsb (N.eqb 2) t) = true ->
  macros_render sr s t silent = iret t.
Proof. exact macros_render_identity. Qed.
Print Assumptions C11_no_brace_identity.

Example C11_ex :
  match api_render 40 ($"{m}='$1 and $2:dflt$'" ++ [10] ++ $"{m?}='other'" ++ [10] ++ $"{m|x} {u}") (mkOpts PyNone PyNone PyNone true) S0 with
  | Ok (html, s) => str_eqb html $"<p>x and dflt {u}</p>" && Nat.eqb (length (s_log s)) 1
  | _ => false end = true.
Proof. vm_compute. reflexivity. Qed.

(* INVOCATION = SUBSTITUTION, the simple form: in text with no other brace or backslash (and no U+0002), the invocation {name}
   of a defined macro whose value is itself free of them is replaced by the value and nothing else changes -- for every
   prefix, suffix, name over the generated name alphabet, value, and nested spans renderer *)
Theorem C11_simple_invocation : forall sr s pre name post value silent,
  quiet pre -> quiet post -> quiet value -> name_ok name -> getValue s name = Some value ->
  macros_render sr s (pre ++ 123 :: name ++ 125 :: post) silent = iret (pre ++ value ++ post).
Proof. exact simple_invocation. Qed.
Print Assumptions C11_simple_invocation.

(* ... so the inline entry point of every block renders the invocation exactly as the text with the value written in its place,
   for every fuel and every expansion with macros switched on *)
Theorem C11_invocation_equals_substitution : forall n s pre name post value e,
  quiet pre -> quiet post -> quiet value -> name_ok name -> getValue s name = Some value -> truthy (e_macros e) = true ->
  replaceInline_top n s (Some (pre ++ 123 :: name ++ 125 :: post)) e =
  replaceInline_top n s (Some (pre ++ value ++ post)) e.
Proof. exact invocation_equals_substitution. Qed.
Print Assumptions C11_invocation_equals_substitution.

(* the match that re.sub hands to the callback on an invocation is the whole invocation with the name in group 1:
   every derivation of the simple-invocation pattern on {name}... ends in the same state (exact semantics) *)
Theorem C11_invocation_match : forall i p name post, name_ok name ->
  exists m, match_at re_macros_render_1 i p (123 :: name ++ 125 :: post) = Some m /\
    m_start m = i /\ m_end m = i + lenN (123 :: name ++ [125]) /\
    m_groups m = [Some (123 :: name ++ [125]); Some name; Some []].
Proof. exact simple_match. Qed.
Print Assumptions C11_invocation_match.

(* the hypotheses are met by ordinary text, and the model computes the same on an instance *)
Example C11_ex_simple :
  let s := mkIenv 0 [] [] [] [($"who", $"the world")] in
  macros_render (fun t => iret t) s $"Hello {who}, and goodbye." false = iret $"Hello the world, and goodbye.".
Proof. vm_compute. reflexivity. Qed.

(* an undefined invocation is left as written, with one diagnostic *)
Theorem C11_undefined_left_as_written : forall sr s pre name post,
  quiet pre -> quiet post -> name_ok name -> getValue s name = None ->
  let text := pre ++ 123 :: name ++ 125 :: post in
  macros_render sr s text false =
  Ok (text, [$"undefined macro: " ++ (123 :: name ++ [125]) ++ $": " ++ pre ++ (123 :: name ++ [125]) ++ post]).
Proof. exact undefined_invocation. Qed.
Print Assumptions C11_undefined_left_as_written.

(* the hypotheses are met by ordinary text *)
Example C11_ex_hypotheses : quiet $"Hello " /\ quiet $", and goodbye." /\ quiet $"the world" /\ name_ok $"who".
Proof.
  assert (Q : forall t, forallb no_macro_start t = true -> existsb (N.eqb 2) t = false -> quiet t).
  { intros t H1 H2. split; [|exact H2]. intros x Hx. rewrite forallb_forall in H1. auto. }
  repeat split; try (apply Q; vm_compute; reflexivity); try discriminate.
  intros x Hx. vm_compute in Hx. intuition; subst; reflexivity.
Qed.

(* DEFINITION THEN INVOCATION.  Where definitions are not skipped by the safe mode, setting a macro (name over the generated name
   alphabet, not the blank macro) succeeds, touches nothing protected, and from then on every simple invocation of it in quiet
   text is replaced by exactly that value *)
Theorem C11_define_then_invoke : forall name value s,
  name_ok name -> name <> $"--" -> setValue_skip (s_mode s) = false ->
  exists s', macros_setValue name value s = Ok (tt, s') /\ protected s' = protected s /\
    forall sr pre post silent, quiet pre -> quiet post -> quiet value ->
      macros_render sr (ienv_of s') (pre ++ 123 :: name ++ 125 :: post) silent = iret (pre ++ value ++ post).
Proof. exact define_then_invoke. Qed.
Print Assumptions C11_define_then_invoke.

(* THE DEFINITION LINE, end to end through the block layer: in any document, a first line {name}='value' (value without
   newline, brace or backslash) renders nothing, and everything after it is rendered in the session that setValue produced --
   for every name over the name alphabet, every such value, every rest of the document, every session and fuel.  On the way:
   the comment, block-, quote- and replacement-definition patterns do not match the line, the macro-line pattern matches but its
   verify() rejects a line that opens a definition, and the macro-definition pattern matches with the name in group 1 and the
   value in group 2 (unique derivation, exact semantics) *)
Theorem C11_definition_line : forall fuel doc n name value rest s s',
  name_ok name -> value_ok value -> quiet value -> macros_setValue name value s = Ok (tt, s') ->
  doc_loop fuel doc (S n) (def_line name value :: rest) s = doc_loop fuel doc n rest s'.
Proof. exact def_line_document. Qed.
Print Assumptions C11_definition_line.

Theorem C11_definition_match : forall name value, name_ok name -> value_ok value ->
  exists m, re_search mdre (def_line name value) = Some m /\
            m_groups m = [Some (def_line name value); Some name; Some value].
Proof. exact md_match. Qed.
Print Assumptions C11_definition_match.

Example C11_ex_definition :
  name_ok $"who" /\ value_ok $"the world" /\ quiet $"the world" /\ def_line $"who" $"the world" = $"{who}='the world'".
Proof.
  assert (Q : forall t, forallb no_macro_start t = true -> existsb (N.eqb 2) t = false -> quiet t).
  { intros t H1 H2. split; [|exact H2]. intros x Hx. rewrite forallb_forall in H1. auto. }
  split; [split; [discriminate|intros x Hx; vm_compute in Hx; intuition; subst; reflexivity]|].
  split; [intros x Hx; vm_compute in Hx; intuition; subst; discriminate|].
  split; [apply Q; vm_compute; reflexivity|vm_compute; reflexivity].
Qed.

Example C11_ex_definition_document :
  match api_render 40 ($"{who}='the world'" ++ [10; 10] ++ $"Hello {who}.") (mkOpts PyNone PyNone PyNone true) S0 with
  | Ok (html, _) => str_eqb html $"<p>Hello the world.</p>" | _ => false end = true.
Proof. vm_compute. reflexivity. Qed.

(* A PARAGRAPH THAT INVOKES A DEFINED MACRO, end to end: the one-line document pre{name}post (texts over the safe alphabet,
   name alphanumeric) renders to the paragraph of pre value post, session unchanged -- reader, block dispatch (no block pattern
   matches the line), paragraph block, macro expansion, spans *)
Theorem C11_invocation_document : forall n s c pre name post value,
  quiet_default s -> In c safe_first -> over safe_alphabet (c :: pre) -> over safe_alphabet post -> over safe_alphabet value ->
  inv_name_ok name -> getValue (ienv_of s) name = Some value ->
  doc_render (S (S (S (S (S (S n)))))) ((c :: pre) ++ 123 :: name ++ 125 :: post) s =
  Ok ($"<p>" ++ escape ((c :: pre) ++ value ++ post) ++ $"</p>", s).
Proof. exact invocation_document. Qed.
Print Assumptions C11_invocation_document.

(* DEFINITION, BLANK LINE, INVOCATION: the three-line document renders to the paragraph with the value substituted, and the
   session afterwards is the one setValue produced; through rimu.render for any options that leave definitions enabled *)
Theorem C11_define_invoke_document : forall n s c pre name post value,
  quiet_default s -> setValue_skip (s_mode s) = false -> name <> $"--" ->
  In c safe_first -> over safe_alphabet (c :: pre) -> over safe_alphabet post -> over safe_alphabet value -> inv_name_ok name ->
  exists s', macros_setValue name value s = Ok (tt, s') /\
    doc_render (S (S (S (S (S (S (S n))))))) (def_line name value ++ 10 :: 10 :: inv_para c pre name post) s =
    Ok ($"<p>" ++ escape ((c :: pre) ++ value ++ post) ++ $"</p>", s').
Proof. exact define_invoke_document. Qed.
Print Assumptions C11_define_invoke_document.

Theorem C11_define_invoke_api : forall n o s s1 c pre name post value,
  updateFrom o (if (s_mode s =? -1)%Z then document_init s else s) = Ok (tt, s1) ->
  quiet_default s1 -> setValue_skip (s_mode s1) = false -> name <> $"--" ->
  In c safe_first -> over safe_alphabet (c :: pre) -> over safe_alphabet post -> over safe_alphabet value -> inv_name_ok name ->
  exists s', macros_setValue name value s1 = Ok (tt, s') /\
    api_render (S (S (S (S (S (S (S n))))))) (def_line name value ++ 10 :: 10 :: inv_para c pre name post) o s =
    Ok ($"<p>" ++ escape ((c :: pre) ++ value ++ post) ++ $"</p>", s').
Proof. exact define_invoke_api. Qed.
Print Assumptions C11_define_invoke_api.

Example C11_ex_invoke_hypotheses :
  In 72 safe_first /\ over safe_alphabet $"Hello " /\ over safe_alphabet $"!" /\ over safe_alphabet $"the world" /\ inv_name_ok $"who" /\
  def_line $"who" $"the world" ++ 10 :: 10 :: inv_para 72 $"ello " $"who" $"!" = $"{who}='the world'" ++ [10; 10] ++ $"Hello {who}!".
Proof.
  assert (O : forall A t, forallb (fun c => existsb (N.eqb c) A) t = true -> over A t).
  { intros A t H x Hx. rewrite forallb_forall in H. apply H in Hx. apply existsb_exists in Hx as (y & Hy & E). apply N.eqb_eq in E. subst y. exact Hy. }
  split; [vm_compute; intuition|]. split; [apply O; vm_compute; reflexivity|]. split; [apply O; vm_compute; reflexivity|].
  split; [apply O; vm_compute; reflexivity|]. split; [split; [discriminate|apply O; vm_compute; reflexivity]|]. vm_compute. reflexivity.
Qed.

(* C11 -- Macro invocation equals substitution (table algebra full, substitution partial).  Property theorems only. *)
From Rimu Require Import Base Unicode Regex RegexAnalysis RegexParse Str Types Tables Guards State Inline Block
  Frame FrameBlock FrameInst OptionsLemmas MiscLemmas MoreLemmas Plain TableFacts.

(* setValue, when not skipped by the safe mode, is exactly the table function setValue_table and touches nothing protected *)
Theorem C11_setValue_spec : forall name value s,
  setValue_skip (s_mode s) = false ->
  exists s', macros_setValue name value s = Ok (tt, s') /\
             s_macros s' = setValue_table name value (s_macros s) /\ protected s' = protected s.
Proof. exact macros_setValue_spec. Qed.
Print Assumptions C11_setValue_spec.

(* an existential definition never overrides an existing value *)
Theorem C11_existential : forall name value l v,
  assoc_get name l = Some v -> assoc_get name (upd_macro name value true l) = Some v.
Proof. exact existential_keeps. Qed.
Print Assumptions C11_existential.

(* last write wins; the value is fixed when defined *)
Theorem C11_last_write_wins : forall name value l, assoc_get name (upd_macro name value false l) = Some value.
Proof. exact define_overrides. Qed.
Print Assumptions C11_last_write_wins.

Theorem C11_other_names_untouched : forall name other value ex l,
  other <> name -> assoc_get other (upd_macro name value ex l) = assoc_get other l.
Proof. exact assoc_get_upd_other. Qed.
Print Assumptions C11_other_names_untouched.

Theorem C11_define_new : forall name value ex l, assoc_get name l = None -> assoc_get name (upd_macro name value ex l) = Some value.
Proof. exact define_new. Qed.
Print Assumptions C11_define_new.

(* the blank macro stays blank *)
Theorem C11_blank_stays_blank : forall value l,
  assoc_get $"--" l = Some [] -> assoc_get $"--" (setValue_table $"--" value l) = Some [].
Proof. exact blank_stays_blank. Qed.
Print Assumptions C11_blank_stays_blank.

Theorem C11_blank_initially : assoc_get $"--" predefined_macros = Some [].
Proof. exact blank_initially. Qed.
Print Assumptions C11_blank_initially.

(* text in which no character can start an invocation (no backslash, no opening brace) is returned unchanged
   by macro expansion, with no diagnostic *)
Theorem C11_no_brace_identity : forall sr s t silent,
  (forall x, In x t -> no_macro_start x = true) -> negb (existsb (N.eqb 2) t) = true ->
  macros_render sr s t silent = iret t.
Proof. exact macros_render_identity. Qed.
Print Assumptions C11_no_brace_identity.

Example C11_ex :
  match api_render 40 ($"{m}='$1 and $2:dflt$'" ++ [10] ++ $"{m?}='other'" ++ [10] ++ $"{m|x} {u}") (mkOpts PyNone PyNone PyNone true) S0 with
  | Ok (html, s) => str_eqb html $"<p>x and dflt {u}</p>" && Nat.eqb (length (s_log s)) 1
  | _ => false end = true.
Proof. vm_compute. reflexivity. Qed.

(* C04 -- Safe-mode input cannot change definitions or options.  Property theorems only. *)
From Rimu Require Import Base Regex RegexParse Str Types Tables Guards State Inline Block
  Frame FrameBlock FrameInst OptionsLemmas MiscLemmas.

(* In every non-zero safe mode, rendering any source with any fuel leaves safeMode, htmlReplacement and the
   quote, replacement and delimited-block definitions (everything but the per-block close pattern) unchanged. *)
Theorem C04_frame : forall n src s html s',
  s_mode s <> 0%Z -> doc_render n src s = Ok (html, s') -> protected s' = protected s.
Proof. exact doc_render_protected. Qed.
Print Assumptions C04_frame.

(* ... and the macro table too unless the allow-macro-definitions bit (8) is set *)
Theorem C04_macros : forall n src s html s',
  s_mode s <> 0%Z -> Z.land (s_mode s) 8 = 0%Z -> doc_render n src s = Ok (html, s') -> s_macros s' = s_macros s.
Proof. exact doc_render_macros. Qed.
Print Assumptions C04_macros.

(* the same at the render API: once the call's own options leave the session in a non-zero mode,
   nothing in the source changes the protected part *)
Theorem C04_api : forall n src o s html s',
  api_render n src o s = Ok (html, s') ->
  exists s2, updateFrom o (if (s_mode s =? -1)%Z then document_init s else s) = Ok (tt, s2) /\
    (s_mode s2 <> 0%Z -> protected s' = protected s2) /\
    (s_mode s2 <> 0%Z -> Z.land (s_mode s2) 8 = 0%Z -> s_macros s' = s_macros s2).
Proof. exact api_render_frame. Qed.
Print Assumptions C04_api.

(* the guards the proof rests on, as generated from the source *)
Theorem C04_guards : forall m, m <> 0%Z ->
  specials_refused m = true /\ attrs_allowed m = false /\
  blockDefFilter_skip m = true /\ quoteDefFilter_skip m = true /\ replacementDefFilter_skip m = true /\
  apiOptionFilter_skip m = true.
Proof. exact safe_mode_guards. Qed.
Print Assumptions C04_guards.

(* non-vacuity: a preamble installs a quote definition; an untrusted document at mode 1 cannot change it *)
Example C04_ex :
  match api_render 40 $"= = '<u>|</u>'" (mkOpts (PyInt 0) PyNone (PyBool true) false) S0 with
  | Ok (_, s1) =>
      match api_render 40 $"= = '<b>|</b>'" (mkOpts (PyInt 1) PyNone PyNone false) s1 with
      | Ok (_, s2) => andb (Nat.eqb (length (s_quotes s1)) 8)
                        (existsb (fun q => str_eqb (q_quote q) $"=" && str_eqb (q_open q) $"<u>") (s_quotes s2))
      | _ => false
      end
  | _ => false
  end = true.
Proof. vm_compute. reflexivity. Qed.

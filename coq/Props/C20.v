(* C20 -- Options are validated, persist until reset, and cannot be set from safe mode.
   Property theorems only; proofs live in Proofs/. *)
From Rimu Require Import Base Regex RegexParse Str Types Tables Guards State Inline Block
  Frame FrameBlock FrameInst OptionsLemmas.

(* The safe mode of every reachable session is -1 (never initialised) or in 0..15. *)
Theorem C20_range : forall s, reachable s -> (s_mode s = -1 \/ 0 <= s_mode s <= 15)%Z.
Proof. exact reachable_range. Qed.
Print Assumptions C20_range.

Theorem C20_range_step : forall n src o s html s',
  (s_mode s = -1 \/ 0 <= s_mode s <= 15)%Z -> api_render n src o s = Ok (html, s') -> (0 <= s_mode s' <= 15)%Z.
Proof. exact api_render_range. Qed.
Print Assumptions C20_range_step.

(* A value that is not the decimal form of an integer in 0..15 is rejected: exactly one
   diagnostic, nothing else changes. *)
Theorem C20_reject_unchanged : forall v s, legal_mode v = false ->
  setOption_safeMode v s = Ok (tt, set_log s ((s_cb s, illegal_msg v) :: s_log s)).
Proof. exact setOption_safeMode_illegal. Qed.
Print Assumptions C20_reject_unchanged.

Theorem C20_accept : forall v s, legal_mode v = true ->
  exists n, py_int v = PInt n /\ (0 <= n <= 15)%Z /\ setOption_safeMode v s = Ok (tt, set_mode s n).
Proof. exact setOption_safeMode_legal. Qed.
Print Assumptions C20_accept.

(* Options not given in a call keep their session value (and so do all definitions). *)
Theorem C20_persist : forall o s s',
  o_safeMode o = PyNone -> o_htmlReplacement o = PyNone -> reset_is_false (o_reset o) = true ->
  updateFrom o s = Ok (tt, s') -> protected s' = protected s.
Proof. exact updateFrom_persist. Qed.
Print Assumptions C20_persist.

(* reset restores the defaults ... *)
Theorem C20_reset_defaults : forall o s s',
  reset_is_false (o_reset o) = false -> reset_is_true (o_reset o) = true ->
  o_safeMode o = PyNone -> o_htmlReplacement o = PyNone ->
  updateFrom o s = Ok (tt, s') -> protected s' = protected (document_init S0).
Proof. exact updateFrom_reset_defaults. Qed.
Print Assumptions C20_reset_defaults.

(* ... before the call's other options are applied *)
Theorem C20_reset_then_options : forall o s s' v,
  reset_is_false (o_reset o) = false -> reset_is_true (o_reset o) = true ->
  o_safeMode o = v -> v <> PyNone -> o_htmlReplacement o = PyNone ->
  updateFrom o s = Ok (tt, s') ->
  (legal_mode (py_str v) = true -> exists n, py_int (py_str v) = PInt n /\ s_mode s' = n) /\
  (legal_mode (py_str v) = false -> s_mode s' = default_safeMode) /\
  s_repl s' = default_htmlReplacement.
Proof. exact updateFrom_reset_then_mode. Qed.
Print Assumptions C20_reset_then_options.

(* Option elements inside a document take effect only while the safe mode is 0:
   in a non-zero mode a document changes neither options nor definitions. *)
Theorem C20_doc_gate : forall n src s html s',
  s_mode s <> 0%Z -> doc_render n src s = Ok (html, s') -> protected s' = protected s.
Proof. exact doc_render_protected. Qed.
Print Assumptions C20_doc_gate.

(* updateFrom itself never fails, whatever the option values are. *)
Theorem C20_update_total : forall o s, exists s', updateFrom o s = Ok (tt, s').
Proof. exact updateFrom_total. Qed.
Print Assumptions C20_update_total.

(* Non-vacuity: the hypotheses are met by concrete values, and the model computes. *)
Example C20_ex_illegal : legal_mode $"abc" = false /\ legal_mode $"16" = false /\ legal_mode $"-1" = false
                         /\ legal_mode $"1.0" = false /\ legal_mode $"True" = false.
Proof. vm_compute. repeat split. Qed.
Example C20_ex_legal : legal_mode $"15" = true /\ legal_mode $" 7 " = true /\ legal_mode $"0" = true.
Proof. vm_compute. repeat split. Qed.
Example C20_ex_doc_option :
  (* .safeMode='3' in a document at mode 0 sets mode 3; at mode 1 it is ignored *)
  (match api_render 30 $".safeMode='3'" (mkOpts PyNone PyNone PyNone false) S0 with
   | Ok (_, s) => s_mode s | _ => (-2)%Z end = 3%Z) /\
  (match api_render 30 $".safeMode='3'" (mkOpts (PyInt 1) PyNone PyNone false) S0 with
   | Ok (_, s) => s_mode s | _ => (-2)%Z end = 1%Z).
Proof. vm_compute. split; reflexivity. Qed.

(* C07 -- Inline markup renders to the intended structure (partial: see MANIFEST level text). *)
From Rimu Require Import Base Unicode Regex RegexAnalysis RegexParse Str Types Tables Guards State Inline Block
  Frame FrameBlock FrameInst OptionsLemmas MiscLemmas MoreLemmas Plain TableFacts PlainDoc Lines MatchExact Emphasis ParaDoc EmDoc.

(* All other characters come through unchanged except that <, > and & are escaped: inline text over the
   plain alphabet (letters, digits, blanks, newline and the punctuation that is part of no markup; decided for
   the *generated* tables by the verified alphabet analysis) renders to exactly its escape, whatever its length. *)
Theorem C07_plain : forall n s t,
  defaults s -> plain_text t -> spans_render (S (S (S n))) s t = iret (escape t).
Proof. exact spans_render_plain. Qed.
Print Assumptions C07_plain.

Theorem C07_plain_alphabet_checked : forallb (fun r => negb (okA plain_alphabet (re_ast r))) span_regexes = true.
Proof. exact plain_alphabet_ok. Qed.
Print Assumptions C07_plain_alphabet_checked.

(* soundness of the analysis the two theorems rest on: a pattern that cannot match inside A* has no match in text over A *)
Theorem C07_analysis_sound : forall A (r : cre) text,
  okA A (re_ast r) = false -> over A text -> re_search r text = None.
Proof. exact re_search_none_over. Qed.
Print Assumptions C07_analysis_sound.

(* earlier constructs are frozen: an escaped replacement is a finished fragment holding its escaped text *)
Theorem C07_escaped_frozen : forall s sr rdef m,
  starts_with [92] (grp0 m) = true -> replacement_text s sr rdef m = iret (escape (tl (grp0 m))).
Proof. exact escaped_replacement. Qed.
Print Assumptions C07_escaped_frozen.

Theorem C07_escape : forall s, ~ In 60 (escape s) /\ ~ In 62 (escape s).
Proof. exact escape_no_lt_gt. Qed.
Print Assumptions C07_escape.

(* the same end to end through the block layer: the line becomes <p>escaped line</p> *)
Theorem C07_plain_document : forall n l s,
  quiet_default s -> safe_line l ->
  doc_render (S (S (S (S (S n))))) l s = Ok ($"<p>" ++ escape l ++ $"</p>", s).
Proof. exact plain_line_document. Qed.
Print Assumptions C07_plain_document.

Example C07_ex_plain : plain_text $"Hello world, 1 > 0 (really)!" .
Proof. intros x Hx. vm_compute in Hx. vm_compute. intuition. Qed.

Example C07_ex :
  match api_render 40 $"a *b _c_* [d](http://e.f) <g@h.ij> &amp; <" (mkOpts PyNone PyNone PyNone false) S0 with
  | Ok (html, _) => str_eqb html $"<p>a <em>b <em>c</em></em> <a href=""http://e.f"">d</a> <a href=""mailto:g@h.ij"">g@h.ij</a> &amp; &lt;</p>"
  | _ => false end = true.
Proof. vm_compute. reflexivity. Qed.

(* REAL MARKUP: in plain text, *body* renders to <em>body</em>.  For every pre, body, post over the plain alphabet (body
   starting and ending with a non-space character), of any length, with the default definitions:
   spans.render (pre * body * post) = escape pre . <em> . escape body . </em> . escape post *)
Theorem C07_emphasis : forall n s pre body post,
  defaults s -> RegexAnalysis.over plain_alphabet pre -> body_ok body -> RegexAnalysis.over plain_alphabet post ->
  spans_render (S (S (S (S n)))) s (pre ++ star :: body ++ star :: post) =
  iret (escape pre ++ $"<em>" ++ escape body ++ $"</em>" ++ escape post).
Proof. exact spans_render_em. Qed.
Print Assumptions C07_emphasis.

(* the quote match itself: on  *body*post  every derivation of the generated quote pattern ends in one state (exact
   semantics), so the match handed to fragQuote is the whole quote with the star in group 1 and body in group 2 *)
Theorem C07_emphasis_match_unique : forall i p body post s', body_ok body -> RegexAnalysis.over plain_alphabet post ->
  (mx (re_ast qre) (RegexSem.mkSt i p (star :: body ++ star :: post) []) s' <-> s' = em_final i body post).
Proof. exact em_derivation. Qed.
Print Assumptions C07_emphasis_match_unique.

Example C07_ex_emphasis :
  spans_render 6 (ienv_of (document_init S0)) $"A *very* plain word, a < b." =
  iret $"A <em>very</em> plain word, a &lt; b.".
Proof. vm_compute. reflexivity. Qed.

(* ... and end to end: the one-line document  pre *body* post  (first character a letter, digit or safe punctuation mark, all text
   over the safe alphabet) goes through the reader, past all 23 block-level patterns that precede the paragraph, through the
   paragraph block, the macro pass and spans to  <p>pre <em>body</em> post</p>  with the session (log included) unchanged *)
Theorem C07_emphasis_document : forall n s c pre body post,
  quiet_default s -> In c safe_first -> RegexAnalysis.over safe_alphabet (c :: pre) -> RegexAnalysis.over safe_alphabet body ->
  body_ok body -> RegexAnalysis.over safe_alphabet post ->
  doc_render (S (S (S (S (S (S n)))))) ((c :: pre) ++ star :: body ++ star :: post) s =
  Ok ($"<p>" ++ (escape (c :: pre) ++ $"<em>" ++ escape body ++ $"</em>" ++ escape post) ++ $"</p>", s).
Proof. exact emphasis_document. Qed.
Print Assumptions C07_emphasis_document.

Theorem C07_emphasis_api : forall n o s s1 c pre body post,
  updateFrom o (if (s_mode s =? -1)%Z then document_init s else s) = Ok (tt, s1) -> quiet_default s1 ->
  In c safe_first -> RegexAnalysis.over safe_alphabet (c :: pre) -> RegexAnalysis.over safe_alphabet body -> body_ok body ->
  RegexAnalysis.over safe_alphabet post ->
  api_render (S (S (S (S (S (S n)))))) ((c :: pre) ++ star :: body ++ star :: post) o s =
  Ok ($"<p>" ++ (escape (c :: pre) ++ $"<em>" ++ escape body ++ $"</em>" ++ escape post) ++ $"</p>", s1).
Proof. exact emphasis_api. Qed.
Print Assumptions C07_emphasis_api.

Example C07_ex_hypotheses : RegexAnalysis.over plain_alphabet $"A " /\ body_ok $"very" /\ RegexAnalysis.over plain_alphabet $" plain word." .
Proof.
  assert (O : forall t, forallb (fun x => existsb (N.eqb x) plain_alphabet) t = true -> RegexAnalysis.over plain_alphabet t).
  { intros t H x Hx. rewrite forallb_forall in H. apply H in Hx. apply existsb_exists in Hx as (y & Hy & E). apply N.eqb_eq in E. subst. exact Hy. }
  split; [apply O; vm_compute; reflexivity|]. split; [|apply O; vm_compute; reflexivity].
  split; [apply O; vm_compute; reflexivity|]. eexists _, _. split; [reflexivity|]. split; reflexivity.
Qed.

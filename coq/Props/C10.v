(* C10 -- List markers determine list nesting (partial: see MANIFEST level text). *)
From Rimu Require Import Base Unicode Regex RegexAnalysis RegexParse Str Types Tables Guards State Inline Block
  Frame FrameBlock FrameInst OptionsLemmas MiscLemmas MoreLemmas Plain TableFacts RegexSem MatchLemmas Placeholder TaintInline NoRaise NoRaiseTop Taint Locality Plain PlainDoc ListDoc QuoteBlock QuoteList.

(* bulleted, numbered and definition items produce ul/ol/dl with li or dt/dd (the generated list table) *)
Theorem C10_list_table :
  map list_row lists_defs =
  [($"<ul>", $"</ul>", $"<li>", $"</li>", [], []); ($"<ol>", $"</ol>", $"<li>", $"</li>", [], []);
   ($"<dl>", $"</dl>", $"<dd>", $"</dd>", $"<dt>", $"</dt>")].
Proof. exact list_table. Qed.
Print Assumptions C10_list_table.

(* the restricted sets of attachable blocks *)
Theorem C10_allowed_attachments :
  lists_allowed0 = [$"comment"; $"code"; $"division"; $"html"; $"quote"] /\
  lists_allowed1 = [$"indented"; $"quote-paragraph"] /\ lists_allowed_attrs = [$"attributes"].
Proof. exact allowed_attachments. Qed.
Print Assumptions C10_allowed_attachments.

(* every list is emitted as open tag . items . its own close tag *)
Theorem C10_list_wrapped : forall fuel doc n it rd s out nx rd' s',
  renderList fuel doc n it rd s = Ok ((out, nx, rd'), s') ->
  exists o body, out = o ++ body ++ li_listClose (it_def it).
Proof. exact renderList_wrapped. Qed.
Print Assumptions C10_list_wrapped.

Example C10_ex :
  match api_render 60 ($"- a" ++ [10] ++ $"** b" ++ [10] ++ $". c" ++ [10] ++ $"** d" ++ [10] ++ $"- e" ++ [10;10;10] ++ $"p")
                   (mkOpts PyNone PyNone PyNone false) S0 with
  | Ok (html, _) => str_eqb html ($"<ul><li>a<ul><li>b<ol><li>c</li></ol></li><li>d</li></ul></li><li>e</li></ul><p>p</p>")
  | _ => false end = true.
Proof. vm_compute. reflexivity. Qed.

(* the stack of open list markers: renderList returns with the stack it was entered with (the marker it pushes is popped
   when the list closes, whatever child lists, attached blocks and nested documents are rendered in between), and an item
   it hands back to its caller carries the marker of a list that is still open there: "an item whose marker is already open
   continues (or returns to) that list, a new marker opens a child list" -- for every fuel, item, reader and good session *)
Theorem C10_stack_discipline : forall fuel m n L it rd s, SokG L s -> item_ok it -> rdok rd ->
  match renderList fuel (doc_render m) n it rd s with
  | Ok (r, s') => s_listids s' = L /\ (forall it', snd (fst r) = Some it' -> In (it_id it') L)
  | _ => True
  end.
Proof. exact renderList_stack. Qed.
Print Assumptions C10_stack_discipline.

(* from the empty stack of lists.render nothing is handed back: the whole list structure is closed when it returns *)
Theorem C10_top_level_list_closed : forall fuel m n it rd s, SokG [] s -> item_ok it -> rdok rd ->
  match renderList fuel (doc_render m) n it rd s with
  | Ok (r, s') => s_listids s' = [] /\ snd (fst r) = None
  | _ => True
  end.
Proof. exact renderList_top. Qed.
Print Assumptions C10_top_level_list_closed.

(* the items the theorems speak about are the ones matchItem produces *)
Theorem C10_items_well_formed : forall rd s, rdok rd ->
  match matchItem rd s with Ok ((Some it, _), _) => item_ok it | _ => True end.
Proof. exact matchItem_items. Qed.
Print Assumptions C10_items_well_formed.

(* a list that ends before the end of the input -- its last item is followed by something that closes it -- is rendered the
   same, with the same session, whatever comes after that: suffix-locality of the whole list fixpoint (renderList, the item
   loop with its blank-line counting and attached blocks, nested lists) *)
Theorem C10_list_independent_of_what_follows : forall fuel suf doc n it rd o nn rd' s s',
  renderList fuel doc n it rd s = Ok ((o, nn, rd'), s') -> rd' <> [] ->
  renderList fuel doc n it (rd ++ suf) s = Ok ((o, nn, rd' ++ suf), s').
Proof. intros fuel suf doc n. exact (proj1 (lists_suffix fuel suf doc n)). Qed.
Print Assumptions C10_list_independent_of_what_follows.

(* END TO END: the one-line document "- item" or "+ item" (item over the safe alphabet, starting and ending with a non-space, of any
   length) renders to <ul><li>item</li></ul>, with the stack of open list markers empty afterwards and nothing else in the session
   changed: no line-block pattern matches the line, the first list pattern recognises the marker (one derivation, exact
   semantics), the list is opened with the marker pushed, the item loop finds the end of input, the item text is rendered inline,
   the list is closed with the marker popped *)
Theorem C10_single_item_list : forall n mk item s, In mk markers -> quiet_default s -> li_item_ok item ->
  doc_render (S (S (S (S (S (S (S n))))))) (li_line mk item) s =
  Ok ($"<ul><li>" ++ escape item ++ $"</li></ul>", set_listids s []).
Proof. intros n mk item s H. exact (single_item_list_document mk H n item s). Qed.
Print Assumptions C10_single_item_list.

Example C10_ex_single_item :
  match doc_render 9 $"- one item, 1 > 0" (document_init S0) with
  | Ok (html, _) => html = $"<ul><li>one item, 1 &gt; 0</li></ul>"
  | _ => False
  end.
Proof. vm_compute. reflexivity. Qed.

(* ... and through rimu.render: whatever the option values of the call do to the session first *)
Theorem C10_single_item_list_api : forall n mk item o s s1, In mk markers ->
  updateFrom o (if (s_mode s =? -1)%Z then document_init s else s) = Ok (tt, s1) -> quiet_default s1 -> li_item_ok item ->
  api_render (S (S (S (S (S (S (S n))))))) (li_line mk item) o s = Ok ($"<ul><li>" ++ escape item ++ $"</li></ul>", set_listids s1 []).
Proof. exact single_item_list_api. Qed.
Print Assumptions C10_single_item_list_api.

(* THE SAME MARKER CONTINUES THE LIST: the two-line document "- a" / "- b" renders to one list with two items -- the second line
   is recognised by the item loop of the first item as an item whose marker is already open, handed back to the loop over the
   items of that list, and rendered as its next item; afterwards the marker stack is empty *)
Theorem C10_two_item_list : forall n mk item1 item2 s, In mk markers -> quiet_default s -> li_item_ok item1 -> li_item_ok item2 ->
  doc_render (S (S (S (S (S (S (S (S n)))))))) (li_line mk item1 ++ 10 :: li_line mk item2) s =
  Ok ($"<ul><li>" ++ escape item1 ++ $"</li><li>" ++ escape item2 ++ $"</li></ul>", set_listids s []).
Proof. intros n mk item1 item2 s H. exact (two_item_list_document mk H n item1 item2 s). Qed.
Print Assumptions C10_two_item_list.

(* A DIFFERENT MARKER OPENS A CHILD LIST: the two-line document "- a" / "+ b" (or "+ a" / "- b") renders to a list whose single item
   holds a nested list with the second item -- the item loop of the first item finds an item whose marker is not open, renders
   its list in place (marker pushed on top of the parent's, popped when the child closes) and attaches it to the item *)
Theorem C10_nested_list : forall n mk1 mk2 item1 item2 s, In mk1 markers -> In mk2 markers -> mk1 <> mk2 ->
  quiet_default s -> li_item_ok item1 -> li_item_ok item2 ->
  doc_render (S (S (S (S (S (S (S (S (S (S (S n))))))))))) (li_line mk1 item1 ++ 10 :: li_line mk2 item2) s =
  Ok ($"<ul><li>" ++ escape item1 ++ $"<ul><li>" ++ escape item2 ++ $"</li></ul></li></ul>", set_listids s []).
Proof. exact nested_list_document. Qed.
Print Assumptions C10_nested_list.

Example C10_ex_nested :
  match doc_render 14 ($"- parent" ++ [10] ++ $"+ child") (document_init S0) with
  | Ok (html, _) => html = $"<ul><li>parent<ul><li>child</li></ul></li></ul>"
  | _ => False
  end.
Proof. vm_compute. reflexivity. Qed.

Example C10_ex_hypotheses : li_item_ok $"one item, 1 > 0" /\ In dash markers /\ In plus markers /\ dash <> plus.
Proof.
  split; [|repeat split; [left; reflexivity|right; left; reflexivity|discriminate]].
  split.
  - intros x Hx. vm_compute in Hx. vm_compute. intuition.
  - eexists _, _. split; [reflexivity|]. split; reflexivity.
Qed.

(* A LIST INSIDE A CONTAINER: the quote block holding one list item renders to the list inside <blockquote>; the nested render is
   the document renderer itself, and the list-id stack is empty again afterwards *)
Theorem C10_list_in_quote_block : forall mk n item s, In mk markers -> quiet_default s -> li_item_ok item ->
  doc_render (S (S (S (S (S (S (S (S n)))))))) (qfence ++ 10 :: li_line mk item ++ 10 :: qfence) s =
  Ok ($"<blockquote><ul><li>" ++ escape item ++ $"</li></ul></blockquote>", set_listids (quote_open s) []).
Proof. exact quote_list_document. Qed.
Print Assumptions C10_list_in_quote_block.

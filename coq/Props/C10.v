(* C10 -- List markers determine list nesting (partial: see MANIFEST level text). *)
From Rimu Require Import Base Unicode Regex RegexAnalysis RegexParse Str Types Tables Guards State Inline Block
  Frame FrameBlock FrameInst OptionsLemmas MiscLemmas MoreLemmas Plain TableFacts.

(* bulleted, numbered and definition items produce ul/ol/dl with li or dt/dd (the generated list table) *)
Theorem C10_list_table :
  map list_row lists_defs =
  [($"<ul>", $"</ul>", $"<li>", $"</li>", [], []); ($"<ol>", $"</ol>", $"<li>", $"</li>", [], []);
   ($"<dl>", $"</dl>", $"<dd>", $"</dd>", $"<dt>", $"</dt>")].
Proof. exact list_table. Qed.
Print Assumptions C10_list_table.

(* the restricted sets of attachable blocks *)
Theorem C10_allowed_attachments :
  lists_allowed0 = [$"comment"; $"code"; $"division"; $"html"; $"quote"] /\
  lists_allowed1 = [$"indented"; $"quote-paragraph"] /\ lists_allowed_attrs = [$"attributes"].
Proof. exact allowed_attachments. Qed.
Print Assumptions C10_allowed_attachments.

(* every list is emitted as open tag . items . its own close tag *)
Theorem C10_list_wrapped : forall fuel doc n it rd s out nx rd' s',
  renderList fuel doc n it rd s = Ok ((out, nx, rd'), s') ->
  exists o body, out = o ++ body ++ li_listClose (it_def it).
Proof. exact renderList_wrapped. Qed.
Print Assumptions C10_list_wrapped.

Example C10_ex :
  match api_render 60 ($"- a" ++ [10] ++ $"** b" ++ [10] ++ $". c" ++ [10] ++ $"** d" ++ [10] ++ $"- e" ++ [10;10;10] ++ $"p")
                   (mkOpts PyNone PyNone PyNone false) S0 with
  | Ok (html, _) => str_eqb html ($"<ul><li>a<ul><li>b<ol><li>c</li></ol></li><li>d</li></ul></li><li>e</li></ul><p>p</p>")
  | _ => false end = true.
Proof. vm_compute. reflexivity. Qed.

(* C19 -- Diagnostics are complete and never spurious (partial: see MANIFEST level text). *)
From Rimu Require Import Base Unicode Regex RegexAnalysis RegexParse Str Types Tables Guards State Inline Block
  Frame FrameBlock FrameInst OptionsLemmas MiscLemmas MoreLemmas Plain TableFacts Rel RelBlock RelApi PlainDoc Lines MatchExact MacroSubst
  Emphasis HtmlTag TagDoc HeaderDoc CodeBlock ListDoc MacroDefine MacroDoc Compose QuoteBlock DivBlock IndentDoc GreedyLoop AttrDoc ParaDoc Silent.

(* every inline computation run by the block layer changes nothing but the diagnostic log *)
Theorem C19_lift_only_logs : forall A (f : ienv -> I A) s a s', lift f s = Ok (a, s') -> exists l, s' = set_log s l.
Proof. intros A f. exact (log_only_lift f). Qed.
Print Assumptions C19_lift_only_logs.

Theorem C19_illegal_mode_reported : forall v s, legal_mode v = false ->
  setOption_safeMode v s = Ok (tt, set_log s ((s_cb s, illegal_msg v) :: s_log s)).
Proof. exact setOption_safeMode_illegal. Qed.
Print Assumptions C19_illegal_mode_reported.

Theorem C19_legal_mode_silent : forall v s, legal_mode v = true ->
  exists n, py_int v = PInt n /\ (0 <= n <= 15)%Z /\ setOption_safeMode v s = Ok (tt, set_mode s n).
Proof. exact setOption_safeMode_legal. Qed.
Print Assumptions C19_legal_mode_silent.

Theorem C19_illegal_reset_reported : forall v s, reset_is_false v = false -> reset_is_true v = false ->
  setOption_reset v s = Ok (tt, set_log s ((s_cb s, $"illegal reset API option value: " ++ py_str v) :: s_log s)).
Proof. exact setOption_reset_junk. Qed.
Print Assumptions C19_illegal_reset_reported.

Theorem C19_unknown_block_name_reported : forall name value s,
  existsb (fun d => str_eqb (d_name d) name) (s_dblocks s) = false ->
  dblocks_setDefinition name value s =
  Ok (tt, set_log s ((s_cb s, $"illegal delimited block name: " ++ name ++ $": |" ++ name ++ $"|='" ++ value ++ $"'") :: s_log s)).
Proof. exact unknown_block_name_reported. Qed.
Print Assumptions C19_unknown_block_name_reported.

Theorem C19_illegal_replacement_reported : forall pattern flags repl s,
  parse_regex pattern (existsb (N.eqb 105) flags) (existsb (N.eqb 109) flags) = PError ->
  replacements_setDefinition pattern flags repl s =
  Ok (tt, set_log s ((s_cb s, $"illegal replacement regular expression: " ++ pattern) :: s_log s)).
Proof. exact illegal_replacement_reported. Qed.
Print Assumptions C19_illegal_replacement_reported.

Theorem C19_blank_macro_reported : forall value s,
  setValue_skip (s_mode s) = false -> nonempty value = true ->
  macros_setValue $"--" value s =
  Ok (tt, set_log s ((s_cb s, $"the predefined blank '--' macro cannot be redefined") :: s_log s)).
Proof. exact blank_macro_redefinition_reported. Qed.
Print Assumptions C19_blank_macro_reported.

Theorem C19_unterminated_names : unterminated_names = [$"code"; $"comment"; $"division"; $"quote"].
Proof. exact unterminated_names_fact. Qed.
Print Assumptions C19_unterminated_names.

(* diagnostics never alter the output: the HTML is the same with and without a callback installed, and so are
   the diagnostic texts that are generated (only their delivery differs) *)
Theorem C19_callback_never_alters_output : forall n src o1 o2 s,
  same_but_callback o1 o2 ->
  match api_render n src o1 s, api_render n src o2 s with
  | Ok (h1, s1), Ok (h2, s2) =>
      h1 = h2 /\ core s1 = core s2 /\
      exists d1 d2, s_log s1 = d1 ++ s_log s /\ s_log s2 = d2 ++ s_log s /\ map snd d1 = map snd d2
  | Raise e1, Raise e2 => e1 = e2
  | Fuel, Fuel => True
  | _, _ => False
  end.
Proof. exact callback_irrelevant. Qed.
Print Assumptions C19_callback_never_alters_output.

(* a well-formed plain document produces no diagnostic: the session, log included, is unchanged *)
Theorem C19_plain_silent : forall n l s,
  quiet_default s -> safe_line l ->
  doc_render (S (S (S (S (S n))))) l s = Ok ($"<p>" ++ escape l ++ $"</p>", s).
Proof. exact plain_line_document. Qed.
Print Assumptions C19_plain_silent.

Example C19_ex :
  match api_render 40 ($".." ++ [10] ++ $"{nosuch}") (mkOpts PyNone PyNone PyNone true) S0 with
  | Ok (_, s) => map snd (s_log s)
  | _ => [] end = [$"undefined macro: {nosuch}: {nosuch}"; $"unterminated division block: .."].
Proof. vm_compute. reflexivity. Qed.

(* COMPLETE AND NOT SPURIOUS at one fault site, for every surrounding text: the invocation of an undefined macro in text with no
   other brace or backslash is left exactly as written and reported by exactly one diagnostic naming the invocation and the text;
   (the defined case, C11_simple_invocation, and the escaped case, C17_escaped_invocation, report nothing) *)
Theorem C19_undefined_macro_reported : forall sr s pre name post,
  quiet pre -> quiet post -> name_ok name -> getValue s name = None ->
  let text := pre ++ 123 :: name ++ 125 :: post in
  macros_render sr s text false =
  Ok (text, [$"undefined macro: " ++ (123 :: name ++ [125]) ++ $": " ++ pre ++ (123 :: name ++ [125]) ++ post]).
Proof. exact undefined_invocation. Qed.
Print Assumptions C19_undefined_macro_reported.

(* NEVER SPURIOUS, on whole documents: the well-formed documents of the end-to-end theorems -- a paragraph with an emphasis, a
   paragraph with an HTML tag (whatever the policy), a header, a fenced code block and a comment block with any content, a
   nested list, a macro definition followed by a paragraph that invokes it -- are rendered successfully and the diagnostic log
   afterwards is the log before, for all the texts, names, lengths, sessions and fuels the theorems quantify over *)
Theorem C19_emphasis_silent : forall n s c pre body post,
  quiet_default s -> In c safe_first -> over safe_alphabet (c :: pre) -> over safe_alphabet body -> body_ok body -> over safe_alphabet post ->
  silent (doc_render (S (S (S (S (S (S n)))))) ((c :: pre) ++ star :: body ++ star :: post) s) s.
Proof. exact emphasis_silent. Qed.
Print Assumptions C19_emphasis_silent.

Theorem C19_tag_silent : forall n s c pre name post,
  quiet_default s -> In c word_first -> over word2_alphabet (c :: pre) -> name_ok2 name -> over word2_alphabet name -> over word2_alphabet post ->
  silent (doc_render (S (S (S (S (S (S n)))))) ((c :: pre) ++ 60 :: name ++ 62 :: post) s) s.
Proof. exact tag_silent. Qed.
Print Assumptions C19_tag_silent.

Theorem C19_header_silent : forall n mk title s, quiet_default s -> header_ids_off s -> marker_ok mk -> title_ok title ->
  silent (doc_render (S (S (S (S (S n))))) (hd_line mk title) s) s.
Proof. exact header_silent. Qed.
Print Assumptions C19_header_silent.

Theorem C19_code_block_silent : forall fuel doc n content s, quiet_default s -> Forall nlfree content -> ~ In fence content ->
  silent (doc_loop (S fuel) doc (S (S n)) (fence :: content ++ [fence]) s) s.
Proof. exact code_block_silent. Qed.
Print Assumptions C19_code_block_silent.

Theorem C19_comment_block_silent : forall fuel doc n content s, quiet_default s ->
  (forall l, In l content -> re_search (d_closeRe comment_def) l = None) ->
  silent (doc_loop fuel doc (S (S n)) (copen :: content ++ [cclose]) s) s.
Proof. exact comment_block_silent. Qed.
Print Assumptions C19_comment_block_silent.

Theorem C19_nested_list_silent : forall n mk1 mk2 item1 item2 s, In mk1 markers -> In mk2 markers -> mk1 <> mk2 ->
  quiet_default s -> li_item_ok item1 -> li_item_ok item2 ->
  silent (doc_render (S (S (S (S (S (S (S (S (S (S (S n))))))))))) (li_line mk1 item1 ++ 10 :: li_line mk2 item2) s) s.
Proof. exact nested_list_silent. Qed.
Print Assumptions C19_nested_list_silent.

Theorem C19_define_invoke_silent : forall n s c pre name post value,
  quiet_default s -> setValue_skip (s_mode s) = false -> name <> $"--" ->
  In c safe_first -> over safe_alphabet (c :: pre) -> over safe_alphabet post -> over safe_alphabet value -> inv_name_ok name ->
  silent (doc_render (S (S (S (S (S (S (S n))))))) (def_line name value ++ 10 :: 10 :: inv_para c pre name post) s) s.
Proof. exact define_invoke_silent. Qed.
Print Assumptions C19_define_invoke_silent.

Theorem C19_class_paragraph_silent : forall n a w l R s, para_line (ienv_of s) l R ->
  quiet_default s -> parse_skip (s_mode s) = false -> cls_name_ok a w ->
  silent (doc_render (S (S (S (S (S n))))) (ba_line a w ++ 10 :: l) s) s.
Proof. exact class_paragraph_silent. Qed.
Print Assumptions C19_class_paragraph_silent.

Theorem C19_quote_paragraph_silent : forall n l R s, para_line (ienv_of s) l R -> quiet_default s -> l <> qfence ->
  silent (doc_render (S (S (S (S (S (S (S n))))))) (qfence ++ 10 :: l ++ 10 :: qfence) s) s.
Proof. exact quote_paragraph_silent. Qed.
Print Assumptions C19_quote_paragraph_silent.

Theorem C19_division_paragraph_silent : forall n l R s, para_line (ienv_of s) l R -> quiet_default s -> l <> dfence ->
  silent (doc_render (S (S (S (S (S (S (S n))))))) (dfence ++ 10 :: l ++ 10 :: dfence) s) s.
Proof. exact division_paragraph_silent. Qed.
Print Assumptions C19_division_paragraph_silent.

Theorem C19_indented_silent : forall n sp body s, quiet_default s -> spaces sp -> ind_body_ok body ->
  silent (doc_render (S (S (S n))) (ind_line sp body) s) s.
Proof. exact indented_silent. Qed.
Print Assumptions C19_indented_silent.

Theorem C19_code_then_paragraph_silent : forall n k doc content l R s, para_line (ienv_of s) l R ->
  quiet_default s -> Forall nlfree content -> ~ In fence content ->
  silent (doc_loop (S (S (S (S n)))) doc (S (S (S k))) (fence :: content ++ fence :: [[]; l]) s) s.
Proof. exact code_then_paragraph_silent. Qed.
Print Assumptions C19_code_then_paragraph_silent.

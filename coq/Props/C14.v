(* C14 -- Rendering a document in parts equals rendering it whole (partial).  Property theorems only. *)
From Rimu Require Import Base Regex RegexParse Str Types Tables Guards State Inline Block
  Frame FrameBlock FrameInst OptionsLemmas MiscLemmas.

(* a call without reset and without option values starts rendering from exactly the session the
   previous call left (only the callback flag is re-installed): definitions, options, ids and
   pending attributes carry across calls as they carry across blocks *)
Theorem C14_state_carries : forall n src o s,
  s_mode s <> (-1)%Z -> o_safeMode o = PyNone -> o_htmlReplacement o = PyNone -> reset_is_false (o_reset o) = true ->
  api_render n src o s = doc_render n src (cb_step2 o (cb_step1 o s)).
Proof. exact api_no_options_starts_from_session. Qed.
Print Assumptions C14_state_carries.

Theorem C14_options_persist : forall o s s',
  o_safeMode o = PyNone -> o_htmlReplacement o = PyNone -> reset_is_false (o_reset o) = true ->
  updateFrom o s = Ok (tt, s') -> protected s' = protected s.
Proof. exact updateFrom_persist. Qed.
Print Assumptions C14_options_persist.

Example C14_ex : reset_is_false PyNone = true.
Proof. reflexivity. Qed.

(* C14 -- Rendering a document in parts equals rendering it whole (partial).  Property theorems only. *)
From Rimu Require Import Base Regex RegexParse Str Types Tables Guards State Inline Block
  Frame FrameBlock FrameInst OptionsLemmas MiscLemmas Locality.

(* a call without reset and without option values starts rendering from exactly the session the
   previous call left (only the callback flag is re-installed): definitions, options, ids and
   pending attributes carry across calls as they carry across blocks *)
Theorem C14_state_carries : forall n src o s,
  s_mode s <> (-1)%Z -> o_safeMode o = PyNone -> o_htmlReplacement o = PyNone -> reset_is_false (o_reset o) = true ->
  api_render n src o s = doc_render n src (cb_step2 o (cb_step1 o s)).
Proof. exact api_no_options_starts_from_session. Qed.
Print Assumptions C14_state_carries.

Theorem C14_options_persist : forall o s s',
  o_safeMode o = PyNone -> o_htmlReplacement o = PyNone -> reset_is_false (o_reset o) = true ->
  updateFrom o s = Ok (tt, s') -> protected s' = protected s.
Proof. exact updateFrom_persist. Qed.
Print Assumptions C14_options_persist.

Example C14_ex : reset_is_false PyNone = true.
Proof. reflexivity. Qed.

(* PARTS = WHOLE at the block loop: if the blocks of A (line blocks, lists and delimited blocks, taken by the loop one after
   the other: prefix_run) end before a non-empty run of trailing blank lines of A -- so no block of A is unterminated and A
   does not end in a list --, then for every B the loop renders A followed by B as it renders A, then B from the session
   that A left: same HTML, same session, same diagnostics (the log is part of the session) *)
Theorem C14_parts_equal_whole : forall fuel doc n la lb s o rdk sk n',
  prefix_run fuel doc n la s o rdk sk n' -> rdk <> [] -> all_blank rdk ->
  doc_loop fuel doc n la s = then_loop o (doc_loop fuel doc n' [] sk) /\
  doc_loop fuel doc n (la ++ lb) s = then_loop o (doc_loop fuel doc n' lb sk).
Proof. exact parts_equal_whole. Qed.
Print Assumptions C14_parts_equal_whole.

(* THE SAME AT document.render, WITH TEXTS: let A be a text without carriage returns whose blocks end before a non-empty run of trailing
   blank lines, and B any text; if B renders from the session A left (with the loop fuel A left over) to outB, then
   render(A) = o,  render(B) after it = outB,  and  render(A newline B) in one call = o . outB  with the same final session
   (diagnostics included).  The reader splits A newline B into the lines of A followed by those of B (mk_reader_join), and
   giving B the full fuel instead of what A left changes nothing (fuel monotonicity). *)
Theorem C14_parts_equal_whole_text : forall n tA tB s o rdk sk n' outB sB, (forall x, In x tA -> x <> 13%N) ->
  prefix_run n (doc_render n) n (mk_reader tA) s o rdk sk n' -> rdk <> [] -> all_blank rdk ->
  doc_loop n (doc_render n) n' (mk_reader tB) sk = Ok (outB, sB) ->
  doc_render (S n) tA s = Ok (o, sk) /\ doc_render (S n) tB sk = Ok (outB, sB) /\
  doc_render (S n) (tA ++ 10%N :: tB) s = Ok (o ++ outB, sB).
Proof. exact parts_equal_whole_text. Qed.
Print Assumptions C14_parts_equal_whole_text.

(* the premise is met by an ordinary document: a paragraph and two blank lines (the intermediate sessions are read off the
   model's own results, so that every premise is a closed computation) *)
Definition ex_fuel := 20%nat.
Definition ex_doc := doc_render 20.
Definition ex_la : reader := [$"Hello *world*"; []; []].
Definition ex_s0 := document_init S0.
Definition ex_s1 := match lineblocks_render ex_fuel ex_la [] ex_s0 with Ok (_, s) => s | _ => S0 end.
Definition ex_s2 := match lists_render ex_fuel ex_doc 4 ex_la ex_s1 with Ok (_, s) => s | _ => S0 end.
Definition ex_s3 := match dblocks_render ex_fuel ex_doc ex_la [] ex_s2 with Ok (_, s) => s | _ => S0 end.
Definition ex_out : str := $"<p>Hello <em>world</em></p>" ++ [10].

Example C14_ex_prefix_run : prefix_run ex_fuel ex_doc 5 ex_la ex_s0 (ex_out ++ []) [[]] ex_s3 4 /\ all_blank [[]].
Proof.
  split; [|reflexivity].
  eapply (pr_dblock ex_fuel ex_doc 4 ex_la ($"Hello *world*") [[]; []] ex_la ex_la ex_out [[]] ex_s0 ex_s1 ex_s2 ex_s3);
    [vm_compute; reflexivity|vm_compute; reflexivity|vm_compute; reflexivity|vm_compute; reflexivity|apply pr_done].
Qed.

(* C05 -- reset makes render a pure function of source and options.  Property theorems only. *)
From Rimu Require Import Base Regex RegexParse Str Types Tables Guards State Inline Block
  Frame FrameBlock FrameInst OptionsLemmas MiscLemmas.

(* After the option phase of a call carrying a truthy reset, the session is the same whatever came
   before (any two prior states, including the never-initialised one), except for the diagnostic log
   and the list-id scratch stack. *)
Theorem C05_reset_state : forall o a b a' b',
  reset_is_false (o_reset o) = false -> reset_is_true (o_reset o) = true ->
  updateFrom o a = Ok (tt, a') -> updateFrom o b = Ok (tt, b') -> same_but_scratch a' b'.
Proof. exact reset_state_independent. Qed.
Print Assumptions C05_reset_state.

(* document.init overwrites every other field: two initialised sessions differ in nothing else *)
Theorem C05_init_total_overwrite : forall a b, same_but_scratch (document_init a) (document_init b).
Proof. exact same_but_scratch_init. Qed.
Print Assumptions C05_init_total_overwrite.

Theorem C05_update_total : forall o s, exists s', updateFrom o s = Ok (tt, s').
Proof. exact updateFrom_total. Qed.
Print Assumptions C05_update_total.

Example C05_ex : reset_is_true (PyBool true) = true /\ reset_is_true (PyStr $"true") = true /\ reset_is_false (PyBool true) = false.
Proof. vm_compute. repeat split. Qed.

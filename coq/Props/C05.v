(* C05 -- reset makes render a pure function of source and options.  Property theorems only. *)
From Rimu Require Import Base Regex RegexParse Str Types Tables Guards State Inline Block
  Frame FrameBlock FrameInst OptionsLemmas MiscLemmas Rel RelBlock RelApi.

(* A render call that carries reset produces output and diagnostics that depend only on its own source and
   options: from any two sessions whatever -- any histories, including the never-initialised interpreter --
   the same HTML (or the same failure), the same diagnostics appended, and sessions that agree on everything
   except the older part of the log and the list-id scratch stack.  For every fuel, source and option set. *)
Theorem C05_reset_pure : forall n src o a b,
  reset_is_false (o_reset o) = false -> reset_is_true (o_reset o) = true ->
  match api_render n src o a, api_render n src o b with
  | Ok (h1, a'), Ok (h2, b') =>
      h1 = h2 /\ core a' = core b' /\ s_cb a' = s_cb b' /\
      exists d, s_log a' = d ++ s_log a /\ s_log b' = d ++ s_log b
  | Raise e1, Raise e2 => e1 = e2
  | Fuel, Fuel => True
  | _, _ => False
  end.
Proof. exact reset_pure. Qed.
Print Assumptions C05_reset_pure.

(* in particular it equals the same call made first in a fresh process *)
Theorem C05_equals_fresh_process : forall n src o a,
  reset_is_false (o_reset o) = false -> reset_is_true (o_reset o) = true ->
  match api_render n src o a, api_render n src o S0 with
  | Ok (h1, _), Ok (h2, _) => h1 = h2
  | Raise e1, Raise e2 => e1 = e2
  | Fuel, Fuel => True
  | _, _ => False
  end.
Proof.
  intros n src o a H1 H2. pose proof (reset_pure n src o a S0 H1 H2) as R.
  destruct (api_render n src o a) as [[h1 a']| |]; destruct (api_render n src o S0) as [[h2 b']| |]; auto. apply R.
Qed.
Print Assumptions C05_equals_fresh_process.

(* After the option phase of a call carrying a truthy reset, the session is the same whatever came
   before (any two prior states, including the never-initialised one), except for the diagnostic log
   and the list-id scratch stack. *)
Theorem C05_reset_state : forall o a b a' b',
  reset_is_false (o_reset o) = false -> reset_is_true (o_reset o) = true ->
  updateFrom o a = Ok (tt, a') -> updateFrom o b = Ok (tt, b') -> same_but_scratch a' b'.
Proof. exact reset_state_independent. Qed.
Print Assumptions C05_reset_state.

(* document.init overwrites every other field: two initialised sessions differ in nothing else *)
Theorem C05_init_total_overwrite : forall a b, same_but_scratch (document_init a) (document_init b).
Proof. exact same_but_scratch_init. Qed.
Print Assumptions C05_init_total_overwrite.

Theorem C05_update_total : forall o s, exists s', updateFrom o s = Ok (tt, s').
Proof. exact updateFrom_total. Qed.
Print Assumptions C05_update_total.

Example C05_ex : reset_is_true (PyBool true) = true /\ reset_is_true (PyStr $"true") = true /\ reset_is_false (PyBool true) = false.
Proof. vm_compute. repeat split. Qed.

(* C17 -- A leading backslash makes markup literal (partial).  Property theorems only. *)
From Rimu Require Import Base Regex RegexSem RegexAnalysis RegexParse Str Types Tables Guards State Inline Block
  Frame FrameBlock FrameInst OptionsLemmas MiscLemmas MoreLemmas Plain MatchExact MacroSubst PlainDoc HeaderDoc Emphasis EscapedQuote.

(* an escaped replacement (link, image, e-mail, URL, tag, entity ...) is rendered as its own text,
   escaped, minus the backslash, as a finished fragment *)
Theorem C17_repl_escape : forall s sr rdef m,
  starts_with [92] (grp0 m) = true -> replacement_text s sr rdef m = iret (escape (tl (grp0 m))).
Proof. exact escaped_replacement. Qed.
Print Assumptions C17_repl_escape.

Example C17_ex :
  match api_render 40 $"\[a](b) \<c@d.e> \&amp; \*x* \<b> \http://u.v" (mkOpts PyNone PyNone PyNone false) S0 with
  | Ok (html, _) => str_eqb html $"<p>[a](b) &lt;c@d.e&gt; &amp;amp; *x* &lt;b&gt; http://u.v</p>"
  | _ => false end = true.
Proof. vm_compute. reflexivity. Qed.

(* an escaped macro invocation is left as written without its backslash: in text with no other brace or backslash,
   \{name} comes out of macros.render as {name} -- whether or not the macro is defined, with no diagnostic, and the
   second (parametrised) pass does not pick it up: its pattern has no match on {name} (exact semantics) *)
Theorem C17_escaped_invocation : forall sr s pre name post silent,
  quiet pre -> quiet post -> name_ok name ->
  macros_render sr s (pre ++ 92 :: 123 :: name ++ 125 :: post) silent = iret (pre ++ 123 :: name ++ 125 :: post).
Proof. exact escaped_invocation. Qed.
Print Assumptions C17_escaped_invocation.

Theorem C17_parametrised_pattern_skips_simple : forall i p name post, name_ok name ->
  match_at re_macros_render_0 i p (123 :: name ++ 125 :: post) = None.
Proof. exact complex_no_match. Qed.
Print Assumptions C17_parametrised_pattern_skips_simple.

Example C17_ex_escaped :
  let s := mkIenv 0 [] [] [] [($"who", $"the world")] in
  macros_render (fun t => iret t) s $"Hello \{who}, and goodbye." false = iret $"Hello {who}, and goodbye.".
Proof. vm_compute. reflexivity. Qed.

(* A LINE-LEVEL ELEMENT PREFIXED WITH A BACKSLASH IS LITERAL TEXT: the line  \#...# title  (a header line with a backslash before
   it) is not a header: the header rule matches, drops the backslash and hands the rest of the line to the remaining rules, none
   of which (five line rules, the list rules, the eight delimited-block rules before the paragraph) matches it, so it becomes the
   paragraph <p>#...# title</p> with the session unchanged -- for one to six hash signs and every title over the safe alphabet *)
Theorem C17_escaped_header_is_literal : forall fuel' doc mk title s, quiet_default s -> marker_ok mk -> title_ok title ->
  doc_loop (S (S (S (S fuel')))) doc (S (S fuel')) [92%N :: hd_line mk title] s =
  Ok ($"<p>" ++ escape (hd_line mk title) ++ $"</p>", s).
Proof. exact escaped_header_document. Qed.
Print Assumptions C17_escaped_header_is_literal.

Example C17_ex_escaped_header :
  match doc_render 9 $"\## not a header" (document_init S0) with
  | Ok (html, _) => html = $"<p>## not a header</p>"
  | _ => False
  end.
Proof. vm_compute. reflexivity. Qed.

(* AN ESCAPED QUOTE IS LITERAL: for every pre / body / post over the plain alphabet (body starting and ending with a non-space),
   spans.render of  pre \*body* post  is the escaped text  pre *body* post  -- no <em>, and the backslash is gone.  On the way: the
   quote pattern matches at the backslash (one derivation), the escaped-quote loop resumes after the opening star, what is left
   holds a single star and has no derivation, none of the replacement patterns matches (the line-break pattern by inversion of
   its derivations: the only backslash is followed by the star), and the unescape pass has exactly one match, the \* *)
Theorem C17_escaped_emphasis_is_literal : forall n s pre body post,
  defaults s -> over plain_alphabet pre -> body_ok body -> over plain_alphabet post ->
  spans_render (S (S (S (S n)))) s (pre ++ 92 :: star :: body ++ star :: post) =
  iret (escape (pre ++ star :: body ++ star :: post)).
Proof. exact spans_render_escaped_em. Qed.
Print Assumptions C17_escaped_emphasis_is_literal.

Theorem C17_escaped_quote_match_unique : forall i p body post s', body_ok body -> over plain_alphabet post ->
  (MatchExact.mx (Regex.re_ast qre) (RegexSem.mkSt i p (92 :: star :: body ++ star :: post) []) s' <-> s' = esc_final i body post).
Proof. exact esc_derivation. Qed.
Print Assumptions C17_escaped_quote_match_unique.

Example C17_ex_escaped_emphasis :
  match api_render 40 ($"Lead \*em ph* tail & <") (mkOpts PyNone PyNone PyNone true) S0 with
  | Ok (html, _) => str_eqb html $"<p>Lead *em ph* tail &amp; &lt;</p>" | _ => false end = true.
Proof. vm_compute. reflexivity. Qed.

(* C17 -- A leading backslash makes markup literal (partial).  Property theorems only. *)
From Rimu Require Import Base Regex RegexParse Str Types Tables Guards State Inline Block
  Frame FrameBlock FrameInst OptionsLemmas MiscLemmas MoreLemmas.

(* an escaped replacement (link, image, e-mail, URL, tag, entity ...) is rendered as its own text,
   escaped, minus the backslash, as a finished fragment *)
Theorem C17_repl_escape : forall s sr rdef m,
  starts_with [92] (grp0 m) = true -> replacement_text s sr rdef m = iret (escape (tl (grp0 m))).
Proof. exact escaped_replacement. Qed.
Print Assumptions C17_repl_escape.

Example C17_ex :
  match api_render 40 $"\[a](b) \<c@d.e> \&amp; \*x* \<b> \http://u.v" (mkOpts PyNone PyNone PyNone false) S0 with
  | Ok (html, _) => str_eqb html $"<p>[a](b) &lt;c@d.e&gt; &amp;amp; *x* &lt;b&gt; http://u.v</p>"
  | _ => false end = true.
Proof. vm_compute. reflexivity. Qed.

(* C02 -- Rendering terminates and cannot be stalled by short input (partial: see MANIFEST level text). *)
From Rimu Require Import Base Unicode Regex RegexAnalysis RegexParse Str Types Tables Guards State Inline Block
  Frame FrameBlock FrameInst OptionsLemmas MiscLemmas MoreLemmas Plain TableFacts FuelMono Termination.

(* every regular expression of the source has star height <= 1, except the first Block Attributes pattern and the three
   attribute scans of injectHtmlAttributes, which step over quoted values with two alternatives that start differently *)
Theorem C02_star_height :
  forallb (fun nr => Nat.leb (star_height (re_ast (snd nr))) 1 || mem (fst nr) star_height_exceptions) all_regexes = true.
Proof. exact star_height_le_1. Qed.
Print Assumptions C02_star_height.

(* ... which ends in its nested loop, so that nothing can force it to backtrack (the deliberate split) *)
Theorem C02_split_pattern :
  star_height (re_ast re_blockattributes_parse_0) = 3%nat /\
  match re_ast re_blockattributes_parse_0 with
  | RSeq _ (RSeq _ (RSeq _ (RRep _ _ _ _))) => true
  | _ => false
  end = true.
Proof. exact exception_is_last_in_its_pattern. Qed.
Print Assumptions C02_split_pattern.

(* under every unbounded repetition of the source's patterns the alternatives start with different characters
   (decided over the Latin-1 code points), and such alternatives never both match at one position, so a loop over
   them has one iteration history per subject and a failing continuation cannot make the matcher try exponentially many *)
Theorem C02_exclusive_alternatives :
  forallb (fun nr => loop_alts_disjoint latin1 (re_ast (snd nr))) all_regexes = true.
Proof. exact loops_have_exclusive_alternatives. Qed.
Print Assumptions C02_exclusive_alternatives.

Theorem C02_exclusive_alternatives_sound : forall a b k k' i p x t c r1 r2,
  nullable a = false -> nullable b = false -> first a x && first b x = false ->
  exec a k i p (x :: t) c = Some r1 -> exec b k' i p (x :: t) c = Some r2 -> False.
Proof. exact alternatives_exclusive. Qed.
Print Assumptions C02_exclusive_alternatives_sound.

(* no unbounded repetition over a body that can match the empty string *)
Theorem C02_no_nullable_loop_body : forallb (fun nr => no_nullable_loop (re_ast (snd nr))) all_regexes = true.
Proof. exact no_nullable_loop_bodies. Qed.
Print Assumptions C02_no_nullable_loop_body.

(* the matcher never iterates a repetition from the position where the previous optional iteration started *)
Theorem C02_loops_progress : forall mb k mn mx fuel cnt i p rest c,
  cnt <? mn = false ->
  loop mb k true mn mx fuel cnt (Some i) i p rest c = match fuel with [] => None | _ :: _ => k i p rest c end.
Proof. exact loop_refuses_stationary_iteration. Qed.
Print Assumptions C02_loops_progress.

(* in safe modes without bit 8 the source cannot define macros, the only construct that can grow the reader *)
Theorem C02_no_macro_definitions : forall n src s html s',
  s_mode s <> 0%Z -> Z.land (s_mode s) 8 = 0%Z -> doc_render n src s = Ok (html, s') -> s_macros s' = s_macros s.
Proof. exact doc_render_macros. Qed.
Print Assumptions C02_no_macro_definitions.

(* the model's fuel is only a termination device: once render returns (a value or a failure) with some fuel, it returns exactly
   the same with every larger fuel -- for every source, option values and session.  So the theorems stated "for every fuel" speak
   about one result per input, and the only other outcome is the one that stands for unbounded recursion in the implementation *)
Theorem C02_fuel_monotone : forall n m src o s, (n <= m)%nat -> api_render n src o s <> Fuel -> api_render m src o s = api_render n src o s.
Proof. exact fuel_monotone. Qed.
Print Assumptions C02_fuel_monotone.

(* spans.render terminates: with fuel four more than the length of its source it returns (or raises) -- for every source, whenever
   no replacement definition can match the empty string and every group a template hands to a nested spans.render (`$$n`, and
   every `$n` once a `$$` has switched spans on) begins strictly after the start of its match; the quotes must be non-empty.
   The condition is decidable ([term_okb]), holds of the generated default definitions, and is what the self-matching
   definition of the known finding lacks (C02_ex_self_matching) *)
Theorem C02_spans_terminate : forall s n source, term_okb s = true -> (length source + 4 <= n)%nat ->
  spans_render n s source <> Fuel.
Proof. intros s n source H. apply spans_render_not_fuel. apply term_okb_spec. exact H. Qed.
Print Assumptions C02_spans_terminate.

Theorem C02_default_definitions_terminate : term_okb (ienv_of (document_init S0)) = true.
Proof. vm_compute. reflexivity. Qed.
Print Assumptions C02_default_definitions_terminate.

(* a capture the analysis accepts is strictly shorter than the subject of the search *)
Theorem C02_group_strictly_shorter : forall r text m i, RegexSem.match_spec r text m -> (1 <= i)%nat ->
  after1 i (re_ast r) = true -> text <> [] -> (length (grp_s m i) < length text)%nat.
Proof. exact grp_s_strict. Qed.
Print Assumptions C02_group_strictly_shorter.

(* the known finding's definition  /(a+)/ = '<b>$$1</b>'  is rejected by the condition, and with it the model does run out of
   fuel on "aaa" whatever the fuel tried here *)
Example C02_ex_self_matching :
  match parse_regex $"(a+)" false false with
  | POk rx => let d := mkR $"(a+)" 0 rx $"<b>$$1</b>" RfNone in
              (rdef_term d = false) /\ (spans_render 50 (mkIenv 0 [] [] [d] []) ($"aaa") = Fuel)
  | _ => False
  end.
Proof. vm_compute. split; reflexivity. Qed.

Example C02_ex : Nat.leb 60 (length all_regexes) = true.
Proof. exact table_regex_count. Qed.

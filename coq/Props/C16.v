(* C16 -- Line endings and reserved control characters (partial).  Property theorems only. *)
From Rimu Require Import Base Regex RegexParse Str Types Tables Guards State Inline Block
  Frame FrameBlock FrameInst OptionsLemmas MiscLemmas.

(* the reader treats U+0000..U+0002 as blanks: a source and its blanked version give the same reader *)
Theorem C16_blanked : forall text, mk_reader (blank_reserved text) = mk_reader text.
Proof. exact reader_of_blanked. Qed.
Print Assumptions C16_blanked.

Theorem C16_blank_spec : forall text, blank_reserved text = map (fun c => if reserved c then 32 else c) text.
Proof. exact blank_reserved_spec. Qed.
Print Assumptions C16_blank_spec.

(* no reserved code point reaches the renderer *)
Theorem C16_reader_reserved_free : forall text, forallb (fun c => negb (reserved c)) (blank_reserved text) = true.
Proof. exact blank_reserved_free. Qed.
Print Assumptions C16_reader_reserved_free.

Example C16_ex : mk_reader [97; 13; 10; 98; 13; 99; 10; 0; 100] = [[97]; [98]; [99]; [32; 100]].
Proof. vm_compute. reflexivity. Qed.

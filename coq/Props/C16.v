(* C16 -- Line endings and reserved control characters.  Property theorems only. *)
From Rimu Require Import Base Regex RegexParse Str Types Tables Guards State Inline Block
  Frame FrameBlock FrameInst OptionsLemmas MiscLemmas Lines RegexSem MatchLemmas Placeholder TaintInline NoRaise NoRaiseTop Taint.

(* the reader treats U+0000..U+0002 as blanks: a source and its blanked version give the same reader *)
Theorem C16_blanked : forall text, mk_reader (blank_reserved text) = mk_reader text.
Proof. exact reader_of_blanked. Qed.
Print Assumptions C16_blanked.

Theorem C16_blank_spec : forall text, blank_reserved text = map (fun c => if reserved c then 32 else c) text.
Proof. exact blank_reserved_spec. Qed.
Print Assumptions C16_blank_spec.

(* no reserved code point reaches the renderer *)
Theorem C16_reader_reserved_free : forall text, forallb (fun c => negb (reserved c)) (blank_reserved text) = true.
Proof. exact blank_reserved_free. Qed.
Print Assumptions C16_reader_reserved_free.

(* the reader splits on the *generated* pattern exactly as the reference splitter: CR LF, CR and LF end a line *)
Theorem C16_reader_spec : forall text, mk_reader text = split_lines (blank_reserved text).
Proof. exact mk_reader_spec. Qed.
Print Assumptions C16_reader_spec.

(* decode after encode: whatever terminator is chosen for each line, the lines come back (a CR terminator directly
   followed by an empty LF-terminated line is the one inherently ambiguous combination and is excluded) *)
Theorem C16_lines : forall ls ts, ls <> [] -> Forall nlfree ls -> unambiguous ls ts ->
  split_lines (encode ls ts) = ls.
Proof. exact split_encode. Qed.
Print Assumptions C16_lines.

(* two sources with the same lines render identically from every session, with every option set and fuel *)
Theorem C16_same_lines : forall n t1 t2 o s,
  split_lines (blank_reserved t1) = split_lines (blank_reserved t2) -> api_render n t1 o s = api_render n t2 o s.
Proof. exact api_render_same_lines. Qed.
Print Assumptions C16_same_lines.

(* hence a source renders identically whether its lines end in LF, CR LF or CR, uniformly or mixed *)
Theorem C16_render_recode : forall n ls ts ts' o s,
  ls <> [] -> Forall nlfree ls -> unambiguous ls ts -> unambiguous ls ts' ->
  (forall l, In l ls -> blank_reserved l = l) ->
  api_render n (encode ls ts) o s = api_render n (encode ls ts') o s.
Proof. exact render_recode. Qed.
Print Assumptions C16_render_recode.

(* the placeholder protocol of the inline renderer: for text free of the reserved code points (what the reader
   delivers) and definitions / replacement option free of them, every placeholder is resolved -- the saved
   fragments are popped exactly, never from an empty stack -- and no reserved code point is left in the result;
   for every fuel, every environment and every text *)
Theorem C16_placeholders_resolved : forall s n src, env_ok s -> rfree src ->
  match spans_render n s src with
  | Ok (out, _) => rfree out
  | Raise e => e <> ExPopEmpty
  | Fuel => True
  end.
Proof. exact placeholder_protocol. Qed.
Print Assumptions C16_placeholders_resolved.

(* ... and at the API: along every history of render calls from the initial session, with arbitrary sources, fuel and
   option values whose HTML replacement text (when given) is free of U+0000..U+0002, no output contains any of them,
   and the session invariant behind this (definitions, option text and pending attributes free of them) is kept *)
Theorem C16_output_reserved_free : forall n h, Forall (fun so => opts_ok (snd so)) h -> Forall out_ok (fst (run n S0 h)).
Proof. exact history_output_reserved_free. Qed.
Print Assumptions C16_output_reserved_free.

Theorem C16_render_reserved_free : forall n src o s, opts_ok o -> Sok s ->
  match api_render n src o s with Ok (html, s') => rfree html /\ Sok s' | _ => True end.
Proof. exact render_reserved_free. Qed.
Print Assumptions C16_render_reserved_free.

(* the shape of a quote match the protocol relies on: optional backslashes, a defined quote, the quoted text, the same quote *)
Theorem C16_quote_match_shape : forall qs text m, match_spec (quotesRe qs) text m ->
  exists bs q body, m_groups m = [Some (bs ++ q ++ body ++ q); Some q; Some body] /\
                    allc (fun x => x = 92) bs /\ In q (map q_quote qs).
Proof. exact quote_decomp. Qed.
Print Assumptions C16_quote_match_shape.

(* the hypotheses hold of the default definitions *)
Example C16_ex_env : env_okb (ienv_of (document_init S0)) = true.
Proof. vm_compute. reflexivity. Qed.

Example C16_ex_protocol :
  match spans_render 20 (ienv_of (document_init S0)) $"a *b* `<i>` <joe@x.y> c" with
  | Ok (out, _) => str_eqb out $"a <em>b</em> <code>&lt;i&gt;</code> <a href=""mailto:joe@x.y"">joe@x.y</a> c"
  | _ => false end = true.
Proof. vm_compute. reflexivity. Qed.

Example C16_ex_out :
  match api_render 40 [120; 0; 42; 97; 42; 1; 2; 121] (mkOpts PyNone (PyStr $"<x>") PyNone false) S0 with
  | Ok (html, _) => str_eqb html $"<p>x <em>a</em>  y</p>" | _ => false end = true.
Proof. vm_compute. reflexivity. Qed.

Example C16_ex_lines : split_lines (encode [[97]; [98]; []; [99]] [TCRLF; TLF; TCR]) = [[97]; [98]; []; [99]].
Proof. vm_compute. reflexivity. Qed.

Example C16_ex : mk_reader [97; 13; 10; 98; 13; 99; 10; 0; 100] = [[97]; [98]; [99]; [32; 100]].
Proof. vm_compute. reflexivity. Qed.

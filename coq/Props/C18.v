(* C18 -- rimupy output is the ordered concatenation of trusted and untrusted renders.  Property theorems only. *)
From Rimu Require Import Base Regex RegexParse Str Types Tables Guards State Inline Block Rimuc CliLemmas.

(* the inputs are processed in the documented order *)
Theorem C18_plan_order : forall o named rc,
  fst (fst (plan o named rc)) =
  (if negb (c_no_rimurc o) && rc then [RIMURC] else []) ++ c_prepend_files o ++
  (if nonempty (c_prepend o) then [cli_PREPEND_TAG] else []) ++
  (if nonempty (c_layout o) then [cli_RESOURCE_TAG ++ c_layout o ++ $"-header.rmu"] else []) ++
  (match named with [] => [cli_STDIN] | _ => named end) ++
  (if nonempty (c_layout o) then [cli_RESOURCE_TAG ++ c_layout o ++ $"-footer.rmu"] else []).
Proof. exact plan_order. Qed.
Print Assumptions C18_plan_order.

(* only ~/.rimurc, the prepend files and the --prepend text are in the trusted list (rendered at mode 0 like the resources) *)
Theorem C18_trusted : forall o named rc,
  snd (fst (plan o named rc)) =
  (if negb (c_no_rimurc o) && rc then [RIMURC] else []) ++ c_prepend_files o ++
  (if nonempty (c_prepend o) then [cli_PREPEND_TAG] else []).
Proof. exact plan_trusted. Qed.
Print Assumptions C18_trusted.

(* invalid usage: a missing option value, for every option that takes one *)
Theorem C18_missing_value :
  forallb (fun a => dies (parse_args 3 [a] cli0))
          (opt_output ++ opt_prepend ++ opt_prepend_file ++ opt_safe_mode ++ opt_html_replacement ++
           opt_styling_valued ++ opt_layout) = true.
Proof. exact missing_value_dies. Qed.
Print Assumptions C18_missing_value.

Theorem C18_unknown_layout : forall f v rest o, mem v layout_names = false ->
  parse_args (S f) ($"--layout" :: v :: rest) o = PDie ($"illegal --layout: " ++ v).
Proof. exact unknown_layout_dies. Qed.
Print Assumptions C18_unknown_layout.

(* an illegal --safe-mode value (not an integer, or outside 0..15) is a usage error, never a traceback *)
Theorem C18_illegal_safe_mode : forall f v rest o,
  match py_int v with PInt n => (n <? 0)%Z || (15 <? n)%Z | _ => true end = true ->
  dies (parse_args (S f) ($"--safe-mode" :: v :: rest) o) = true.
Proof. exact illegal_safe_mode_dies. Qed.
Print Assumptions C18_illegal_safe_mode.

(* a usage error gives exit status 1, exactly one message, no output *)
Theorem C18_usage_error_result : forall n msg argv env,
  parse_args (S (length argv)) argv cli0 = PDie msg ->
  rimuc_main n argv env = CDone (mkCliRes [] [msg] true None).
Proof. exact usage_error_result. Qed.
Print Assumptions C18_usage_error_result.

(* past option parsing: exit status 1 if and only if something was written to standard error *)
Theorem C18_exit_iff_stderr : forall n argv env r o named,
  parse_args (S (length argv)) argv cli0 = PArgs o named ->
  rimuc_main n argv env = CDone r ->
  (r_exit1 r = true <-> r_stderr r <> []).
Proof. exact exit_iff_stderr. Qed.
Print Assumptions C18_exit_iff_stderr.

(* a missing input file or resource stops with exit 1, a message, and no output at all *)
Theorem C18_missing_input : forall n env o pf files stdin s output err errors r,
  render_inputs n env stdin o pf files s output err errors = inl (CDone r) ->
  r_exit1 r = true /\ r_stderr r <> [] /\ r_stdout r = [] /\ r_outfile r = None.
Proof. intros n env o pf. exact (render_inputs_die n env o pf). Qed.
Print Assumptions C18_missing_input.

Example C18_ex :
  match rimuc_main 40 [$"--safe-mode"; $"1"; $"-p"; $"*pre*"; $"a.rmu"]
                   (mkEnv [] [($"a.rmu", $"<b>x</b> {u}")] (Some $"{rc}='RC'") []) with
  | CDone r => str_eqb (r_stdout r) ($"<p><em>pre</em></p>" ++ [10] ++ $"<p>x {u}</p>") && r_exit1 r && Nat.eqb (length (r_stderr r)) 1
  | _ => false end = true.
Proof. vm_compute. reflexivity. Qed.

(* C01 -- render() is total (partial: see MANIFEST level text).  Property theorems only. *)
From Rimu Require Import Base Regex RegexParse Str Types Tables Guards State Inline Block
  Frame FrameBlock FrameInst OptionsLemmas MiscLemmas Rel RelBlock RelApi PlainDoc Unicode RegexAnalysis MoreLemmas Plain Lines TableFacts RegexSem MatchLemmas Placeholder TaintInline NoRaise NoRaiseTop Taint.

(* option handling never fails, whatever the option values *)
Theorem C01_update_total : forall o s, exists s', updateFrom o s = Ok (tt, s').
Proof. exact updateFrom_total. Qed.
Print Assumptions C01_update_total.

(* the only failure sources of the API are in document.render: if it returns, render returns *)
Theorem C01_api_reduces_to_document : forall n src o s,
  api_render n src o s =
  (let s1 := if (s_mode s =? -1)%Z then document_init s else s in
   match updateFrom o s1 with
   | Ok (_, s2) => doc_render n src s2
   | Raise e => Raise e
   | Fuel => Fuel
   end).
Proof. exact api_render_unfold. Qed.
Print Assumptions C01_api_reduces_to_document.

(* invariants the no-raise argument needs: mode in range, registry duplicate-free *)
Theorem C01_invariants : forall s, reachable s -> (s_mode s = -1 \/ 0 <= s_mode s <= 15)%Z /\ NoDup (s_ids s).
Proof. intros s H. split; [exact (reachable_range s H) | exact (reachable_ids_nodup s H)]. Qed.
Print Assumptions C01_invariants.

(* whether a callback is supplied makes no difference: same HTML or the same failure, the same diagnostic texts,
   and sessions that agree on everything but the callback flag -- for every fuel, source, option values and session *)
Theorem C01_callback_irrelevant : forall n src o1 o2 s,
  same_but_callback o1 o2 ->
  match api_render n src o1 s, api_render n src o2 s with
  | Ok (h1, s1), Ok (h2, s2) =>
      h1 = h2 /\ core s1 = core s2 /\
      exists d1 d2, s_log s1 = d1 ++ s_log s /\ s_log s2 = d2 ++ s_log s /\ map snd d1 = map snd d2
  | Raise e1, Raise e2 => e1 = e2
  | Fuel, Fuel => True
  | _, _ => False
  end.
Proof. exact callback_irrelevant. Qed.
Print Assumptions C01_callback_irrelevant.

(* ... and this persists along a history: sessions that differ only in callback flags and log flags stay so *)
Theorem C01_callback_irrelevant_history : forall ls0 lt0 n src o1 o2 s t,
  same_but_callback o1 o2 -> Rel ls0 lt0 NOCB s t ->
  orel (Rel ls0 lt0 NOCB) (api_render n src o1 s) (api_render n src o2 t).
Proof. exact api_render_callback. Qed.
Print Assumptions C01_callback_irrelevant_history.

(* for such documents rendering provably returns (no Raise, no Fuel) and logs nothing *)
Theorem C01_plain_total : forall n l s,
  quiet_default s -> safe_line l ->
  doc_render (S (S (S (S (S n))))) l s = Ok ($"<p>" ++ escape l ++ $"</p>", s).
Proof. exact plain_line_document. Qed.
Print Assumptions C01_plain_total.

(* the placeholder bookkeeping of the inline renderer cannot underflow: for text free of U+0000..U+0002 (what the reader
   delivers) in an environment whose definitions and replacement option are free of them, spans.render never pops from an
   empty save list -- for every fuel, text and environment (the known finding is exactly the excluded case: an
   htmlReplacement option that itself contains a reserved code point) *)
Theorem C01_inline_no_underflow : forall s n src, env_ok s -> rfree src -> spans_render n s src <> Raise ExPopEmpty.
Proof. exact inline_no_underflow. Qed.
Print Assumptions C01_inline_no_underflow.

(* ... and every session reachable through the API with such option values has such an environment *)
Theorem C01_reachable_env_ok : forall n h, Forall (fun so => opts_ok (snd so)) h -> env_ok (ienv_of (snd (run n S0 h))).
Proof. exact reachable_env_ok. Qed.
Print Assumptions C01_reachable_env_ok.

(* spans.render raises nothing: the assert on the quote definition, the group access of the HTML and entity filters and the
   pop of the saved fragments are unreachable *)
Theorem C01_spans_never_raises : forall s n src e,
  env_ok s -> Forall filt_ok (en_repls s) -> rfree src -> spans_render n s src <> Raise e.
Proof. exact spans_render_never_raises. Qed.
Print Assumptions C01_spans_never_raises.

(* THE EXCEPTIONS THAT CAN ESCAPE render(): from every session satisfying the invariant Sok (all reachable ones, below), for every
   source, fuel and option values with reserved-free replacement text, a failure of the API is one of
     ExIntTooLong   a macro parameter number of more than 4300 digits                    (known finding),
     ExUnsupported  an author pattern outside the modelled regex subset (the comparison skips such cases).
   Unreachable, by proof: re.error, a non-participating group (readTo, list items, definition filters, inline filters),
   an index into an empty match (no line, list or block pattern matches the empty string or a lone backslash; the paragraph
   pattern takes at least the first character), an empty reader at every place that indexes the cursor, the quote assert,
   int() of a malformed parameter number, an empty parameter list, the placeholder pop, the list-id stack pop, and the two
   asserts of the content filters of delimitedblocks.py (their searches succeed: the indented block's opening pattern has a
   group 1 that must hold a non-space character; the macro-definition filter re-reads the name with a pattern built from
   the same pieces as the opening pattern, found by the completeness of the matcher, Proofs/MatchExact.v, FilterLemmas.v). *)
Theorem C01_raises_only : forall n src o s e, opts_ok o -> Sok s -> api_render n src o s = Raise e ->
  e = ExIntTooLong \/ e = ExUnsupported.
Proof. exact api_render_raises_only. Qed.
Print Assumptions C01_raises_only.

Theorem C01_reachable_invariant : forall n h, Forall (fun so => opts_ok (snd so)) h -> Sok (snd (run n S0 h)).
Proof. exact reachable_Sok. Qed.
Print Assumptions C01_reachable_invariant.

Example C01_ex :
  match api_render 40 $"Hello *world*" (mkOpts (PyStr $"junk") (PyInt 5) (PyStr $"maybe") true) S0 with
  | Ok (html, s) => str_eqb html $"<p>Hello <em>world</em></p>" && Nat.eqb (length (s_log s)) 2
  | _ => false end = true.
Proof. vm_compute. reflexivity. Qed.

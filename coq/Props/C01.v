(* C01 -- render() is total (partial: see MANIFEST level text).  Property theorems only. *)
From Rimu Require Import Base Regex RegexParse Str Types Tables Guards State Inline Block
  Frame FrameBlock FrameInst OptionsLemmas MiscLemmas.

(* option handling never fails, whatever the option values *)
Theorem C01_update_total : forall o s, exists s', updateFrom o s = Ok (tt, s').
Proof. exact updateFrom_total. Qed.
Print Assumptions C01_update_total.

(* the only failure sources of the API are in document.render: if it returns, render returns *)
Theorem C01_api_reduces_to_document : forall n src o s,
  api_render n src o s =
  (let s1 := if (s_mode s =? -1)%Z then document_init s else s in
   match updateFrom o s1 with
   | Ok (_, s2) => doc_render n src s2
   | Raise e => Raise e
   | Fuel => Fuel
   end).
Proof. exact api_render_unfold. Qed.
Print Assumptions C01_api_reduces_to_document.

(* invariants the no-raise argument needs: mode in range, registry duplicate-free *)
Theorem C01_invariants : forall s, reachable s -> (s_mode s = -1 \/ 0 <= s_mode s <= 15)%Z /\ NoDup (s_ids s).
Proof. intros s H. split; [exact (reachable_range s H) | exact (reachable_ids_nodup s H)]. Qed.
Print Assumptions C01_invariants.

Example C01_ex :
  match api_render 40 $"Hello *world*" (mkOpts (PyStr $"junk") (PyInt 5) (PyStr $"maybe") true) S0 with
  | Ok (html, s) => str_eqb html $"<p>Hello <em>world</em></p>" && Nat.eqb (length (s_log s)) 2
  | _ => false end = true.
Proof. vm_compute. reflexivity. Qed.

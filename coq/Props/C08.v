(* C08 -- Blocks render independently, in order (partial: see MANIFEST level text). *)
From Rimu Require Import Base Unicode Regex RegexAnalysis RegexParse Str Types Tables Guards State Inline Block
  Frame FrameBlock FrameInst OptionsLemmas MiscLemmas MoreLemmas Plain TableFacts PlainDoc Lines RegexSem MatchLemmas MatchExact ExactTable Locality CodeBlock HeaderDoc ParaDoc Compose QuoteBlock DivBlock ParaInstances.

(* the block loop emits the rendering of the first block followed by the rendering of the rest,
   from the state and reader the first block left *)
Theorem C08_in_order_line_block : forall fuel doc n rd l t out rd' s s1,
  skipBlankLines rd = l :: t ->
  lineblocks_render fuel (l :: t) [] s = Ok ((Some out, rd'), s1) ->
  doc_loop fuel doc (S n) rd s =
  match doc_loop fuel doc n rd' s1 with
  | Ok (rest, s2) => Ok (out ++ rest, s2)
  | Raise e => Raise e
  | Fuel => Fuel
  end.
Proof. exact doc_loop_line_block. Qed.
Print Assumptions C08_in_order_line_block.

Theorem C08_in_order_delimited_block : forall fuel doc n rd l t rd1 rd2 out rd3 s s1 s2 s3,
  skipBlankLines rd = l :: t ->
  lineblocks_render fuel (l :: t) [] s = Ok ((None, rd1), s1) ->
  lists_render fuel doc n rd1 s1 = Ok ((None, rd2), s2) ->
  dblocks_render fuel doc rd2 [] s2 = Ok ((Some out, rd3), s3) ->
  doc_loop fuel doc (S n) rd s =
  match doc_loop fuel doc n rd3 s3 with
  | Ok (rest, s4) => Ok (out ++ rest, s4)
  | Raise e => Raise e
  | Fuel => Fuel
  end.
Proof. exact doc_loop_delimited_block. Qed.
Print Assumptions C08_in_order_delimited_block.

Theorem C08_blank_only : forall fuel doc n rd s, skipBlankLines rd = [] -> doc_loop fuel doc (S n) rd s = Ok ([], s).
Proof. exact doc_loop_blank_only. Qed.
Print Assumptions C08_blank_only.

(* names, tags, container and skip flags of the generated delimited-block table *)
Theorem C08_block_table :
  map block_row dblocks_default =
  [($"macro-definition", [], [], false, false); ($"comment", [], [], false, true);
   ($"division", $"<div>", $"</div>", true, false); ($"quote", $"<blockquote>", $"</blockquote>", true, false);
   ($"code", $"<pre><code>", $"</code></pre>", false, false); ($"html", [], [], false, false);
   ($"indented", $"<pre><code>", $"</code></pre>", false, false);
   ($"quote-paragraph", $"<blockquote><p>", $"</p></blockquote>", false, false);
   ($"paragraph", $"<p>", $"</p>", false, false)].
Proof. exact block_table. Qed.
Print Assumptions C08_block_table.

(* end to end: a one-line document over the safe alphabet (any length) in a session with the default definitions and nothing pending renders to exactly one paragraph holding the escaped line; no diagnostic, session unchanged *)
Theorem C08_plain_paragraph : forall n l s,
  quiet_default s -> safe_line l ->
  doc_render (S (S (S (S (S n))))) l s = Ok ($"<p>" ++ escape l ++ $"</p>", s).
Proof. exact plain_line_document. Qed.
Print Assumptions C08_plain_paragraph.

Example C08_ex :
  match api_render 40 ($"## H" ++ [10;10] ++ $"p1" ++ [10;10] ++ $"..c" ++ [10] ++ $"in" ++ [10] ++ $".." ++ [10;10] ++ $"// x" ++ [10] ++ $"p2")
                   (mkOpts PyNone PyNone PyNone false) S0 with
  | Ok (html, _) => str_eqb html ($"<h2>H</h2>" ++ [10] ++ $"<p>p1</p>" ++ [10] ++ $"<div class=""c""><p>in</p></div>" ++ [10] ++ $"<p>p2</p>")
  | _ => false end = true.
Proof. vm_compute. reflexivity. Qed.

(* dispatch is "the first rule whose pattern has a match on the line": the executable matcher of the model finds a match exactly
   when one exists in the declarative semantics [mx] (anchors, word boundaries, both look-aheads, repetition bounds all
   constrained) -- soundness and completeness of the backtracking matcher, for every pattern whose repetition bodies cannot match
   the empty string (an optional part excepted: it is never iterated twice) and whose look-aheads hold no group; all 82
   generated patterns are of that kind *)
Theorem C08_matcher_sound_and_complete : forall r, wf_exact r = true -> soundX r (exec r) /\ completeX r (exec r).
Proof. exact exec_exact. Qed.
Print Assumptions C08_matcher_sound_and_complete.

Theorem C08_match_iff : forall r i p rest, wf_exact (re_ast r) = true ->
  (match_at r i p rest <> None <-> exists s', mx (re_ast r) (mkSt i p rest []) s').
Proof. exact match_at_iff. Qed.
Print Assumptions C08_match_iff.

Theorem C08_search_complete : forall r pre rest s', wf_exact (re_ast r) = true ->
  mx (re_ast r) (mkSt (lenN pre) (last_of None pre) rest []) s' -> re_search r (pre ++ rest) <> None.
Proof. exact re_search_complete. Qed.
Print Assumptions C08_search_complete.

Theorem C08_patterns_exact :
  forallb (fun nr => wf_exact (re_ast (snd nr)) || mem (fst nr) exact_exceptions) all_regexes = true.
Proof. exact generated_patterns_exact. Qed.
Print Assumptions C08_patterns_exact.

(* A BLOCK'S RENDERING DOES NOT DEPEND ON THE BLOCKS THAT FOLLOW IT: if the block loop takes k blocks (line blocks, lists,
   delimited blocks: prefix_run) from the lines rd and the k-th ends before the end of rd, then from rd ++ suf it takes the same k blocks,
   with the same output and the same session, leaving what was left followed by suf -- for every suffix -- and goes on from there *)
Theorem C08_first_blocks_independent : forall fuel doc suf n rd s o rdk sk n',
  prefix_run fuel doc n rd s o rdk sk n' -> rdk <> [] ->
  prefix_run fuel doc n (rd ++ suf) s o (rdk ++ suf) sk n' /\
  doc_loop fuel doc n (rd ++ suf) s = then_loop o (doc_loop fuel doc n' (rdk ++ suf) sk).
Proof. intros. split; [apply prefix_run_suffix|apply first_blocks_independent]; assumption. Qed.
Print Assumptions C08_first_blocks_independent.

(* the single-block forms, for every definition table and safe mode *)
Theorem C08_line_block_local : forall fuel suf allowed defs cur rest o rd' s s',
  lineblocks_loop fuel defs (cur :: rest) allowed s = Ok ((o, rd'), s') -> rd' <> [] ->
  lineblocks_loop fuel defs (cur :: rest ++ suf) allowed s = Ok ((o, rd' ++ suf), s').
Proof. intros fuel suf allowed. exact (lineblocks_loop_suffix fuel suf allowed). Qed.
Print Assumptions C08_line_block_local.

Theorem C08_delimited_block_local : forall fuel suf doc allowed cur rest o rd' s s',
  dblocks_render fuel doc (cur :: rest) allowed s = Ok ((o, rd'), s') -> rd' <> [] ->
  dblocks_render fuel doc (cur :: rest ++ suf) allowed s = Ok ((o, rd' ++ suf), s').
Proof. exact dblocks_render_suffix. Qed.
Print Assumptions C08_delimited_block_local.

Theorem C08_list_block_local : forall fuel suf doc n cur rest o rd2 s s',
  lists_render fuel doc n (cur :: rest) s = Ok ((o, rd2), s') -> rd2 <> [] ->
  lists_render fuel doc n (cur :: rest ++ suf) s = Ok ((o, rd2 ++ suf), s').
Proof. exact lists_render_suffix. Qed.
Print Assumptions C08_list_block_local.

(* COMMENTS RENDER TO NOTHING, WHATEVER THEY HOLD: for every list of content lines none of which the comment's closing pattern
   matches, the block loop renders  /*  content...  */  to the empty string and leaves the session (log included) unchanged *)
Theorem C08_comment_block_renders_nothing : forall fuel doc n content s, quiet_default s ->
  (forall l, In l content -> re_search (d_closeRe comment_def) l = None) ->
  doc_loop fuel doc (S (S n)) (copen :: content ++ [cclose]) s = Ok ([], s).
Proof. exact comment_block_document. Qed.
Print Assumptions C08_comment_block_renders_nothing.

(* fenced code to pre/code: see C09_fenced_code_verbatim; restated here for the block table of this property *)
Theorem C08_fenced_code_block : forall fuel doc n content s,
  quiet_default s -> Forall nlfree content -> ~ In fence content ->
  doc_loop (S fuel) doc (S (S n)) (fence :: content ++ [fence]) s =
  Ok ($"<pre><code>" ++ escape (join [10] content) ++ $"</code></pre>", code_after s).
Proof. exact code_block_document. Qed.
Print Assumptions C08_fenced_code_block.

(* HEADERS TO h1-h6 BY MARKER LENGTH: the one-line document  #...# title  (one to six hash signs, one blank, a title over the safe
   alphabet starting and ending with a non-space, of any length) renders to <hK>title</hK> where K is the decimal digit of the
   number of hash signs, with the session (log included) unchanged.  The header pattern has one derivation on the line (exact
   semantics: the marker run must be followed by a blank, the lazy title must reach the end because no closing marker can
   follow), the six line rules before the header rule cannot match, the template <h$1>$$2</h$1> is evaluated with the
   cumulative expansion rules of replaceMatch, and the marker text is replaced by its length. *)
Theorem C08_header : forall n mk title s, quiet_default s -> header_ids_off s -> marker_ok mk -> title_ok title ->
  doc_render (S (S (S (S (S n))))) (hd_line mk title) s =
  Ok ($"<h" ++ level_str mk ++ $">" ++ escape title ++ $"</h" ++ level_str mk ++ $">", s).
Proof. exact header_document. Qed.
Print Assumptions C08_header.

Theorem C08_header_level : forall mk, marker_ok mk -> level_str mk = [48 + lenN mk]%N.
Proof. exact level_digit. Qed.
Print Assumptions C08_header_level.

Example C08_ex_header :
  quiet_default (document_init S0) /\ header_ids_off (document_init S0) /\
  match doc_render 8 $"### A title, level 3" (document_init S0) with
  | Ok (html, _) => html = $"<h3>A title, level 3</h3>"
  | _ => False
  end.
Proof. repeat split; vm_compute; reflexivity. Qed.

Example C08_ex_hypotheses : marker_ok $"###" /\ title_ok $"A title, level 3".
Proof.
  split.
  - split; [discriminate|]. split; [intros x Hx; vm_compute in Hx; intuition|vm_compute; repeat constructor].
  - split; [intros x Hx; vm_compute in Hx; vm_compute; intuition|]. eexists _, _. split; [reflexivity|]. split; reflexivity.
Qed.

(* IN ORDER, with verified kinds: a header as the first block of ANY reader is rendered to its element, a newline when something
   follows, and then the rendering of the rest from the same session *)
Theorem C08_header_then_rest : forall f doc n mk title rest s, quiet_default s -> header_ids_off s -> marker_ok mk -> title_ok title ->
  doc_loop (S (S (S f))) doc (S n) (hd_line mk title :: rest) s =
  match doc_loop (S (S (S f))) doc n rest s with
  | Ok (r, s2) => Ok (header_html mk title ++ match rest with [] => [] | _ => [10] end ++ r, s2)
  | Raise e => Raise e
  | Fuel => Fuel
  end.
Proof. exact header_then_rest. Qed.
Print Assumptions C08_header_then_rest.

(* ... and a header, a blank line and a paragraph line (any line with the paragraph hypotheses of ParaDoc.v: plain text, an
   emphasis, an HTML tag, a macro invocation) render to the two elements in order, separated by one newline, session unchanged *)
Theorem C08_header_then_paragraph : forall n k doc mk title l R s, para_line (ienv_of s) l R ->
  quiet_default s -> header_ids_off s -> marker_ok mk -> title_ok title ->
  doc_loop (S (S (S (S n)))) doc (S (S (S k))) [hd_line mk title; []; l] s =
  Ok (header_html mk title ++ [10] ++ $"<p>" ++ R ++ $"</p>", s).
Proof. exact header_then_paragraph. Qed.
Print Assumptions C08_header_then_paragraph.

(* the session a fenced code block leaves (its closing pattern stored in the definition table) is again one all the block
   theorems apply to: quiet_default constrains the table up to the closing patterns of the class-injecting definitions, which
   are written before they are read *)
Theorem C08_quiet_after_code : forall s, quiet_default s -> quiet_default (code_after s).
Proof. exact quiet_code_after. Qed.
Print Assumptions C08_quiet_after_code.

Theorem C08_code_block_then_rest : forall fuel doc n content rest s, quiet_default s -> Forall nlfree content -> ~ In fence content ->
  doc_loop (S fuel) doc (S n) (fence :: content ++ fence :: rest) s =
  match doc_loop (S fuel) doc n rest (code_after s) with
  | Ok (r, s2) => Ok (code_html content ++ match rest with [] => [] | _ => [10] end ++ r, s2)
  | Raise e => Raise e
  | Fuel => Fuel
  end.
Proof. exact code_block_then_rest. Qed.
Print Assumptions C08_code_block_then_rest.

Theorem C08_code_then_paragraph : forall n k doc content l R s, para_line (ienv_of s) l R ->
  quiet_default s -> Forall nlfree content -> ~ In fence content ->
  doc_loop (S (S (S (S n)))) doc (S (S (S k))) (fence :: content ++ fence :: [[]; l]) s =
  Ok (code_html content ++ [10] ++ $"<p>" ++ R ++ $"</p>", code_after s).
Proof. exact code_then_paragraph. Qed.
Print Assumptions C08_code_then_paragraph.

(* A CONTAINER BLOCK: a quote block as the first block of any reader renders to <blockquote> around whatever the nested
   document render makes of its content (any content lines other than the delimiter), then the rest of the reader *)
Theorem C08_quote_block_then_rest : forall fuel doc n content rest s inner s2,
  quiet_default s -> Forall nlfree content -> ~ In qfence content ->
  doc (join [10] content) (quote_open s) = Ok (inner, s2) -> dblocks_std (s_dblocks s2) ->
  doc_loop (S fuel) doc (S n) (qfence :: content ++ qfence :: rest) s =
  match doc_loop (S fuel) doc n rest (set_popts s2 expand_none) with
  | Ok (r, s3) => Ok ($"<blockquote>" ++ inner ++ $"</blockquote>" ++ match rest with [] => [] | _ => [10] end ++ r, s3)
  | Raise e => Raise e
  | Fuel => Fuel
  end.
Proof. exact quote_block_then_rest. Qed.
Print Assumptions C08_quote_block_then_rest.

(* ... and with one paragraph line inside (plain text, an emphasis, an HTML tag, a macro invocation: any line with the paragraph
   hypotheses), from the text through the reader: the nested render is the document renderer itself, one fuel unit lower *)
Theorem C08_quote_paragraph_document : forall n l R s, para_line (ienv_of s) l R -> quiet_default s -> l <> qfence ->
  doc_render (S (S (S (S (S (S (S n))))))) (qfence ++ 10 :: l ++ 10 :: qfence) s =
  Ok ($"<blockquote><p>" ++ R ++ $"</p></blockquote>", quote_open s).
Proof. exact quote_paragraph_document. Qed.
Print Assumptions C08_quote_paragraph_document.

Example C08_ex_quote :
  match doc_render 12 ($"""""" ++ [10] ++ $"hello *w* x" ++ [10] ++ $"""""") (document_init S0) with
  | Ok (html, _) => str_eqb html $"<blockquote><p>hello <em>w</em> x</p></blockquote>" | _ => false end = true.
Proof. vm_compute. reflexivity. Qed.

(* A DIVISION BLOCK WITHOUT CLASS IS OMITTED: .. / content / ..  renders to the nested render of the content alone (the div would
   carry no attribute), then the rest of the reader; with a paragraph line inside, from the text: just the paragraph *)
Theorem C08_division_block_then_rest : forall fuel doc n content rest s inner s2,
  quiet_default s -> Forall nlfree content -> ~ In dfence content ->
  doc (join [10] content) (div_open s) = Ok (inner, s2) -> dblocks_std (s_dblocks s2) ->
  doc_loop (S fuel) doc (S n) (dfence :: content ++ dfence :: rest) s =
  match doc_loop (S fuel) doc n rest (set_popts s2 expand_none) with
  | Ok (r, s3) => Ok (inner ++ (match rest with [] => [] | _ => if nonempty inner then [10] else [] end) ++ r, s3)
  | Raise e => Raise e
  | Fuel => Fuel
  end.
Proof. exact div_block_then_rest. Qed.
Print Assumptions C08_division_block_then_rest.

Theorem C08_division_paragraph_document : forall n l R s, para_line (ienv_of s) l R -> quiet_default s -> l <> dfence ->
  doc_render (S (S (S (S (S (S (S n))))))) (dfence ++ 10 :: l ++ 10 :: dfence) s = Ok ($"<p>" ++ R ++ $"</p>", div_open s).
Proof. exact div_paragraph_document. Qed.
Print Assumptions C08_division_paragraph_document.

Theorem C08_header_then_plain_paragraph : forall n k doc mk title l s,
  quiet_default s -> header_ids_off s -> marker_ok mk -> title_ok title -> safe_line l ->
  doc_loop (S (S (S (S n)))) doc (S (S (S k))) [hd_line mk title; []; l] s =
  Ok (header_html mk title ++ [10] ++ $"<p>" ++ escape l ++ $"</p>", s).
Proof. exact header_then_plain_paragraph. Qed.
Print Assumptions C08_header_then_plain_paragraph.

(* the paragraph-line conditions hold of plain, emphasis and tag lines (and of invocation lines: C11), so every theorem above
   that takes a paragraph line applies to them *)
Theorem C08_plain_is_paragraph_line : forall e l, defaults e -> safe_line l -> para_line e l (escape l).
Proof. exact plain_para_line. Qed.
Print Assumptions C08_plain_is_paragraph_line.

(* C15 -- Element ids are unique unless a duplicate is reported.  Property theorems only. *)
From Rimu Require Import Base Regex RegexParse Str Types Tables Guards State Inline Block
  Frame FrameBlock FrameInst OptionsLemmas MiscLemmas LowerCase LowerIds.

(* the registry of allocated ids of every reachable session has no duplicates *)
Theorem C15_nodup : forall s, reachable s -> NoDup (s_ids s).
Proof. exact reachable_ids_nodup. Qed.
Print Assumptions C15_nodup.

(* a generated header id is never one already in use; the suffix search needs no more than |ids|+1 steps *)
Theorem C15_slug_fresh : forall ids text, mem (slugify ids text) ids = false.
Proof. exact slugify_fresh. Qed.
Print Assumptions C15_slug_fresh.

(* injection either registers an id that was not in use, silently, or keeps the registry and reports a duplicate *)
Theorem C15_register_or_report : forall has_id id s,
  let s' := register_or_report has_id id s in
  (s_ids s' = s_ids s /\ s_log s' = (s_cb s, $"duplicate 'id' attribute: " ++ id) :: s_log s /\ (has_id = true \/ In id (s_ids s)))
  \/ (s_ids s' = id :: s_ids s /\ s_log s' = s_log s /\ ~ In id (s_ids s) /\ has_id = false).
Proof. exact register_or_report_spec. Qed.
Print Assumptions C15_register_or_report.

Theorem C15_decimal_injective : forall a b, str_of_N a = str_of_N b -> a = b.
Proof. exact str_of_N_inj. Qed.
Print Assumptions C15_decimal_injective.

Example C15_ex : slugify [$"a-2"; $"a"] $"A" = $"a-3" /\ slugify [] $"?!" = $"x".
Proof. vm_compute. split; reflexivity. Qed.

(* LOWER CASE.  Every id in the registry of every reachable session is lower-case: the only writer of the registry adds
   lower(pending id), and lower() of the model (ASCII rule plus the table generated from the interpreter) is idempotent.
   The frame obligation for the registry (Frame.fo_ids_cons) carries this premise, so a change that registers an id
   without lower-casing it breaks the proof of every frame theorem *)
Theorem C15_ids_lower_case : forall s, reachable s -> Forall (fun id => lower id = id) (s_ids s).
Proof. exact reachable_ids_lower. Qed.
Print Assumptions C15_ids_lower_case.

Theorem C15_lower_idempotent : forall t, lower (lower t) = lower t.
Proof. exact lower_idem. Qed.
Print Assumptions C15_lower_idempotent.

(* a generated header id is lower-case, with or without numeric suffix *)
Theorem C15_slug_lower_case : forall ids text, lower (slugify ids text) = slugify ids text.
Proof. exact slugify_lower. Qed.
Print Assumptions C15_slug_lower_case.

Example C15_ex_lower : lower [83; 116; 114; 97; 223; 101; 32; 196; 66; 45; 931] = [115; 116; 114; 97; 223; 101; 32; 228; 98; 45; 963] /\ slugify [$"hello-world"] $"Hello, World!" = $"hello-world-2".
Proof. vm_compute. split; reflexivity. Qed.

(* C13 -- The three HTML policies differ only at the HTML elements (partial).  Property theorems only. *)
From Rimu Require Import Base Regex RegexParse Str Types Tables Guards State Inline Block
  Frame FrameBlock FrameInst OptionsLemmas MiscLemmas.

(* the policy is a function of the two low bits of the safe mode only *)
Theorem C13_policy_bits : forall m,
  (Z.land m 3 = 0 -> html_policy m = PRaw)%Z /\ (Z.land m 3 = 1 -> html_policy m = PDrop)%Z /\
  (Z.land m 3 = 2 -> html_policy m = PReplace)%Z /\ (Z.land m 3 = 3 -> html_policy m = PEscape)%Z.
Proof. exact policy_cases. Qed.
Print Assumptions C13_policy_bits.

(* at an HTML element: nothing, one copy of the replacement text, or the escaped element text *)
Theorem C13_policy_cases : forall (s : ienv) html,
  (html_policy (en_mode s) = PDrop -> htmlSafeModeFilter s html = []) /\
  (html_policy (en_mode s) = PReplace -> htmlSafeModeFilter s html = en_repl s) /\
  (html_policy (en_mode s) = PEscape -> htmlSafeModeFilter s html = escape html) /\
  (html_policy (en_mode s) = PRaw -> htmlSafeModeFilter s html = html).
Proof. exact filter_cases. Qed.
Print Assumptions C13_policy_cases.

Example C13_ex : html_policy 13 = PDrop /\ html_policy 6 = PReplace /\ html_policy 11 = PEscape.
Proof. vm_compute. repeat split. Qed.

(* C13 -- The three HTML policies differ only at the HTML elements (partial).  Property theorems only. *)
From Rimu Require Import Base Regex RegexParse Str Types Tables Guards State Inline Block
  Frame FrameBlock FrameInst OptionsLemmas MiscLemmas Plain PlainDoc HtmlTag ParaDoc TagDoc RegexAnalysis QuoteBlock ParaInstances.

(* the policy is a function of the two low bits of the safe mode only *)
Theorem C13_policy_bits : forall m,
  (Z.land m 3 = 0 -> html_policy m = PRaw)%Z /\ (Z.land m 3 = 1 -> html_policy m = PDrop)%Z /\
  (Z.land m 3 = 2 -> html_policy m = PReplace)%Z /\ (Z.land m 3 = 3 -> html_policy m = PEscape)%Z.
Proof. exact policy_cases. Qed.
Print Assumptions C13_policy_bits.

(* at an HTML element: nothing, one copy of the replacement text, or the escaped element text *)
Theorem C13_policy_cases : forall (s : ienv) html,
  (html_policy (en_mode s) = PDrop -> htmlSafeModeFilter s html = []) /\
  (html_policy (en_mode s) = PReplace -> htmlSafeModeFilter s html = en_repl s) /\
  (html_policy (en_mode s) = PEscape -> htmlSafeModeFilter s html = escape html) /\
  (html_policy (en_mode s) = PRaw -> htmlSafeModeFilter s html = html).
Proof. exact filter_cases. Qed.
Print Assumptions C13_policy_cases.

Example C13_ex : html_policy 13 = PDrop /\ html_policy 6 = PReplace /\ html_policy 11 = PEscape.
Proof. vm_compute. repeat split. Qed.

(* THE POLICIES DIFFER AT THE TAG AND NOWHERE ELSE: for every pre and post over letters, digits, blank, full stop and comma,
   every tag name of letters and digits, of any length, and every session with the default definitions,
   spans.render (pre <name> post) = pre . F . post   where F is what the policy of the session's safe mode makes of <name>
   (C13_policy_cases: nothing, the replacement text, the escaped tag; or the tag itself in mode 0).
   The tag is located with the exact regex semantics (one derivation of the generated HTML pattern on <name>...), swapped for
   a placeholder before the quotes pass and restored after it: the surrounding text is rendered identically. *)
Theorem C13_inline_tag : forall n s pre name post,
  defaults s -> RegexAnalysis.over word_alphabet pre -> name_ok2 name -> RegexAnalysis.over word_alphabet name ->
  RegexAnalysis.over word_alphabet post ->
  spans_render (S (S (S (S n)))) s (pre ++ 60 :: name ++ 62 :: post) =
  iret (pre ++ htmlSafeModeFilter s (60 :: name ++ [62]) ++ post).
Proof. exact spans_render_tag. Qed.
Print Assumptions C13_inline_tag.

Example C13_ex_inline_tag :
  let e m := mkIenv m $"<mark>replaced HTML</mark>" quotes_default replacements_default [] in
  spans_render 6 (e 1%Z) $"some <b>bold, text" = iret $"some bold, text" /\
  spans_render 6 (e 2%Z) $"some <b>bold, text" = iret $"some <mark>replaced HTML</mark>bold, text" /\
  spans_render 6 (e 3%Z) $"some <b>bold, text" = iret $"some &lt;b&gt;bold, text" /\
  spans_render 6 (e 0%Z) $"some <b>bold, text" = iret $"some <b>bold, text".
Proof. vm_compute. repeat split. Qed.

(* the same end to end: the one-line document  pre <name> post  renders to  <p>pre F post</p>  with F what the policy of the
   session's safe mode makes of the tag, and the session (log included) unchanged -- so the three policies give documents that
   differ at the tag and nowhere else *)
Theorem C13_tag_document : forall n s c pre name post,
  quiet_default s -> In c word_first -> RegexAnalysis.over word2_alphabet (c :: pre) -> name_ok2 name ->
  RegexAnalysis.over word2_alphabet name -> RegexAnalysis.over word2_alphabet post ->
  doc_render (S (S (S (S (S (S n)))))) ((c :: pre) ++ 60 :: name ++ 62 :: post) s =
  Ok ($"<p>" ++ ((c :: pre) ++ htmlSafeModeFilter (ienv_of s) (60 :: name ++ [62]) ++ post) ++ $"</p>", s).
Proof. exact tag_document. Qed.
Print Assumptions C13_tag_document.

(* through rimu.render, for every option set of the call: with safeMode 1, 2, 3 (and equal higher bits) s1 differs in the mode
   only, so the three documents differ exactly by F *)
Theorem C13_tag_api : forall n o s s1 c pre name post,
  updateFrom o (if (s_mode s =? -1)%Z then document_init s else s) = Ok (tt, s1) -> quiet_default s1 ->
  In c word_first -> RegexAnalysis.over word2_alphabet (c :: pre) -> name_ok2 name -> RegexAnalysis.over word2_alphabet name ->
  RegexAnalysis.over word2_alphabet post ->
  api_render (S (S (S (S (S (S n)))))) ((c :: pre) ++ 60 :: name ++ 62 :: post) o s =
  Ok ($"<p>" ++ ((c :: pre) ++ htmlSafeModeFilter (ienv_of s1) (60 :: name ++ [62]) ++ post) ++ $"</p>", s1).
Proof. exact tag_api. Qed.
Print Assumptions C13_tag_api.

Example C13_ex_hypotheses : name_ok2 $"b" /\ name_ok2 $"span" /\ RegexAnalysis.over word_alphabet $"some ".
Proof.
  split; [|split].
  - eexists _, _. split; [reflexivity|]. split; [reflexivity|]. split; [intros x []|split; discriminate].
  - eexists _, _. split; [reflexivity|]. split; [reflexivity|]. split; [intros x Hx; vm_compute in Hx; intuition; subst; reflexivity|split; discriminate].
  - intros x Hx. vm_compute in Hx. vm_compute. intuition.
Qed.

(* INSIDE A CONTAINER the policies still differ at the tag and nowhere else: a quote block holding the line pre<name>post renders
   to <blockquote><p>pre F post</p></blockquote> with F what the policy makes of the tag; the delimiters, the paragraph and the
   surrounding text are the same under every policy *)
Theorem C13_tag_in_quote_block : forall n c pre name post s,
  quiet_default s -> In c word_first -> over word2_alphabet (c :: pre) -> name_ok2 name -> over word2_alphabet name -> over word2_alphabet post ->
  doc_render (S (S (S (S (S (S (S n))))))) (qfence ++ 10 :: ((c :: pre) ++ 60 :: name ++ 62 :: post) ++ 10 :: qfence) s =
  Ok ($"<blockquote><p>" ++ ((c :: pre) ++ htmlSafeModeFilter (ienv_of s) (60 :: name ++ [62]) ++ post) ++ $"</p></blockquote>", quote_open s).
Proof. exact quote_tag_paragraph. Qed.
Print Assumptions C13_tag_in_quote_block.

(* C06 -- Generated markup is balanced (partial: see MANIFEST level text).  Property theorems only. *)
From Rimu Require Import Base Unicode Regex RegexAnalysis RegexParse Str Types Tables Guards State Inline Block
  Frame FrameBlock FrameInst OptionsLemmas MiscLemmas MoreLemmas Plain TableFacts QuoteNest.

(* every tag-bearing template in the generated definition tables (quotes, replacements, line blocks,
   delimited blocks, lists) is balanced, br and img being the only void elements *)
Theorem C06_templates_balanced : forallb template_balanced all_templates = true.
Proof. exact templates_balanced. Qed.
Print Assumptions C06_templates_balanced.

Theorem C06_default_replacement_balanced : template_balanced default_htmlReplacement = true.
Proof. exact default_replacement_balanced. Qed.
Print Assumptions C06_default_replacement_balanced.

(* the source cannot replace those templates in a non-zero safe mode *)
Theorem C06_definitions_fixed : forall n src s html s',
  s_mode s <> 0%Z -> doc_render n src s = Ok (html, s') -> protected s' = protected s.
Proof. exact doc_render_protected. Qed.
Print Assumptions C06_definitions_fixed.

Theorem C06_blocks_escape_or_filter :
  forallb (fun d => truthy (e_specials (d_expand d)) || mem (d_name d) [$"macro-definition"; $"html"]) dblocks_default = true.
Proof. exact blocks_escape_or_filter. Qed.
Print Assumptions C06_blocks_escape_or_filter.

Theorem C06_list_wrapped : forall fuel doc n it rd s out nx rd' s',
  renderList fuel doc n it rd s = Ok ((out, nx, rd'), s') ->
  exists o body, out = o ++ body ++ li_listClose (it_def it).
Proof. exact renderList_wrapped. Qed.
Print Assumptions C06_list_wrapped.

Example C06_ex : template_balanced $"<a href=""x""><b>t</b><br></a>" = true /\ template_balanced $"<em><b></em></b>" = false.
Proof. vm_compute. split; reflexivity. Qed.

(* QUOTE TAGS NEST: for every table of quote definitions, text and fuel, the fragments the quotes pass produces are properly
   nested -- every opening tag of a definition is followed, after a properly nested run, by the closing tag of the same
   definition; text fragments are escaped later (no raw angle bracket, C03_escape_confined), the content of a non-nesting quote
   (code) is one opaque fragment.  spans.render runs the pass on one text fragment (the placeholder text) *)
Theorem C06_quote_tags_nested : forall qs qre n text l, fragQuote n qs qre text = Ok l -> nested qs l.
Proof. exact fragQuote_nested. Qed.
Print Assumptions C06_quote_tags_nested.

Theorem C06_quotes_pass_nested : forall qs n text l, fragQuotes n qs [undone text] = Ok l -> nested qs l.
Proof. exact quotes_pass_nested. Qed.
Print Assumptions C06_quotes_pass_nested.

(* C09 -- Code is verbatim (partial: see MANIFEST level text).  Property theorems only. *)
From Rimu Require Import Base Regex RegexParse Str Types Tables Guards State Inline Block
  Frame FrameBlock FrameInst OptionsLemmas MiscLemmas MoreLemmas Plain MatchExact Emphasis PlainDoc Lines CodeBlock RegexAnalysis IndentDoc.

(* the code and indented definitions of the generated table expand specials only
   (macros, spans, container, skip all off) and wrap in <pre><code> *)
Theorem C09_code_blocks_verbatim :
  match def_named $"code", def_named $"indented" with
  | Some c, Some i => verbatim_expand (d_expand c) && verbatim_expand (d_expand i) &&
                      str_eqb (d_openTag c) $"<pre><code>" && str_eqb (d_closeTag c) $"</code></pre>" &&
                      str_eqb (d_openTag i) $"<pre><code>" && str_eqb (d_closeTag i) $"</code></pre>"
  | _, _ => false
  end = true.
Proof. exact code_blocks_verbatim. Qed.
Print Assumptions C09_code_blocks_verbatim.

(* under such an expansion the content is exactly escaped: no macro, quote, link or tag is interpreted *)
Theorem C09_verbatim_is_escape : forall mr sr t e,
  verbatim_expand e = true -> replaceInline mr sr (Some t) e = iret (escape t).
Proof. exact replaceInline_verbatim. Qed.
Print Assumptions C09_verbatim_is_escape.

(* every quote that produces <code> has spans off *)
Theorem C09_code_quotes_no_spans :
  forallb (fun q => if str_eqb (q_open q) $"<code>" then negb (q_spans q) && str_eqb (q_close q) $"</code>" else true)
          quotes_default = true /\
  existsb (fun q => str_eqb (q_quote q) $"`") quotes_default = true.
Proof. exact code_quotes_no_spans. Qed.
Print Assumptions C09_code_quotes_no_spans.

Theorem C09_escape_only : forall s, ~ In 60 (escape s) /\ ~ In 62 (escape s).
Proof. exact escape_no_lt_gt. Qed.
Print Assumptions C09_escape_only.

Example C09_ex :
  match api_render 40 ($"``" ++ [10] ++ $"*a* <b> {m} [l](u)" ++ [10] ++ $"``") (mkOpts PyNone PyNone PyNone false) S0 with
  | Ok (html, _) => str_eqb html $"<pre><code>*a* &lt;b&gt; {m} [l](u)</code></pre>"
  | _ => false end = true.
Proof. vm_compute. reflexivity. Qed.

(* THE INLINE CODE QUOTE IS FOUND AND ITS CONTENT IS VERBATIM: for every pre and post over the plain alphabet and every body over
   the plain alphabet plus the star (starting and ending with a non-space), of any length,
   spans.render (pre ` body ` post) = escape pre . <code> . escape body . </code> . escape post
   -- so a *star* inside the code quote is not emphasis; the delimiters are located with the exact regex semantics *)
Theorem C09_code_quote_verbatim : forall n s pre body post,
  defaults s -> RegexAnalysis.over plain_alphabet pre -> code_body_ok body -> RegexAnalysis.over plain_alphabet post ->
  spans_render (S (S (S (S n)))) s (pre ++ tick :: body ++ tick :: post) =
  iret (escape pre ++ $"<code>" ++ escape body ++ $"</code>" ++ escape post).
Proof. exact spans_render_code. Qed.
Print Assumptions C09_code_quote_verbatim.

Example C09_ex_code_quote :
  spans_render 6 (ienv_of (document_init S0)) $"Use `a *b* < c` here." = iret $"Use <code>a *b* &lt; c</code> here.".
Proof. vm_compute. reflexivity. Qed.

(* A FENCED CODE BLOCK IS VERBATIM, WHATEVER IT HOLDS: for every list of content lines -- any characters at all except a line
   terminator inside a line, none of the lines being the closing fence itself -- the block loop renders  ``  content...  ``
   to <pre><code> escape(content joined by newlines) </code></pre> : quotes, tags, macro invocations, Block Attributes,
   list markers, definitions in the content are not interpreted.  (Session afterwards: the code definition has stored the
   closing pattern built from the fence, nothing else changed.) *)
Theorem C09_fenced_code_verbatim : forall fuel doc n content s,
  quiet_default s -> Forall nlfree content -> ~ In fence content ->
  doc_loop (S fuel) doc (S (S n)) (fence :: content ++ [fence]) s =
  Ok ($"<pre><code>" ++ escape (join [10] content) ++ $"</code></pre>", code_after s).
Proof. exact code_block_document. Qed.
Print Assumptions C09_fenced_code_verbatim.

(* the closing pattern built from a fence matches exactly the line that is the fence *)
Theorem C09_closing_fence_exact : forall d l, nlfree l -> l <> d -> re_search (lit_close d) l = None.
Proof. exact lit_close_search_none. Qed.
Print Assumptions C09_closing_fence_exact.

Example C09_ex_fenced :
  match doc_render 9 ($"``" ++ [10] ++ $"*not em* <b> {macro} .attr" ++ [10] ++ $"- not a list" ++ [10] ++ $"``") (document_init S0) with
  | Ok (html, _) => html = $"<pre><code>*not em* &lt;b&gt; {macro} .attr" ++ [10] ++ $"- not a list</code></pre>"
  | _ => False
  end.
Proof. vm_compute. reflexivity. Qed.

(* AN INDENTED PARAGRAPH IS VERBATIM, end to end: the one-line document  <blanks><text>  (one or more spaces, then text over the
   safe alphabet starting with a non-space) renders to <pre><code>escaped text</code></pre>: the indentation is removed, nothing in
   the text is interpreted, the session is unchanged.  None of the 12 line rules, 3 list rules and 6 earlier block rules matches a
   line that starts with a blank (first-character analysis of the generated patterns), the opening pattern has one derivation,
   and the indentation filter is evaluated symbolically on the line *)
Theorem C09_indented_verbatim : forall n sp body s, quiet_default s -> spaces sp -> ind_body_ok body ->
  doc_render (S (S (S n))) (ind_line sp body) s = Ok ($"<pre><code>" ++ escape body ++ $"</code></pre>", s).
Proof. exact indented_document. Qed.
Print Assumptions C09_indented_verbatim.

Theorem C09_indentation_removed : forall sp body, spaces sp -> ind_body_ok body -> indentedContentFilter (ind_line sp body) = Ok body.
Proof. exact indented_filter. Qed.
Print Assumptions C09_indentation_removed.

Example C09_ex_indented :
  match doc_render 8 ($"   hello *w* > x") (document_init S0) with
  | Ok (html, _) => str_eqb html $"<pre><code>hello *w* &gt; x</code></pre>" | _ => false end = true.
Proof. vm_compute. reflexivity. Qed.

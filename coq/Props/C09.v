(* C09 -- Code is verbatim (partial: see MANIFEST level text).  Property theorems only. *)
From Rimu Require Import Base Regex RegexParse Str Types Tables Guards State Inline Block
  Frame FrameBlock FrameInst OptionsLemmas MiscLemmas MoreLemmas.

(* the code and indented definitions of the generated table expand specials only
   (macros, spans, container, skip all off) and wrap in <pre><code> *)
Theorem C09_code_blocks_verbatim :
  match def_named $"code", def_named $"indented" with
  | Some c, Some i => verbatim_expand (d_expand c) && verbatim_expand (d_expand i) &&
                      str_eqb (d_openTag c) $"<pre><code>" && str_eqb (d_closeTag c) $"</code></pre>" &&
                      str_eqb (d_openTag i) $"<pre><code>" && str_eqb (d_closeTag i) $"</code></pre>"
  | _, _ => false
  end = true.
Proof. exact code_blocks_verbatim. Qed.
Print Assumptions C09_code_blocks_verbatim.

(* under such an expansion the content is exactly escaped: no macro, quote, link or tag is interpreted *)
Theorem C09_verbatim_is_escape : forall mr sr t e,
  verbatim_expand e = true -> replaceInline mr sr (Some t) e = iret (escape t).
Proof. exact replaceInline_verbatim. Qed.
Print Assumptions C09_verbatim_is_escape.

(* every quote that produces <code> has spans off *)
Theorem C09_code_quotes_no_spans :
  forallb (fun q => if str_eqb (q_open q) $"<code>" then negb (q_spans q) && str_eqb (q_close q) $"</code>" else true)
          quotes_default = true /\
  existsb (fun q => str_eqb (q_quote q) $"`") quotes_default = true.
Proof. exact code_quotes_no_spans. Qed.
Print Assumptions C09_code_quotes_no_spans.

Theorem C09_escape_only : forall s, ~ In 60 (escape s) /\ ~ In 62 (escape s).
Proof. exact escape_no_lt_gt. Qed.
Print Assumptions C09_escape_only.

Example C09_ex :
  match api_render 40 ($"``" ++ [10] ++ $"*a* <b> {m} [l](u)" ++ [10] ++ $"``") (mkOpts PyNone PyNone PyNone false) S0 with
  | Ok (html, _) => str_eqb html $"<pre><code>*a* &lt;b&gt; {m} [l](u)</code></pre>"
  | _ => false end = true.
Proof. vm_compute. reflexivity. Qed.

(* Reserved code points never reach the output: the inline layer (macros.render, on top of the
   placeholder protocol) and then every block-layer function, for sessions whose definitions and
   replacement option are free of U+0000..U+0002 -- an invariant of every reachable session. *)
From Rimu Require Import Base Unicode Regex RegexSem RegexParse Str Types Tables Guards State Inline Block MatchLemmas Placeholder.
From Coq Require Import Lia.
Local Open Scope monad_scope.

(* ---- string operations keep character predicates ---- *)
Lemma allc_tl P s : allc P s -> allc P (tl s).
Proof. destruct s; [auto|]. intros H. apply allc_cons in H. apply H. Qed.

Lemma allc_rev_append P a : forall b, allc P a -> allc P b -> allc P (rev_append a b).
Proof.
  induction a as [|x a IH]; intros b Ha Hb; simpl; [exact Hb|]. apply allc_cons in Ha as [Hx Ha].
  apply IH; [exact Ha|]. apply allc_cons. auto.
Qed.

Lemma allc_frev P s : allc P s -> allc P (frev s).
Proof. intros H. unfold frev. apply allc_rev_append; [exact H|apply allc_nil]. Qed.

Lemma allc_lstrip P s : allc P s -> allc P (lstrip s).
Proof. induction s as [|x t IH]; intros H; simpl; [exact H|]. destruct (is_space x); [apply IH; apply allc_cons in H; apply H|exact H]. Qed.

Lemma allc_strip P s : allc P s -> allc P (strip s).
Proof. intros H. unfold strip, rstrip. apply allc_frev, allc_lstrip, allc_frev, allc_lstrip, H. Qed.

Lemma allc_takeN P s : forall n, allc P s -> allc P (takeN n s).
Proof.
  induction s as [|x t IH]; intros n H; simpl; [exact H|]. destruct (n =? 0); [apply allc_nil|].
  apply allc_cons in H as [Hx Ht]. apply allc_cons. auto.
Qed.

Lemma allc_dropN P s : forall n, allc P s -> allc P (dropN n s).
Proof.
  induction s as [|x t IH]; intros n H; simpl; [exact H|]. destruct (n =? 0); [exact H|].
  apply allc_cons in H as [Hx Ht]. auto.
Qed.

Lemma allc_drop_last P s : allc P s -> allc P (drop_last s).
Proof. intros H. unfold drop_last. apply allc_frev, allc_tl, allc_frev, H. Qed.

Lemma allc_split_char_aux P c s : forall cur, allc P s -> allc P cur -> Forall (allc P) (split_char_aux c s cur).
Proof.
  induction s as [|x t IH]; intros cur Hs Hc; simpl.
  - constructor; [apply allc_frev; exact Hc|constructor].
  - apply allc_cons in Hs as [Hx Ht]. destruct (x =? c).
    + constructor; [apply allc_frev; exact Hc|]. apply IH; [exact Ht|apply allc_nil].
    + apply IH; [exact Ht|]. apply allc_cons. auto.
Qed.

Lemma allc_split_char P c s : allc P s -> Forall (allc P) (split_char c s).
Proof. intros H. apply allc_split_char_aux; [exact H|apply allc_nil]. Qed.

Lemma allc_join P sep l : allc P sep -> Forall (allc P) l -> allc P (join sep l).
Proof.
  intros Hs. induction 1 as [|x l Hx Hl IH]; [apply allc_nil|]. cbn [join]. destruct l as [|y l]; [exact Hx|].
  apply allc_app. split; [exact Hx|]. apply allc_app. split; [exact Hs|exact IH].
Qed.

Lemma allc_replace_first P old new : allc P new -> forall s, allc P s -> allc P (replace_first old new s).
Proof.
  intros Hn. induction s as [|x t IH]; intros Hs; simpl.
  - destruct (drop_prefix old []) as [rest|] eqn:E; [|apply allc_nil].
    destruct old; [apply allc_nil|]. simpl in E. discriminate.
  - destruct (drop_prefix old (x :: t)) as [rest|] eqn:E.
    + destruct old; [exact Hs|]. apply drop_prefix_app in E. rewrite E in Hs. apply allc_app in Hs as [_ Hr].
      apply allc_app. auto.
    + apply allc_cons in Hs as [Hx Ht]. apply allc_cons. auto.
Qed.

Lemma allc_replace_all' P old new s : allc P new -> allc P s -> allc P (replace_all old new s).
Proof. intros. apply allc_replace_all; auto. Qed.

Lemma allc_filter_lines P (f : str -> bool) l : Forall (allc P) l -> Forall (allc P) (filter f l).
Proof. induction 1 as [|x l Hx Hl IH]; simpl; [constructor|]. destruct (f x); [constructor; auto|auto]. Qed.

Lemma re_sub_allc P r f s : allc P s -> (forall m, (forall k, allc P (grp_s m k)) -> allc P (f m)) -> allc P (re_sub r f s).
Proof.
  intros Hs Hf. unfold re_sub. destruct (re_scan r s) as [l tl] eqn:E.
  apply (re_scan_allc P) in E as [Hl Htl]; [|exact Hs]. apply allc_app. split; [|exact Htl].
  apply allc_concat. rewrite Forall_forall in *. intros x Hx. apply in_map_iff in Hx as (bm & <- & Hb).
  destruct (Hl bm Hb) as [H1 H2]. apply allc_app. split; [exact H1|]. apply Hf. intros k.
  unfold grp_s. destruct (grp (snd bm) k) eqn:Eg; [eapply H2; eauto|apply allc_nil].
Qed.

(* lower-casing: the generated table maps nothing to a reserved code point *)
Lemma lower_table_ok : forallb (fun e => forallb (fun x => 2 <? x) (snd e)) lower_table = true.
Proof. vm_compute. reflexivity. Qed.

Lemma rfree_lower s : rfree s -> rfree (lower s).
Proof.
  intros H. unfold lower. apply allc_flat_map. intros x Hx. apply H in Hx. unfold lower_char.
  cbv beta in Hx.
  destruct ((65 <=? x) && (x <=? 90)); [intros y [<-|[]]; cbv beta; lia|].
  destruct (x <? 128); [intros y [<-|[]]; exact Hx|].
  destruct (find _ lower_table) as [[k l]|] eqn:E; [|intros y [<-|[]]; exact Hx].
  apply find_some in E as [E _]. pose proof lower_table_ok as T. rewrite forallb_forall in T. apply T in E. cbn in E.
  apply rfreeb_spec. exact E.
Qed.

Lemma rfree_digits : forall fuel n acc, rfree acc -> rfree (digits_fuel fuel n acc).
Proof.
  induction fuel as [|f IH]; intros n acc H; cbn [digits_fuel]; [exact H|].
  assert (H' : rfree ((48 + n mod 10) :: acc)).
  { apply allc_cons; split; [|exact H]. cbv beta. generalize (n mod 10). intros k. lia. }
  destruct (n <? 10); [exact H'|apply IH; exact H'].
Qed.

Lemma rfree_str_of_N n : rfree (str_of_N n).
Proof. apply rfree_digits, allc_nil. Qed.

Ltac rf_lit := apply rfreeb_spec; vm_compute; reflexivity.

(* ---- the inline monad: sequences ---- *)
Lemma imapM_good {A B} (P : A -> Prop) (Q : B -> Prop) (f : A -> I B) l :
  (forall a, P a -> good Q (f a)) -> Forall P l -> good (Forall Q) (imapM f l).
Proof.
  intros Hf. induction 1 as [|a l Ha Hl IH]; cbn [imapM]; [constructor|].
  eapply good_bind; [apply Hf; exact Ha|]. intros y Hy. eapply good_bind; [exact IH|]. intros ys Hys. constructor; auto.
Qed.

Lemma grp_s_allc P m : (forall k t, grp m k = Some t -> allc P t) -> forall k, allc P (grp_s m k).
Proof. intros H k. unfold grp_s. destruct (grp m k) eqn:E; [eapply H; eauto|apply allc_nil]. Qed.

Lemma isub_good2 (P Q : char -> Prop) r f s : (forall x, P x -> Q x) -> allc P s ->
  (forall m, (forall k, allc P (grp_s m k)) -> good (allc Q) (f m)) -> good (allc Q) (isub r f s).
Proof.
  intros PQ Hs Hf. unfold isub. destruct (re_scan r s) as [l tl] eqn:E.
  apply (re_scan_allc P) in E as [Hl Htl]; [|exact Hs].
  assert (W : forall t, allc P t -> allc Q t) by (intros t Ht x Hx; apply PQ, Ht, Hx).
  eapply good_bind with (P := Forall (allc Q)).
  - eapply imapM_good with (P := fun bm => allc P (fst bm) /\ forall k t, grp (snd bm) k = Some t -> allc P t); [|exact Hl].
    intros bm [H1 H2]. eapply good_bind; [apply Hf; apply grp_s_allc; exact H2|].
    intros x Hx. apply allc_app. auto.
  - intros parts Hp. apply allc_app. split; [apply allc_concat; exact Hp|apply W; exact Htl].
Qed.

Lemma isub_good P r f s : allc P s -> (forall m, (forall k, allc P (grp_s m k)) -> good (allc P) (f m)) ->
  good (allc P) (isub r f s).
Proof. apply isub_good2. auto. Qed.

(* ---- macros.render ---- *)
Record ienv_ok (s : ienv) : Prop := {
  io_env : env_ok s;
  io_macros : Forall (fun nv => rfree (snd nv)) (en_macros s) }.

Definition p2 (x : char) : Prop := 2 <= x.   (* reserved-free apart from the line-deletion flag *)

Lemma rfree_p2 s : rfree s -> allc p2 s.
Proof. intros H x Hx. apply H in Hx. unfold p2. lia. Qed.

Lemma p2_no2_rfree s : allc p2 s -> existsb (N.eqb 2) s = false -> rfree s.
Proof.
  intros H E x Hx. specialize (H x Hx). unfold p2 in H.
  destruct (N.eq_dec x 2) as [->|Hn]; [|lia].
  exfalso. assert (existsb (N.eqb 2) s = true) by (apply existsb_exists; exists 2; split; [exact Hx|reflexivity]). congruence.
Qed.

Lemma assoc_get_In name l v : assoc_get name l = Some v -> exists n, In (n, v) l.
Proof.
  induction l as [|[n v'] l IH]; simpl; [discriminate|]. destruct (str_eqb n name).
  - intros H. inversion H; subst. exists n. left. reflexivity.
  - intros H. destruct (IH H) as (n' & Hn). exists n'. right. exact Hn.
Qed.

Section Macros.
Variable s : ienv.
Variable sr : str -> I str.
Hypothesis Hs : ienv_ok s.
Hypothesis Hsr : sr_ok sr.

Lemma getValue_rfree name v : getValue s name = Some v -> rfree v.
Proof.
  intros H. apply assoc_get_In in H as (n & Hn). destruct Hs as [_ Hm]. rewrite Forall_forall in Hm. apply (Hm _ Hn).
Qed.

Lemma param_repl_good params m : Forall rfree params -> (forall k, rfree (grp_s m k)) -> good rfree (param_repl sr params m).
Proof.
  intros Hp Hm. unfold param_repl.
  destruct (starts_with [92] (grp0 m)); [apply allc_tl; apply (Hm O)|].
  destruct (py_int (grp_s m 2)) as [pz| |]; [|discriminate|discriminate].
  destruct (pz =? 0)%Z; [apply (Hm O)|].
  set (param0 := if (Z.of_nat (length params) <? pz)%Z then [] else nth (Z.to_nat pz - 1) params []).
  assert (H0 : rfree param0).
  { unfold param0. destruct (_ <? _)%Z; [apply allc_nil|].
    destruct (nth_in_or_default (Z.to_nat pz - 1) params []) as [Hin | ->]; [|apply allc_nil].
    rewrite Forall_forall in Hp. apply Hp. exact Hin. }
  set (param := if nonempty (grp_s m 3) then _ else param0).
  assert (H1 : rfree param).
  { unfold param. destruct (nonempty (grp_s m 3)); [|exact H0].
    destruct (starts_with [92] (grp_s m 3)); [apply allc_app; split; [exact H0|apply allc_tl, Hm]|].
    destruct (is_empty param0); [|exact H0]. apply allc_replace_all'; [rf_lit|apply Hm]. }
  destruct (str_eqb (grp_s m 1) _); [apply Hsr; exact H1|exact H1].
Qed.

Lemma macro_repl_simple_good text silent m : (forall k, rfree (grp_s m k)) ->
  good rfree (macro_repl sr s text silent true m).
Proof.
  intros Hm. unfold macro_repl.
  destruct (starts_with [92] (grp0 m)); [apply allc_tl, (Hm O)|].
  destruct (starts_with [63] (grp_s m 2)).
  { eapply good_bind with (P := fun _ => True); [destruct silent; exact Logic.I|]. intros _ _. apply (Hm O). }
  destruct (getValue s (grp_s m 1)) as [value|] eqn:Ev.
  2:{ eapply good_bind with (P := fun _ => True); [destruct silent; exact Logic.I|]. intros _ _. apply (Hm O). }
  apply getValue_rfree in Ev. exact Ev.
Qed.

Lemma macro_repl_good text silent m : (forall k, rfree (grp_s m k)) ->
  good (allc p2) (macro_repl sr s text silent false m).
Proof.
  intros Hm. unfold macro_repl.
  destruct (starts_with [92] (grp0 m)); [apply rfree_p2, allc_tl, (Hm O)|].
  destruct (starts_with [63] (grp_s m 2)).
  { eapply good_bind with (P := fun _ => True); [destruct silent; exact Logic.I|]. intros _ _. apply rfree_p2, (Hm O). }
  destruct (getValue s (grp_s m 1)) as [value|] eqn:Ev.
  2:{ eapply good_bind with (P := fun _ => True); [destruct silent; exact Logic.I|]. intros _ _. apply rfree_p2, (Hm O). }
  apply getValue_rfree in Ev.
  destruct (replace_all _ _ (grp_s m 2)) as [|c ptail] eqn:Ep; [discriminate|].
  assert (Hpt : rfree (c :: ptail)).
  { rewrite <- Ep. apply allc_replace_all'; [rf_lit|apply Hm]. }
  apply allc_cons in Hpt as [_ Hpt].
  destruct (c =? 124).
  { eapply good_weaken; [apply rfree_p2|]. apply isub_good; [exact Ev|]. intros m' Hm'.
    apply param_repl_good; [apply allc_split_char; exact Hpt|exact Hm']. }
  destruct ((c =? 33) || (c =? 61)).
  2:{ eapply good_bind with (P := fun _ => True); [exact Logic.I|]. intros _ _. apply allc_nil. }
  destruct (parse_regex _ false false) as [rx| |]; [| |discriminate].
  - cbn. destruct (if c =? 33 then _ else _); [intros x [<-|[]]; unfold p2; lia|apply allc_nil].
  - eapply good_bind with (P := fun _ => True); [destruct silent; exact Logic.I|]. intros _ _. apply rfree_p2, (Hm O).
Qed.

Lemma macros_render_good text silent : rfree text -> good rfree (macros_render sr s text silent).
Proof.
  intros Ht. unfold macros_render.
  eapply good_bind with (P := rfree).
  { apply isub_good; [exact Ht|]. intros m Hm. apply macro_repl_simple_good. exact Hm. }
  intros r1 H1. eapply good_bind with (P := allc p2).
  { apply isub_good2 with (P := fun x => 2 < x); [intros x Hx; unfold p2; lia|exact H1|].
    intros m Hm. apply macro_repl_good. exact Hm. }
  intros r2 H2. destruct (existsb (N.eqb 2) r2) eqn:E.
  - apply allc_join; [intros x [<-|[]]; cbv beta; lia|].
    pose proof (allc_split_char p2 10 r2 H2) as Hl. induction Hl as [|l ls Hl Hls IH]; cbn [filter]; [constructor|].
    destruct (existsb (N.eqb 2) l) eqn:El; cbn [negb]; [exact IH|]. constructor; [apply p2_no2_rfree; auto|exact IH].
  - apply p2_no2_rfree; auto.
Qed.
End Macros.

(* ---- inline entry points used by the block layer ---- *)
Lemma spans_ok fuel s : ienv_ok s -> sr_ok (spans_render fuel s).
Proof. intros [He _]. apply spans_render_good. exact He. Qed.

Lemma macros_top_ok fuel s silent : ienv_ok s -> sr_ok (fun t => macros_render_top fuel s t silent).
Proof. intros Hs t Ht. apply macros_render_good; auto using spans_ok. Qed.

Lemma replaceInline_top_good fuel s t e : ienv_ok s -> rfree t -> good rfree (replaceInline_top fuel s (Some t) e).
Proof. intros Hs Ht. apply replaceInline_good; auto using spans_ok, macros_top_ok. Qed.

Lemma replaceMatch_top_good fuel s m ng repl e : ienv_ok s -> (forall k, rfree (grp_s m k)) -> rfree repl ->
  good rfree (replaceMatch_top fuel s m ng repl e).
Proof. intros Hs Hm Hr. apply replaceMatch_good; auto using spans_ok, macros_top_ok. Qed.

(* ---- the session invariant ---- *)
Definition dok (d : ddef) : Prop := rfree (d_openTag d) /\ rfree (d_closeTag d).

Record Sok (s : session) : Prop := {
  so_env : ienv_ok (ienv_of s);
  so_dblocks : Forall dok (s_dblocks s);
  so_classes : rfree (p_classes s);
  so_id : rfree (p_id s);
  so_css : rfree (p_css s);
  so_attrs : rfree (p_attrs s) }.

Definition tok {A} (Q : A -> Prop) (m : M A) : Prop :=
  forall s, Sok s -> match m s with Ok (a, s') => Q a /\ Sok s' | _ => True end.

Lemma tok_ret {A} (Q : A -> Prop) a : Q a -> tok Q (ret a).
Proof. intros H s Hs. simpl. auto. Qed.

Lemma tok_raise {A} (Q : A -> Prop) e : tok Q (@raise A e).
Proof. intros s Hs. exact Logic.I. Qed.

Lemma tok_fuel {A} (Q : A -> Prop) : tok Q (@out_of_fuel A).
Proof. intros s Hs. exact Logic.I. Qed.

Lemma tok_bind {A B} (P : A -> Prop) (Q : B -> Prop) (m : M A) (f : A -> M B) :
  tok P m -> (forall a, P a -> tok Q (f a)) -> tok Q (bind m f).
Proof.
  intros Hm Hf s Hs. specialize (Hm s Hs). unfold bind. destruct (m s) as [[a s1]|e|]; auto.
  destruct Hm as [Ha H1]. apply Hf; auto.
Qed.

Lemma tok_weaken {A} (P Q : A -> Prop) m : (forall a, P a -> Q a) -> tok P m -> tok Q m.
Proof. intros W H s Hs. specialize (H s Hs). destruct (m s) as [[a s1]|e|]; auto. destruct H; auto. Qed.

(* reading the state: the continuation is verified for every value read from a good session *)
Lemma tok_bind_gets {A B} (Q : B -> Prop) (g : session -> A) (f : A -> M B) :
  (forall s0, Sok s0 -> tok Q (f (g s0))) -> tok Q (bind (gets g) f).
Proof. intros H s Hs. unfold bind, gets. apply H; auto. Qed.

Lemma tok_gets {A} (Q : A -> Prop) (g : session -> A) : (forall s, Sok s -> Q (g s)) -> tok Q (gets g).
Proof. intros H s Hs. simpl. auto. Qed.

Lemma tok_modify (g : session -> session) : (forall s, Sok s -> Sok (g s)) -> tok (fun _ => True) (modify g).
Proof. intros H s Hs. simpl. auto. Qed.

Lemma tok_seq {A B} (Q : B -> Prop) (m : M A) (k : M B) : tok (fun _ => True) m -> tok Q k -> tok Q (bind m (fun _ => k)).
Proof. intros Hm Hk. eapply tok_bind; [exact Hm|]. intros _ _. exact Hk. Qed.

Lemma Sok_log s v : Sok s -> Sok (set_log s v).
Proof. intros [H1 H2 H3 H4 H5 H6]. destruct s. constructor; assumption. Qed.

Lemma tok_log_msg msg : tok (fun _ => True) (log_msg msg).
Proof. apply tok_modify. intros s Hs. apply Sok_log. exact Hs. Qed.

Lemma tok_log_msgs l : tok (fun _ => True) (log_msgs l).
Proof.
  induction l as [|m l IH]; simpl; [apply tok_ret; exact Logic.I|].
  apply tok_seq; [apply tok_log_msg|exact IH].
Qed.

Lemma tok_lift {A} (Q : A -> Prop) (f : ienv -> I A) : (forall e, ienv_ok e -> good Q (f e)) -> tok Q (lift f).
Proof.
  intros H s Hs. unfold lift. specialize (H (ienv_of s) (so_env s Hs)). unfold good in H.
  destruct (f (ienv_of s)) as [[a msgs]|e|]; auto.
  pose proof (tok_log_msgs msgs s Hs) as Hl. unfold bind. destruct (log_msgs msgs s) as [[u s1]|e|]; auto.
  simpl. destruct Hl. auto.
Qed.

(* setters *)
Ltac sok_set := let H := fresh in intros H; destruct H as [? ? ? ? ? ?];
  match goal with s : session |- _ => destruct s end; constructor; cbn in *; auto.

Lemma Sok_classes s v : rfree v -> Sok s -> Sok (set_classes s v).
Proof. intros Hv. sok_set. Qed.
Lemma Sok_id s v : rfree v -> Sok s -> Sok (set_id s v).
Proof. intros Hv. sok_set. Qed.
Lemma Sok_css s v : rfree v -> Sok s -> Sok (set_css s v).
Proof. intros Hv. sok_set. Qed.
Lemma Sok_attrs s v : rfree v -> Sok s -> Sok (set_attrs s v).
Proof. intros Hv. sok_set. Qed.
Lemma Sok_popts s v : Sok s -> Sok (set_popts s v).
Proof. sok_set. Qed.
Lemma Sok_listids s v : Sok s -> Sok (set_listids s v).
Proof. sok_set. Qed.
Lemma Sok_ids s v : Sok s -> Sok (set_ids s v).
Proof. sok_set. Qed.
Lemma Sok_mode s v : Sok s -> Sok (set_mode s v).
Proof.
  intros [[[H1 H2 H3] H4] H5 H6 H7 H8 H9]. destruct s. constructor; cbn in *; auto.
  constructor; [constructor|]; cbn in *; auto.
Qed.
Lemma Sok_cb s v : Sok s -> Sok (set_cb s v).
Proof. sok_set. Qed.
Lemma Sok_repl s v : rfree v -> Sok s -> Sok (set_repl s v).
Proof.
  intros Hv [[[H1 H2 H3] H4] H5 H6 H7 H8 H9]. destruct s. constructor; cbn in *; auto.
  constructor; [constructor|]; cbn in *; auto.
Qed.
Lemma Sok_macros s v : Forall (fun nv => rfree (snd nv)) v -> Sok s -> Sok (set_macros s v).
Proof.
  intros Hv [[[H1 H2 H3] H4] H5 H6 H7 H8 H9]. destruct s. constructor; cbn in *; auto.
  constructor; [constructor|]; cbn in *; auto.
Qed.
Lemma Sok_quotes s v : qdefs_ok v -> Sok s -> Sok (set_quotes s v).
Proof.
  intros Hv [[[H1 H2 H3] H4] H5 H6 H7 H8 H9]. destruct s. constructor; cbn in *; auto.
  constructor; [constructor|]; cbn in *; auto.
Qed.
Lemma Sok_repls s v : Forall (fun d => rfree (r_repl d)) v -> Sok s -> Sok (set_repls s v).
Proof.
  intros Hv [[[H1 H2 H3] H4] H5 H6 H7 H8 H9]. destruct s. constructor; cbn in *; auto.
  constructor; [constructor|]; cbn in *; auto.
Qed.
Lemma Sok_dblocks s v : Forall dok v -> Sok s -> Sok (set_dblocks s v).
Proof. intros Hv. sok_set. Qed.

(* ---- reader ---- *)
Definition rdok (rd : reader) : Prop := Forall rfree rd.

Lemma rdok_tl rd : rdok rd -> rdok (tl rd).
Proof. destruct rd; [auto|]. intros H. inversion H; auto. Qed.

Lemma rdok_skip rd : rdok rd -> rdok (skipBlankLines rd).
Proof. induction 1 as [|l t Hl Ht IH]; simpl; [constructor|]. destruct (is_empty (strip l)); [exact IH|constructor; auto]. Qed.

Lemma re_search_groups P r text m : re_search r text = Some m -> allc P text -> forall k, allc P (grp_s m k).
Proof. intros H Ht. apply re_search_spec in H. apply (match_spec_allc P _ _ _ H Ht). Qed.

Lemma re_search_grp P r text m k t : re_search r text = Some m -> allc P text -> grp m k = Some t -> allc P t.
Proof. intros H Ht Hg. pose proof (re_search_groups P r text m H Ht k) as G. unfold grp_s in G. rewrite Hg in G. exact G. Qed.

Lemma re_match_spec r text m : re_match r text = Some m -> match_spec r text m.
Proof. intros H. eapply (match_at_spec r text [] text None m); [reflexivity|exact H]. Qed.

Lemma re_match_groups P r text m : re_match r text = Some m -> allc P text -> forall k, allc P (grp_s m k).
Proof. intros H Ht. apply re_match_spec in H. apply (match_spec_allc P _ _ _ H Ht). Qed.

Lemma readTo_ok rx : forall rd ls rd', rdok rd -> readTo rx rd = Ok (ls, rd') -> rdok ls /\ rdok rd'.
Proof.
  induction rd as [|l t IH]; intros ls rd' Hrd H; cbn [readTo] in H.
  - inversion H; subst. split; constructor.
  - inversion Hrd as [|? ? Hl Ht]; subst. destruct (re_search rx l) as [m|] eqn:E.
    + destruct (Nat.ltb 0 (re_groups rx)).
      * destruct (grp m 1) as [g|] eqn:Eg; [|discriminate]. inversion H; subst. split; [|exact Hrd].
        constructor; [|constructor]. eapply re_search_grp; eauto.
      * inversion H; subst. split; [constructor|exact Hrd].
    + destruct (readTo rx t) as [[ls0 rd0]|e|] eqn:E0; try discriminate. inversion H; subst.
      destruct (IH ls0 rd' Ht eq_refl) as [H1 H2]. split; [constructor; auto|exact H2].
Qed.

Lemma mk_reader_ok text : rdok (mk_reader text).
Proof.
  unfold mk_reader, re_split. destruct (re_scan _ (blank_reserved text)) as [l tl] eqn:E.
  assert (Hb : rfree (blank_reserved text)).
  { intros x Hx. unfold blank_reserved in Hx. apply in_map_iff in Hx as (c & <- & _).
    destruct ((c =? 0) || (c =? 1) || (c =? 2)) eqn:Ec; cbv beta; [lia|].
    apply orb_false_iff in Ec as [Ec E2]. apply orb_false_iff in Ec as [E0 E1].
    apply N.eqb_neq in E0, E1, E2. lia. }
  apply (re_scan_allc (fun x => 2 < x)) in E as [Hl Htl]; [|exact Hb].
  apply Forall_app. split; [|constructor; [exact Htl|constructor]].
  rewrite Forall_forall in *. intros x Hx. apply in_map_iff in Hx as (bm & <- & Hbm). apply Hl. exact Hbm.
Qed.

(* ---- blockattributes ---- *)
Section Blocks.
Variable fuel : nat.

Ltac rf := repeat first
  [ assumption | apply allc_nil
  | match goal with G : forall k, allc _ (grp_s ?m k) |- allc _ (grp_s ?m _) => apply G end
  | match goal with G : forall k, allc _ (grp_s ?m k) |- rfree (grp_s ?m _) => apply G end
  | match goal with G : forall k, rfree (grp_s ?m k) |- _ (grp_s ?m _) => apply G end
  | match goal with |- allc _ [_] => (intros ? [<-|[]]; cbv beta; lia) end
  | match goal with |- rfree [_] => (intros ? [<-|[]]; cbv beta; lia) end
  | apply allc_app; split | apply allc_strip | apply allc_tl | apply allc_drop_last
  | apply rfree_lower | apply rfree_escape | apply rfree_str_of_N | apply allc_takeN | apply allc_dropN
  | rf_lit ].

Lemma tok_when (b : bool) (m : M unit) : tok (fun _ => True) m -> tok (fun _ => True) (if b then m else ret tt).
Proof. intros H. destruct b; [exact H|apply tok_ret; exact Logic.I]. Qed.

Lemma blockattributes_parse_ok attrs : rfree attrs -> tok (fun _ => True) (blockattributes_parse fuel attrs).
Proof.
  intros Ha. unfold blockattributes_parse. apply tok_bind_gets. intros s0 _.
  destruct (parse_skip (s_mode s0)); [apply tok_ret; exact Logic.I|].
  eapply tok_bind with (P := rfree).
  { apply tok_lift. intros e He. apply replaceInline_top_good; auto. }
  intros text Ht. destruct (re_match re_blockattributes_parse_0 text) as [m1|] eqn:E1; [|apply tok_ret; exact Logic.I].
  pose proof (re_match_groups (fun x => 2 < x) _ _ _ E1 Ht) as G1.
  destruct (re_match re_blockattributes_parse_1 _) as [m2|] eqn:E2; [|apply tok_ret; exact Logic.I].
  assert (Hd : rfree (dropN (m_end m1) text)) by (apply allc_dropN; exact Ht).
  pose proof (re_match_groups (fun x => 2 < x) _ _ _ E2 Hd) as G2.
  apply tok_seq. { apply tok_when, tok_modify. intros s Hs. apply Sok_classes; [|exact Hs]. destruct Hs. rf. }
  apply tok_seq. { apply tok_when, tok_modify. intros s Hs. apply Sok_id; [|exact Hs]. rf. }
  apply tok_seq.
  { apply tok_when, tok_modify. intros s Hs. apply Sok_css; [|exact Hs]. destruct Hs.
    apply allc_strip, allc_app. split; [destruct (_ && _); rf|rf]. }
  apply tok_seq.
  { apply tok_when, tok_modify. intros s Hs. destruct (attrs_allowed (s_mode s)); [|exact Hs].
    apply Sok_attrs; [|exact Hs]. destruct Hs. rf. }
  apply tok_seq.
  { destruct (opt_nonempty (grp m2 5)); [|apply tok_ret; exact Logic.I].
    apply tok_bind_gets. intros s1 _. apply tok_seq; [apply tok_log_msgs|].
    apply tok_modify. intros s Hs. apply Sok_popts. exact Hs. }
  apply tok_ret. exact Logic.I.
Qed.

Lemma register_or_report_ok has_id id s : Sok s -> Sok (register_or_report has_id id s).
Proof. intros Hs. unfold register_or_report. destruct (_ || _); [apply Sok_log|apply Sok_ids]; exact Hs. Qed.

Lemma injectHtmlAttributes_ok tag consume : rfree tag -> tok rfree (injectHtmlAttributes tag consume).
Proof.
  intros Ht. unfold injectHtmlAttributes. destruct tag as [|c tag']; [apply tok_ret; exact Ht|].
  set (tag := c :: tag') in *. apply tok_bind_gets. intros s0 Hs0.
  destruct Hs0 as [_ _ Hcl Hid Hcss Hat]. 
  match goal with |- tok _ (let '(_, _) := ?X in _) => set (ra := X) end.
  assert (Hra : rfree (fst ra) /\ rfree (snd ra)).
  { unfold ra. destruct (nonempty (p_classes s0)); [|split; rf].
    destruct (re_search re_blockattributes_injectHtmlAttributes_0 tag) as [m|] eqn:E; cbn [fst snd].
    - pose proof (re_search_groups (fun x => 2 < x) _ _ _ E Ht) as G. split; [|rf].
      apply allc_replace_first; [|exact Ht]. rf.
    - split; [exact Ht|]. rf. }
  destruct ra as [result attrs]. cbn [fst snd] in Hra. destruct Hra as [Hres Hattrs].
  eapply tok_bind with (P := rfree).
  { destruct (nonempty (p_id s0)); [|apply tok_ret; exact Hattrs].
    apply tok_seq; [apply tok_modify; intros s Hs; apply Sok_id; [rf|exact Hs]|].
    apply tok_seq; [apply tok_modify; intros s Hs; apply register_or_report_ok; exact Hs|].
    apply tok_ret. destruct (match re_search _ result with Some _ => true | None => false end); rf. }
  intros attrs1 Ha1.
  match goal with |- tok _ (let '(_, _) := ?X in _) => set (ra2 := X) end.
  assert (Hra2 : rfree (fst ra2) /\ rfree (snd ra2)).
  { unfold ra2. destruct (nonempty (p_css s0)); [|split; assumption].
    destruct (re_search re_blockattributes_injectHtmlAttributes_2 result) as [m|] eqn:E; cbn [fst snd].
    - pose proof (re_search_groups (fun x => 2 < x) _ _ _ E Hres) as G. split; [|exact Ha1].
      apply allc_replace_first; [|exact Hres].
      apply allc_app. split; [apply G|]. apply allc_app. split.
      + destruct (ends_with [59] (strip (grp_s m 2))); rf.
      + rf.
    - split; [exact Hres|]. rf. }
  destruct ra2 as [result2 attrs2]. cbn [fst snd] in Hra2. destruct Hra2 as [Hres2 Hattrs2].
  assert (Ha3 : rfree (strip (if nonempty (p_attrs s0) then attrs2 ++ [32] ++ p_attrs s0 else attrs2))).
  { apply allc_strip. destruct (nonempty (p_attrs s0)); rf. }
  apply tok_seq.
  { destruct consume; [|apply tok_ret; exact Logic.I]. apply tok_modify. intros s Hs.
    apply Sok_attrs; [rf|]. apply Sok_css; [rf|]. apply Sok_id; [rf|]. apply Sok_classes; [rf|exact Hs]. }
  apply tok_ret. match goal with |- rfree (if ?b then _ else _) => destruct b end; [|exact Hres2].
  destruct (re_search re_blockattributes_injectHtmlAttributes_3 result2); [|exact Hres2].
  rf.
Qed.

Lemma slug_suffix_rfree ids slug : rfree slug -> forall budget i, rfree (slug_suffix budget ids slug i).
Proof.
  intros Hs. induction budget as [|b bs IH]; intros i; cbn [slug_suffix].
  - rf.
  - destruct (mem _ ids); [apply IH|]. rf.
Qed.

Lemma slugify_rfree ids text : rfree text -> rfree (slugify ids text).
Proof.
  intros Ht. unfold slugify.
  set (s1 := re_sub re_blockattributes_slugify_0 _ text).
  assert (H1 : rfree s1) by (apply re_sub_allc; [exact Ht|intros; intros x [<-|[]]; cbv beta; lia]).
  set (s2 := re_sub re_blockattributes_slugify_1 _ s1).
  assert (H2 : rfree s2) by (apply re_sub_allc; [exact H1|intros; intros x [<-|[]]; cbv beta; lia]).
  set (s3 := re_sub re_blockattributes_slugify_2 _ s2).
  assert (H3 : rfree s3) by (apply re_sub_allc; [exact H2|intros; apply allc_nil]).
  set (s4 := match lower s3 with [] => $"x" | _ => lower s3 end).
  assert (H4 : rfree s4) by (unfold s4; destruct (lower s3) eqn:E; [rf_lit|rewrite <- E; apply rfree_lower; exact H3]).
  destruct (mem s4 ids); [apply slug_suffix_rfree; exact H4|exact H4].
Qed.
End Blocks.

(* ---- options and definitions ---- *)
Lemma Sok_init s : Sok (document_init s).
Proof.
  unfold document_init. constructor; cbn.
  - constructor; [apply env_okb_spec; vm_compute; reflexivity|]. cbn.
    repeat constructor; cbn; apply allc_nil.
  - assert (H : forallb (fun d => rfreeb (d_openTag d) && rfreeb (d_closeTag d)) dblocks_default = true) by (vm_compute; reflexivity).
    rewrite forallb_forall in H. rewrite Forall_forall. intros d Hd. apply H in Hd. apply andb_prop in Hd as [A B].
    split; apply rfreeb_spec; assumption.
  - apply allc_nil.
  - apply allc_nil.
  - apply allc_nil.
  - apply allc_nil.
Qed.

Lemma setOption_safeMode_ok value : tok (fun _ => True) (setOption_safeMode value).
Proof.
  unfold setOption_safeMode. destruct (py_int value) as [n| |]; try apply tok_log_msg.
  destruct (mode_out_of_range n); [apply tok_log_msg|]. apply tok_modify. intros s Hs. apply Sok_mode. exact Hs.
Qed.

Lemma setOption_reset_ok value : tok (fun _ => True) (setOption_reset value).
Proof.
  unfold setOption_reset. destruct (reset_is_false value); [apply tok_ret; exact Logic.I|].
  destruct (reset_is_true value); [|apply tok_log_msg]. apply tok_modify. intros s _. apply Sok_init.
Qed.

Lemma setOption_doc_ok name value : rfree value -> tok (fun _ => True) (setOption_doc name value).
Proof.
  intros Hv. unfold setOption_doc. destruct (str_eqb name _); [apply setOption_safeMode_ok|].
  destruct (str_eqb name _); [apply setOption_reset_ok|].
  destruct (str_eqb name _); [|apply tok_log_msg]. apply tok_modify. intros s Hs. apply Sok_repl; auto.
Qed.

(* the API options: the replacement text given to the call must itself be free of the reserved code points *)
Definition opts_ok (o : opts) : Prop :=
  match o_htmlReplacement o with PyNone => True | v => rfree (py_str v) end.

Lemma updateFrom_ok o : opts_ok o -> tok (fun _ => True) (updateFrom o).
Proof.
  intros Ho. unfold updateFrom.
  apply tok_seq. { apply tok_modify. intros s Hs. destruct (s_cb s); [apply Sok_cb|]; exact Hs. }
  apply tok_seq. { apply setOption_reset_ok. }
  apply tok_seq. { destruct (o_callback o); [|apply tok_ret; exact Logic.I]. apply tok_modify. intros s Hs. apply Sok_cb. exact Hs. }
  apply tok_seq. { destruct (o_safeMode o); try apply setOption_safeMode_ok. apply tok_ret. exact Logic.I. }
  unfold opts_ok in Ho. destruct (o_htmlReplacement o); try (apply tok_modify; intros sx Hsx; apply Sok_repl; auto).
  apply tok_ret. exact Logic.I.
Qed.

Lemma macros_setValue_ok name value : rfree value -> tok (fun _ => True) (macros_setValue name value).
Proof.
  intros Hv. unfold macros_setValue. apply tok_bind_gets. intros s0 _.
  destruct (setValue_skip (s_mode s0)); [apply tok_ret; exact Logic.I|].
  destruct (_ && _); [apply tok_log_msg|]. apply tok_modify. intros s Hs. apply Sok_macros; [|exact Hs].
  pose proof (io_macros _ (so_env s Hs)) as Hm. cbn in Hm.
  induction Hm as [|[n v] l Hx Hl IH]; cbn.
  - constructor; [exact Hv|constructor].
  - destruct (str_eqb n _).
    + constructor; [|exact Hl]. cbn [snd]. cbn in Hx. match goal with |- rfree (if ?b then _ else _) => destruct b end; auto.
    + constructor; auto.
Qed.

Lemma quotes_setDefinition_ok q : rfree (q_quote q) -> rfree (q_open q) -> rfree (q_close q) ->
  tok (fun _ => True) (quotes_setDefinition q).
Proof.
  intros H1 H2 H3. unfold quotes_setDefinition. apply tok_modify. intros s Hs.
  pose proof (eo_quotes _ (io_env _ (so_env s Hs))) as Hq. cbn in Hq. unfold qdefs_ok in *.
  destruct (quote_getDefinition (s_quotes s) (q_quote q)).
  - apply Sok_quotes; [|exact Hs]. unfold qdefs_ok. rewrite Forall_forall in *. intros d Hd.
    apply in_map_iff in Hd as (d0 & <- & Hd0). specialize (Hq d0 Hd0). destruct (str_eqb _ _); cbn; tauto.
  - destruct (_ =? 2); (apply Sok_quotes; [|exact Hs]); unfold qdefs_ok.
    + constructor; auto.
    + apply Forall_app. split; [exact Hq|constructor; auto].
Qed.

Lemma upd_first_Forall {A} (P : A -> Prop) p f l : Forall P l -> (forall x, P x -> P (f x)) -> Forall P (upd_first p f l).
Proof. intros Hl Hf. induction Hl as [|x l Hx Hl IH]; cbn; [constructor|]. destruct (p x); constructor; auto. Qed.

Lemma replacements_setDefinition_ok pattern flags repl : rfree repl ->
  tok (fun _ => True) (replacements_setDefinition pattern flags repl).
Proof.
  intros Hr. unfold replacements_setDefinition. destruct (parse_regex _ _ _); [|apply tok_log_msg|apply tok_raise].
  apply tok_modify. intros s Hs. pose proof (eo_repls _ (io_env _ (so_env s Hs))) as Hq. cbn in Hq.
  destruct (existsb _ (s_repls s)); (apply Sok_repls; [|exact Hs]).
  - apply upd_first_Forall; [exact Hq|]. intros d _. exact Hr.
  - apply Forall_app. split; [exact Hq|constructor; [exact Hr|constructor]].
Qed.

Lemma dblocks_setDefinition_ok name value : rfree value -> tok (fun _ => True) (dblocks_setDefinition name value).
Proof.
  intros Hv. unfold dblocks_setDefinition. apply tok_bind_gets. intros s0 _.
  destruct (negb _); [apply tok_log_msg|].
  destruct (re_search re_delimitedblocks_setDefinition_0 (strip value)) as [m|] eqn:E; [|apply tok_log_msg].
  pose proof (re_search_groups (fun x => 2 < x) _ _ _ E (allc_strip _ _ Hv)) as G.
  assert (Hupd : forall d, dok d -> dok (match grp m 1 with
      | Some t1 => mkD (d_name d) t1 (grp_s m 2) (d_openRe d) (d_closeRe d) (d_verify d) (d_delim d) (d_content d) (d_expand d)
      | None => d end)).
  { intros d Hd. destruct (grp m 1) as [t1|] eqn:E1; [|exact Hd]. split; cbn; [|apply G].
    specialize (G 1%nat). unfold grp_s in G. rewrite E1 in G. exact G. }
  destruct (grp m 3) as [o|].
  - destruct (expand_parse _ _ o) as [e msgs]. apply tok_seq; [|apply tok_log_msgs].
    apply tok_modify. intros s Hs. apply Sok_dblocks; [|exact Hs]. apply upd_first_Forall; [apply (so_dblocks s Hs)|].
    intros d Hd. apply Hupd in Hd. destruct Hd as [A B]. split; cbn; assumption.
  - apply tok_modify. intros s Hs. apply Sok_dblocks; [|exact Hs]. apply upd_first_Forall; [apply (so_dblocks s Hs)|]. exact Hupd.
Qed.

(* ---- lineblocks ---- *)
Section Lines.
Variable fuel : nat.

Ltac rf := repeat first
  [ assumption | apply allc_nil
  | match goal with G : forall k, allc _ (grp_s ?m k) |- allc _ (grp_s ?m _) => apply G end
  | match goal with G : forall k, allc _ (grp_s ?m k) |- rfree (grp_s ?m _) => apply G end
  | match goal with G : forall k, rfree (grp_s ?m k) |- _ (grp_s ?m _) => apply G end
  | match goal with |- allc _ [_] => (intros ? [<-|[]]; cbv beta; lia) end
  | match goal with |- rfree [_] => (intros ? [<-|[]]; cbv beta; lia) end
  | apply allc_app; split | apply allc_strip | apply allc_tl | apply allc_drop_last
  | apply rfree_lower | apply rfree_escape | apply rfree_str_of_N | apply allc_takeN | apply allc_dropN
  | rf_lit ].

Definition orf (o : option str) : Prop := forall t, o = Some t -> rfree t.

Lemma grp_orf m k : (forall j, rfree (grp_s m j)) -> orf (grp m k).
Proof. intros G t Ht. specialize (G k). unfold grp_s in G. rewrite Ht in G. exact G. Qed.

Lemma macros_expand_ok text : orf text -> tok rfree (macros_expand fuel text).
Proof.
  intros Ht. unfold macros_expand. apply tok_lift. intros e He. destruct text as [t|]; [|cbn; discriminate].
  apply replaceInline_top_good; auto.
Qed.

Lemma verifyMacroLine_ok m rd : (forall k, rfree (grp_s m k)) -> rdok rd ->
  tok (fun r => rdok (snd r)) (verifyMacroLine fuel m rd).
Proof.
  intros G Hrd. unfold verifyMacroLine. destruct (re_search re_macros_DEF_OPEN (grp0 m)); [apply tok_ret; exact Hrd|].
  eapply tok_bind with (P := rfree).
  { apply tok_lift. intros e He. apply macros_top_ok; [exact He|apply (G O)]. }
  intros value Hv. destruct (_ || _); [apply tok_ret; exact Hrd|].
  destruct rd as [|cur rest]; [apply tok_raise|]. apply tok_ret. cbn. inversion Hrd; subst.
  constructor; [assumption|]. apply Forall_app. split; [apply allc_split_char; exact Hv|assumption].
Qed.

Lemma line_filter_ok d m : rfree (l_repl d) -> (forall k, rfree (grp_s m k)) -> tok rfree (line_filter fuel d m).
Proof.
  intros Hr G. unfold line_filter.
  assert (RM : tok rfree (lift (fun s => replaceMatch_top fuel s m (re_groups (l_re d)) (l_repl d) expand_macros))).
  { apply tok_lift. intros e He. apply replaceMatch_top_good; auto. }
  destruct (l_filter d).
  - destruct (l_repl d) eqn:E; [apply tok_ret; apply allc_nil|exact RM].
  - apply tok_ret, allc_nil.
  - apply tok_bind_gets. intros s0 _. destruct (blockDefFilter_skip _); [apply tok_ret, allc_nil|].
    eapply tok_bind; [apply macros_expand_ok, grp_orf, G|]. intros v Hv.
    apply tok_seq; [apply dblocks_setDefinition_ok; exact Hv|apply tok_ret, allc_nil].
  - apply tok_bind_gets. intros s0 _. destruct (quoteDefFilter_skip _); [apply tok_ret, allc_nil|].
    eapply tok_bind; [apply macros_expand_ok, grp_orf, G|]. intros o Ho.
    eapply tok_bind; [apply macros_expand_ok, grp_orf, G|]. intros c Hc.
    apply tok_seq; [apply quotes_setDefinition_ok; cbn; auto|apply tok_ret, allc_nil].
  - apply tok_bind_gets. intros s0 _. destruct (replacementDefFilter_skip _); [apply tok_ret, allc_nil|].
    eapply tok_bind; [apply macros_expand_ok, grp_orf, G|]. intros r Hr'.
    apply tok_seq; [apply replacements_setDefinition_ok; exact Hr'|apply tok_ret, allc_nil].
  - apply tok_bind_gets. intros s0 _. destruct (macroDefFilter_skip _); [apply tok_ret, allc_nil|].
    eapply tok_bind; [apply macros_expand_ok, grp_orf, G|]. intros v Hv.
    apply tok_seq; [apply macros_setValue_ok; exact Hv|apply tok_ret, allc_nil].
  - apply tok_bind_gets. intros s0 _.
    apply tok_seq.
    { apply tok_when, tok_modify. intros s Hs. apply Sok_id; [|exact Hs]. apply slugify_rfree, G. }
    eapply tok_bind; [exact RM|]. intros result Hres. apply tok_ret.
    apply allc_replace_all'; [|exact Hres]. rf.
  - apply tok_bind_gets. intros s0 _. destruct (anchorFilter_skip _); [apply tok_ret, allc_nil|exact RM].
  - apply tok_bind_gets. intros s0 _. destruct (apiOptionFilter_skip _); [apply tok_ret, allc_nil|].
    eapply tok_bind; [apply macros_expand_ok, grp_orf, G|]. intros v Hv.
    apply tok_seq; [apply setOption_doc_ok; exact Hv|apply tok_ret, allc_nil].
Qed.

Definition lbres (r : option str * reader) : Prop := orf (fst r) /\ rdok (snd r).

Lemma lineblocks_loop_ok allowed : forall defs rd, Forall (fun d => rfree (l_repl d)) defs -> rdok rd ->
  tok lbres (lineblocks_loop fuel defs rd allowed).
Proof.
  induction defs as [|d ds IH]; intros rd Hd Hrd; cbn [lineblocks_loop].
  { apply tok_ret. split; [intros t Ht; discriminate|exact Hrd]. }
  inversion Hd as [|? ? Hd1 Hds]; subst.
  destruct (_ && _); [apply IH; auto|].
  destruct rd as [|cur rest]; [apply tok_raise|]. inversion Hrd as [|? ? Hcur Hrest]; subst.
  destruct (re_search (l_re d) cur) as [m|] eqn:E; [|apply IH; auto].
  pose proof (re_search_groups (fun x => 2 < x) _ _ _ E Hcur) as G.
  destruct (grp0 m) as [|c0 g0] eqn:E0; [apply tok_raise|].
  destruct (c0 =? 92). { apply IH; [auto|]. constructor; [apply allc_tl; exact Hcur|exact Hrest]. }
  eapply tok_bind with (P := fun vr => rdok (snd vr)).
  { destruct (l_verify d).
    - apply tok_ret. exact Hrd.
    - apply verifyMacroLine_ok; auto.
    - eapply tok_bind; [apply blockattributes_parse_ok; rewrite <- E0; apply (G O)|]. intros b _. apply tok_ret. exact Hrd. }
  intros [ok rd1] Hrd1. cbn [snd] in Hrd1. destruct (negb ok); [apply IH; auto|].
  eapply tok_bind; [apply line_filter_ok; auto|]. intros text Ht.
  destruct text as [|t0 text'].
  { apply tok_ret. split; [intros t Hs; inversion Hs; apply allc_nil|apply rdok_tl; exact Hrd1]. }
  eapply tok_bind; [apply injectHtmlAttributes_ok; exact Ht|]. intros text2 Ht2.
  apply tok_ret. split; [|apply rdok_tl; exact Hrd1]. intros t Hs. inversion Hs; subst.
  apply allc_app. split; [exact Ht2|]. destruct (tl rd1); rf.
Qed.

Lemma lineblocks_defs_ok : Forall (fun d => rfree (l_repl d)) lineblocks_defs.
Proof.
  assert (H : forallb (fun d => rfreeb (l_repl d)) lineblocks_defs = true) by (vm_compute; reflexivity).
  rewrite forallb_forall in H. rewrite Forall_forall. intros d Hd. apply rfreeb_spec. auto.
Qed.

Lemma lineblocks_render_ok rd allowed : rdok rd -> tok lbres (lineblocks_render fuel rd allowed).
Proof. intros H. apply lineblocks_loop_ok; [apply lineblocks_defs_ok|exact H]. Qed.
End Lines.

(* ---- delimitedblocks ---- *)
Section DBlocks.
Variable fuel : nat.

Ltac rf := repeat first
  [ assumption | apply allc_nil
  | match goal with G : forall k, allc _ (grp_s ?m k) |- allc _ (grp_s ?m _) => apply G end
  | match goal with G : forall k, allc _ (grp_s ?m k) |- rfree (grp_s ?m _) => apply G end
  | match goal with G : forall k, rfree (grp_s ?m k) |- _ (grp_s ?m _) => apply G end
  | match goal with |- allc _ [_] => (intros ? [<-|[]]; cbv beta; lia) end
  | match goal with |- rfree [_] => (intros ? [<-|[]]; cbv beta; lia) end
  | apply allc_app; split | apply allc_strip | apply allc_tl | apply allc_drop_last
  | apply rfree_lower | apply rfree_escape | apply rfree_str_of_N | apply allc_takeN | apply allc_dropN
  | rf_lit ].

Lemma Forall_map' {A B} (P : B -> Prop) (f : A -> B) l : (forall a, In a l -> P (f a)) -> Forall P (map f l).
Proof. intros H. rewrite Forall_forall. intros b Hb. apply in_map_iff in Hb as (a & <- & Ha). auto. Qed.

Lemma indentedContentFilter_ok text t : rfree text -> indentedContentFilter text = Ok t -> rfree t.
Proof.
  intros Ht H. unfold indentedContentFilter in H. destruct (re_search _ text); [|discriminate]. inversion H; subst.
  apply allc_join; [rf|]. apply Forall_map'. intros line Hl. apply allc_dropN.
  pose proof (allc_split_char (fun x => 2 < x) 10 text Ht) as Hs. rewrite Forall_forall in Hs. apply Hs. exact Hl.
Qed.

Lemma quoteParagraphContentFilter_ok text : rfree text -> rfree (quoteParagraphContentFilter text).
Proof.
  intros Ht. unfold quoteParagraphContentFilter. apply allc_join; [rf|]. apply Forall_map'. intros line Hl.
  pose proof (allc_split_char (fun x => 2 < x) 10 text Ht) as Hs. rewrite Forall_forall in Hs. specialize (Hs line Hl).
  apply re_sub_allc; [apply re_sub_allc; [exact Hs|intros; apply allc_nil]|intros; rf].
Qed.

Lemma macroDefContentFilter_ok text m e : rfree text -> (forall k, rfree (grp_s m k)) ->
  tok rfree (macroDefContentFilter fuel text m e).
Proof.
  intros Ht G. unfold macroDefContentFilter.
  destruct (re_search re_delimitedblocks_macroDefContentFilter_0 (grp0 m)) as [mm|] eqn:E; [|apply tok_raise].
  pose proof (re_search_groups (fun x => 2 < x) _ _ _ E (G O)) as Gm.
  eapply tok_bind with (P := rfree).
  { apply tok_lift. intros env He. apply replaceInline_top_good; [exact He|].
    apply re_sub_allc; [apply re_sub_allc; [exact Ht|intros; rf]|]. intros m' G'. rf. }
  intros t Ht'. apply tok_seq; [apply macros_setValue_ok; exact Ht'|apply tok_ret, allc_nil].
Qed.

Lemma nth_dok i l d : Forall dok l -> dok d -> dok (nth i l d).
Proof. intros Hl Hd. destruct (nth_in_or_default i l d) as [H | ->]; [|exact Hd]. rewrite Forall_forall in Hl. auto. Qed.

Lemma Sok_set_closeRe i rx s : Sok s -> Sok (set_closeRe i rx s).
Proof.
  intros Hs. unfold set_closeRe. apply Sok_dblocks; [|exact Hs]. pose proof (so_dblocks s Hs) as Hd.
  revert i. induction Hd as [|d l Hd Hl IH]; intros i; destruct i; simpl; constructor; auto.
Qed.

Section WithDoc.
Variable doc : str -> M str.
Hypothesis Hdoc : forall text, rfree text -> tok rfree (doc text).

Definition dbres (r : str * reader) : Prop := rfree (fst r) /\ rdok (snd r).

Lemma dblock_body_ok i d m rest : dok d -> (forall k, rfree (grp_s m k)) -> rdok rest ->
  tok dbres (dblock_body fuel doc i d m rest).
Proof.
  intros Hd G Hrest. unfold dblock_body.
  eapply tok_bind with (P := rfree).
  { destruct (d_delim d).
    - apply tok_ret, allc_nil.
    - destruct (grp m 1) as [g|] eqn:Eg; apply tok_ret; [|apply allc_nil]. apply (grp_orf m 1 G). exact Eg.
    - apply tok_seq; [apply tok_when, tok_modify; intros s Hs; apply Sok_classes; [rf|exact Hs]|].
      apply tok_seq; [apply tok_modify; intros s Hs; apply Sok_set_closeRe; exact Hs|]. apply tok_ret, allc_nil. }
  intros delimiterText Hdt. apply tok_bind_gets. intros s0 _.
  destruct (readTo _ rest) as [[content rd1]|e|] eqn:Er; [|apply tok_raise|apply tok_fuel].
  apply readTo_ok in Er as [Hcontent Hrd1]; [|exact Hrest].
  apply tok_seq. { destruct (_ && _); [apply tok_log_msg|apply tok_ret; exact Logic.I]. }
  apply tok_bind_gets. intros s1 _.
  remember (expand_merge (d_expand (nth i (s_dblocks s1) d)) (p_opts s1)) as expand eqn:Eexp. clear Eexp.
  match goal with |- context [join [10] ?L] => remember L as lines eqn:El end.
  assert (Hlines : rdok lines).
  { subst lines. apply Forall_app. split; [|exact Hcontent]. destruct delimiterText; [constructor|constructor; [exact Hdt|constructor]]. }
  clear El.
  eapply tok_bind with (P := rfree).
  2:{ intros out Hout. apply tok_seq; [apply tok_modify; intros s Hs; apply Sok_popts; exact Hs|].
      apply tok_ret. split; [exact Hout|apply rdok_tl; exact Hrd1]. }
  destruct (truthy (e_skip expand)); [apply tok_ret, allc_nil|].
  assert (Htext : rfree (join [10] lines)) by (apply allc_join; [rf|exact Hlines]).
  eapply tok_bind with (P := rfree).
  { destruct (d_content d).
    - apply tok_ret. exact Htext.
    - apply macroDefContentFilter_ok; auto.
    - apply tok_gets. intros s Hs. apply htmlSafeModeFilter_rfree; [|exact Htext].
      apply (eo_repl _ (io_env _ (so_env s Hs))).
    - destruct (indentedContentFilter _) as [t|e|] eqn:Ei; [|apply tok_raise|apply tok_fuel].
      apply tok_ret. eapply indentedContentFilter_ok; eauto.
    - apply tok_ret. apply quoteParagraphContentFilter_ok. exact Htext. }
  intros text Ht. apply tok_bind_gets. intros s2 Hs2.
  assert (Hd' : dok (nth i (s_dblocks s2) d)) by (apply nth_dok; [apply (so_dblocks s2 Hs2)|exact Hd]).
  set (d' := nth i (s_dblocks s2) d) in *.
  eapply tok_bind with (P := rfree).
  { destruct (str_eqb (d_name d) _); [apply injectHtmlAttributes_ok; exact Ht|apply tok_ret; exact Ht]. }
  intros text1 Ht1. eapply tok_bind with (P := rfree).
  { destruct (str_eqb (d_name d) _); [apply tok_ret; apply Hd'|apply injectHtmlAttributes_ok; apply Hd']. }
  intros opentag Hopen. eapply tok_bind with (P := rfree).
  { destruct (truthy (e_container expand)).
    - apply tok_seq; [apply tok_modify; intros s Hs; apply Sok_popts; exact Hs|]. apply Hdoc. exact Ht1.
    - apply tok_lift. intros env He. apply replaceInline_top_good; auto. }
  intros text2 Ht2. apply tok_bind_gets. intros s3 Hs3.
  assert (Hclose : rfree (d_closeTag (nth i (s_dblocks s3) d'))) by (apply nth_dok; [apply (so_dblocks s3 Hs3)|exact Hd']).
  remember (d_closeTag (nth i (s_dblocks s3) d')) as closetag eqn:Ec. clear Ec.
  destruct (str_eqb (d_name d) _ && str_eqb opentag _); cbv beta iota; apply tok_ret; rf;
    match goal with |- _ (if ?b then _ else _) => destruct b end; rf.
Qed.

Lemma dblock_loop_ok allowed : forall k i rd, rdok rd -> tok lbres (dblock_loop fuel doc k i rd allowed).
Proof.
  induction k as [|k IH]; intros i rd Hrd; cbn [dblock_loop].
  { apply tok_ret. split; [intros t Ht; discriminate|exact Hrd]. }
  apply tok_bind_gets. intros s0 Hs0. destruct (nth_error (s_dblocks s0) i) as [d|] eqn:En.
  2:{ apply tok_ret. split; [intros t Ht; discriminate|exact Hrd]. }
  assert (Hd : dok d).
  { apply nth_error_In in En. pose proof (so_dblocks s0 Hs0) as H. rewrite Forall_forall in H. auto. }
  destruct (_ && _); [apply IH; exact Hrd|].
  destruct rd as [|cur rest]; [apply tok_raise|]. inversion Hrd as [|? ? Hcur Hrest]; subst.
  destruct (re_search (d_openRe d) cur) as [m|] eqn:E; [|apply IH; exact Hrd].
  pose proof (re_search_groups (fun x => 2 < x) _ _ _ E Hcur) as G.
  assert (Body : tok lbres (r <- dblock_body fuel doc i d m rest ;; ret (Some (fst r), snd r))).
  { eapply tok_bind; [apply dblock_body_ok; auto|]. intros [out rd'] [H1 H2]. apply tok_ret. split; [|exact H2].
    intros t Ht. inversion Ht; subst. exact H1. }
  destruct (grp0 m) as [|c0 g0]; destruct (str_eqb (d_name d) _); try apply tok_raise.
  - destruct (negb (db_verify d m)); [apply IH; exact Hrd|exact Body].
  - destruct (c0 =? 92). { apply IH. constructor; [apply allc_tl; exact Hcur|exact Hrest]. }
    destruct (negb (db_verify d m)); [apply IH; exact Hrd|exact Body].
Qed.

Lemma dblocks_render_ok rd allowed : rdok rd -> tok lbres (dblocks_render fuel doc rd allowed).
Proof. intros H. unfold dblocks_render. apply tok_bind_gets. intros s0 _. apply dblock_loop_ok. exact H. Qed.
End WithDoc.
End DBlocks.

(* ---- lists ---- *)
Section Lists.
Variable fuel : nat.
Variable doc : str -> M str.
Hypothesis Hdoc : forall text, rfree text -> tok rfree (doc text).

Ltac rf := repeat first
  [ assumption | apply allc_nil
  | match goal with G : forall k, allc _ (grp_s ?m k) |- allc _ (grp_s ?m _) => apply G end
  | match goal with G : forall k, allc _ (grp_s ?m k) |- rfree (grp_s ?m _) => apply G end
  | match goal with G : forall k, rfree (grp_s ?m k) |- _ (grp_s ?m _) => apply G end
  | match goal with |- allc _ [_] => (intros ? [<-|[]]; cbv beta; lia) end
  | match goal with |- rfree [_] => (intros ? [<-|[]]; cbv beta; lia) end
  | apply allc_app; split | apply allc_strip | apply allc_tl | apply allc_drop_last
  | apply rfree_lower | apply rfree_escape | apply rfree_str_of_N | apply allc_takeN | apply allc_dropN
  | rf_lit ].

Definition lidok (d : listdef) : Prop :=
  rfree (li_listOpen d) /\ rfree (li_listClose d) /\ rfree (li_itemOpen d) /\ rfree (li_itemClose d) /\
  rfree (li_termOpen d) /\ rfree (li_termClose d).

Lemma lists_defs_ok : Forall lidok lists_defs.
Proof.
  assert (H : forallb (fun d => rfreeb (li_listOpen d) && rfreeb (li_listClose d) && rfreeb (li_itemOpen d) &&
                                rfreeb (li_itemClose d) && rfreeb (li_termOpen d) && rfreeb (li_termClose d)) lists_defs = true)
    by (vm_compute; reflexivity).
  rewrite forallb_forall in H. rewrite Forall_forall. intros d Hd. apply H in Hd.
  repeat (apply andb_prop in Hd as [Hd ?]). unfold lidok. repeat split; apply rfreeb_spec; assumption.
Qed.

Definition item_ok (it : item) : Prop :=
  lidok (it_def it) /\ (forall k, rfree (grp_s (it_m it) k)) /\ rfree (it_id it).
Definition oitem (o : option item) : Prop := forall it, o = Some it -> item_ok it.

Lemma matchItem_loop_ok : forall defs rd r, Forall lidok defs -> rdok rd -> matchItem_loop defs rd = Ok r ->
  oitem (fst r) /\ rdok (snd r).
Proof.
  induction defs as [|d ds IH]; intros rd r Hd Hrd H; cbn [matchItem_loop] in H.
  { inversion H; subst. split; [intros it Hi; discriminate|exact Hrd]. }
  inversion Hd as [|? ? Hd1 Hds]; subst.
  destruct rd as [|cur rest]. { inversion H; subst. split; [intros it Hi; discriminate|exact Hrd]. }
  inversion Hrd as [|? ? Hcur Hrest]; subst.
  destruct (re_search (li_re d) cur) as [m|] eqn:E; [|apply (IH (cur :: rest) r Hds Hrd H)].
  pose proof (re_search_groups (fun x => 2 < x) _ _ _ E Hcur) as G.
  destruct (grp0 m) as [|c0 g0]; [discriminate|]. destruct (c0 =? 92).
  { inversion H; subst. split; [intros it Hi; discriminate|]. constructor; [apply allc_tl; exact Hcur|exact Hrest]. }
  destruct (grp m (re_groups (li_re d) - 1)) as [id|] eqn:Eid; inversion H; subst; (split; [|exact Hrd]);
    intros it Hi; inversion Hi; subst; (split; [exact Hd1|split; [exact G|]]); cbn.
  - eapply (grp_orf m _ G). exact Eid.
  - apply allc_nil.
Qed.

Lemma matchItem_ok rd : rdok rd -> tok (fun r => oitem (fst r) /\ rdok (snd r)) (matchItem rd).
Proof.
  intros Hrd. unfold matchItem. destruct (matchItem_loop lists_defs rd) as [r|e|] eqn:E; [|apply tok_raise|apply tok_fuel].
  apply tok_ret. eapply matchItem_loop_ok; eauto using lists_defs_ok.
Qed.

Definition cbres (r : Z * str * reader) : Prop := rfree (snd (fst r)) /\ rdok (snd r).

Lemma consumeBlockAttributes_ok : forall n rd blanks acc, rdok rd -> rfree acc ->
  tok cbres (consumeBlockAttributes fuel n rd blanks acc).
Proof.
  induction n as [|n IH]; intros rd blanks acc Hrd Hacc; cbn [consumeBlockAttributes]; [apply tok_fuel|].
  destruct rd as [|l rd0]; [apply tok_ret; split; [exact Hacc|exact Hrd]|].
  eapply tok_bind; [apply lineblocks_render_ok; exact Hrd|]. intros [o rd'] [Ho Hrd']. cbn [fst snd] in *.
  destruct o as [out|].
  - apply IH; [exact Hrd'|]. rf. apply Ho. reflexivity.
  - destruct rd' as [|cur rest]; [apply tok_raise|]. destruct (nonempty cur); [apply tok_ret; split; assumption|].
    apply IH; [inversion Hrd'; assumption|exact Hacc].
Qed.

Lemma pop_listid_ok : tok (fun _ => True) pop_listid.
Proof.
  unfold pop_listid. apply tok_bind_gets. intros s0 _. destruct (frev (s_listids s0)) as [|x0 r0]; [apply tok_raise|].
  apply tok_modify. intros sx Hsx. apply Sok_listids. exact Hsx.
Qed.

Definition lres (r : str * option item * reader) : Prop := rfree (fst (fst r)) /\ oitem (snd (fst r)) /\ rdok (snd r).
Definition ilres (r : option item * reader * str * str) : Prop :=
  let '(nx, rd, il, at') := r in oitem nx /\ rdok rd /\ rfree il /\ rfree at'.

Lemma oitem_none : oitem None.
Proof. intros it H. discriminate. Qed.
Lemma lres_intro out nx rd : rfree out -> oitem nx -> rdok rd -> lres (out, nx, rd).
Proof. intros. unfold lres. cbn. auto. Qed.
Lemma ilres_intro nx rd il at' : oitem nx -> rdok rd -> rfree il -> rfree at' -> ilres (nx, rd, il, at').
Proof. intros. unfold ilres. auto. Qed.

Definition P_list (n : nat) := forall it rd, item_ok it -> rdok rd -> tok lres (renderList fuel doc n it rd).
Definition P_items (n : nat) := forall it rd, item_ok it -> rdok rd -> tok lres (renderItems fuel doc n it rd).
Definition P_item (n : nat) := forall it rd, item_ok it -> rdok rd -> tok lres (renderListItem fuel doc n it rd).
Definition P_loop (n : nat) := forall rd il at' dn, rdok rd -> rfree il -> rfree at' -> tok ilres (itemLoop fuel doc n rd il at' dn).

Lemma lists_mutual : forall n, P_list n /\ P_items n /\ P_item n /\ P_loop n.
Proof.
  induction n as [|n (IHl & IHs & IHi & IHo)].
  { repeat split; intro; intros; apply tok_fuel. }
  split; [|split; [|split]].
  - (* renderList *)
    intros it rd Hit Hrd. cbn [renderList]. destruct Hit as (Hd & G & Hid). pose proof Hd as (H1 & H2 & H3 & H4 & H5 & H6).
    apply tok_seq; [apply tok_modify; intros s Hs; apply Sok_listids; exact Hs|].
    eapply tok_bind; [apply injectHtmlAttributes_ok; exact H1|]. intros open Hopen.
    eapply tok_bind; [apply IHs; [repeat split; assumption|exact Hrd]|]. intros [[body nx] rd'] (Hb & Hn & Hr). cbn [fst snd] in *.
    apply tok_seq; [apply pop_listid_ok|]. apply tok_ret, lres_intro; auto. rf.
  - (* renderItems *)
    intros it rd Hit Hrd. cbn [renderItems].
    eapply tok_bind; [apply IHi; assumption|]. intros [[out nx] rd'] (Hb & Hn & Hr). cbn [fst snd] in *.
    destruct nx as [nx|]; [|apply tok_ret, lres_intro; auto using oitem_none].
    destruct (str_eqb (it_id nx) (it_id it)); [|apply tok_ret, lres_intro; auto].
    eapply tok_bind; [apply IHs; [apply Hn; reflexivity|exact Hr]|]. intros [[out2 nn] rd2] (Hb2 & Hn2 & Hr2). cbn [fst snd] in *.
    apply tok_ret, lres_intro; auto. rf.
  - (* renderListItem *)
    intros it rd Hit Hrd. cbn [renderListItem]. destruct Hit as (Hd & G & Hid). pose proof Hd as (H1 & H2 & H3 & H4 & H5 & H6).
    eapply tok_bind with (P := rfree).
    { destruct (nonempty (li_termOpen (it_def it))); [|apply tok_ret, allc_nil].
      eapply tok_bind; [apply injectHtmlAttributes_ok; exact H5|]. intros t Ht.
      apply tok_seq; [apply tok_modify; intros s Hs; apply Sok_id; [apply allc_nil|exact Hs]|].
      eapply tok_bind with (P := rfree).
      { apply tok_lift. intros e He. destruct (grp (it_m it) 1) as [g|] eqn:Eg; [|cbn; discriminate].
        apply replaceInline_top_good; [exact He|]. apply (grp_orf _ 1 G). exact Eg. }
      intros text Htext. apply tok_ret. rf. }
    intros head Hhead. eapply tok_bind; [apply injectHtmlAttributes_ok; exact H3|]. intros iopen Hiopen.
    destruct (item_text it) as [first|] eqn:Ef; [|apply tok_raise].
    assert (Hfirst : rfree first) by (apply (grp_orf _ _ G) in Ef; exact Ef).
    eapply tok_bind; [apply IHo; [apply rdok_tl; exact Hrd|rf|apply allc_nil]|].
    intros [[[nx rd'] il] at'] (Hn & Hr & Hil & Hat).
    eapply tok_bind with (P := rfree).
    { apply tok_lift. intros e He. apply replaceInline_top_good; [exact He|rf]. }
    intros text Htext. apply tok_ret, lres_intro; auto. rf.
  - (* itemLoop *)
    intros rd il at' dn Hrd Hil Hat. cbn [itemLoop].
    eapply tok_bind; [apply consumeBlockAttributes_ok; [exact Hrd|apply allc_nil]|].
    intros [[blanks out] rd1] [Hout Hrd1]. cbn [fst snd] in *.
    assert (Hat2 : rfree (at' ++ out)) by rf.
    destruct (_ || _). { apply tok_ret, ilres_intro; auto using oitem_none. }
    eapply tok_bind; [apply matchItem_ok; exact Hrd1|]. intros [nx rd2] [Hn Hrd2]. cbn [fst snd] in *.
    destruct nx as [nx|].
    + apply tok_bind_gets. intros s0 _. destruct (mem _ _). { apply tok_ret, ilres_intro; auto. }
      eapply tok_bind; [apply IHl; [apply Hn; reflexivity|exact Hrd2]|]. intros [[out2 nn] rd3] (Ho2 & Hn2 & Hr3). cbn [fst snd] in *.
      apply tok_ret, ilres_intro; auto. rf.
    + destruct dn. { apply tok_ret, ilres_intro; auto. }
      destruct (blanks =? 0)%Z.
      { apply tok_bind_gets. intros s0 _.
        apply tok_seq; [apply tok_modify; intros s Hs; apply Sok_listids; exact Hs|].
        eapply tok_bind; [apply dblocks_render_ok; [exact Hdoc|exact Hrd2]|]. intros [o rd3] [Ho Hrd3]. cbn [fst snd] in *.
        apply tok_seq; [apply tok_modify; intros s Hs; apply Sok_listids; exact Hs|].
        destruct o as [out3|].
        - apply IHo; [exact Hrd3|exact Hil|]. rf. apply Ho. reflexivity.
        - destruct rd3 as [|cur rest]; [apply tok_raise|]. inversion Hrd3; subst. apply IHo; [assumption| |exact Hat2]. rf. }
      destruct (blanks =? 1)%Z; [|apply tok_fuel].
      eapply tok_bind; [apply dblocks_render_ok; [exact Hdoc|exact Hrd2]|]. intros [o rd3] [Ho Hrd3]. cbn [fst snd] in *.
      destruct o as [out3|].
      * apply IHo; [exact Hrd3|exact Hil|]. rf. apply Ho. reflexivity.
      * apply tok_ret, ilres_intro; auto.
Qed.

Lemma lists_render_ok n rd : rdok rd -> tok lbres (lists_render fuel doc n rd).
Proof.
  intros Hrd. unfold lists_render. eapply tok_bind; [apply matchItem_ok; exact Hrd|]. intros [o rd'] [Ho Hrd']. cbn [fst snd] in *.
  destruct o as [it|]; [|apply tok_ret; split; [intros t Ht; discriminate|exact Hrd']].
  apply tok_seq; [apply tok_modify; intros s Hs; apply Sok_listids; exact Hs|].
  eapply tok_bind; [apply (proj1 (lists_mutual n)); [apply Ho; reflexivity|exact Hrd']|].
  intros [[out nx] rd2] (Hout & _ & Hrd2). cbn [fst snd] in *.
  apply tok_bind_gets. intros s0 _.
  apply tok_seq; [destruct (s_listids s0); [apply tok_ret; exact Logic.I|apply tok_log_msg]|].
  apply tok_ret. split; [intros t Ht; inversion Ht; subst; exact Hout|exact Hrd2].
Qed.

Lemma doc_loop_ok : forall n rd, rdok rd -> tok rfree (doc_loop fuel doc n rd).
Proof.
  induction n as [|n IH]; intros rd Hrd; cbn [doc_loop]; [apply tok_fuel|].
  pose proof (rdok_skip rd Hrd) as Hs. destruct (skipBlankLines rd) as [|l rd0] eqn:E; [apply tok_ret, allc_nil|].
  assert (Cont : forall out rd', rfree out -> rdok rd' -> tok rfree (rest <- doc_loop fuel doc n rd' ;; ret (out ++ rest))).
  { intros out rd' Ho Hr. eapply tok_bind; [apply IH; exact Hr|]. intros rest Hrest. apply tok_ret. rf. }
  eapply tok_bind; [apply lineblocks_render_ok; exact Hs|]. intros [o rd1] [Ho Hrd1]. cbn [fst snd] in *.
  destruct o as [out|]; [apply Cont; [apply Ho; reflexivity|exact Hrd1]|].
  eapply tok_bind; [apply lists_render_ok; exact Hrd1|]. intros [o rd2] [Ho2 Hrd2]. cbn [fst snd] in *.
  destruct o as [out|]; [apply Cont; [apply Ho2; reflexivity|exact Hrd2]|].
  eapply tok_bind; [apply dblocks_render_ok; [exact Hdoc|exact Hrd2]|]. intros [o rd3] [Ho3 Hrd3]. cbn [fst snd] in *.
  destruct o as [out|]; [apply Cont; [apply Ho3; reflexivity|exact Hrd3]|apply tok_fuel].
Qed.
End Lists.

(* ---- document.render and the API ---- *)
Theorem doc_render_ok : forall n text, tok rfree (doc_render n text).
Proof.
  induction n as [|n IH]; intros text; cbn [doc_render]; [apply tok_fuel|].
  apply doc_loop_ok; [intros t _; apply IH|apply mk_reader_ok].
Qed.

Theorem api_render_ok n src o : opts_ok o -> tok rfree (api_render n src o).
Proof.
  intros Ho. unfold api_render. apply tok_bind_gets. intros s0 _.
  apply tok_seq; [destruct (_ =? _)%Z; [apply tok_modify; intros s _; apply Sok_init|apply tok_ret; exact Logic.I]|].
  apply tok_seq; [apply updateFrom_ok; exact Ho|]. apply doc_render_ok.
Qed.

(* ---- every reachable session ---- *)
Lemma Sok_S0 : Sok S0.
Proof.
  constructor; cbn; try apply allc_nil; [|constructor].
  constructor; [constructor; cbn; [apply allc_nil|constructor|constructor]|constructor].
Qed.

Definition out_ok (o : outcome) : Prop := match o with OOk html => rfree html | _ => True end.

Theorem run_ok n : forall h s, Sok s -> Forall (fun so => opts_ok (snd so)) h ->
  Forall out_ok (fst (run n s h)) /\ Sok (snd (run n s h)).
Proof.
  induction h as [|[src o] h IH]; intros s Hs Ho; cbn [run]; [split; [constructor|exact Hs]|].
  inversion Ho as [|? ? Ho1 Hoh]; subst. cbn [snd] in Ho1.
  pose proof (api_render_ok n src o Ho1 s Hs) as H. destruct (api_render n src o s) as [[html s']|e|].
  - destruct H as [Hh Hs']. specialize (IH s' Hs' Hoh). destruct (run n s' h) as [l s'']. cbn in *.
    destruct IH. split; [constructor; auto|assumption].
  - cbn. split; [repeat constructor|exact Hs].
  - cbn. split; [repeat constructor|exact Hs].
Qed.

Corollary history_output_reserved_free n h : Forall (fun so => opts_ok (snd so)) h -> Forall out_ok (fst (run n S0 h)).
Proof. intros H. apply (run_ok n h S0 Sok_S0 H). Qed.

Lemma inline_no_underflow : forall s n src, env_ok s -> rfree src -> spans_render n s src <> Raise ExPopEmpty.
Proof.
  intros s n src He Hs H. pose proof (placeholder_protocol s n src He Hs) as P. rewrite H in P. apply P. reflexivity.
Qed.

Lemma reachable_env_ok : forall n h, Forall (fun so => opts_ok (snd so)) h -> env_ok (ienv_of (snd (run n S0 h))).
Proof. intros n h H. apply io_env, so_env. apply (run_ok n h S0 Sok_S0 H). Qed.

Lemma render_reserved_free : forall n src o s, opts_ok o -> Sok s ->
  match api_render n src o s with Ok (html, s') => rfree html /\ Sok s' | _ => True end.
Proof. intros n src o s Ho Hs. exact (api_render_ok n src o Ho s Hs). Qed.

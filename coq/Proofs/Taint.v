(* Reserved code points never reach the output, and which exceptions can escape -- part 2: every block-layer function,
   document.render, the API and histories, as Hoare triples [tok Q m] over the block monad: from a session satisfying the
   invariant [Sok], m returns a value satisfying Q and a session satisfying Sok, or raises one of [blk_exn]. *)
From Rimu Require Import Base Unicode Regex RegexSem RegexAnalysis RegexParse Str Types Tables Guards State Inline Block MatchLemmas Placeholder
  TaintInline NoRaise NoRaiseTop Lines MatchExact ScanLemmas FilterLemmas.
From Coq Require Import Lia.
Local Open Scope monad_scope.

(* ---- the session invariant ---- *)
(* tags reserved-free; the closing pattern has no group, or a group 1
   that takes part in every match (Reader.readTo returns it) *)
Definition para_re : cre := {| re_ast := RGrp 1 (RRep true 0 None (RAny false)); re_groups := 1 |}.

(* name and opening pattern of a block definition never change: they are those of a default definition, of which every
   one but the paragraph's cannot match the empty string or a lone backslash *)
Definition dre_ok (n : str) (r : cre) : Prop :=
  (str_eqb n $"paragraph" = true /\ r = para_re) \/
  (str_eqb n $"paragraph" = false /\ nullable (re_ast r) = false /\ re_search r [92] = None).

(* the content filters that search with a pattern of their own find what they look for: the indented block's opening pattern
   has a group 1 that holds a non-space character, and the macro-definition block's opening pattern is built from the same two
   pieces as the pattern that re-reads the macro name from the opening delimiter (FilterLemmas.v) *)
Definition dcont_ok (d : ddef) : Prop :=
  match d_content d with
  | CfIndented => d_delim d = DfOpening /\ gmust 1 (re_ast (d_openRe d)) = true /\ (0 < re_groups (d_openRe d))%nat
  | CfMacroDef => mdef_okb (d_openRe d) = true /\ str_eqb (d_name d) $"paragraph" = false
  | _ => True
  end.

Definition dok (d : ddef) : Prop :=
  rfree (d_openTag d) /\ rfree (d_closeTag d) /\
  (re_groups (d_closeRe d) = O \/ always_grp 1 (re_ast (d_closeRe d)) = true) /\ dre_ok (d_name d) (d_openRe d) /\
  dcont_ok d.

(* what the opening match of a block gives its content filter *)
Definition mok (d : ddef) (m : mres) : Prop :=
  match d_content d with
  | CfIndented => d_delim d = DfOpening /\ exists g x, grp m 1 = Some g /\ In x g /\ nonspace x = true
  | CfMacroDef => re_search re_delimitedblocks_macroDefContentFilter_0 (grp0 m) <> None
  | _ => True
  end.

(* a definition whose filter reads group 1 keeps a pattern in which group 1 takes part in every match, also when its
   pattern text is compiled again with other flags by a redefinition *)
Definition filt_ok2 (d : rdef) : Prop :=
  filt_ok d /\
  match r_filter d with
  | RfHtml | RfEntity => forall ic ml rx, parse_regex (r_pat d) ic ml = POk rx -> always_grp 1 (re_ast rx) = true /\ (0 < re_groups rx)%nat
  | _ => True
  end.

(* the invariant, with the list-id stack as a ghost parameter *)
Record SokG (L : list str) (s : session) : Prop := {
  so_env : ienv_ok (ienv_of s);
  so_filt : Forall filt_ok2 (s_repls s);
  so_dblocks : Forall dok (s_dblocks s);
  so_classes : rfree (p_classes s);
  so_id : rfree (p_id s);
  so_css : rfree (p_css s);
  so_attrs : rfree (p_attrs s);
  so_listids : s_listids s = L }.
Arguments so_env {L} s _.
Arguments so_filt {L} s _.
Arguments so_dblocks {L} s _.

(* the exceptions that can escape: the two inline ones, and the case that the pattern of a content filter (indented
   paragraph, macro definition) does not match what its block pattern matched *)
Definition blk_exn (e : exn) : Prop :=
  e = ExIntTooLong \/ e = ExUnsupported.
Ltac bx := unfold blk_exn; tauto.

(* from a good session with list-id stack L1: a value satisfying Q and a good session with stack L2, or an allowed failure *)
Definition tokLL {A} (L1 L2 : list str) (Q : A -> Prop) (m : M A) : Prop :=
  forall s, SokG L1 s -> match m s with Ok (a, s') => Q a /\ SokG L2 s' | Raise e => blk_exn e | Fuel => True end.

(* the same without a claim on the stack (nested document.render resets it) *)
Definition tokR {A} (Q : A -> Prop) (m : M A) : Prop :=
  forall L s, SokG L s -> match m s with Ok (a, s') => Q a /\ (exists L', SokG L' s') | Raise e => blk_exn e | Fuel => True end.

Section WithL.
Variable L : list str.
Local Notation Sok := (SokG L).
Local Notation tok := (tokLL L L).

Lemma tok_ret {A} (Q : A -> Prop) a : Q a -> tok Q (ret a).
Proof. intros H s Hs. simpl. auto. Qed.

Lemma tok_raise {A} (Q : A -> Prop) e : blk_exn e -> tok Q (@raise A e).
Proof. intros He s Hs. exact He. Qed.

Lemma tok_fuel {A} (Q : A -> Prop) : tok Q (@out_of_fuel A).
Proof. intros s Hs. exact Logic.I. Qed.

Lemma tok_bind {A B} (P : A -> Prop) (Q : B -> Prop) (m : M A) (f : A -> M B) :
  tok P m -> (forall a, P a -> tok Q (f a)) -> tok Q (bind m f).
Proof.
  intros Hm Hf s Hs. specialize (Hm s Hs). unfold bind. destruct (m s) as [[a s1]|e|]; auto.
  destruct Hm as [Ha H1]. apply Hf; auto.
Qed.

Lemma tok_weaken {A} (P Q : A -> Prop) m : (forall a, P a -> Q a) -> tok P m -> tok Q m.
Proof. intros W H s Hs. specialize (H s Hs). destruct (m s) as [[a s1]|e|]; auto. destruct H; auto. Qed.

(* reading the state: the continuation is verified for every value read from a good session *)
Lemma tok_bind_gets {A B} (Q : B -> Prop) (g : session -> A) (f : A -> M B) :
  (forall s0, Sok s0 -> tok Q (f (g s0))) -> tok Q (bind (gets g) f).
Proof. intros H s Hs. unfold bind, gets. apply H; auto. Qed.

Lemma tok_gets {A} (Q : A -> Prop) (g : session -> A) : (forall s, Sok s -> Q (g s)) -> tok Q (gets g).
Proof. intros H s Hs. simpl. auto. Qed.

Lemma tok_modify (g : session -> session) : (forall s, Sok s -> Sok (g s)) -> tok (fun _ => True) (modify g).
Proof. intros H s Hs. simpl. auto. Qed.

Lemma tok_seq {A B} (Q : B -> Prop) (m : M A) (k : M B) : tok (fun _ => True) m -> tok Q k -> tok Q (bind m (fun _ => k)).
Proof. intros Hm Hk. eapply tok_bind; [exact Hm|]. intros _ _. exact Hk. Qed.

Lemma Sok_log s v : Sok s -> Sok (set_log s v).
Proof. intros [H1 H2 H3 H4 H5 H6 H7 H8]. destruct s. constructor; assumption. Qed.

Lemma tok_log_msg msg : tok (fun _ => True) (log_msg msg).
Proof. apply tok_modify. intros s Hs. apply Sok_log. exact Hs. Qed.

Lemma tok_log_msgs l : tok (fun _ => True) (log_msgs l).
Proof.
  induction l as [|m l IH]; simpl; [apply tok_ret; exact Logic.I|].
  apply tok_seq; [apply tok_log_msg|exact IH].
Qed.

Lemma filt_ok2_env s : Sok s -> Forall filt_ok (en_repls (ienv_of s)).
Proof. intros Hs. pose proof (so_filt s Hs) as H. cbn. eapply Forall_impl; [|exact H]. intros d [Hd _]. exact Hd. Qed.

(* an inline computation: its value postcondition, and the exceptions it may raise *)
Lemma tok_lift {A} (Q : A -> Prop) (f : ienv -> I A) :
  (forall e, ienv_ok e -> Forall filt_ok (en_repls e) -> good Q (f e) /\ raises_only inline_exn (f e)) -> tok Q (lift f).
Proof.
  intros H s Hs. unfold lift. destruct (H (ienv_of s) (so_env s Hs) (filt_ok2_env s Hs)) as [G R]. unfold good in G. unfold raises_only in R.
  destruct (f (ienv_of s)) as [[a msgs]|e|]; auto.
  pose proof (tok_log_msgs msgs s Hs) as Hl. unfold bind. destruct (log_msgs msgs s) as [[u s1]|e|]; auto.
  simpl. destruct Hl. auto.
Qed.

Section InlineTok.
Variable fuel : nat.

Lemma tok_replaceInline t e : rfree t -> tok rfree (lift (fun s => replaceInline_top fuel s (Some t) e)).
Proof. intros Ht. apply tok_lift. intros env He Hf. split; [apply replaceInline_top_good; auto|apply replaceInline_top_raises; auto]. Qed.

Lemma tok_macros_top t silent : rfree t -> tok rfree (lift (fun s => macros_render_top fuel s t silent)).
Proof. intros Ht. apply tok_lift. intros env He Hf. split; [apply macros_top_ok; auto|apply macros_render_top_raises; auto]. Qed.

Lemma tok_replaceMatch m ng repl e : (forall k, rfree (grp_s m k)) -> rfree repl ->
  tok rfree (lift (fun s => replaceMatch_top fuel s m ng repl e)).
Proof. intros Hm Hr. apply tok_lift. intros env He Hf. split; [apply replaceMatch_top_good; auto|apply replaceMatch_top_raises; auto]. Qed.
End InlineTok.

(* setters *)
Ltac sok_set := let H := fresh in intros H; destruct H as [? ? ? ? ? ? ? ?];
  match goal with s : session |- _ => destruct s end; constructor; cbn in *; auto.

Lemma Sok_classes s v : rfree v -> Sok s -> Sok (set_classes s v).
Proof. intros Hv. sok_set. Qed.
Lemma Sok_id s v : rfree v -> Sok s -> Sok (set_id s v).
Proof. intros Hv. sok_set. Qed.
Lemma Sok_css s v : rfree v -> Sok s -> Sok (set_css s v).
Proof. intros Hv. sok_set. Qed.
Lemma Sok_attrs s v : rfree v -> Sok s -> Sok (set_attrs s v).
Proof. intros Hv. sok_set. Qed.
Lemma Sok_popts s v : Sok s -> Sok (set_popts s v).
Proof. sok_set. Qed.
Lemma Sok_listids s v : Sok s -> SokG v (set_listids s v).
Proof. sok_set. Qed.
Lemma Sok_ids s v : Sok s -> Sok (set_ids s v).
Proof. sok_set. Qed.
Lemma Sok_mode s v : Sok s -> Sok (set_mode s v).
Proof.
  intros [[[H1 H2 H3] H4] H5 H6 H7 H8 H9 H10 H11]. destruct s. constructor; cbn in *; auto.
  constructor; [constructor|]; cbn in *; auto.
Qed.
Lemma Sok_cb s v : Sok s -> Sok (set_cb s v).
Proof. sok_set. Qed.
Lemma Sok_repl s v : rfree v -> Sok s -> Sok (set_repl s v).
Proof.
  intros Hv [[[H1 H2 H3] H4] H5 H6 H7 H8 H9 H10 H11]. destruct s. constructor; cbn in *; auto.
  constructor; [constructor|]; cbn in *; auto.
Qed.
Lemma Sok_macros s v : Forall (fun nv => rfree (snd nv)) v -> Sok s -> Sok (set_macros s v).
Proof.
  intros Hv [[[H1 H2 H3] H4] H5 H6 H7 H8 H9 H10 H11]. destruct s. constructor; cbn in *; auto.
  constructor; [constructor|]; cbn in *; auto.
Qed.
Lemma Sok_quotes s v : qdefs_ok v -> Sok s -> Sok (set_quotes s v).
Proof.
  intros Hv [[[H1 H2 H3] H4] H5 H6 H7 H8 H9 H10 H11]. destruct s. constructor; cbn in *; auto.
  constructor; [constructor|]; cbn in *; auto.
Qed.
Lemma Sok_repls s v : Forall (fun d => rfree (r_repl d)) v -> Forall filt_ok2 v -> Sok s -> Sok (set_repls s v).
Proof.
  intros Hv Hf [[[H1 H2 H3] H4] H5 H6 H7 H8 H9 H10 H11]. destruct s. constructor; cbn in *; auto.
  constructor; [constructor|]; cbn in *; auto.
Qed.
Lemma Sok_dblocks s v : Forall dok v -> Sok s -> Sok (set_dblocks s v).
Proof. intros Hv. sok_set. Qed.

(* ---- reader ---- *)
(* lines: reserved-free and without a line feed *)
Definition lfree : str -> Prop := allc (fun x => 2 < x /\ x <> 10).

Lemma lfree_rfree l : lfree l -> rfree l.
Proof. intros H x Hx. apply H in Hx. apply Hx. Qed.

Lemma lfree_intro l : rfree l -> (forall x, In x l -> x <> 10) -> lfree l.
Proof. intros H1 H2 x Hx. split; [apply H1|apply H2]; exact Hx. Qed.

Definition rdok (rd : reader) : Prop := Forall lfree rd.
(* the cursor line exists and is not empty *)
Definition rdne (rd : reader) : Prop := match rd with [] => False | cur :: _ => cur <> [] end.

Lemma rdok_rfree rd : rdok rd -> Forall rfree rd.
Proof. intros H. eapply Forall_impl; [|exact H]. apply lfree_rfree. Qed.

Lemma rdok_tl rd : rdok rd -> rdok (tl rd).
Proof. destruct rd; [auto|]. intros H. inversion H; auto. Qed.

Lemma rdok_skip rd : rdok rd -> rdok (skipBlankLines rd).
Proof. induction 1 as [|l t Hl Ht IH]; simpl; [constructor|]. destruct (is_empty (strip l)); [exact IH|constructor; auto]. Qed.

Lemma rdne_skip rd : skipBlankLines rd <> [] -> rdne (skipBlankLines rd).
Proof.
  induction rd as [|l t IH]; simpl; [congruence|]. destruct (is_empty (strip l)) eqn:E; [exact IH|].
  intros _. simpl. intros ->. discriminate.
Qed.

Lemma re_search_groups P r text m : re_search r text = Some m -> allc P text -> forall k, allc P (grp_s m k).
Proof. intros H Ht. apply re_search_spec in H. apply (match_spec_allc P _ _ _ H Ht). Qed.

Lemma re_search_grp P r text m k t : re_search r text = Some m -> allc P text -> grp m k = Some t -> allc P t.
Proof. intros H Ht Hg. pose proof (re_search_groups P r text m H Ht k) as G. unfold grp_s in G. rewrite Hg in G. exact G. Qed.

Lemma re_match_spec r text m : re_match r text = Some m -> match_spec r text m.
Proof. intros H. eapply (match_at_spec r text [] text None m); [reflexivity|exact H]. Qed.

Lemma re_match_groups P r text m : re_match r text = Some m -> allc P text -> forall k, allc P (grp_s m k).
Proof. intros H Ht. apply re_match_spec in H. apply (match_spec_allc P _ _ _ H Ht). Qed.

Lemma match_nonempty r text m : match_spec r text m -> nullable (re_ast r) = false -> grp0 m <> [].
Proof.
  intros [pre w post p fin Hs Hst Hen Hg Mrun Hrest Hwf] Hn.
  pose proof (proj1 nonnull_consumes _ _ _ Mrun) as [_ Hlt]. specialize (Hlt Hn). cbn in Hlt. rewrite Hrest, app_length in Hlt.
  unfold grp0, grp_s, grp. rewrite Hg. cbn. destruct w; [simpl in Hlt; lia|discriminate].
Qed.

Lemma readTo_ok rx : forall rd ls rd', rdok rd -> readTo rx rd = Ok (ls, rd') -> rdok ls /\ rdok rd'.
Proof.
  induction rd as [|l t IH]; intros ls rd' Hrd H; cbn [readTo] in H.
  - inversion H; subst. split; constructor.
  - inversion Hrd as [|? ? Hl Ht]; subst. destruct (re_search rx l) as [m|] eqn:E.
    + destruct (Nat.ltb 0 (re_groups rx)).
      * destruct (grp m 1) as [g|] eqn:Eg; [|discriminate]. inversion H; subst. split; [|exact Hrd].
        constructor; [|constructor]. eapply re_search_grp; eauto.
      * inversion H; subst. split; [constructor|exact Hrd].
    + destruct (readTo rx t) as [[ls0 rd0]|e|] eqn:E0; try discriminate. inversion H; subst.
      destruct (IH ls0 rd' Ht eq_refl) as [H1 H2]. split; [constructor; auto|exact H2].
Qed.

Lemma readTo_noraise rx : (re_groups rx = O \/ always_grp 1 (re_ast rx) = true) ->
  forall rd e, readTo rx rd <> Raise e.
Proof.
  intros Hrx. induction rd as [|l t IH]; intros e; cbn [readTo]; [discriminate|].
  destruct (re_search rx l) as [m|] eqn:E.
  - destruct (Nat.ltb 0 (re_groups rx)) eqn:Eg; [|discriminate]. apply PeanoNat.Nat.ltb_lt in Eg.
    destruct Hrx as [H0|Ha]; [lia|]. apply re_search_spec in E.
    destruct (match_spec_grp_some rx l m O E Ha Eg) as (t1 & ->). discriminate.
  - destruct (readTo rx t) as [[ls rd']|e'|] eqn:E0; try discriminate. exfalso. eapply IH; eauto.
Qed.

Lemma mk_reader_ok text : rdok (mk_reader text).
Proof.
  assert (R : Forall rfree (mk_reader text)).
  { unfold mk_reader, re_split. destruct (re_scan _ (blank_reserved text)) as [l tl] eqn:E.
    assert (Hb : rfree (blank_reserved text)).
    { intros x Hx. unfold blank_reserved in Hx. apply in_map_iff in Hx as (c & <- & _).
      destruct ((c =? 0) || (c =? 1) || (c =? 2)) eqn:Ec; cbv beta; [lia|].
      apply orb_false_iff in Ec as [Ec E2]. apply orb_false_iff in Ec as [E0 E1].
      apply N.eqb_neq in E0, E1, E2. lia. }
    apply (re_scan_allc (fun x => 2 < x)) in E as [Hl Htl]; [|exact Hb].
    apply Forall_app. split; [|constructor; [exact Htl|constructor]].
    rewrite Forall_forall in *. intros x Hx. apply in_map_iff in Hx as (bm & <- & Hbm). apply Hl. exact Hbm. }
  pose proof (mk_reader_nlfree text) as N. unfold rdok. rewrite Forall_forall in *. intros l Hl.
  apply lfree_intro; [apply R; exact Hl|]. intros x Hx ->. specialize (N l Hl 10 Hx). discriminate.
Qed.

(* ---- blockattributes ---- *)
Section Blocks.
Variable fuel : nat.

Ltac rf := repeat first
  [ assumption | apply allc_nil
  | match goal with G : forall k, allc _ (grp_s ?m k) |- allc _ (grp_s ?m _) => apply G end
  | match goal with G : forall k, allc _ (grp_s ?m k) |- rfree (grp_s ?m _) => apply G end
  | match goal with G : forall k, rfree (grp_s ?m k) |- _ (grp_s ?m _) => apply G end
  | match goal with |- allc _ [_] => (intros ? [<-|[]]; cbv beta; lia) end
  | match goal with |- rfree [_] => (intros ? [<-|[]]; cbv beta; lia) end
  | apply allc_app; split | apply allc_strip | apply allc_tl | apply allc_drop_last
  | apply rfree_lower | apply rfree_escape | apply rfree_str_of_N | apply allc_takeN | apply allc_dropN
  | rf_lit ].

Lemma tok_when (b : bool) (m : M unit) : tok (fun _ => True) m -> tok (fun _ => True) (if b then m else ret tt).
Proof. intros H. destruct b; [exact H|apply tok_ret; exact Logic.I]. Qed.

Lemma blockattributes_parse_ok attrs : rfree attrs -> tok (fun _ => True) (blockattributes_parse fuel attrs).
Proof.
  intros Ha. unfold blockattributes_parse. apply tok_bind_gets. intros s0 _.
  destruct (parse_skip (s_mode s0)); [apply tok_ret; exact Logic.I|].
  eapply tok_bind with (P := rfree).
  { apply tok_replaceInline. exact Ha. }
  intros text Ht. destruct (re_match re_blockattributes_parse_0 text) as [m1|] eqn:E1; [|apply tok_ret; exact Logic.I].
  pose proof (re_match_groups (fun x => 2 < x) _ _ _ E1 Ht) as G1.
  destruct (re_match re_blockattributes_parse_1 _) as [m2|] eqn:E2; [|apply tok_ret; exact Logic.I].
  assert (Hd : rfree (dropN (m_end m1) text)) by (apply allc_dropN; exact Ht).
  pose proof (re_match_groups (fun x => 2 < x) _ _ _ E2 Hd) as G2.
  apply tok_seq. { apply tok_when, tok_modify. intros s Hs. apply Sok_classes; [|exact Hs]. destruct Hs. rf. }
  apply tok_seq. { apply tok_when, tok_modify. intros s Hs. apply Sok_id; [|exact Hs]. rf. }
  apply tok_seq.
  { apply tok_when, tok_modify. intros s Hs. apply Sok_css; [|exact Hs]. destruct Hs.
    apply allc_strip, allc_app. split; [destruct (_ && _); rf|rf]. }
  apply tok_seq.
  { apply tok_when, tok_modify. intros s Hs. destruct (attrs_allowed (s_mode s)); [|exact Hs].
    apply Sok_attrs; [|exact Hs]. destruct Hs. rf. }
  apply tok_seq.
  { destruct (opt_nonempty (grp m2 5)); [|apply tok_ret; exact Logic.I].
    apply tok_bind_gets. intros s1 _. apply tok_seq; [apply tok_log_msgs|].
    apply tok_modify. intros s Hs. apply Sok_popts. exact Hs. }
  apply tok_ret. exact Logic.I.
Qed.

Lemma register_or_report_ok has_id id s : Sok s -> Sok (register_or_report has_id id s).
Proof. intros Hs. unfold register_or_report. destruct (_ || _); [apply Sok_log|apply Sok_ids]; exact Hs. Qed.

Lemma injectHtmlAttributes_ok tag consume : rfree tag -> tok rfree (injectHtmlAttributes tag consume).
Proof.
  intros Ht. unfold injectHtmlAttributes. destruct tag as [|c tag']; [apply tok_ret; exact Ht|].
  set (tag := c :: tag') in *. apply tok_bind_gets. intros s0 Hs0.
  destruct Hs0 as [_ _ Hcl Hid Hcss Hat]. 
  match goal with |- tok _ (let '(_, _) := ?X in _) => set (ra := X) end.
  assert (Hra : rfree (fst ra) /\ rfree (snd ra)).
  { unfold ra. destruct (nonempty (p_classes s0)); [|split; rf].
    destruct (re_search re_blockattributes_injectHtmlAttributes_0 tag) as [m|] eqn:E; cbn [fst snd].
    - pose proof (re_search_groups (fun x => 2 < x) _ _ _ E Ht) as G. split; [|rf].
      apply allc_replace_first; [|exact Ht]. rf.
    - split; [exact Ht|]. rf. }
  destruct ra as [result attrs]. cbn [fst snd] in Hra. destruct Hra as [Hres Hattrs].
  eapply tok_bind with (P := rfree).
  { destruct (nonempty (p_id s0)); [|apply tok_ret; exact Hattrs].
    apply tok_seq; [apply tok_modify; intros s Hs; apply Sok_id; [rf|exact Hs]|].
    apply tok_seq; [apply tok_modify; intros s Hs; apply register_or_report_ok; exact Hs|].
    apply tok_ret. destruct (match re_search _ result with Some _ => true | None => false end); rf. }
  intros attrs1 Ha1.
  match goal with |- tok _ (let '(_, _) := ?X in _) => set (ra2 := X) end.
  assert (Hra2 : rfree (fst ra2) /\ rfree (snd ra2)).
  { unfold ra2. destruct (nonempty (p_css s0)); [|split; assumption].
    destruct (re_search re_blockattributes_injectHtmlAttributes_2 result) as [m|] eqn:E; cbn [fst snd].
    - pose proof (re_search_groups (fun x => 2 < x) _ _ _ E Hres) as G. split; [|exact Ha1].
      apply allc_replace_first; [|exact Hres].
      apply allc_app. split; [apply G|]. apply allc_app. split.
      + destruct (ends_with [59] (strip (grp_s m 2))); rf.
      + rf.
    - split; [exact Hres|]. rf. }
  destruct ra2 as [result2 attrs2]. cbn [fst snd] in Hra2. destruct Hra2 as [Hres2 Hattrs2].
  assert (Ha3 : rfree (strip (if nonempty (p_attrs s0) then attrs2 ++ [32] ++ p_attrs s0 else attrs2))).
  { apply allc_strip. destruct (nonempty (p_attrs s0)); rf. }
  apply tok_seq.
  { destruct consume; [|apply tok_ret; exact Logic.I]. apply tok_modify. intros s Hs.
    apply Sok_attrs; [rf|]. apply Sok_css; [rf|]. apply Sok_id; [rf|]. apply Sok_classes; [rf|exact Hs]. }
  apply tok_ret. match goal with |- rfree (if ?b then _ else _) => destruct b end; [|exact Hres2].
  destruct (re_search re_blockattributes_injectHtmlAttributes_3 result2); [|exact Hres2].
  rf.
Qed.

Lemma slug_suffix_rfree ids slug : rfree slug -> forall budget i, rfree (slug_suffix budget ids slug i).
Proof.
  intros Hs. induction budget as [|b bs IH]; intros i; cbn [slug_suffix].
  - rf.
  - destruct (mem _ ids); [apply IH|]. rf.
Qed.

Lemma slugify_rfree ids text : rfree text -> rfree (slugify ids text).
Proof.
  intros Ht. unfold slugify.
  set (s1 := re_sub re_blockattributes_slugify_0 _ text).
  assert (H1 : rfree s1) by (apply re_sub_allc; [exact Ht|intros; intros x [<-|[]]; cbv beta; lia]).
  set (s2 := re_sub re_blockattributes_slugify_1 _ s1).
  assert (H2 : rfree s2) by (apply re_sub_allc; [exact H1|intros; intros x [<-|[]]; cbv beta; lia]).
  set (s3 := re_sub re_blockattributes_slugify_2 _ s2).
  assert (H3 : rfree s3) by (apply re_sub_allc; [exact H2|intros; apply allc_nil]).
  set (s4 := match lower s3 with [] => $"x" | _ => lower s3 end).
  assert (H4 : rfree s4) by (unfold s4; destruct (lower s3) eqn:E; [rf_lit|rewrite <- E; apply rfree_lower; exact H3]).
  destruct (mem s4 ids); [apply slug_suffix_rfree; exact H4|exact H4].
Qed.
End Blocks.

(* ---- options and definitions ---- *)
Definition is_para_re (r : cre) : bool :=
  match re_ast r with
  | RGrp 1 (RRep true 0 None (RAny false)) => Nat.eqb (re_groups r) 1
  | _ => false
  end.

Lemma is_para_re_spec r : is_para_re r = true -> r = para_re.
Proof.
  unfold is_para_re. destruct r as [a g]. cbn. destruct a; try discriminate. destruct n as [|[|n]]; try discriminate.
  destruct a; try discriminate. destruct greedy; try discriminate. destruct mn; try discriminate. destruct mx; try discriminate.
  destruct a; try discriminate. destruct dotall; try discriminate. intros H. apply PeanoNat.Nat.eqb_eq in H. subst. reflexivity.
Qed.

Definition dre_okb (n : str) (r : cre) : bool :=
  if str_eqb n $"paragraph" then is_para_re r
  else negb (nullable (re_ast r)) && match re_search r [92] with None => true | Some _ => false end.

Lemma dre_okb_spec n r : dre_okb n r = true -> dre_ok n r.
Proof.
  unfold dre_okb, dre_ok. destruct (str_eqb n _); intros H.
  - left. split; [reflexivity|apply is_para_re_spec; exact H].
  - right. apply andb_prop in H as [H1 H2]. split; [reflexivity|]. split; [apply negb_true_iff; exact H1|].
    destruct (re_search r [92]); [discriminate|reflexivity].
Qed.

Definition dcont_okb (d : ddef) : bool :=
  match d_content d with
  | CfIndented => (match d_delim d with DfOpening => true | _ => false end) && gmust 1 (re_ast (d_openRe d)) &&
                  Nat.ltb 0 (re_groups (d_openRe d))
  | CfMacroDef => mdef_okb (d_openRe d) && negb (str_eqb (d_name d) $"paragraph")
  | _ => true
  end.

Lemma dcont_okb_spec d : dcont_okb d = true -> dcont_ok d.
Proof.
  unfold dcont_okb, dcont_ok. destruct (d_content d); auto; intros H.
  - apply andb_prop in H as [H1 H2]. split; [exact H1|apply negb_true_iff; exact H2].
  - apply andb_prop in H as [H H3]. apply andb_prop in H as [H1 H2].
    split; [destruct (d_delim d); try discriminate; reflexivity|]. split; [exact H2|apply PeanoNat.Nat.ltb_lt; exact H3].
Qed.

Definition dokb (d : ddef) : bool :=
  rfreeb (d_openTag d) && rfreeb (d_closeTag d) &&
  (Nat.eqb (re_groups (d_closeRe d)) 0 || always_grp 1 (re_ast (d_closeRe d))) && dre_okb (d_name d) (d_openRe d) &&
  dcont_okb d.

Lemma dokb_spec d : dokb d = true -> dok d.
Proof.
  unfold dokb, dok. intros H. apply andb_prop in H as [H H6]. apply andb_prop in H as [H H5]. apply andb_prop in H as [H H4]. apply andb_prop in H as [H1 H2].
  split; [apply rfreeb_spec; exact H1|]. split; [apply rfreeb_spec; exact H2|]. split; [|split; [apply dre_okb_spec; exact H5|apply dcont_okb_spec; exact H6]].
  apply orb_prop in H4 as [H4|H4]; [left; apply PeanoNat.Nat.eqb_eq; exact H4|right; exact H4].
Qed.

Definition grp1_ok (p : parse_result) : bool :=
  match p with POk rx => always_grp 1 (re_ast rx) && Nat.ltb 0 (re_groups rx) | _ => true end.

Definition filt_okb (d : rdef) : bool :=
  match r_filter d with
  | RfHtml | RfEntity =>
      always_grp 1 (re_ast (r_re d)) && Nat.ltb 0 (re_groups (r_re d)) &&
      grp1_ok (parse_regex (r_pat d) false false) && grp1_ok (parse_regex (r_pat d) false true) &&
      grp1_ok (parse_regex (r_pat d) true false) && grp1_ok (parse_regex (r_pat d) true true)
  | _ => true
  end.

Lemma filt_okb_spec d : filt_okb d = true -> filt_ok2 d.
Proof.
  unfold filt_okb, filt_ok2, filt_ok. destruct (r_filter d); auto; intros H;
    repeat (apply andb_prop in H as [H ?]);
    (split; [split; [assumption|apply PeanoNat.Nat.ltb_lt; assumption]|]);
    intros ic ml rx Hp; destruct ic, ml;
    match goal with G : grp1_ok (parse_regex (r_pat d) ?a ?b) = true, Hp : parse_regex (r_pat d) ?a ?b = POk rx |- _ =>
      rewrite Hp in G; cbn in G; apply andb_prop in G as [G1 G2]; split; [exact G1|apply PeanoNat.Nat.ltb_lt; exact G2] end.
Qed.

Lemma Sok_init s : Sok s -> Sok (document_init s).
Proof.
  intros Hs0. unfold document_init. constructor; cbn; [| | | | | | |exact (so_listids _ _ Hs0)].
  - constructor; [apply env_okb_spec; vm_compute; reflexivity|]. cbn.
    repeat constructor; cbn; apply allc_nil.
  - assert (H : forallb filt_okb replacements_default = true) by (vm_compute; reflexivity).
    rewrite forallb_forall in H. rewrite Forall_forall. intros d Hd. apply filt_okb_spec. auto.
  - assert (H : forallb dokb dblocks_default = true) by (vm_compute; reflexivity).
    rewrite forallb_forall in H. rewrite Forall_forall. intros d Hd. apply dokb_spec. auto.
  - apply allc_nil.
  - apply allc_nil.
  - apply allc_nil.
  - apply allc_nil.
Qed.

Lemma setOption_safeMode_ok value : tok (fun _ => True) (setOption_safeMode value).
Proof.
  unfold setOption_safeMode. destruct (py_int value) as [n| |]; try apply tok_log_msg.
  destruct (mode_out_of_range n); [apply tok_log_msg|]. apply tok_modify. intros s Hs. apply Sok_mode. exact Hs.
Qed.

Lemma setOption_reset_ok value : tok (fun _ => True) (setOption_reset value).
Proof.
  unfold setOption_reset. destruct (reset_is_false value); [apply tok_ret; exact Logic.I|].
  destruct (reset_is_true value); [|apply tok_log_msg]. apply tok_modify. intros s Hs. apply Sok_init. exact Hs.
Qed.

Lemma setOption_doc_ok name value : rfree value -> tok (fun _ => True) (setOption_doc name value).
Proof.
  intros Hv. unfold setOption_doc. destruct (str_eqb name _); [apply setOption_safeMode_ok|].
  destruct (str_eqb name _); [apply setOption_reset_ok|].
  destruct (str_eqb name _); [|apply tok_log_msg]. apply tok_modify. intros s Hs. apply Sok_repl; auto.
Qed.

(* the API options: the replacement text given to the call must itself be free of the reserved code points *)
Definition opts_ok (o : opts) : Prop :=
  match o_htmlReplacement o with PyNone => True | v => rfree (py_str v) end.

Lemma updateFrom_ok o : opts_ok o -> tok (fun _ => True) (updateFrom o).
Proof.
  intros Ho. unfold updateFrom.
  apply tok_seq. { apply tok_modify. intros s Hs. destruct (s_cb s); [apply Sok_cb|]; exact Hs. }
  apply tok_seq. { apply setOption_reset_ok. }
  apply tok_seq. { destruct (o_callback o); [|apply tok_ret; exact Logic.I]. apply tok_modify. intros s Hs. apply Sok_cb. exact Hs. }
  apply tok_seq. { destruct (o_safeMode o); try apply setOption_safeMode_ok. apply tok_ret. exact Logic.I. }
  unfold opts_ok in Ho. destruct (o_htmlReplacement o); try (apply tok_modify; intros sx Hsx; apply Sok_repl; auto).
  apply tok_ret. exact Logic.I.
Qed.

Lemma macros_setValue_ok name value : rfree value -> tok (fun _ => True) (macros_setValue name value).
Proof.
  intros Hv. unfold macros_setValue. apply tok_bind_gets. intros s0 _.
  destruct (setValue_skip (s_mode s0)); [apply tok_ret; exact Logic.I|].
  destruct (_ && _); [apply tok_log_msg|]. apply tok_modify. intros s Hs. apply Sok_macros; [|exact Hs].
  pose proof (io_macros _ (so_env s Hs)) as Hm. cbn in Hm.
  induction Hm as [|[n v] l Hx Hl IH]; cbn.
  - constructor; [exact Hv|constructor].
  - destruct (str_eqb n _).
    + constructor; [|exact Hl]. cbn [snd]. cbn in Hx. match goal with |- rfree (if ?b then _ else _) => destruct b end; auto.
    + constructor; auto.
Qed.

Lemma quotes_setDefinition_ok q : rfree (q_quote q) -> rfree (q_open q) -> rfree (q_close q) ->
  tok (fun _ => True) (quotes_setDefinition q).
Proof.
  intros H1 H2 H3. unfold quotes_setDefinition. apply tok_modify. intros s Hs.
  pose proof (eo_quotes _ (io_env _ (so_env s Hs))) as Hq. cbn in Hq. unfold qdefs_ok in *.
  destruct (quote_getDefinition (s_quotes s) (q_quote q)).
  - apply Sok_quotes; [|exact Hs]. unfold qdefs_ok. rewrite Forall_forall in *. intros d Hd.
    apply in_map_iff in Hd as (d0 & <- & Hd0). specialize (Hq d0 Hd0). destruct (str_eqb _ _); cbn; tauto.
  - destruct (_ =? 2); (apply Sok_quotes; [|exact Hs]); unfold qdefs_ok.
    + constructor; auto.
    + apply Forall_app. split; [exact Hq|constructor; auto].
Qed.

Lemma upd_first_Forall {A} (P : A -> Prop) p f l : Forall P l -> (forall x, P x -> P (f x)) -> Forall P (upd_first p f l).
Proof. intros Hl Hf. induction Hl as [|x l Hx Hl IH]; cbn; [constructor|]. destruct (p x); constructor; auto. Qed.

Lemma upd_first_Forall_p {A} (P : A -> Prop) p f l : Forall P l -> (forall x, P x -> p x = true -> P (f x)) -> Forall P (upd_first p f l).
Proof. intros Hl Hf. induction Hl as [|x l Hx Hl IH]; cbn; [constructor|]. destruct (p x) eqn:E; constructor; auto. Qed.

Lemma replacements_setDefinition_ok pattern flags repl : rfree repl ->
  tok (fun _ => True) (replacements_setDefinition pattern flags repl).
Proof.
  intros Hr. unfold replacements_setDefinition.
  destruct (parse_regex pattern _ _) as [c| |] eqn:Ep; [|apply tok_log_msg|apply tok_raise; bx].
  apply tok_modify. intros s Hs. pose proof (eo_repls _ (io_env _ (so_env s Hs))) as Hq. cbn in Hq.
  pose proof (so_filt s Hs) as Hf.
  destruct (existsb _ (s_repls s)); (apply Sok_repls; [| |exact Hs]).
  - apply upd_first_Forall; [exact Hq|]. intros d _. exact Hr.
  - apply upd_first_Forall_p; [exact Hf|]. intros d [Hd1 Hd2] Hp. apply str_eqb_eq in Hp.
    unfold filt_ok2, filt_ok in *. cbn [r_filter r_re r_pat]. destruct (r_filter d); auto;
      (split; [rewrite Hp in Hd2; apply (Hd2 _ _ _ Ep)|exact Hd2]).
  - apply Forall_app. split; [exact Hq|constructor; [exact Hr|constructor]].
  - apply Forall_app. split; [exact Hf|]. constructor; [|constructor]. split; exact Logic.I.
Qed.

Lemma dblocks_setDefinition_ok name value : rfree value -> tok (fun _ => True) (dblocks_setDefinition name value).
Proof.
  intros Hv. unfold dblocks_setDefinition. apply tok_bind_gets. intros s0 _.
  destruct (negb _); [apply tok_log_msg|].
  destruct (re_search re_delimitedblocks_setDefinition_0 (strip value)) as [m|] eqn:E; [|apply tok_log_msg].
  pose proof (re_search_groups (fun x => 2 < x) _ _ _ E (allc_strip _ _ Hv)) as G.
  assert (Hupd : forall d, dok d -> dok (match grp m 1 with
      | Some t1 => mkD (d_name d) t1 (grp_s m 2) (d_openRe d) (d_closeRe d) (d_verify d) (d_delim d) (d_content d) (d_expand d)
      | None => d end)).
  { intros d Hd. destruct (grp m 1) as [t1|] eqn:E1; [|exact Hd]. destruct Hd as (_ & _ & Hc). split; cbn; [|split; [apply G|exact Hc]].
    specialize (G 1%nat). unfold grp_s in G. rewrite E1 in G. exact G. }
  destruct (grp m 3) as [o|].
  - destruct (expand_parse _ _ o) as [e msgs]. apply tok_seq; [|apply tok_log_msgs].
    apply tok_modify. intros s Hs. apply Sok_dblocks; [|exact Hs]. apply upd_first_Forall; [apply (so_dblocks s Hs)|].
    intros d Hd. apply Hupd in Hd. destruct Hd as (A & B & C & D). split; [exact A|]. split; [exact B|]. split; [exact C|exact D].
  - apply tok_modify. intros s Hs. apply Sok_dblocks; [|exact Hs]. apply upd_first_Forall; [apply (so_dblocks s Hs)|]. exact Hupd.
Qed.

(* ---- lineblocks ---- *)
Section Lines.
Variable fuel : nat.

Ltac rf := repeat first
  [ assumption | apply allc_nil
  | match goal with G : forall k, allc _ (grp_s ?m k) |- allc _ (grp_s ?m _) => apply G end
  | match goal with G : forall k, allc _ (grp_s ?m k) |- rfree (grp_s ?m _) => apply G end
  | match goal with G : forall k, rfree (grp_s ?m k) |- _ (grp_s ?m _) => apply G end
  | match goal with |- allc _ [_] => (intros ? [<-|[]]; cbv beta; lia) end
  | match goal with |- rfree [_] => (intros ? [<-|[]]; cbv beta; lia) end
  | apply allc_app; split | apply allc_strip | apply allc_tl | apply allc_drop_last
  | apply rfree_lower | apply rfree_escape | apply rfree_str_of_N | apply allc_takeN | apply allc_dropN
  | rf_lit ].

Definition orf (o : option str) : Prop := forall t, o = Some t -> rfree t.

Lemma grp_orf m k : (forall j, rfree (grp_s m j)) -> orf (grp m k).
Proof. intros G t Ht. specialize (G k). unfold grp_s in G. rewrite Ht in G. exact G. Qed.

Lemma macros_expand_ok text : (exists t, text = Some t) -> orf text -> tok rfree (macros_expand fuel text).
Proof.
  intros (t & ->) Ht. unfold macros_expand. apply tok_replaceInline; apply Ht; reflexivity.
Qed.

(* the groups a line filter hands to macro expansion *)
Definition lfilter_groups (f : lfilter) : list nat :=
  match f with
  | LfBlockDef => [2] | LfQuoteDef => [2; 4] | LfReplDef => [3] | LfMacroDef => [2] | LfApiOption => [2]
  | _ => []
  end%nat.

Lemma split_char_aux_nosep c s : forall cur, (forall x, In x cur -> x <> c) ->
  Forall (fun l => forall x, In x l -> x <> c) (split_char_aux c s cur).
Proof.
  induction s as [|y t IH]; intros cur Hc; simpl.
  - constructor; [|constructor]. intros x Hx. apply Hc. rewrite frev_rev in Hx. apply in_rev. exact Hx.
  - destruct (y =? c) eqn:E.
    + constructor; [|apply IH; intros x []]. intros x Hx. apply Hc. rewrite frev_rev in Hx. apply in_rev. exact Hx.
    + apply IH. intros x [<-|Hx]; [apply N.eqb_neq; exact E|apply Hc; exact Hx].
Qed.

Lemma split_char_lfree value : rfree value -> Forall lfree (split_char 10 value).
Proof.
  intros Hv. pose proof (allc_split_char (fun x => 2 < x) 10 value Hv) as H1.
  pose proof (split_char_aux_nosep 10 value [] (fun x (H : In x []) => match H with end)) as H2.
  unfold split_char in *. rewrite Forall_forall in *. intros l Hl. apply lfree_intro; [apply H1|apply H2]; exact Hl.
Qed.

Lemma verifyMacroLine_ok m rd : (forall k, rfree (grp_s m k)) -> rdok rd -> rd <> [] ->
  tok (fun r => rdok (snd r) /\ hd_error (snd r) = hd_error rd) (verifyMacroLine fuel m rd).
Proof.
  intros G Hrd Hne. unfold verifyMacroLine. destruct (re_search re_macros_DEF_OPEN (grp0 m)); [apply tok_ret; split; [exact Hrd|reflexivity]|].
  eapply tok_bind with (P := rfree).
  { apply tok_macros_top. apply (G O). }
  intros value Hv. destruct (_ || _); [apply tok_ret; split; [exact Hrd|reflexivity]|].
  destruct rd as [|cur rest]; [congruence|]. apply tok_ret. cbn. inversion Hrd; subst. split; [|reflexivity].
  constructor; [assumption|]. apply Forall_app. split; [apply split_char_lfree; exact Hv|assumption].
Qed.

Lemma line_filter_ok d m : rfree (l_repl d) -> (forall k, rfree (grp_s m k)) ->
  (forall k, In k (lfilter_groups (l_filter d)) -> exists t, grp m k = Some t) -> tok rfree (line_filter fuel d m).
Proof.
  intros Hr G Hgs. unfold line_filter.
  assert (RM : tok rfree (lift (fun s => replaceMatch_top fuel s m (re_groups (l_re d)) (l_repl d) expand_macros))).
  { apply tok_replaceMatch; auto. }
  destruct (l_filter d).
  - destruct (l_repl d) eqn:E; [apply tok_ret; apply allc_nil|exact RM].
  - apply tok_ret, allc_nil.
  - apply tok_bind_gets. intros s0 _. destruct (blockDefFilter_skip _); [apply tok_ret, allc_nil|].
    eapply tok_bind; [apply macros_expand_ok; [apply Hgs; cbn; auto|apply grp_orf, G]|]. intros v Hv.
    apply tok_seq; [apply dblocks_setDefinition_ok; exact Hv|apply tok_ret, allc_nil].
  - apply tok_bind_gets. intros s0 _. destruct (quoteDefFilter_skip _); [apply tok_ret, allc_nil|].
    eapply tok_bind; [apply macros_expand_ok; [apply Hgs; cbn; auto|apply grp_orf, G]|]. intros o Ho.
    eapply tok_bind; [apply macros_expand_ok; [apply Hgs; cbn; auto|apply grp_orf, G]|]. intros c Hc.
    apply tok_seq; [apply quotes_setDefinition_ok; cbn; auto|apply tok_ret, allc_nil].
  - apply tok_bind_gets. intros s0 _. destruct (replacementDefFilter_skip _); [apply tok_ret, allc_nil|].
    eapply tok_bind; [apply macros_expand_ok; [apply Hgs; cbn; auto|apply grp_orf, G]|]. intros r Hr'.
    apply tok_seq; [apply replacements_setDefinition_ok; exact Hr'|apply tok_ret, allc_nil].
  - apply tok_bind_gets. intros s0 _. destruct (macroDefFilter_skip _); [apply tok_ret, allc_nil|].
    eapply tok_bind; [apply macros_expand_ok; [apply Hgs; cbn; auto|apply grp_orf, G]|]. intros v Hv.
    apply tok_seq; [apply macros_setValue_ok; exact Hv|apply tok_ret, allc_nil].
  - apply tok_bind_gets. intros s0 _.
    apply tok_seq.
    { apply tok_when, tok_modify. intros s Hs. apply Sok_id; [|exact Hs]. apply slugify_rfree, G. }
    eapply tok_bind; [exact RM|]. intros result Hres. apply tok_ret.
    apply allc_replace_all'; [|exact Hres]. rf.
  - apply tok_bind_gets. intros s0 _. destruct (anchorFilter_skip _); [apply tok_ret, allc_nil|exact RM].
  - apply tok_bind_gets. intros s0 _. destruct (apiOptionFilter_skip _); [apply tok_ret, allc_nil|].
    eapply tok_bind; [apply macros_expand_ok; [apply Hgs; cbn; auto|apply grp_orf, G]|]. intros v Hv.
    apply tok_seq; [apply setOption_doc_ok; exact Hv|apply tok_ret, allc_nil].
Qed.

(* the facts about a line definition's pattern: it cannot match the empty string, it does not match a lone backslash, and
   the groups its filter reads take part in every match *)
Definition ldef_ok (d : ldef) : Prop :=
  rfree (l_repl d) /\ nullable (re_ast (l_re d)) = false /\ re_search (l_re d) [92] = None /\
  forall k, In k (lfilter_groups (l_filter d)) -> always_grp k (re_ast (l_re d)) = true /\ (0 < k <= re_groups (l_re d))%nat.

Lemma factor_single (x : char) a w b : a ++ w ++ b = [x] -> w <> [] -> w = [x].
Proof.
  intros H Hw. destruct w as [|z w]; [congruence|]. destruct a as [|y a]; simpl in H.
  - injection H as H1 H2. apply app_eq_nil in H2. destruct H2 as [H2 _]. rewrite H1, H2. reflexivity.
  - injection H as H1 H2. apply app_eq_nil in H2. destruct H2 as [_ H2]. discriminate H2.
Qed.

(* the line after an escaping backslash has been dropped is not empty *)
Lemma escape_tl r cur m g0 : re_search r cur = Some m -> grp0 m = 92 :: g0 -> re_search r [92] = None -> tl cur <> [].
Proof.
  intros E E0 Hb Ht. pose proof (re_search_spec _ _ _ E) as Sp. destruct (match_spec_cut _ _ _ Sp) as (a & w & b & Hs & _ & _ & Hg & _).
  assert (Hw : w = 92 :: g0). { unfold grp0, grp_s in E0. rewrite Hg in E0. exact E0. }
  destruct cur as [|x t]; [destruct a; subst; discriminate|]. simpl in Ht. subst t.
  symmetry in Hs. apply factor_single in Hs; [|subst w; discriminate]. rewrite Hw in Hs. injection Hs as Hx _. rewrite <- Hx in E. pose proof (eq_trans (eq_sym E) Hb) as C. discriminate C.
Qed.

Definition lbres (rd0 : reader) (r : option str * reader) : Prop :=
  orf (fst r) /\ rdok (snd r) /\ (fst r = None -> snd r <> [] /\ (rdne rd0 -> rdne (snd r))).

Lemma lineblocks_loop_ok allowed : forall defs rd, Forall ldef_ok defs -> rdok rd -> rd <> [] ->
  tok (fun r => orf (fst r) /\ rdok (snd r) /\ (fst r = None -> snd r <> [] /\ (rdne rd -> rdne (snd r))))
      (lineblocks_loop fuel defs rd allowed).
Proof.
  induction defs as [|d ds IH]; intros rd Hd Hrd Hne; cbn [lineblocks_loop].
  { apply tok_ret. split; [intros t Ht; discriminate|]. split; [exact Hrd|]. intros _. split; [exact Hne|auto]. }
  inversion Hd as [|? ? (Hd1 & Hn & Hbs & Hd2) Hds]; subst.
  destruct (_ && _); [apply IH; auto|].
  destruct rd as [|cur rest]; [congruence|]. inversion Hrd as [|? ? Hcur0 Hrest]; subst.
  pose proof (lfree_rfree _ Hcur0) as Hcur.
  destruct (re_search (l_re d) cur) as [m|] eqn:E; [|apply IH; auto].
  pose proof (re_search_groups (fun x => 2 < x) _ _ _ E Hcur) as G.
  pose proof (re_search_spec _ _ _ E) as Sp.
  pose proof (match_nonempty _ _ _ Sp Hn) as Hm0.
  destruct (grp0 m) as [|c0 g0] eqn:E0; [congruence|].
  destruct (c0 =? 92) eqn:Ec.
  { apply N.eqb_eq in Ec. subst c0. pose proof (escape_tl _ _ _ _ E E0 Hbs) as Htl.
    eapply tok_weaken; [|apply IH; [auto|constructor; [apply allc_tl; exact Hcur0|exact Hrest]|discriminate]].
    intros r (R1 & R2 & R3). split; [exact R1|]. split; [exact R2|]. intros Hn0. destruct (R3 Hn0) as [R4 R5].
    split; [exact R4|]. intros _. apply R5. exact Htl. }
  eapply tok_bind with (P := fun vr => rdok (snd vr) /\ hd_error (snd vr) = Some cur).
  { destruct (l_verify d).
    - apply tok_ret. split; [exact Hrd|reflexivity].
    - apply verifyMacroLine_ok; [auto|exact Hrd|discriminate].
    - eapply tok_bind; [apply blockattributes_parse_ok; rewrite <- E0; apply (G O)|]. intros b _. apply tok_ret. split; [exact Hrd|reflexivity]. }
  intros [ok rd1] [Hrd1 Hhd]. cbn [snd] in Hrd1, Hhd.
  assert (Hne1 : rd1 <> []) by (intros ->; discriminate).
  destruct (negb ok).
  { eapply tok_weaken; [|apply IH; auto].
    intros r (R1 & R2 & R3). split; [exact R1|]. split; [exact R2|]. intros Hn0. destruct (R3 Hn0) as [R4 R5].
    split; [exact R4|]. intros Hc. apply R5. destruct rd1 as [|c1 r1]; [congruence|]. cbn in Hhd. inversion Hhd; subst. exact Hc. }
  eapply tok_bind.
  { apply line_filter_ok; auto. intros k Hk. destruct (Hd2 k Hk) as [Ha [Hk0 Hk1]].
    destruct k as [|k]; [lia|]. eapply match_spec_grp_some; eauto. }
  intros text Ht.
  destruct text as [|t0 text'].
  { apply tok_ret. split; [intros t Hs; inversion Hs; apply allc_nil|]. split; [apply rdok_tl; exact Hrd1|]. intros Hx; discriminate. }
  eapply tok_bind; [apply injectHtmlAttributes_ok; exact Ht|]. intros text2 Ht2.
  apply tok_ret. split; [|split; [apply rdok_tl; exact Hrd1|intros Hx; discriminate]]. intros t Hs. inversion Hs; subst.
  apply allc_app. split; [exact Ht2|]. destruct (tl rd1); rf.
Qed.

Definition ldef_okb (d : ldef) : bool :=
  rfreeb (l_repl d) && negb (nullable (re_ast (l_re d))) && (match re_search (l_re d) [92] with None => true | Some _ => false end) &&
  forallb (fun k => always_grp k (re_ast (l_re d)) && Nat.ltb 0 k && Nat.leb k (re_groups (l_re d))) (lfilter_groups (l_filter d)).

Lemma lineblocks_defs_ok : Forall ldef_ok lineblocks_defs.
Proof.
  assert (H : forallb ldef_okb lineblocks_defs = true) by (vm_compute; reflexivity).
  rewrite forallb_forall in H. rewrite Forall_forall. intros d Hd. apply H in Hd. unfold ldef_okb in Hd.
  apply andb_prop in Hd as [Hd H4]. apply andb_prop in Hd as [Hd H3]. apply andb_prop in Hd as [H1 H2].
  split; [apply rfreeb_spec; exact H1|]. split; [apply negb_true_iff; exact H2|].
  split; [destruct (re_search (l_re d) [92]); [discriminate|reflexivity]|].
  rewrite forallb_forall in H4.
  intros k Hk. apply H4 in Hk. apply andb_prop in Hk as [Hk K3]. apply andb_prop in Hk as [K1 K2].
  apply PeanoNat.Nat.ltb_lt in K2. apply PeanoNat.Nat.leb_le in K3. auto.
Qed.

Lemma lineblocks_render_ok rd allowed : rdok rd -> rd <> [] -> tok (lbres rd) (lineblocks_render fuel rd allowed).
Proof. intros H Hne. apply lineblocks_loop_ok; [apply lineblocks_defs_ok|exact H|exact Hne]. Qed.
End Lines.

(* ---- delimitedblocks ---- *)
Section DBlocks.
Variable fuel : nat.

Ltac rf := repeat first
  [ assumption | apply allc_nil
  | match goal with G : forall k, allc _ (grp_s ?m k) |- allc _ (grp_s ?m _) => apply G end
  | match goal with G : forall k, allc _ (grp_s ?m k) |- rfree (grp_s ?m _) => apply G end
  | match goal with G : forall k, rfree (grp_s ?m k) |- _ (grp_s ?m _) => apply G end
  | match goal with |- allc _ [_] => (intros ? [<-|[]]; cbv beta; lia) end
  | match goal with |- rfree [_] => (intros ? [<-|[]]; cbv beta; lia) end
  | apply allc_app; split | apply allc_strip | apply allc_tl | apply allc_drop_last
  | apply rfree_lower | apply rfree_escape | apply rfree_str_of_N | apply allc_takeN | apply allc_dropN
  | rf_lit ].

Lemma Forall_map' {A B} (P : B -> Prop) (f : A -> B) l : (forall a, In a l -> P (f a)) -> Forall P (map f l).
Proof. intros H. rewrite Forall_forall. intros b Hb. apply in_map_iff in Hb as (a & <- & Ha). auto. Qed.

Lemma indentedContentFilter_ok text t : rfree text -> indentedContentFilter text = Ok t -> rfree t.
Proof.
  intros Ht H. unfold indentedContentFilter in H. destruct (re_search _ text); [|discriminate]. inversion H; subst.
  apply allc_join; [rf|]. apply Forall_map'. intros line Hl. apply allc_dropN.
  pose proof (allc_split_char (fun x => 2 < x) 10 text Ht) as Hs. rewrite Forall_forall in Hs. apply Hs. exact Hl.
Qed.

Lemma quoteParagraphContentFilter_ok text : rfree text -> rfree (quoteParagraphContentFilter text).
Proof.
  intros Ht. unfold quoteParagraphContentFilter. apply allc_join; [rf|]. apply Forall_map'. intros line Hl.
  pose proof (allc_split_char (fun x => 2 < x) 10 text Ht) as Hs. rewrite Forall_forall in Hs. specialize (Hs line Hl).
  apply re_sub_allc; [apply re_sub_allc; [exact Hs|intros; apply allc_nil]|intros; rf].
Qed.

Lemma macroDefContentFilter_ok text m e : rfree text -> (forall k, rfree (grp_s m k)) ->
  re_search re_delimitedblocks_macroDefContentFilter_0 (grp0 m) <> None ->
  tok rfree (macroDefContentFilter fuel text m e).
Proof.
  intros Ht G Hfound. unfold macroDefContentFilter.
  destruct (re_search re_delimitedblocks_macroDefContentFilter_0 (grp0 m)) as [mm|] eqn:E; [|congruence].
  pose proof (re_search_groups (fun x => 2 < x) _ _ _ E (G O)) as Gm.
  eapply tok_bind with (P := rfree).
  { apply tok_replaceInline.
    apply re_sub_allc; [apply re_sub_allc; [exact Ht|intros; rf]|]. intros m' G'. rf. }
  intros t Ht'. apply tok_seq; [apply macros_setValue_ok; exact Ht'|apply tok_ret, allc_nil].
Qed.

Lemma nth_dok i l d : Forall dok l -> dok d -> dok (nth i l d).
Proof. intros Hl Hd. destruct (nth_in_or_default i l d) as [H | ->]; [|exact Hd]. rewrite Forall_forall in Hl. auto. Qed.

Lemma Sok_set_closeRe i rx s : (re_groups rx = O \/ always_grp 1 (re_ast rx) = true) -> Sok s -> Sok (set_closeRe i rx s).
Proof.
  intros Hrx Hs. unfold set_closeRe. apply Sok_dblocks; [|exact Hs]. pose proof (so_dblocks s Hs) as Hd.
  revert i. induction Hd as [|d l Hd Hl IH]; intros i; destruct i; simpl; constructor; auto.
  destruct Hd as (A & B & C & D). split; [exact A|]. split; [exact B|]. split; [exact Hrx|exact D].
Qed.

Lemma lit_close_groups delim : re_groups (lit_close delim) = O.
Proof. reflexivity. Qed.

End DBlocks.
End WithL.

(* ---- rules for the judgment without a claim on the list-id stack ---- *)
Lemma tokR_of_tok {A} (Q : A -> Prop) (m : M A) : (forall L, tokLL L L Q m) -> tokR Q m.
Proof. intros H L s Hs. specialize (H L s Hs). destruct (m s) as [[a s']|e|]; auto. destruct H. eauto. Qed.

Lemma tokR_ret {A} (Q : A -> Prop) a : Q a -> tokR Q (ret a).
Proof. intros H L s Hs. simpl. eauto. Qed.
Lemma tokR_raise {A} (Q : A -> Prop) e : blk_exn e -> tokR Q (@raise A e).
Proof. intros He L s Hs. exact He. Qed.
Lemma tokR_fuel {A} (Q : A -> Prop) : tokR Q (@out_of_fuel A).
Proof. intros L s Hs. exact Logic.I. Qed.
Lemma tokR_bind {A B} (P : A -> Prop) (Q : B -> Prop) (m : M A) (f : A -> M B) :
  tokR P m -> (forall a, P a -> tokR Q (f a)) -> tokR Q (bind m f).
Proof.
  intros Hm Hf L s Hs. specialize (Hm L s Hs). unfold bind. destruct (m s) as [[a s1]|e|]; auto.
  destruct Hm as [Ha (L1 & H1)]. apply (Hf a Ha L1 s1 H1).
Qed.
Lemma tokR_weaken {A} (P Q : A -> Prop) m : (forall a, P a -> Q a) -> tokR P m -> tokR Q m.
Proof. intros W H L s Hs. specialize (H L s Hs). destruct (m s) as [[a s1]|e|]; auto. destruct H; auto. Qed.
Lemma tokR_bind_gets {A B} (Q : B -> Prop) (g : session -> A) (f : A -> M B) :
  (forall L s0, SokG L s0 -> tokR Q (f (g s0))) -> tokR Q (bind (gets g) f).
Proof. intros H L s Hs. unfold bind, gets. apply (H L s Hs L s Hs). Qed.
Lemma tokR_gets {A} (Q : A -> Prop) (g : session -> A) : (forall L s, SokG L s -> Q (g s)) -> tokR Q (gets g).
Proof. intros H L s Hs. simpl. eauto. Qed.
Lemma tokR_modify (g : session -> session) : (forall L s, SokG L s -> SokG L (g s)) -> tokR (fun _ => True) (modify g).
Proof. intros H L s Hs. simpl. eauto. Qed.
Lemma tokR_seq {A B} (Q : B -> Prop) (m : M A) (k : M B) : tokR (fun _ => True) m -> tokR Q k -> tokR Q (bind m (fun _ => k)).
Proof. intros Hm Hk. eapply tokR_bind; [exact Hm|]. intros _ _. exact Hk. Qed.
Lemma tokR_when (b : bool) (m : M unit) : tokR (fun _ => True) m -> tokR (fun _ => True) (if b then m else ret tt).
Proof. intros H. destruct b; [exact H|apply tokR_ret; exact Logic.I]. Qed.
Lemma tokR_log_msg msg : tokR (fun _ => True) (log_msg msg).
Proof. apply tokR_of_tok. intros L. apply tok_log_msg. Qed.

Section DBlocks2.
Variable fuel : nat.

Ltac rf := repeat first
  [ assumption | apply allc_nil
  | match goal with G : forall k, allc _ (grp_s ?m k) |- allc _ (grp_s ?m _) => apply G end
  | match goal with G : forall k, allc _ (grp_s ?m k) |- rfree (grp_s ?m _) => apply G end
  | match goal with G : forall k, rfree (grp_s ?m k) |- _ (grp_s ?m _) => apply G end
  | match goal with |- allc _ [_] => (intros ? [<-|[]]; cbv beta; lia) end
  | match goal with |- rfree [_] => (intros ? [<-|[]]; cbv beta; lia) end
  | apply allc_app; split | apply allc_strip | apply allc_tl | apply allc_drop_last
  | apply rfree_lower | apply rfree_escape | apply rfree_str_of_N | apply allc_takeN | apply allc_dropN
  | rf_lit ].

Section WithDoc.
Variable doc : str -> M str.
Hypothesis Hdoc : forall text, rfree text -> tokR rfree (doc text).

Definition dbres (r : str * reader) : Prop := rfree (fst r) /\ rdok (snd r).

Lemma dblock_body_ok i d m rest : dok d -> mok d m -> (forall k, rfree (grp_s m k)) -> rdok rest ->
  tokR dbres (dblock_body fuel doc i d m rest).
Proof.
  intros Hd Hmok G Hrest. unfold dblock_body.
  eapply tokR_bind with (P := fun dt => rfree dt /\ (d_content d = CfIndented -> exists x, In x dt /\ nonspace x = true)).
  { unfold mok in Hmok. destruct (d_delim d) eqn:Edl.
    - apply tokR_ret. split; [apply allc_nil|]. intros Ec. rewrite Ec in Hmok. destruct Hmok; discriminate.
    - destruct (grp m 1) as [g|] eqn:Eg; apply tokR_ret.
      + split; [apply (grp_orf m 1 G); exact Eg|]. intros Ec. rewrite Ec in Hmok. destruct Hmok as (_ & g' & x & Hg' & Hx & Hn).
        inversion Hg'; subst g'. eauto.
      + split; [apply allc_nil|]. intros Ec. rewrite Ec in Hmok. destruct Hmok as (_ & g' & x & Hg' & _). discriminate.
    - apply tokR_seq; [apply tokR_when, tokR_modify; intros Lx s Hs; apply Sok_classes; [rf|exact Hs]|].
      apply tokR_seq; [apply tokR_modify; intros Lx s Hs; apply Sok_set_closeRe; [left; apply lit_close_groups|exact Hs]|].
      apply tokR_ret. split; [apply allc_nil|]. intros Ec. rewrite Ec in Hmok. destruct Hmok; discriminate. }
  intros delimiterText [Hdt Hdns]. apply tokR_bind_gets. intros L0 s0 Hs0.
  destruct (readTo _ rest) as [[content rd1]|e|] eqn:Er; [| |apply tokR_fuel].
  2:{ exfalso. eapply (readTo_noraise _ (proj1 (proj2 (proj2 (nth_dok i _ d (so_dblocks s0 Hs0) Hd))))); eauto. }
  apply readTo_ok in Er as [Hcontent Hrd1]; [|exact Hrest].
  apply tokR_seq. { destruct (_ && _); [apply tokR_log_msg|apply tokR_ret; exact Logic.I]. }
  apply tokR_bind_gets. intros L1 s1 _.
  remember (expand_merge (d_expand (nth i (s_dblocks s1) d)) (p_opts s1)) as expand eqn:Eexp. clear Eexp.
  match goal with |- context [join [10] ?L] => remember L as lines eqn:El end.
  assert (Hlines : Forall rfree lines).
  { subst lines. apply Forall_app. split; [|apply rdok_rfree; exact Hcontent]. destruct delimiterText; [constructor|constructor; [exact Hdt|constructor]]. }
  assert (Hlns : d_content d = CfIndented -> exists x, In x (join [10] lines) /\ nonspace x = true).
  { intros Ec. destruct (Hdns Ec) as (x & Hx & Hn). exists x. split; [|exact Hn]. subst lines.
    destruct delimiterText as [|c0 dt]; [destruct Hx|]. cbn [app]. apply In_join_head. exact Hx. }
  clear El.
  eapply tokR_bind with (P := rfree).
  2:{ intros out Hout. apply tokR_seq; [apply tokR_modify; intros Lx s Hs; apply Sok_popts; exact Hs|].
      apply tokR_ret. split; [exact Hout|apply rdok_tl; exact Hrd1]. }
  destruct (truthy (e_skip expand)); [apply tokR_ret, allc_nil|].
  assert (Htext : rfree (join [10] lines)) by (apply allc_join; [rf|exact Hlines]).
  eapply tokR_bind with (P := rfree).
  { unfold mok in Hmok. destruct (d_content d) eqn:Ect.
    - apply tokR_ret. exact Htext.
    - apply tokR_of_tok; intros Lz; apply macroDefContentFilter_ok; auto.
    - apply tokR_gets. intros Lx s Hs. apply htmlSafeModeFilter_rfree; [|exact Htext].
      apply (eo_repl _ (io_env _ (so_env s Hs))).
    - destruct (indentedContentFilter _) as [t|e|] eqn:Ei; [| |apply tokR_fuel].
      2:{ exfalso. unfold indentedContentFilter in Ei. destruct (Hlns eq_refl) as (x & Hx & Hn).
          pose proof (nonspace_search_complete _ x Hx Hn) as Hf.
          destruct (re_search re_delimitedblocks_indentedContentFilter_0 (join [10] lines)); [discriminate|congruence]. }
      apply tokR_ret. eapply indentedContentFilter_ok; eauto.
    - apply tokR_ret. apply quoteParagraphContentFilter_ok. exact Htext. }
  intros text Ht. apply tokR_bind_gets. intros L2 s2 Hs2.
  assert (Hd' : dok (nth i (s_dblocks s2) d)) by (apply nth_dok; [apply (so_dblocks s2 Hs2)|exact Hd]).
  set (d' := nth i (s_dblocks s2) d) in *.
  eapply tokR_bind with (P := rfree).
  { destruct (str_eqb (d_name d) _); [apply tokR_of_tok; intros Lz; apply injectHtmlAttributes_ok; exact Ht|apply tokR_ret; exact Ht]. }
  intros text1 Ht1. eapply tokR_bind with (P := rfree).
  { destruct (str_eqb (d_name d) _); [apply tokR_ret; apply Hd'|apply tokR_of_tok; intros Lz; apply injectHtmlAttributes_ok; apply Hd']. }
  intros opentag Hopen. eapply tokR_bind with (P := rfree).
  { destruct (truthy (e_container expand)).
    - apply tokR_seq; [apply tokR_modify; intros Lx s Hs; apply Sok_popts; exact Hs|]. apply Hdoc. exact Ht1.
    - apply tokR_of_tok; intros Lz; apply tok_replaceInline. exact Ht1. }
  intros text2 Ht2. apply tokR_bind_gets. intros L3 s3 Hs3.
  assert (Hclose : rfree (d_closeTag (nth i (s_dblocks s3) d'))) by (apply nth_dok; [apply (so_dblocks s3 Hs3)|exact Hd']).
  remember (d_closeTag (nth i (s_dblocks s3) d')) as closetag eqn:Ec. clear Ec.
  destruct (str_eqb (d_name d) _ && str_eqb opentag _); cbv beta iota; apply tokR_ret; rf;
    match goal with |- _ (if ?b then _ else _) => destruct b end; rf.
Qed.

(* the paragraph pattern (a greedy dot-star in a group) on a line that starts with a character other than a line feed: the greedy loop takes at
   least that character, so the matched text is not empty *)
Lemma any_loop_progress (mb : matcher) (k : cont) :
  (forall K i p rest c, mb K i p rest c = match rest with [] => None | x :: t => if negb (x =? 10) then K (i + 1) (Some x) t c else None end) ->
  (forall j p r c, exists c', k j p r c = Some (j, c')) ->
  forall fl cnt last i p rest c, fl <> [] ->
  exists j c', loop mb k true 0 None fl cnt last i p rest c = Some (j, c') /\ i <= j.
Proof.
  intros Hmb Hk. induction fl as [|f fl IH]; intros cnt last i p rest c Hne; [congruence|].
  cbn [loop]. replace (cnt <? 0) with false by (symmetry; apply N.ltb_ge; lia).
  assert (Stop : exists j c', k i p rest c = Some (j, c') /\ i <= j).
  { destruct (Hk i p rest c) as (c' & ->). exists i, c'. split; [reflexivity|lia]. }
  destruct (more_ok None cnt && negb (same_pos last i)); [|destruct Stop as (j & c' & -> & Hj); eauto].
  rewrite Hmb. destruct rest as [|x t]; [destruct Stop as (j & c' & -> & Hj); eauto|].
  destruct (negb (x =? 10)); [|destruct Stop as (j & c' & -> & Hj); eauto].
  destruct fl as [|f2 fl2].
  - cbn [loop]. destruct Stop as (j & c' & -> & Hj). eauto.
  - destruct (IH (cnt + 1) (Some i) (i + 1) (Some x) t c) as (j & c' & -> & Hj); [discriminate|]. exists j, c'. split; [reflexivity|lia].
Qed.

Lemma any_loop_first (mb : matcher) (k : cont) :
  (forall K i p rest c, mb K i p rest c = match rest with [] => None | x :: t => if negb (x =? 10) then K (i + 1) (Some x) t c else None end) ->
  (forall j p r c, exists c', k j p r c = Some (j, c')) ->
  forall f fl cnt i p x t c, x <> 10 -> fl <> [] ->
  exists j c', loop mb k true 0 None (f :: fl) cnt None i p (x :: t) c = Some (j, c') /\ i + 1 <= j.
Proof.
  intros Hmb Hk f fl cnt i p x t c Hx Hfl. cbn [loop]. replace (cnt <? 0) with false by (symmetry; apply N.ltb_ge; lia).
  cbn [more_ok same_pos andb negb]. rewrite Hmb. replace (x =? 10) with false by (symmetry; apply N.eqb_neq; exact Hx). cbn [negb].
  destruct (any_loop_progress mb k Hmb Hk fl (cnt + 1) (Some i) (i + 1) (Some x) t c) as (j & c' & E & Hj); [exact Hfl|].
  exists j, c'. split; [|exact Hj].
  exact (@eq_ind_r _ (Some (j, c')) (fun o => match o with Some x0 => Some x0 | None => k i p (x :: t) c end = Some (j, c')) eq_refl _ E).
Qed.

Lemma para_nonempty x t m : x <> 10 -> re_search para_re (x :: t) = Some m -> grp0 m <> [].
Proof.
  intros Hx H. unfold re_search in H. cbn [search_from] in H.
  assert (E : exists e c, exec (re_ast para_re) kfinal 0 None (x :: t) [] = Some (e, c) /\ 1 <= e).
  { change (exec (re_ast para_re) kfinal 0 None (x :: t) []) with
      (loop (exec (RAny false)) (fun j p' r' c' => kfinal j p' r' ((1%nat, {| c_s := 0; c_e := j; c_txt := x :: t |}) :: c'))
            true 0 None (0 :: 0 :: x :: t) 0 None 0 None (x :: t) []).
    set (K := fun j p' r' c' => kfinal j p' r' ((1%nat, {| c_s := 0; c_e := j; c_txt := x :: t |}) :: c')).
    assert (Hmb : forall K0 i p rest c, exec (RAny false) K0 i p rest c =
              match rest with [] => None | x0 :: t0 => if negb (x0 =? 10) then K0 (i + 1) (Some x0) t0 c else None end)
      by (intros K0 i p rest c; destruct rest; reflexivity).
    assert (HK : forall j p r c, exists c', K j p r c = Some (j, c')) by (intros j p r c; eexists; reflexivity).
    assert (Hfl : 0 :: x :: t <> []) by discriminate.
    destruct (any_loop_first (exec (RAny false)) K Hmb HK 0 (0 :: x :: t) 0 0 None x t [] Hx Hfl) as (j & c' & E & Hj).
    exists j, c'. split; [exact E|lia]. }
  destruct E as (e & c & E & He). unfold match_at in H. rewrite E in H. cbn [option_map mk_mres] in H. inversion H; subst.
  unfold grp0, grp_s, grp. cbn [m_groups nth]. rewrite N.sub_0_r. cbn [takeN].
  destruct (e =? 0) eqn:E0; [apply N.eqb_eq in E0; lia|discriminate].
Qed.

Definition dbl_post (rd : reader) (r : option str * reader) : Prop :=
  orf (fst r) /\ rdok (snd r) /\ (fst r = None -> rdne (snd r)).

Lemma dblock_loop_ok allowed : forall k i rd, rdok rd -> rdne rd -> tokR (dbl_post rd) (dblock_loop fuel doc k i rd allowed).
Proof.
  induction k as [|k IH]; intros i rd Hrd Hne; cbn [dblock_loop].
  { apply tokR_ret. split; [intros t Ht; discriminate|]. split; [exact Hrd|auto]. }
  apply tokR_bind_gets. intros L0 s0 Hs0. destruct (nth_error (s_dblocks s0) i) as [d|] eqn:En.
  2:{ apply tokR_ret. split; [intros t Ht; discriminate|]. split; [exact Hrd|auto]. }
  assert (Hd : dok d).
  { apply nth_error_In in En. pose proof (so_dblocks s0 Hs0) as H. rewrite Forall_forall in H. auto. }
  destruct (_ && _); [apply IH; assumption|].
  destruct rd as [|cur rest]; [destruct Hne|]. inversion Hrd as [|? ? Hcur0 Hrest]; subst. cbn in Hne.
  pose proof (lfree_rfree _ Hcur0) as Hcur.
  destruct (re_search (d_openRe d) cur) as [m|] eqn:E; [|apply IH; assumption].
  pose proof (re_search_groups (fun x => 2 < x) _ _ _ E Hcur) as G.
  assert (Body : mok d m -> tokR (dbl_post (cur :: rest)) (r <- dblock_body fuel doc i d m rest ;; ret (Some (fst r), snd r))).
  { intros Hmok. eapply tokR_bind; [apply dblock_body_ok; auto|]. intros [out rd'] [H1 H2]. apply tokR_ret. split; [|split; [exact H2|intros Hx; discriminate]].
    intros t Ht. inversion Ht; subst. exact H1. }
  assert (Hmok : (str_eqb (d_name d) $"paragraph" = false -> exists c0 g0, grp0 m = c0 :: g0 /\ c0 <> 92) -> mok d m).
  { intros Hc0. destruct Hd as (_ & _ & _ & Hdre & Hcont). unfold mok, dcont_ok in *. destruct (d_content d); auto.
    - destruct Hcont as [Hmd Hnp]. destruct (Hc0 Hnp) as (c0 & g0 & E0 & Hc92). eapply mdef_filter_found; eauto.
    - destruct Hcont as (Hdl & Hgm & Hng). split; [exact Hdl|]. eapply gmust_match; eauto. apply re_search_spec. exact E. }
  destruct Hd as (_ & _ & _ & [[Hp Hre]|(Hp & Hn & Hbs)] & _); rewrite Hp.
  - (* the paragraph *)
    rewrite Hre in E. destruct cur as [|x t]; [congruence|]. assert (Hx : x <> 10) by (apply (Hcur0 x); left; reflexivity).
    pose proof (para_nonempty x t m Hx E) as Hm0. destruct (grp0 m) as [|c0 g0]; [congruence|].
    destruct (negb (db_verify _ m)); [apply IH; assumption|apply Body].
    apply Hmok. intros Hx'. rewrite Hp in Hx'. discriminate.
  - pose proof (match_nonempty _ _ _ (re_search_spec _ _ _ E) Hn) as Hm0.
    destruct (grp0 m) as [|c0 g0] eqn:E0; [congruence|].
    destruct (c0 =? 92) eqn:Ec.
    { apply N.eqb_eq in Ec. subst c0. pose proof (escape_tl _ _ _ _ E E0 Hbs) as Htl.
      eapply tokR_weaken; [|apply IH; [constructor; [apply allc_tl; exact Hcur0|exact Hrest]|exact Htl]].
      intros r (R1 & R2 & R3). split; [exact R1|]. split; [exact R2|exact R3]. }
    destruct (negb (db_verify d m)); [apply IH; assumption|apply Body].
    apply Hmok. intros _. exists c0, g0. split; [reflexivity|]. apply N.eqb_neq. exact Ec.
Qed.

Lemma dblocks_render_ok rd allowed : rdok rd -> rdne rd -> tokR (dbl_post rd) (dblocks_render fuel doc rd allowed).
Proof. intros H Hne. unfold dblocks_render. apply tokR_bind_gets. intros L0 s0 _. apply dblock_loop_ok; assumption. Qed.
End WithDoc.
End DBlocks2.

(* ---- lists ---- *)
Section Lists.
Variable fuel : nat.
Variable doc : str -> M str.
Hypothesis Hdoc : forall text, rfree text -> tokR rfree (doc text).

Ltac rf := repeat first
  [ assumption | apply allc_nil
  | match goal with G : forall k, allc _ (grp_s ?m k) |- allc _ (grp_s ?m _) => apply G end
  | match goal with G : forall k, allc _ (grp_s ?m k) |- rfree (grp_s ?m _) => apply G end
  | match goal with G : forall k, rfree (grp_s ?m k) |- _ (grp_s ?m _) => apply G end
  | match goal with |- allc _ [_] => (intros ? [<-|[]]; cbv beta; lia) end
  | match goal with |- rfree [_] => (intros ? [<-|[]]; cbv beta; lia) end
  | apply allc_app; split | apply allc_strip | apply allc_tl | apply allc_drop_last
  | apply rfree_lower | apply rfree_escape | apply rfree_str_of_N | apply allc_takeN | apply allc_dropN
  | rf_lit ].

Definition lidok_str (d : listdef) : Prop :=
  rfree (li_listOpen d) /\ rfree (li_listClose d) /\ rfree (li_itemOpen d) /\ rfree (li_itemClose d) /\
  rfree (li_termOpen d) /\ rfree (li_termClose d).

(* the item pattern cannot match the empty string; its last group (the item text) takes part in every match, and so does
   group 1 (the term) of the definition-list patterns *)
Definition lidok_re (d : listdef) : Prop :=
  nullable (re_ast (li_re d)) = false /\ always_grp (re_groups (li_re d)) (re_ast (li_re d)) = true /\
  (0 < re_groups (li_re d))%nat /\ (nonempty (li_termOpen d) = true -> always_grp 1 (re_ast (li_re d)) = true) /\
  re_search (li_re d) [92] = None.

Definition lidok (d : listdef) : Prop := lidok_str d /\ lidok_re d.

Lemma lists_defs_ok : Forall lidok lists_defs.
Proof.
  assert (H : forallb (fun d => rfreeb (li_listOpen d) && rfreeb (li_listClose d) && rfreeb (li_itemOpen d) &&
                                rfreeb (li_itemClose d) && rfreeb (li_termOpen d) && rfreeb (li_termClose d)) lists_defs = true)
    by (vm_compute; reflexivity).
  assert (H2 : forallb (fun d => negb (nullable (re_ast (li_re d))) && always_grp (re_groups (li_re d)) (re_ast (li_re d)) &&
                                 Nat.ltb 0 (re_groups (li_re d)) && (negb (nonempty (li_termOpen d)) || always_grp 1 (re_ast (li_re d))) &&
                                 match re_search (li_re d) [92] with None => true | Some _ => false end) lists_defs = true)
    by (vm_compute; reflexivity).
  rewrite forallb_forall in H, H2. rewrite Forall_forall. intros d Hd. pose proof (H2 d Hd) as Hr. apply H in Hd.
  split.
  - repeat (apply andb_prop in Hd as [Hd ?]). unfold lidok_str. repeat split; apply rfreeb_spec; assumption.
  - apply andb_prop in Hr as [Hr R5]. apply andb_prop in Hr as [Hr R4]. apply andb_prop in Hr as [Hr R3]. apply andb_prop in Hr as [R1 R2].
    split; [apply negb_true_iff; exact R1|]. split; [exact R2|]. split; [apply PeanoNat.Nat.ltb_lt; exact R3|].
    split; [intros Ht; rewrite Ht in R4; exact R4|]. destruct (re_search (li_re d) [92]); [discriminate|reflexivity].
Qed.

Definition item_ok (it : item) : Prop :=
  lidok (it_def it) /\ (forall k, rfree (grp_s (it_m it) k)) /\ rfree (it_id it) /\
  (exists f, item_text it = Some f) /\ (nonempty (li_termOpen (it_def it)) = true -> exists g, grp (it_m it) 1 = Some g).
Definition oitem (o : option item) : Prop := forall it, o = Some it -> item_ok it.

Definition mires (rd : reader) (r : option item * reader) : Prop :=
  oitem (fst r) /\ rdok (snd r) /\ (fst r = None -> rdne rd -> rdne (snd r)).

Lemma matchItem_loop_ok : forall defs rd r, Forall lidok defs -> rdok rd -> matchItem_loop defs rd = Ok r -> mires rd r.
Proof.
  induction defs as [|d ds IH]; intros rd r Hd Hrd H; cbn [matchItem_loop] in H.
  { inversion H; subst. split; [intros it Hi; discriminate|]. split; [exact Hrd|auto]. }
  inversion Hd as [|? ? Hd1 Hds]; subst.
  destruct rd as [|cur rest]. { inversion H; subst. split; [intros it Hi; discriminate|]. split; [exact Hrd|auto]. }
  inversion Hrd as [|? ? Hcur0 Hrest]; subst. pose proof (lfree_rfree _ Hcur0) as Hcur.
  destruct (re_search (li_re d) cur) as [m|] eqn:E; [|apply (IH (cur :: rest) r Hds Hrd H)].
  pose proof (re_search_groups (fun x => 2 < x) _ _ _ E Hcur) as G.
  pose proof (re_search_spec _ _ _ E) as Sp. destruct Hd1 as [Hstr (Rn & Rg & Rk & Rt & Rb)].
  assert (Htxt : exists f, grp m (re_groups (li_re d)) = Some f).
  { destruct (re_groups (li_re d)) as [|k] eqn:Ek; [lia|]. eapply match_spec_grp_some; eauto. rewrite Ek. lia. }
  assert (Hterm : nonempty (li_termOpen d) = true -> exists g, grp m 1 = Some g).
  { intros Ht. eapply (match_spec_grp_some _ _ _ O); eauto. }
  destruct (grp0 m) as [|c0 g0] eqn:E0; [discriminate|]. destruct (c0 =? 92) eqn:Ec.
  { apply N.eqb_eq in Ec. subst c0. pose proof (escape_tl _ _ _ _ E E0 Rb) as Htl.
    inversion H; subst. split; [intros it Hi; discriminate|]. split; [constructor; [apply allc_tl; exact Hcur0|exact Hrest]|].
    intros _ _. exact Htl. }
  destruct (grp m (re_groups (li_re d) - 1)) as [id|] eqn:Eid; inversion H; subst;
    (split; [|split; [exact Hrd|intros Hx; discriminate]]);
    intros it Hi; inversion Hi; subst; (split; [split; [exact Hstr|repeat split; assumption]|split; [exact G|]]); cbn;
    (split; [|split; [exact Htxt|exact Hterm]]).
  - eapply (grp_orf m _ G). exact Eid.
  - apply allc_nil.
Qed.

Lemma matchItem_loop_noraise : forall defs rd e, Forall lidok defs -> matchItem_loop defs rd <> Raise e.
Proof.
  induction defs as [|d ds IH]; intros rd e Hd; cbn [matchItem_loop]; [discriminate|]. inversion Hd as [|? ? Hd1 Hds]; subst.
  destruct rd as [|cur rest]; [discriminate|]. destruct (re_search (li_re d) cur) as [m|] eqn:E; [|apply IH; exact Hds].
  apply re_search_spec in E. destruct Hd1 as [_ (Rn & _)]. pose proof (match_nonempty _ _ _ E Rn) as Hne.
  destruct (grp0 m) as [|c0 g0]; [congruence|]. destruct (c0 =? 92); [discriminate|]. destruct (grp m _); discriminate.
Qed.

Section ListsL.
Variable L : list str.
Local Notation Sok := (SokG L).
Local Notation tok := (tokLL L L).

Lemma matchItem_ok rd : rdok rd -> tok (mires rd) (matchItem rd).
Proof.
  intros Hrd. unfold matchItem. destruct (matchItem_loop lists_defs rd) as [r|e|] eqn:E; [| |apply tok_fuel].
  2:{ exfalso. eapply matchItem_loop_noraise; [apply lists_defs_ok|exact E]. }
  apply tok_ret. eapply matchItem_loop_ok; eauto using lists_defs_ok.
Qed.

Definition cbres (r : Z * str * reader) : Prop := rfree (snd (fst r)) /\ rdok (snd r) /\ (fst (fst r) <> (-1)%Z -> rdne (snd r)).

Lemma consumeBlockAttributes_ok : forall n rd blanks acc, rdok rd -> rfree acc -> (0 <= blanks)%Z ->
  tok cbres (consumeBlockAttributes fuel n rd blanks acc).
Proof.
  induction n as [|n IH]; intros rd blanks acc Hrd Hacc Hb; cbn [consumeBlockAttributes]; [apply tok_fuel|].
  destruct rd as [|l rd0]; [apply tok_ret; split; [exact Hacc|split; [exact Hrd|intros Hx; cbn in Hx; congruence]]|].
  eapply tok_bind; [apply lineblocks_render_ok; [exact Hrd|discriminate]|]. intros [o rd'] (Ho & Hrd' & Hnone). cbn [fst snd] in *.
  destruct o as [out|].
  - apply IH; [exact Hrd'| |exact Hb]. rf. apply Ho. reflexivity.
  - destruct (Hnone eq_refl) as [Hne _]. destruct rd' as [|cur rest]; [congruence|]. destruct (nonempty cur) eqn:En.
    + apply tok_ret. split; [exact Hacc|]. split; [exact Hrd'|]. intros _. cbn. intros ->. discriminate.
    + apply IH; [inversion Hrd'; assumption|exact Hacc|lia].
Qed.

End ListsL.

(* rules that change the ghost stack *)
Lemma tokLL_bind {A B} L1 L2 L3 (P : A -> Prop) (Q : B -> Prop) (m : M A) (f : A -> M B) :
  tokLL L1 L2 P m -> (forall a, P a -> tokLL L2 L3 Q (f a)) -> tokLL L1 L3 Q (bind m f).
Proof.
  intros Hm Hf s Hs. specialize (Hm s Hs). unfold bind. destruct (m s) as [[a s1]|e|]; auto.
  destruct Hm as [Ha H1]. apply Hf; auto.
Qed.

Lemma tokLL_seq {A B} L1 L2 L3 (Q : B -> Prop) (m : M A) (k : M B) :
  tokLL L1 L2 (fun _ => True) m -> tokLL L2 L3 Q k -> tokLL L1 L3 Q (bind m (fun _ => k)).
Proof. intros Hm Hk. eapply tokLL_bind; [exact Hm|]. intros _ _. exact Hk. Qed.

Lemma tokLL_modify L1 L2 (g : session -> session) : (forall s, SokG L1 s -> SokG L2 (g s)) -> tokLL L1 L2 (fun _ => True) (modify g).
Proof. intros H s Hs. simpl. auto. Qed.

Lemma push_ok L id : tokLL L (L ++ [id]) (fun _ => True) (modify (fun s => set_listids s (s_listids s ++ [id]))).
Proof.
  apply tokLL_modify. intros s Hs. pose proof (so_listids _ _ Hs) as HL. rewrite HL. apply (Sok_listids L). exact Hs.
Qed.

(* the pop at the end of renderList finds the marker pushed at its start *)
Lemma pop_listid_ok L id : tokLL (L ++ [id]) L (fun _ => True) pop_listid.
Proof.
  intros s Hs. unfold pop_listid, bind, gets. pose proof (so_listids _ _ Hs) as HL. rewrite HL.
  rewrite frev_rev, rev_unit. unfold modify. split; [exact Logic.I|].
  replace (frev (rev L)) with L by (rewrite frev_rev, rev_involutive; reflexivity). apply (Sok_listids (L ++ [id])). exact Hs.
Qed.

(* a nested render between saving and restoring the stack *)
Lemma tok_saved {A B} L (P : A -> Prop) (Q : B -> Prop) (m : M A) (k : A -> M B) :
  tokR P m -> (forall r, P r -> tokLL L L Q (k r)) ->
  tokLL L L Q (saved <- gets s_listids ;; modify (fun s => set_listids s []) ;;; r <- m ;; modify (fun s => set_listids s saved) ;;; k r).
Proof.
  intros Hm Hk s Hs. unfold bind, gets, modify. pose proof (so_listids _ _ Hs) as HL.
  specialize (Hm [] (set_listids s []) (Sok_listids L s [] Hs)).
  destruct (m (set_listids s [])) as [[r s1]|e|]; auto. destruct Hm as [Hr (L1 & H1)].
  rewrite HL. apply (Hk r Hr). apply Sok_listids with (L := L1). exact H1.
Qed.

(* the next item handed back: a well-formed item whose marker is on the stack of open lists *)
Definition onx (L : list str) (o : option item) : Prop := oitem o /\ forall it, o = Some it -> In (it_id it) L.
Definition lres (L : list str) (r : str * option item * reader) : Prop := rfree (fst (fst r)) /\ onx L (snd (fst r)) /\ rdok (snd r).
Definition ilres (L : list str) (r : option item * reader * str * str) : Prop :=
  let '(nx, rd, il, at') := r in onx L nx /\ rdok rd /\ rfree il /\ rfree at'.

Lemma oitem_none : oitem None.
Proof. intros it H. discriminate. Qed.
Lemma onx_none L : onx L None.
Proof. split; [apply oitem_none|intros it H; discriminate]. Qed.
Lemma lres_intro L out nx rd : rfree out -> onx L nx -> rdok rd -> lres L (out, nx, rd).
Proof. intros. unfold lres. cbn. auto. Qed.
Lemma ilres_intro L nx rd il at' : onx L nx -> rdok rd -> rfree il -> rfree at' -> ilres L (nx, rd, il, at').
Proof. intros. unfold ilres. auto. Qed.

Lemma mem_In' x l : mem x l = true -> In x l.
Proof. unfold mem. intros H. apply existsb_exists in H as (y & Hy & E). apply str_eqb_eq in E. subst. exact Hy. Qed.

Definition P_list (n : nat) := forall L it rd, item_ok it -> rdok rd -> tokLL L L (lres L) (renderList fuel doc n it rd).
Definition P_items (n : nat) := forall L it rd, item_ok it -> rdok rd ->
  tokLL (L ++ [it_id it]) (L ++ [it_id it]) (lres L) (renderItems fuel doc n it rd).
Definition P_item (n : nat) := forall L it rd, item_ok it -> rdok rd -> tokLL L L (lres L) (renderListItem fuel doc n it rd).
Definition P_loop (n : nat) := forall L rd il at' dn, rdok rd -> rfree il -> rfree at' -> tokLL L L (ilres L) (itemLoop fuel doc n rd il at' dn).

(* the list fixpoint: reserved-free output, allowed failures only, the stack of open lists restored (push at the start of
   renderList, pop at its end), and an item handed back to a caller carries the marker of a list that is still open *)
Lemma lists_mutual : forall n, P_list n /\ P_items n /\ P_item n /\ P_loop n.
Proof.
  induction n as [|n (IHl & IHs & IHi & IHo)].
  { repeat split; intro; intros; apply tok_fuel. }
  split; [|split; [|split]].
  - (* renderList *)
    intros L it rd Hit Hrd. cbn [renderList]. pose proof Hit as Hit0. destruct Hit as (Hd & G & Hid & Htxt & Hterm). pose proof (proj1 Hd) as (H1 & H2 & H3 & H4 & H5 & H6).
    eapply tokLL_seq; [apply push_ok|].
    eapply tokLL_bind; [apply injectHtmlAttributes_ok; exact H1|]. intros open Hopen.
    eapply tokLL_bind; [apply IHs; [exact Hit0|exact Hrd]|]. intros [[body nx] rd'] (Hb & Hn & Hr). cbn [fst snd] in *.
    eapply tokLL_seq; [apply pop_listid_ok|]. apply tok_ret, lres_intro; auto. rf.
  - (* renderItems *)
    intros L it rd Hit Hrd. cbn [renderItems].
    eapply tok_bind; [apply IHi; assumption|]. intros [[out nx] rd'] (Hb & [Hn Hin] & Hr). cbn [fst snd] in *.
    destruct nx as [nx|]; [|apply tok_ret, lres_intro; auto using onx_none].
    destruct (str_eqb (it_id nx) (it_id it)) eqn:Eid.
    + apply str_eqb_eq in Eid. rewrite <- Eid.
      eapply tok_bind; [apply IHs; [apply Hn; reflexivity|exact Hr]|]. intros [[out2 nn] rd2] (Hb2 & Hn2 & Hr2). cbn [fst snd] in *.
      apply tok_ret, lres_intro; auto. rf.
    + apply tok_ret, lres_intro; auto. split; [exact Hn|]. intros it' E. inversion E; subst it'.
      specialize (Hin nx eq_refl). apply in_app_or in Hin as [Hin|[Hin|[]]]; [exact Hin|].
      apply str_eqb_neq in Eid. congruence.
  - (* renderListItem *)
    intros L it rd Hit Hrd. cbn [renderListItem]. destruct Hit as (Hd & G & Hid & Htxt & Hterm). pose proof (proj1 Hd) as (H1 & H2 & H3 & H4 & H5 & H6).
    eapply tok_bind with (P := rfree).
    { destruct (nonempty (li_termOpen (it_def it))) eqn:Eterm; [|apply tok_ret, allc_nil].
      eapply tok_bind; [apply injectHtmlAttributes_ok; exact H5|]. intros t Ht.
      apply tok_seq; [apply tok_modify; intros s Hs; apply Sok_id; [apply allc_nil|exact Hs]|].
      eapply tok_bind with (P := rfree).
      { destruct (Hterm eq_refl) as (g & Eg). rewrite Eg.
        apply tok_replaceInline. apply (grp_orf _ 1 G). exact Eg. }
      intros text Htext. apply tok_ret. rf. }
    intros head Hhead. eapply tok_bind; [apply injectHtmlAttributes_ok; exact H3|]. intros iopen Hiopen.
    destruct Htxt as (first & Ef). rewrite Ef.
    assert (Hfirst : rfree first) by (apply (grp_orf _ _ G) in Ef; exact Ef).
    eapply tok_bind; [apply IHo; [apply rdok_tl; exact Hrd|rf|apply allc_nil]|].
    intros [[[nx rd'] il] at'] (Hn & Hr & Hil & Hat).
    eapply tok_bind with (P := rfree).
    { apply tok_replaceInline. rf. }
    intros text Htext. apply tok_ret, lres_intro; auto. rf.
  - (* itemLoop *)
    intros L rd il at' dn Hrd Hil Hat. cbn [itemLoop].
    eapply tok_bind; [apply consumeBlockAttributes_ok; [exact Hrd|apply allc_nil|lia]|].
    intros [[blanks out] rd1] (Hout & Hrd1 & Hne1). cbn [fst snd] in *.
    assert (Hat2 : rfree (at' ++ out)) by rf.
    destruct ((2 <=? blanks)%Z || (blanks =? -1)%Z) eqn:Eb. { apply tok_ret, ilres_intro; auto using onx_none. }
    apply orb_false_iff in Eb as [_ Eb]. apply Z.eqb_neq in Eb. specialize (Hne1 Eb).
    eapply tok_bind; [apply matchItem_ok; exact Hrd1|]. intros [nx rd2] (Hn & Hrd2 & Hne2). cbn [fst snd] in *.
    destruct nx as [nx|].
    + apply tok_bind_gets. intros s0 Hs0. destruct (mem _ _) eqn:Em.
      { apply tok_ret, ilres_intro; auto. split; [exact Hn|]. intros it' E. inversion E; subst it'.
        rewrite (so_listids _ _ Hs0) in Em. apply mem_In'. exact Em. }
      eapply tok_bind; [apply IHl; [apply Hn; reflexivity|exact Hrd2]|]. intros [[out2 nn] rd3] (Ho2 & Hn2 & Hr3). cbn [fst snd] in *.
      apply tok_ret, ilres_intro; auto. rf.
    + specialize (Hne2 eq_refl Hne1). destruct dn. { apply tok_ret, ilres_intro; auto using onx_none. }
      destruct (blanks =? 0)%Z.
      { eapply tok_saved; [apply dblocks_render_ok; [exact Hdoc|exact Hrd2|exact Hne2]|]. intros [o rd3] (Ho & Hrd3 & Hne3). cbn [fst snd] in *.
        destruct o as [out3|].
        - apply IHo; [exact Hrd3|exact Hil|]. rf. apply Ho. reflexivity.
        - specialize (Hne3 eq_refl). destruct rd3 as [|cur rest]; [destruct Hne3|]. inversion Hrd3 as [|? ? Hc0 Hr0]; subst.
          pose proof (lfree_rfree _ Hc0) as Hc. apply IHo; [assumption| |exact Hat2]. rf. }
      destruct (blanks =? 1)%Z; [|apply tok_fuel].
      eapply tok_saved; [apply dblocks_render_ok; [exact Hdoc|exact Hrd2|exact Hne2]|]. intros [o rd3] (Ho & Hrd3 & Hne3). cbn [fst snd] in *.
      destruct o as [out3|].
      * apply IHo; [exact Hrd3|exact Hil|]. rf. apply Ho. reflexivity.
      * apply tok_ret, ilres_intro; auto using onx_none.
Qed.

Lemma lists_render_ok n rd : rdok rd -> tokR (fun r => orf (fst r) /\ rdok (snd r) /\ (fst r = None -> rdne rd -> rdne (snd r))) (lists_render fuel doc n rd).
Proof.
  intros Hrd. unfold lists_render. eapply tokR_bind; [apply tokR_of_tok; intros L0; apply matchItem_ok; exact Hrd|]. intros [o rd'] (Ho & Hrd' & Hne'). cbn [fst snd] in *.
  destruct o as [it|]; [|apply tokR_ret; split; [intros t Ht; discriminate|split; [exact Hrd'|intros _; apply Hne'; reflexivity]]].
  (* the stack is reset, the list rendered from the empty stack *)
  intros L0 s Hs. unfold bind at 1. unfold modify at 1.
  assert (T : tokLL [] [] (fun r : option str * reader => orf (fst r) /\ rdok (snd r) /\ (fst r = None -> rdne rd -> rdne (snd r)))
           (r <- renderList fuel doc n it rd' ;;
            (let '(out, _, rd2) := r in
             ids <- gets s_listids ;;
             (match ids with [] => ret tt | _ :: _ => log_msg $"panic: list stack failure" end) ;;; ret (Some out, rd2)))).
  { eapply tok_bind; [apply (proj1 (lists_mutual n)); [apply Ho; reflexivity|exact Hrd']|].
    intros [[out nx] rd2] (Hout & _ & Hrd2). cbn [fst snd] in *.
    apply tok_bind_gets. intros s0 _.
    apply tok_seq; [destruct (s_listids s0); [apply tok_ret; exact Logic.I|apply tok_log_msg]|].
    apply tok_ret. split; [intros t Ht; inversion Ht; subst; exact Hout|split; [exact Hrd2|intros Hx; discriminate]]. }
  specialize (T (set_listids s []) (Sok_listids L0 s [] Hs)).
  match goal with |- match ?X with _ => _ end => destruct X as [[a s']|e|] end; auto. destruct T. eauto.
Qed.

Lemma doc_loop_ok : forall n rd, rdok rd -> tokR rfree (doc_loop fuel doc n rd).
Proof.
  induction n as [|n IH]; intros rd Hrd; cbn [doc_loop]; [apply tokR_fuel|].
  pose proof (rdok_skip rd Hrd) as Hs. pose proof (rdne_skip rd) as Hne.
  destruct (skipBlankLines rd) as [|l rd0] eqn:E; [apply tokR_ret, allc_nil|]. specialize (Hne ltac:(discriminate)).
  assert (Cont : forall out rd', rfree out -> rdok rd' -> tokR rfree (rest <- doc_loop fuel doc n rd' ;; ret (out ++ rest))).
  { intros out rd' Ho Hr. eapply tokR_bind; [apply IH; exact Hr|]. intros rest Hrest. apply tokR_ret. rf. }
  eapply tokR_bind; [apply tokR_of_tok; intros L0; apply lineblocks_render_ok; [exact Hs|discriminate]|]. intros [o rd1] (Ho & Hrd1 & Hn1). cbn [fst snd] in *.
  destruct o as [out|]; [apply Cont; [apply Ho; reflexivity|exact Hrd1]|]. destruct (Hn1 eq_refl) as [_ Hn1']. specialize (Hn1' Hne).
  eapply tokR_bind; [apply lists_render_ok; exact Hrd1|]. intros [o rd2] (Ho2 & Hrd2 & Hn2). cbn [fst snd] in *.
  destruct o as [out|]; [apply Cont; [apply Ho2; reflexivity|exact Hrd2]|]. specialize (Hn2 eq_refl Hn1').
  eapply tokR_bind; [apply dblocks_render_ok; [exact Hdoc|exact Hrd2|exact Hn2]|]. intros [o rd3] (Ho3 & Hrd3 & _). cbn [fst snd] in *.
  destruct o as [out|]; [apply Cont; [apply Ho3; reflexivity|exact Hrd3]|apply tokR_fuel].
Qed.
End Lists.

(* ---- document.render and the API ---- *)
Theorem doc_render_ok : forall n text, tokR rfree (doc_render n text).
Proof.
  induction n as [|n IH]; intros text; cbn [doc_render]; [apply tokR_fuel|].
  apply doc_loop_ok; [intros t _; apply IH|apply mk_reader_ok].
Qed.

Theorem api_render_ok n src o : opts_ok o -> tokR rfree (api_render n src o).
Proof.
  intros Ho. unfold api_render. apply tokR_bind_gets. intros L0 s0 _.
  apply tokR_seq; [destruct (_ =? _)%Z; [apply tokR_modify; intros L1 s Hs; apply Sok_init; exact Hs|apply tokR_ret; exact Logic.I]|].
  apply tokR_seq; [apply tokR_of_tok; intros L1; apply updateFrom_ok; exact Ho|]. apply doc_render_ok.
Qed.

(* ---- every reachable session ---- *)
(* the invariant with the list-id stack forgotten *)
Definition Sok (s : session) : Prop := exists L, SokG L s.

Lemma Sok_S0 : Sok S0.
Proof.
  exists []. constructor; cbn; try apply allc_nil; try reflexivity.
  - constructor; [constructor; cbn; [apply allc_nil|constructor|constructor]|constructor].
  - constructor.
  - constructor.
Qed.

Definition out_ok (o : outcome) : Prop := match o with OOk html => rfree html | _ => True end.

Lemma api_render_spec n src o s : opts_ok o -> Sok s ->
  match api_render n src o s with Ok (html, s') => rfree html /\ Sok s' | Raise e => blk_exn e | Fuel => True end.
Proof. intros Ho [L Hs]. exact (api_render_ok n src o Ho L s Hs). Qed.

Theorem run_ok n : forall h s, Sok s -> Forall (fun so => opts_ok (snd so)) h ->
  Forall out_ok (fst (run n s h)) /\ Sok (snd (run n s h)).
Proof.
  induction h as [|[src o] h IH]; intros s Hs Ho; cbn [run]; [split; [constructor|exact Hs]|].
  inversion Ho as [|? ? Ho1 Hoh]; subst. cbn [snd] in Ho1.
  pose proof (api_render_spec n src o s Ho1 Hs) as H. destruct (api_render n src o s) as [[html s']|e|].
  - destruct H as [Hh Hs']. specialize (IH s' Hs' Hoh). destruct (run n s' h) as [l s'']. cbn in *.
    destruct IH. split; [constructor; auto|assumption].
  - cbn. split; [repeat constructor|exact Hs].
  - cbn. split; [repeat constructor|exact Hs].
Qed.

Corollary history_output_reserved_free n h : Forall (fun so => opts_ok (snd so)) h -> Forall out_ok (fst (run n S0 h)).
Proof. intros H. apply (run_ok n h S0 Sok_S0 H). Qed.

Lemma inline_no_underflow : forall s n src, env_ok s -> rfree src -> spans_render n s src <> Raise ExPopEmpty.
Proof.
  intros s n src He Hs H. pose proof (placeholder_protocol s n src He Hs) as P. rewrite H in P. apply P. reflexivity.
Qed.

Lemma reachable_Sok : forall n h, Forall (fun so => opts_ok (snd so)) h -> Sok (snd (run n S0 h)).
Proof. intros n h H. apply (run_ok n h S0 Sok_S0 H). Qed.

Lemma reachable_env_ok : forall n h, Forall (fun so => opts_ok (snd so)) h -> env_ok (ienv_of (snd (run n S0 h))).
Proof. intros n h H. destruct (reachable_Sok n h H) as [L Hs]. apply io_env. apply (so_env _ Hs). Qed.

Lemma render_reserved_free : forall n src o s, opts_ok o -> Sok s ->
  match api_render n src o s with Ok (html, s') => rfree html /\ Sok s' | _ => True end.
Proof. intros n src o s Ho Hs. pose proof (api_render_spec n src o s Ho Hs) as H. destruct (api_render n src o s) as [[h s']|e|]; auto. Qed.

(* the exceptions that can escape the API *)
Theorem api_render_raises_only : forall n src o s e, opts_ok o -> Sok s -> api_render n src o s = Raise e -> blk_exn e.
Proof. intros n src o s e Ho Hs H. pose proof (api_render_spec n src o s Ho Hs) as R. rewrite H in R. exact R. Qed.

(* C10: the stack of open list markers.  renderList pushes the marker of its list and pops it when the list closes, whatever
   is rendered in between (child lists, attached blocks with nested documents): it returns with the stack it was entered with;
   and an item it hands back to its caller -- an item that does not belong to this list or a child -- carries the marker of a
   list that is still open there (the "returns to an ancestor" rule); from the empty stack of lists.render nothing is handed back *)
Theorem renderList_stack fuel m n L it rd s : SokG L s -> item_ok it -> rdok rd ->
  match renderList fuel (doc_render m) n it rd s with
  | Ok (r, s') => s_listids s' = L /\ (forall it', snd (fst r) = Some it' -> In (it_id it') L)
  | _ => True
  end.
Proof.
  intros Hs Hit Hrd.
  pose proof (proj1 (lists_mutual fuel (doc_render m) (fun t _ => doc_render_ok m t) n) L it rd Hit Hrd s Hs) as H.
  destruct (renderList fuel (doc_render m) n it rd s) as [[r s']|e|]; auto.
  destruct H as [(_ & [_ Hin] & _) Hs']. split; [exact (so_listids _ _ Hs')|exact Hin].
Qed.

Corollary renderList_top fuel m n it rd s : SokG [] s -> item_ok it -> rdok rd ->
  match renderList fuel (doc_render m) n it rd s with
  | Ok (r, s') => s_listids s' = [] /\ snd (fst r) = None
  | _ => True
  end.
Proof.
  intros Hs Hit Hrd. pose proof (renderList_stack fuel m n [] it rd s Hs Hit Hrd) as H.
  destruct (renderList fuel (doc_render m) n it rd s) as [[r s']|e|]; auto. destruct H as [H1 H2]. split; [exact H1|].
  destruct (snd (fst r)) as [it'|]; [destruct (H2 it' eq_refl)|reflexivity].
Qed.

(* the items lists.matchItem produces are well-formed in the sense of the theorems above *)
Lemma matchItem_items rd s : rdok rd ->
  match matchItem rd s with Ok ((Some it, _), _) => item_ok it | _ => True end.
Proof.
  intros Hrd. unfold matchItem. destruct (matchItem_loop lists_defs rd) as [[o rd']|e|] eqn:E; cbn; try exact Logic.I.
  destruct (matchItem_loop_ok _ _ _ lists_defs_ok Hrd E) as [Ho _]. destruct o as [it|]; [|exact Logic.I]. apply Ho. reflexivity.
Qed.

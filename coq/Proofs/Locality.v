(* C08 / C14: a block's rendering does not depend on what follows it.  If a block-level function, run on the lines [rd],
   returns with part of [rd] still unread, then run on [rd ++ suf] it returns the same value, the same session (log
   included) and the unread part followed by [suf] -- for every suffix.  Lifted to the block loop: the rendering of the
   first k blocks of a document is independent of everything after them, provided the k-th block ends before the end
   of the input (an unterminated block, a list, or a block ending exactly at the end of input, may of course go on).
   All block kinds are covered: line blocks, delimited blocks (containers included) and the list fixpoint. *)
From Rimu Require Import Base Unicode Regex RegexAnalysis RegexParse Str Types Tables Guards State Inline Block.
From Coq Require Import Lia.
Local Open Scope monad_scope.

Lemma bind_Ok {A B} (m : M A) (f : A -> M B) s r : bind m f s = Ok r -> exists a s1, m s = Ok (a, s1) /\ f a s1 = Ok r.
Proof. unfold bind. destruct (m s) as [[a s1]|e|]; try discriminate. eauto. Qed.

Lemma bind_eq {A B} (m : M A) (f : A -> M B) s a s1 : m s = Ok (a, s1) -> bind m f s = f a s1.
Proof. unfold bind. intros ->. reflexivity. Qed.

Lemma app_ne {A} (a b : list A) : a <> [] -> a ++ b <> [].
Proof. destruct a; [congruence|discriminate]. Qed.

Section Loc.
Variable fuel : nat.
Variable suf : reader.

(* ---- line blocks ---- *)
Lemma verifyMacroLine_suffix m cur rest ok rd1 s s1 :
  verifyMacroLine fuel m (cur :: rest) s = Ok ((ok, rd1), s1) ->
  verifyMacroLine fuel m (cur :: rest ++ suf) s = Ok ((ok, rd1 ++ suf), s1) /\ exists c r, rd1 = c :: r.
Proof.
  unfold verifyMacroLine. destruct (re_search re_macros_DEF_OPEN (grp0 m)).
  - intros H. inversion H; subst. split; [reflexivity|eauto].
  - intros H. apply bind_Ok in H as (value & s2 & Hv & H). rewrite (bind_eq _ _ _ _ _ Hv).
    destruct (starts_with (grp0 m) value || contains (10 :: grp0 m) value).
    + inversion H; subst. split; [reflexivity|eauto].
    + inversion H; subst. split; [|eauto]. cbn [app]. rewrite <- app_assoc. reflexivity.
Qed.

Lemma lineblocks_loop_suffix allowed : forall defs cur rest o rd' s s',
  lineblocks_loop fuel defs (cur :: rest) allowed s = Ok ((o, rd'), s') -> rd' <> [] ->
  lineblocks_loop fuel defs (cur :: rest ++ suf) allowed s = Ok ((o, rd' ++ suf), s').
Proof.
  induction defs as [|d ds IH]; intros cur rest o rd' s s' H Hne; cbn [lineblocks_loop] in *.
  { inversion H; subst. reflexivity. }
  destruct (_ && _); [apply IH; assumption|].
  destruct (re_search (l_re d) cur) as [m|]; [|apply IH; assumption].
  destruct (grp0 m) as [|c0 g0]; [discriminate|].
  destruct (c0 =? 92); [apply IH; assumption|].
  apply bind_Ok in H as ([ok rd1] & s1 & Hv & H).
  assert (Hv' : (match l_verify d with
                 | LvNone => ret (true, cur :: rest ++ suf)
                 | LvMacroLine => verifyMacroLine fuel m (cur :: rest ++ suf)
                 | LvAttributes => b <- blockattributes_parse fuel (c0 :: g0) ;; ret (b, cur :: rest ++ suf)
                 end) s = Ok ((ok, rd1 ++ suf), s1) /\ exists c r, rd1 = c :: r).
  { destruct (l_verify d).
    - inversion Hv; subst. split; [reflexivity|eauto].
    - apply verifyMacroLine_suffix. exact Hv.
    - apply bind_Ok in Hv as (b & s2 & Hb & Hv). rewrite (bind_eq _ _ _ _ _ Hb). inversion Hv; subst. split; [reflexivity|eauto]. }
  destruct Hv' as [Hv' (c & r & ->)]. rewrite (bind_eq _ _ _ _ _ Hv'). cbn [app] in *.
  destruct (negb ok); [apply IH; assumption|].
  apply bind_Ok in H as (text & s2 & Ht & H). rewrite (bind_eq _ _ _ _ _ Ht).
  destruct text as [|t0 text].
  - inversion H; subst. reflexivity.
  - apply bind_Ok in H as (text' & s3 & Hi & H). rewrite (bind_eq _ _ _ _ _ Hi). cbn [tl] in *.
    inversion H; subst. destruct rd' as [|x rd']; [congruence|]. reflexivity.
Qed.

Lemma lineblocks_loop_none_ne allowed : forall defs rd rd' s s',
  lineblocks_loop fuel defs rd allowed s = Ok ((None, rd'), s') -> rd <> [] -> rd' <> [].
Proof.
  induction defs as [|d ds IH]; intros rd rd' s s' H Hne; cbn [lineblocks_loop] in *.
  { inversion H; subst. exact Hne. }
  destruct (_ && _); [eapply IH; eauto|].
  destruct rd as [|cur rest]; [discriminate|].
  destruct (re_search (l_re d) cur) as [m|]; [|eapply IH; eauto].
  destruct (grp0 m) as [|c0 g0]; [discriminate|].
  destruct (c0 =? 92); [eapply IH; eauto; discriminate|].
  apply bind_Ok in H as ([ok rd1] & s1 & Hv & H).
  assert (Hrd1 : rd1 <> []).
  { destruct (l_verify d).
    - inversion Hv; subst. discriminate.
    - unfold verifyMacroLine in Hv. destruct (re_search re_macros_DEF_OPEN (grp0 m)); [inversion Hv; subst; discriminate|].
      apply bind_Ok in Hv as (value & s2 & _ & Hv). destruct (_ || _); inversion Hv; subst; discriminate.
    - apply bind_Ok in Hv as (b & s2 & _ & Hv). inversion Hv; subst. discriminate. }
  destruct (negb ok); [eapply IH; eauto|].
  apply bind_Ok in H as (text & s2 & _ & H). destruct text as [|t0 text]; [inversion H|].
  apply bind_Ok in H as (text' & s3 & _ & H). inversion H.
Qed.

(* ---- lists: only the look at the first line ---- *)
Lemma matchItem_loop_suffix : forall defs cur rest r rd',
  matchItem_loop defs (cur :: rest) = Ok (r, rd') ->
  matchItem_loop defs (cur :: rest ++ suf) = Ok (r, rd' ++ suf) /\ rd' <> [].
Proof.
  induction defs as [|d ds IH]; intros cur rest r rd' H; cbn [matchItem_loop] in *.
  { inversion H; subst. split; [reflexivity|discriminate]. }
  destruct (re_search (li_re d) cur) as [m|]; [|apply IH; assumption].
  destruct (grp0 m) as [|c0 g0]; [discriminate|].
  destruct (c0 =? 92); [inversion H; subst; split; [reflexivity|discriminate]|].
  destruct (grp m (re_groups (li_re d) - 1)); inversion H; subst; (split; [reflexivity|discriminate]).
Qed.

Lemma matchItem_suffix cur rest r rd' s s' :
  matchItem (cur :: rest) s = Ok ((r, rd'), s') ->
  matchItem (cur :: rest ++ suf) s = Ok ((r, rd' ++ suf), s') /\ rd' <> [].
Proof.
  unfold matchItem. destruct (matchItem_loop lists_defs (cur :: rest)) as [[r0 rd0]|e|] eqn:E; try discriminate.
  intros H. inversion H; subst. apply matchItem_loop_suffix in E as [E Hne]. rewrite E. split; [reflexivity|exact Hne].
Qed.

(* ---- delimited blocks ---- *)
Lemma readTo_suffix rx : forall rd content rd1, readTo rx rd = Ok (content, rd1) -> rd1 <> [] ->
  readTo rx (rd ++ suf) = Ok (content, rd1 ++ suf).
Proof.
  induction rd as [|l t IH]; intros content rd1 H Hne; cbn [readTo app] in *.
  - inversion H; subst. congruence.
  - destruct (re_search rx l) as [m|].
    + destruct (Nat.ltb 0 (re_groups rx)).
      * destruct (grp m 1); inversion H; subst. reflexivity.
      * inversion H; subst. reflexivity.
    + destruct (readTo rx t) as [[ls rd']|e|] eqn:E; try discriminate. inversion H; subst.
      rewrite (IH ls rd1 eq_refl Hne). reflexivity.
Qed.

Section WithDoc.
Variable doc : str -> M str.

Lemma dblock_body_suffix i d m rest out rd2 s s' :
  dblock_body fuel doc i d m rest s = Ok ((out, rd2), s') -> rd2 <> [] ->
  dblock_body fuel doc i d m (rest ++ suf) s = Ok ((out, rd2 ++ suf), s').
Proof.
  unfold dblock_body. intros H Hne.
  apply bind_Ok in H as (dt & s1 & Hd & H). rewrite (bind_eq _ _ _ _ _ Hd).
  apply bind_Ok in H as (closeRe & s2 & Hc & H). rewrite (bind_eq _ _ _ _ _ Hc).
  destruct (readTo closeRe rest) as [[content rd1]|e|] eqn:Er; try discriminate.
  apply bind_Ok in H as (u & s3 & Hu & H).
  apply bind_Ok in H as (expand & s4 & He & H).
  apply bind_Ok in H as (o & s5 & Ho & H).
  apply bind_Ok in H as (u2 & s6 & Hm & H). inversion H; subst out rd2 s'. clear H.
  assert (Hrd1 : exists c r, rd1 = c :: r /\ r <> []).
  { destruct rd1 as [|c r]; [cbn in Hne; congruence|]. exists c, r. split; [reflexivity|exact Hne]. }
  destruct Hrd1 as (c & r & -> & Hr).
  rewrite (readTo_suffix closeRe rest content (c :: r) Er ltac:(discriminate)).
  cbn [app andb tl] in *. rewrite (bind_eq _ _ _ _ _ Hu). rewrite (bind_eq _ _ _ _ _ He).
  assert (Hrs : (match r ++ suf with [] => false | _ :: _ => true end) = (match r with [] => false | _ :: _ => true end)).
  { destruct r; [congruence|reflexivity]. }
  rewrite Hrs. rewrite (bind_eq _ _ _ _ _ Ho). rewrite (bind_eq _ _ _ _ _ Hm). reflexivity.
Qed.

Lemma dblock_loop_suffix allowed : forall k i cur rest o rd' s s',
  dblock_loop fuel doc k i (cur :: rest) allowed s = Ok ((o, rd'), s') -> rd' <> [] ->
  dblock_loop fuel doc k i (cur :: rest ++ suf) allowed s = Ok ((o, rd' ++ suf), s').
Proof.
  induction k as [|k IH]; intros i cur rest o rd' s s' H Hne; cbn [dblock_loop] in *.
  { inversion H; subst. reflexivity. }
  apply bind_Ok in H as (od & s1 & Hg & H). rewrite (bind_eq _ _ _ _ _ Hg).
  destruct od as [d|]; [|inversion H; subst; reflexivity].
  destruct (_ && _); [apply IH; assumption|].
  destruct (re_search (d_openRe d) cur) as [m|]; [|apply IH; assumption].
  assert (Body : (r <- dblock_body fuel doc i d m rest ;; ret (Some (fst r), snd r)) s1 = Ok ((o, rd'), s') ->
                 (r <- dblock_body fuel doc i d m (rest ++ suf) ;; ret (Some (fst r), snd r)) s1 = Ok ((o, rd' ++ suf), s')).
  { intros Hb. apply bind_Ok in Hb as ([out rd2] & s2 & Hb & Hr). inversion Hr; subst. cbn [fst snd] in *.
    rewrite (bind_eq _ _ _ _ _ (dblock_body_suffix _ _ _ _ _ _ _ _ Hb Hne)). reflexivity. }
  destruct (grp0 m) as [|c0 g0]; destruct (str_eqb (d_name d) $"paragraph"); try discriminate.
  - destruct (negb (db_verify d m)); [apply IH; assumption|apply Body; exact H].
  - destruct (c0 =? 92); [apply IH; assumption|].
    destruct (negb (db_verify d m)); [apply IH; assumption|apply Body; exact H].
Qed.

Lemma dblocks_render_suffix allowed cur rest o rd' s s' :
  dblocks_render fuel doc (cur :: rest) allowed s = Ok ((o, rd'), s') -> rd' <> [] ->
  dblocks_render fuel doc (cur :: rest ++ suf) allowed s = Ok ((o, rd' ++ suf), s').
Proof.
  unfold dblocks_render. intros H Hne. apply bind_Ok in H as (k & s1 & Hk & H). rewrite (bind_eq _ _ _ _ _ Hk).
  apply dblock_loop_suffix; assumption.
Qed.

(* ---- lists ---- *)
Lemma cba_nil n blanks acc s : consumeBlockAttributes fuel (S n) [] blanks acc s = Ok (((-1)%Z, acc, []), s).
Proof. reflexivity. Qed.

Lemma cba_nil_reader n blanks acc s b o rd1 s' :
  consumeBlockAttributes fuel n [] blanks acc s = Ok ((b, o, rd1), s') -> rd1 = [].
Proof. destruct n; [discriminate|]. rewrite cba_nil. intros H. inversion H. reflexivity. Qed.

Lemma cba_suffix : forall n rd blanks acc b o rd1 s s',
  consumeBlockAttributes fuel n rd blanks acc s = Ok ((b, o, rd1), s') -> rd1 <> [] ->
  consumeBlockAttributes fuel n (rd ++ suf) blanks acc s = Ok ((b, o, rd1 ++ suf), s').
Proof.
  induction n as [|n IH]; intros rd blanks acc b o rd1 s s' H Hne; [discriminate|].
  destruct rd as [|c r]; [rewrite cba_nil in H; inversion H; subst; congruence|].
  cbn [consumeBlockAttributes app] in *.
  apply bind_Ok in H as ([ob rd'] & s1 & Hl & H). unfold lineblocks_render in *.
  destruct ob as [out|].
  - assert (Hrd' : rd' <> []) by (intros ->; apply cba_nil_reader in H; congruence).
    rewrite (bind_eq _ _ _ _ _ (lineblocks_loop_suffix _ _ _ _ _ _ _ _ Hl Hrd')). apply IH; assumption.
  - pose proof (lineblocks_loop_none_ne _ _ _ _ _ _ Hl ltac:(discriminate)) as Hrd'.
    rewrite (bind_eq _ _ _ _ _ (lineblocks_loop_suffix _ _ _ _ _ _ _ _ Hl Hrd')).
    destruct rd' as [|cur rest]; [congruence|]. cbn [app].
    destruct (nonempty cur).
    + inversion H; subst. reflexivity.
    + assert (Hrest : rest <> []) by (intros ->; apply cba_nil_reader in H; congruence).
      apply IH; assumption.
Qed.

Lemma itemLoop_nil_reader n il at' dn s nx rd' il' at'' s' :
  itemLoop fuel doc n [] il at' dn s = Ok ((nx, rd', il', at''), s') -> rd' = [].
Proof.
  destruct n as [|n]; [discriminate|]. cbn [itemLoop]. destruct n as [|n]; [discriminate|].
  unfold bind at 1. rewrite cba_nil. cbn. intros H. inversion H. reflexivity.
Qed.

Lemma cba_eof : forall n rd blanks acc b o rd1 s s',
  consumeBlockAttributes fuel n rd blanks acc s = Ok ((b, o, rd1), s') -> rd1 = [] -> b = (-1)%Z.
Proof.
  induction n as [|n IH]; intros rd blanks acc b o rd1 s s' H Hnil; [discriminate|].
  destruct rd as [|c r]; [rewrite cba_nil in H; inversion H; reflexivity|].
  cbn [consumeBlockAttributes] in H. apply bind_Ok in H as ([ob rd'] & s1 & Hl & H).
  destruct ob as [out|]; [eapply IH; eauto|].
  destruct rd' as [|cur rest]; [discriminate|]. destruct (nonempty cur); [inversion H; subst; discriminate|eapply IH; eauto].
Qed.

Lemma renderListItem_nil_reader n it s o nn rd' s' :
  renderListItem fuel doc n it [] s = Ok ((o, nn, rd'), s') -> rd' = [].
Proof.
  destruct n as [|n]; [discriminate|]. cbn [renderListItem]. intros H1.
  apply bind_Ok in H1 as (hd & s4 & _ & H1). apply bind_Ok in H1 as (io & s5 & _ & H1).
  destruct (item_text it); [|discriminate]. apply bind_Ok in H1 as ([[[n4 rd4] il4] at4] & s6 & H6 & H1). cbv beta iota zeta in H1.
  cbn [tl] in H6. apply itemLoop_nil_reader in H6. subst rd4. apply bind_Ok in H1 as (tx & s7 & _ & H1). inversion H1; subst. reflexivity.
Qed.

Lemma renderItems_nil_reader : forall k it o nn rd' s s',
  renderItems fuel doc k it [] s = Ok ((o, nn, rd'), s') -> rd' = [].
Proof.
  induction k as [|k IHk]; intros it o nn rd' s s' Hk; [discriminate|]. cbn [renderItems] in Hk.
  apply bind_Ok in Hk as ([[o1 n1] rd1] & s1 & H1 & Hk). cbv beta iota zeta in Hk.
  apply renderListItem_nil_reader in H1. subst rd1.
  destruct n1 as [n1|]; [destruct (str_eqb (it_id n1) (it_id it))|].
  - apply bind_Ok in Hk as ([[o5 n5] rd5] & s8 & H8 & Hk). cbv beta iota zeta in Hk. inversion Hk; subst. eapply IHk; eauto.
  - inversion Hk; reflexivity.
  - inversion Hk; reflexivity.
Qed.

Definition Q_list (n : nat) := forall it rd o nn rd' s s',
  renderList fuel doc n it rd s = Ok ((o, nn, rd'), s') -> rd' <> [] ->
  renderList fuel doc n it (rd ++ suf) s = Ok ((o, nn, rd' ++ suf), s').
Definition Q_items (n : nat) := forall it rd o nn rd' s s',
  renderItems fuel doc n it rd s = Ok ((o, nn, rd'), s') -> rd' <> [] ->
  renderItems fuel doc n it (rd ++ suf) s = Ok ((o, nn, rd' ++ suf), s').
Definition Q_item (n : nat) := forall it rd o nn rd' s s',
  renderListItem fuel doc n it rd s = Ok ((o, nn, rd'), s') -> rd' <> [] ->
  renderListItem fuel doc n it (rd ++ suf) s = Ok ((o, nn, rd' ++ suf), s').
Definition Q_loop (n : nat) := forall rd il at' dn nx rd' il' at'' s s',
  itemLoop fuel doc n rd il at' dn s = Ok ((nx, rd', il', at''), s') -> rd' <> [] ->
  itemLoop fuel doc n (rd ++ suf) il at' dn s = Ok ((nx, rd' ++ suf, il', at''), s').

Lemma lists_suffix : forall n, Q_list n /\ Q_items n /\ Q_item n /\ Q_loop n.
Proof.
  induction n as [|n (IHl & IHs & IHi & IHo)].
  { repeat split; intro; intros; discriminate. }
  split; [|split; [|split]].
  - (* renderList *)
    intros it rd o nn rd' s s' H Hne. cbn [renderList] in *.
    apply bind_Ok in H as (u & s1 & H1 & H). rewrite (bind_eq _ _ _ _ _ H1).
    apply bind_Ok in H as (open & s2 & H2 & H). rewrite (bind_eq _ _ _ _ _ H2).
    apply bind_Ok in H as ([[body nx] rd1] & s3 & H3 & H). cbv beta iota zeta in H.
    apply bind_Ok in H as (u2 & s4 & H4 & H). inversion H; subst.
    rewrite (bind_eq _ _ _ _ _ (IHs _ _ _ _ _ _ _ H3 Hne)). cbv beta iota zeta. rewrite (bind_eq _ _ _ _ _ H4). reflexivity.
  - (* renderItems *)
    intros it rd o nn rd' s s' H Hne. cbn [renderItems] in *.
    apply bind_Ok in H as ([[out nx] rd1] & s1 & H1 & H). cbv beta iota zeta in H.
    destruct nx as [nx|].
    + destruct (str_eqb (it_id nx) (it_id it)) eqn:Eid.
      * apply bind_Ok in H as ([[out2 n2] rd2] & s2 & H2 & H). cbv beta iota zeta in H. inversion H; subst.
        assert (Hrd1 : rd1 <> []) by (intros ->; apply renderItems_nil_reader in H2; congruence).
        rewrite (bind_eq _ _ _ _ _ (IHi _ _ _ _ _ _ _ H1 Hrd1)). cbv beta iota zeta.
        rewrite Eid.
        rewrite (bind_eq _ _ _ _ _ (IHs _ _ _ _ _ _ _ H2 Hne)). reflexivity.
      * inversion H; subst. rewrite (bind_eq _ _ _ _ _ (IHi _ _ _ _ _ _ _ H1 Hne)). cbv beta iota zeta.
        rewrite Eid. reflexivity.
    + inversion H; subst. rewrite (bind_eq _ _ _ _ _ (IHi _ _ _ _ _ _ _ H1 Hne)). reflexivity.
  - (* renderListItem *)
    intros it rd o nn rd' s s' H Hne. cbn [renderListItem] in *.
    apply bind_Ok in H as (hd & s1 & H1 & H). rewrite (bind_eq _ _ _ _ _ H1).
    apply bind_Ok in H as (io & s2 & H2 & H). rewrite (bind_eq _ _ _ _ _ H2).
    destruct (item_text it) as [first|]; [|discriminate].
    apply bind_Ok in H as ([[[nx rd1] il] at1] & s3 & H3 & H). cbv beta iota zeta in H.
    apply bind_Ok in H as (tx & s4 & H4 & H). inversion H; subst.
    assert (Hrd : exists c r, rd = c :: r).
    { destruct rd as [|c r]; [|eauto]. cbn [tl] in H3. apply itemLoop_nil_reader in H3. congruence. }
    destruct Hrd as (c & r & ->). cbn [app tl] in *.
    rewrite (bind_eq _ _ _ _ _ (IHo _ _ _ _ _ _ _ _ _ _ H3 Hne)). cbv beta iota zeta. rewrite (bind_eq _ _ _ _ _ H4). reflexivity.
  - (* itemLoop *)
    intros rd il at' dn nx rd' il' at'' s s' H Hne. cbn [itemLoop] in *.
    apply bind_Ok in H as ([[blanks out] rd1] & s1 & H1 & H). cbv beta iota zeta in H.
    destruct ((2 <=? blanks)%Z || (blanks =? -1)%Z) eqn:Eb.
    { inversion H; subst. rewrite (bind_eq _ _ _ _ _ (cba_suffix _ _ _ _ _ _ _ _ _ H1 Hne)). cbv beta iota zeta. rewrite Eb. reflexivity. }
    apply bind_Ok in H as ([ni rd2] & s2 & H2 & H). cbv beta iota zeta in H.
    assert (Hrd1 : rd1 <> []).
    { intros ->. pose proof (cba_eof _ _ _ _ _ _ _ _ _ H1 eq_refl) as Hb. subst blanks. cbn in Eb. discriminate. }
    rewrite (bind_eq _ _ _ _ _ (cba_suffix _ _ _ _ _ _ _ _ _ H1 Hrd1)). cbv beta iota zeta. rewrite Eb.
    destruct rd1 as [|c1 r1]; [congruence|]. cbn [app].
    destruct (matchItem_suffix _ _ _ _ _ _ H2) as [H2' Hrd2]. rewrite (bind_eq _ _ _ _ _ H2'). cbv beta iota zeta.
    destruct ni as [nx0|].
    + apply bind_Ok in H as (io & s3 & H3 & H). rewrite (bind_eq _ _ _ _ _ H3).
      destruct io.
      * inversion H; subst. reflexivity.
      * apply bind_Ok in H as ([[o3 n3] rd3] & s4 & H4 & H). cbv beta iota zeta in H. inversion H; subst.
        rewrite (bind_eq _ _ _ _ _ (IHl _ _ _ _ _ _ _ H4 Hne)). reflexivity.
    + destruct dn; [inversion H; subst; reflexivity|].
      destruct rd2 as [|c2 r2]; [congruence|]. cbn [app].
      destruct (blanks =? 0)%Z.
      * apply bind_Ok in H as (sv & s3 & H3 & H). rewrite (bind_eq _ _ _ _ _ H3).
        apply bind_Ok in H as (u & s4 & H4 & H). rewrite (bind_eq _ _ _ _ _ H4).
        apply bind_Ok in H as ([od rd3] & s5 & H5 & H).
        apply bind_Ok in H as (u2 & s6 & H6 & H).
        destruct od as [out3|].
        -- assert (Hrd3 : rd3 <> []) by (intros ->; apply itemLoop_nil_reader in H; congruence).
           rewrite (bind_eq _ _ _ _ _ (dblocks_render_suffix _ _ _ _ _ _ _ H5 Hrd3)). rewrite (bind_eq _ _ _ _ _ H6).
           apply IHo; assumption.
        -- destruct rd3 as [|c3 r3]; [discriminate|].
           assert (Hr3 : r3 <> []) by (intros ->; apply itemLoop_nil_reader in H; congruence).
           rewrite (bind_eq _ _ _ _ _ (dblocks_render_suffix _ _ _ _ _ _ _ H5 ltac:(discriminate))). rewrite (bind_eq _ _ _ _ _ H6).
           cbn [app]. apply IHo; assumption.
      * destruct (blanks =? 1)%Z; [|discriminate].
        apply bind_Ok in H as (sv & s3 & H3 & H). rewrite (bind_eq _ _ _ _ _ H3).
        apply bind_Ok in H as (u & s4 & H4 & H). rewrite (bind_eq _ _ _ _ _ H4).
        apply bind_Ok in H as ([od rd3] & s5 & H5 & H).
        apply bind_Ok in H as (u2 & s6 & H6 & H).
        destruct od as [out3|].
        -- assert (Hrd3 : rd3 <> []) by (intros ->; apply itemLoop_nil_reader in H; congruence).
           rewrite (bind_eq _ _ _ _ _ (dblocks_render_suffix _ _ _ _ _ _ _ H5 Hrd3)). rewrite (bind_eq _ _ _ _ _ H6).
           apply IHo; assumption.
        -- inversion H; subst.
           rewrite (bind_eq _ _ _ _ _ (dblocks_render_suffix _ _ _ _ _ _ _ H5 Hne)). rewrite (bind_eq _ _ _ _ _ H6). reflexivity.
Qed.

Lemma lists_render_suffix n cur rest o rd2 s s' :
  lists_render fuel doc n (cur :: rest) s = Ok ((o, rd2), s') -> rd2 <> [] ->
  lists_render fuel doc n (cur :: rest ++ suf) s = Ok ((o, rd2 ++ suf), s').
Proof.
  unfold lists_render. intros H Hne. apply bind_Ok in H as ([r rd'] & s1 & Hm & H).
  destruct (matchItem_suffix _ _ _ _ _ _ Hm) as [Hm' Hrd']. rewrite (bind_eq _ _ _ _ _ Hm').
  destruct r as [it|]; [|inversion H; subst; reflexivity].
  apply bind_Ok in H as (u & s2 & H2 & H). rewrite (bind_eq _ _ _ _ _ H2).
  apply bind_Ok in H as ([[out nx] rdx] & s3 & H3 & H). cbv beta iota zeta in H.
  apply bind_Ok in H as (ids & s4 & H4 & H). apply bind_Ok in H as (u2 & s5 & H5 & H). inversion H; subst.
  rewrite (bind_eq _ _ _ _ _ (proj1 (lists_suffix n) _ _ _ _ _ _ _ H3 Hne)). cbv beta iota zeta.
  rewrite (bind_eq _ _ _ _ _ H4). rewrite (bind_eq _ _ _ _ _ H5). reflexivity.
Qed.

End WithDoc.
End Loc.

(* ---- the block loop ---- *)
From Rimu Require Import Frame FrameBlock FrameInst OptionsLemmas MiscLemmas MoreLemmas TableFacts.

Section Doc.
Variable fuel : nat.
Variable doc : str -> M str.

(* [k] blocks (line blocks, lists, delimited blocks) taken by the block loop from [rd] with loop fuel [n]:
   their concatenated output, what is left of the reader, the session, and the loop fuel left *)
Inductive prefix_run : nat -> reader -> session -> str -> reader -> session -> nat -> Prop :=
| pr_done n rd s : prefix_run n rd s [] rd s n
| pr_line n rd l t out rd' s s1 o rdk sk n' :
    skipBlankLines rd = l :: t ->
    lineblocks_render fuel (l :: t) [] s = Ok ((Some out, rd'), s1) ->
    prefix_run n rd' s1 o rdk sk n' ->
    prefix_run (S n) rd s (out ++ o) rdk sk n'
| pr_dblock n rd l t rd1 rd2 out rd3 s s1 s2 s3 o rdk sk n' :
    skipBlankLines rd = l :: t ->
    lineblocks_render fuel (l :: t) [] s = Ok ((None, rd1), s1) ->
    lists_render fuel doc n rd1 s1 = Ok ((None, rd2), s2) ->
    dblocks_render fuel doc rd2 [] s2 = Ok ((Some out, rd3), s3) ->
    prefix_run n rd3 s3 o rdk sk n' ->
    prefix_run (S n) rd s (out ++ o) rdk sk n'
| pr_list n rd l t rd1 out rd2 s s1 s2 o rdk sk n' :
    skipBlankLines rd = l :: t ->
    lineblocks_render fuel (l :: t) [] s = Ok ((None, rd1), s1) ->
    lists_render fuel doc n rd1 s1 = Ok ((Some out, rd2), s2) ->
    prefix_run n rd2 s2 o rdk sk n' ->
    prefix_run (S n) rd s (out ++ o) rdk sk n'.

Definition then_loop (o : str) (r : Res (str * session)) : Res (str * session) :=
  match r with Ok (rest, s2) => Ok (o ++ rest, s2) | Raise e => Raise e | Fuel => Fuel end.

(* the loop renders the prefix, then goes on from where the prefix stopped *)
Theorem prefix_run_loop n rd s o rdk sk n' : prefix_run n rd s o rdk sk n' ->
  doc_loop fuel doc n rd s = then_loop o (doc_loop fuel doc n' rdk sk).
Proof.
  induction 1 as [n rd s|n rd l t out rd' s s1 o rdk sk n' Hs Hl _ IH|n rd l t rd1 rd2 out rd3 s s1 s2 s3 o rdk sk n' Hs Hl Hli Hd _ IH
                 |n rd l t rd1 out rd2 s s1 s2 o rdk sk n' Hs Hl Hli _ IH].
  4:{ cbn [doc_loop]. rewrite Hs. unfold bind at 1. rewrite Hl. unfold bind at 1. rewrite Hli. unfold bind, ret. rewrite IH. unfold then_loop.
      destruct (doc_loop fuel doc n' rdk sk) as [[rest sx]| |]; [rewrite app_assoc|..]; reflexivity. }
  - unfold then_loop. destruct (doc_loop fuel doc n rd s) as [[rest sx]| |]; reflexivity.
  - rewrite (doc_loop_line_block fuel doc n rd l t out rd' s s1 Hs Hl), IH. unfold then_loop.
    destruct (doc_loop fuel doc n' rdk sk) as [[rest sx]| |]; [rewrite app_assoc|..]; reflexivity.
  - rewrite (doc_loop_delimited_block fuel doc n rd l t rd1 rd2 out rd3 s s1 s2 s3 Hs Hl Hli Hd), IH. unfold then_loop.
    destruct (doc_loop fuel doc n' rdk sk) as [[rest sx]| |]; [rewrite app_assoc|..]; reflexivity.
Qed.

Lemma skipBlankLines_suffix suf : forall rd l t, skipBlankLines rd = l :: t -> skipBlankLines (rd ++ suf) = l :: t ++ suf.
Proof.
  induction rd as [|x rd IH]; intros l t H; cbn [skipBlankLines app] in *; [discriminate|].
  destruct (is_empty (strip x)); [apply IH; exact H|]. inversion H; subst. reflexivity.
Qed.

Lemma prefix_run_nil n o rdk sk n' s : prefix_run n [] s o rdk sk n' -> rdk = [].
Proof. intros H. inversion H; subst; [reflexivity| | |]; match goal with Hs : skipBlankLines [] = _ |- _ => cbn [skipBlankLines] in Hs; discriminate end. Qed.

Lemma lists_render_none_suffix suf n cur rest rd2 s s2 :
  lists_render fuel doc n (cur :: rest) s = Ok ((None, rd2), s2) ->
  lists_render fuel doc n (cur :: rest ++ suf) s = Ok ((None, rd2 ++ suf), s2) /\ rd2 <> [].
Proof.
  unfold lists_render. intros H. apply bind_Ok in H as ([r rd'] & s1 & Hm & H).
  destruct (matchItem_suffix suf _ _ _ _ _ _ Hm) as [Hm' Hne]. rewrite (bind_eq _ _ _ _ _ Hm').
  destruct r as [it|].
  - exfalso. apply bind_Ok in H as (u & s3 & _ & H). apply bind_Ok in H as ([[out nx] rdx] & s4 & _ & H).
    apply bind_Ok in H as (ids & s5 & _ & H). apply bind_Ok in H as (u2 & s6 & _ & H). inversion H.
  - inversion H; subst. split; [reflexivity|exact Hne].
Qed.

Lemma lineblocks_render_suffix suf cur rest o rd' s s' :
  lineblocks_render fuel (cur :: rest) [] s = Ok ((o, rd'), s') -> rd' <> [] ->
  lineblocks_render fuel (cur :: rest ++ suf) [] s = Ok ((o, rd' ++ suf), s').
Proof. unfold lineblocks_render. apply lineblocks_loop_suffix. Qed.

Lemma lineblocks_render_none_ne rd rd' s s' :
  lineblocks_render fuel rd [] s = Ok ((None, rd'), s') -> rd <> [] -> rd' <> [].
Proof. unfold lineblocks_render. apply lineblocks_loop_none_ne. Qed.

(* THE RENDERING OF THE FIRST BLOCKS DOES NOT DEPEND ON WHAT FOLLOWS THEM *)
Theorem prefix_run_suffix suf n rd s o rdk sk n' : prefix_run n rd s o rdk sk n' -> rdk <> [] ->
  prefix_run n (rd ++ suf) s o (rdk ++ suf) sk n'.
Proof.
  induction 1 as [n rd s|n rd l t out rd' s s1 o rdk sk n' Hs Hl Hrun IH|n rd l t rd1 rd2 out rd3 s s1 s2 s3 o rdk sk n' Hs Hl Hli Hd Hrun IH
                 |n rd l t rd1 out rd2 s s1 s2 o rdk sk n' Hs Hl Hli Hrun IH];
    intros Hne.
  4:{ assert (Hrd2 : rd2 <> []) by (intros ->; apply prefix_run_nil in Hrun; congruence).
      pose proof (lineblocks_render_none_ne (l :: t) rd1 s s1 Hl ltac:(discriminate)) as Hrd1.
      destruct rd1 as [|c1 r1]; [congruence|].
      pose proof (lineblocks_render_suffix suf l t _ _ _ _ Hl ltac:(discriminate)) as Hl'.
      pose proof (lists_render_suffix fuel suf doc n c1 r1 _ _ _ _ Hli Hrd2) as Hli'.
      exact (pr_list n (rd ++ suf) l (t ++ suf) (c1 :: r1 ++ suf) out (rd2 ++ suf) s s1 s2 o (rdk ++ suf) sk n'
               (skipBlankLines_suffix suf rd l t Hs) Hl' Hli' (IH Hne)). }
  - constructor.
  - assert (Hrd' : rd' <> []) by (intros ->; apply prefix_run_nil in Hrun; congruence).
    pose proof (lineblocks_render_suffix suf l t _ _ _ _ Hl Hrd') as Hl'.
    exact (pr_line n (rd ++ suf) l (t ++ suf) out (rd' ++ suf) s s1 o (rdk ++ suf) sk n' (skipBlankLines_suffix suf rd l t Hs) Hl' (IH Hne)).
  - assert (Hrd3 : rd3 <> []) by (intros ->; apply prefix_run_nil in Hrun; congruence).
    pose proof (lineblocks_render_none_ne (l :: t) rd1 s s1 Hl ltac:(discriminate)) as Hrd1.
    destruct rd1 as [|c1 r1]; [congruence|].
    destruct (lists_render_none_suffix suf n c1 r1 rd2 s1 s2 Hli) as [Hli' Hrd2].
    destruct rd2 as [|c2 r2]; [congruence|].
    pose proof (lineblocks_render_suffix suf l t _ _ _ _ Hl ltac:(discriminate)) as Hl'.
    pose proof (dblocks_render_suffix fuel suf doc [] c2 r2 _ _ _ _ Hd Hrd3) as Hd'.
    exact (pr_dblock n (rd ++ suf) l (t ++ suf) (c1 :: r1 ++ suf) (c2 :: r2 ++ suf) out (rd3 ++ suf) s s1 s2 s3 o (rdk ++ suf) sk n'
             (skipBlankLines_suffix suf rd l t Hs) Hl' Hli' Hd' (IH Hne)).
Qed.

Corollary first_blocks_independent suf n rd s o rdk sk n' : prefix_run n rd s o rdk sk n' -> rdk <> [] ->
  doc_loop fuel doc n (rd ++ suf) s = then_loop o (doc_loop fuel doc n' (rdk ++ suf) sk).
Proof. intros H Hne. apply prefix_run_loop. apply prefix_run_suffix; assumption. Qed.

(* C14: a document A that ends in blank lines which none of its blocks reaches into (so: no unterminated block, and
   no list at its end -- a list reads on over blank lines to the end of A), followed by B, renders in one call as A renders and then B renders from the session A left *)
Definition all_blank (rd : reader) : Prop := skipBlankLines rd = [].

Lemma skip_all_blank rd lb : all_blank rd -> skipBlankLines (rd ++ lb) = skipBlankLines lb.
Proof.
  unfold all_blank. induction rd as [|x rd IH]; intros H; cbn [skipBlankLines app] in *; [reflexivity|].
  destruct (is_empty (strip x)); [apply IH; exact H|discriminate].
Qed.

Lemma doc_loop_skip n rd lb s : all_blank rd -> doc_loop fuel doc n (rd ++ lb) s = doc_loop fuel doc n lb s.
Proof. intros H. destruct n; [reflexivity|]. cbn [doc_loop]. rewrite (skip_all_blank rd lb H). reflexivity. Qed.

Theorem parts_equal_whole n la lb s o rdk sk n' :
  prefix_run n la s o rdk sk n' -> rdk <> [] -> all_blank rdk ->
  doc_loop fuel doc n la s = then_loop o (doc_loop fuel doc n' [] sk) /\
  doc_loop fuel doc n (la ++ lb) s = then_loop o (doc_loop fuel doc n' lb sk).
Proof.
  intros H Hne Hb. split.
  - rewrite (prefix_run_loop _ _ _ _ _ _ _ H). destruct n'; [reflexivity|]. cbn [doc_loop]. unfold all_blank in Hb. rewrite Hb. reflexivity.
  - rewrite (first_blocks_independent lb _ _ _ _ _ _ _ H Hne). rewrite doc_loop_skip by exact Hb. reflexivity.
Qed.

End Doc.

(* ---- C14 at document.render: texts A, B and J whose lines are those of A followed by those of B ---- *)
From Rimu Require Import FuelMono.

Lemma prefix_run_fuel_le fuel doc n rd s o rdk sk n' : prefix_run fuel doc n rd s o rdk sk n' -> (n' <= n)%nat.
Proof. induction 1; lia. Qed.

Theorem parts_equal_whole_render n tA tB tJ s o rdk sk n' outB sB :
  mk_reader tJ = mk_reader tA ++ mk_reader tB ->
  prefix_run n (doc_render n) n (mk_reader tA) s o rdk sk n' -> rdk <> [] -> all_blank rdk ->
  doc_loop n (doc_render n) n' (mk_reader tB) sk = Ok (outB, sB) ->
  doc_render (S n) tA s = Ok (o, sk) /\ doc_render (S n) tB sk = Ok (outB, sB) /\ doc_render (S n) tJ s = Ok (o ++ outB, sB).
Proof.
  intros HJ Hrun Hne Hb HB.
  destruct (parts_equal_whole n (doc_render n) n (mk_reader tA) (mk_reader tB) s o rdk sk n' Hrun Hne Hb) as [EA EJ].
  assert (Hn' : exists k, n' = S k) by (destruct n' as [|k]; [discriminate HB|eauto]). destruct Hn' as (k & ->).
  split; [|split].
  - change (doc_render (S n) tA) with (doc_loop n (doc_render n) n (mk_reader tA)). rewrite EA. cbn [doc_loop skipBlankLines then_loop ret].
    rewrite app_nil_r. reflexivity.
  - change (doc_render (S n) tB) with (doc_loop n (doc_render n) n (mk_reader tB)).
    pose proof (prefix_run_fuel_le _ _ _ _ _ _ _ _ _ Hrun) as Hle.
    destruct (mono_doc_loop n n (Nat.le_refl n) (doc_render n) (doc_render n) (fun t => mle_refl _) (S k) n (mk_reader tB) Hle sk) as [E|E].
    + rewrite HB in E. discriminate.
    + rewrite <- E. exact HB.
  - change (doc_render (S n) tJ) with (doc_loop n (doc_render n) n (mk_reader tJ)). rewrite HJ, EJ, HB. reflexivity.
Qed.

From Rimu Require Import Lines.

Lemma split_aux_join b : forall a cur, (forall x, In x a -> x <> 13) ->
  split_lines_aux (a ++ 10 :: b) cur = split_lines_aux a cur ++ split_lines_aux b [].
Proof.
  induction a as [|x a IH]; intros cur H; [reflexivity|].
  assert (Hx : x <> 13) by (apply H; left; reflexivity).
  assert (Ha : forall y, In y a -> y <> 13) by (intros y Hy; apply H; right; exact Hy).
  destruct (N.eq_dec x 10) as [->|H10].
  - cbn [app split_lines_aux]. rewrite (IH [] Ha). reflexivity.
  - assert (E1 : split_lines_aux ((x :: a) ++ 10 :: b) cur = split_lines_aux (a ++ 10 :: b) (x :: cur)).
    { cbn [app split_lines_aux]. destruct x as [|px]; [reflexivity|].
      destruct px as [[[|[]|]|[[]|[]|]|]|[[|[]|]|[]|]|]; try reflexivity; congruence. }
    assert (E2 : split_lines_aux (x :: a) cur = split_lines_aux a (x :: cur)).
    { cbn [split_lines_aux]. destruct x as [|px]; [reflexivity|].
      destruct px as [[[|[]|]|[[]|[]|]|]|[[|[]|]|[]|]|]; try reflexivity; congruence. }
    rewrite E1, E2. apply IH. exact Ha.
Qed.

Lemma mk_reader_join a b : (forall x, In x a -> x <> 13) -> mk_reader (a ++ 10 :: b) = mk_reader a ++ mk_reader b.
Proof.
  intros H. rewrite !mk_reader_spec. unfold blank_reserved. rewrite map_app. cbn [map].
  replace (if (10 =? 0) || (10 =? 1) || (10 =? 2) then 32 else 10) with 10 by reflexivity.
  unfold split_lines. apply split_aux_join.
  intros x Hx. apply in_map_iff in Hx as (y & Ey & Hy).
  destruct ((y =? 0) || (y =? 1) || (y =? 2)); [subst x; discriminate|subst x; apply H; exact Hy].
Qed.

Theorem parts_equal_whole_text n tA tB s o rdk sk n' outB sB : (forall x, In x tA -> x <> 13) ->
  prefix_run n (doc_render n) n (mk_reader tA) s o rdk sk n' -> rdk <> [] -> all_blank rdk ->
  doc_loop n (doc_render n) n' (mk_reader tB) sk = Ok (outB, sB) ->
  doc_render (S n) tA s = Ok (o, sk) /\ doc_render (S n) tB sk = Ok (outB, sB) /\
  doc_render (S n) (tA ++ 10 :: tB) s = Ok (o ++ outB, sB).
Proof. intros H13. apply parts_equal_whole_render. apply mk_reader_join. exact H13. Qed.

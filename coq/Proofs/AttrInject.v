(* C12: a pending class goes into the first tag of the next block, once.  For every opening tag of the generated block and list
   tables and every class text, injectHtmlAttributes with only a class pending returns the tag with  class="..."  inserted right
   after the tag name, and clears the pending attributes. *)
From Rimu Require Import Base Unicode Regex RegexAnalysis RegexParse Str Types Tables Guards State Inline Block
  Frame FrameBlock FrameInst OptionsLemmas MiscLemmas MoreLemmas.
From Coq Require Import Lia.
Local Open Scope monad_scope.

Definition open_tags : list str :=
  filter nonempty (map d_openTag dblocks_default ++ flat_map (fun d => [li_listOpen d; li_itemOpen d; li_termOpen d]) lists_defs).

Definition tag_checks (T : str) : bool :=
  match re_search re_blockattributes_injectHtmlAttributes_0 T, re_search re_blockattributes_injectHtmlAttributes_3 T with
  | None, Some _ => nonempty T
  | _, _ => false
  end.

Lemma open_tags_checked : forallb tag_checks open_tags = true.
Proof. vm_compute. reflexivity. Qed.

Definition name_len (T : str) : N :=
  match re_search re_blockattributes_injectHtmlAttributes_3 T with Some m => lenN (grp0 m) | None => 0 end.

Definition cls_ok (cls : str) : Prop := exists c t, cls = c :: t.

Definition clear_pending (s : session) : session := set_attrs (set_css (set_id (set_classes s []) []) []) [].

Lemma frev_snoc {A} (l : list A) x : frev (l ++ [x]) = x :: frev l.
Proof. rewrite !frev_rev. apply rev_unit. Qed.

Lemma strip_quoted c (P : str) : is_space c = false -> strip ((c :: P) ++ [34]) = (c :: P) ++ [34].
Proof.
  intros Hc. unfold strip, rstrip.
  assert (L1 : lstrip ((c :: P) ++ [34]) = (c :: P) ++ [34]) by (cbn [app lstrip]; rewrite Hc; reflexivity).
  rewrite L1, frev_snoc. cbn [lstrip]. replace (is_space 34) with false by reflexivity.
  rewrite <- frev_snoc. rewrite !frev_rev. apply rev_involutive.
Qed.

Lemma strip_class_attr cls : strip ($"class=""" ++ cls ++ [34]) = $"class=""" ++ cls ++ [34].
Proof. exact (strip_quoted 99 (108 :: 97 :: 115 :: 115 :: 61 :: 34 :: cls) eq_refl). Qed.

Theorem class_injected T cls s : In T open_tags -> cls_ok cls ->
  p_classes s = cls -> p_id s = [] -> p_css s = [] -> p_attrs s = [] ->
  injectHtmlAttributes T true s =
  Ok (takeN (name_len T) T ++ [32] ++ ($"class=""" ++ cls ++ [34]) ++ dropN (name_len T) T, clear_pending s).
Proof.
  intros HT (c & t & Ec) Hc Hi Hcss Hat.
  pose proof open_tags_checked as Hch. rewrite forallb_forall in Hch. specialize (Hch T HT). unfold tag_checks in Hch.
  unfold name_len.
  destruct (re_search re_blockattributes_injectHtmlAttributes_0 T) eqn:E0; [discriminate|].
  destruct (re_search re_blockattributes_injectHtmlAttributes_3 T) as [m3|] eqn:E3; [|discriminate].
  unfold injectHtmlAttributes. destruct T as [|t0 T0] eqn:ET; [discriminate|]. rewrite <- ET in *.
  unfold bind at 1. unfold gets at 1. rewrite Hc, Hi, Hcss, Hat.
  replace (nonempty cls) with true by (rewrite Ec; reflexivity). rewrite E0.
  cbn [nonempty is_empty negb]. unfold bind at 1. cbn [ret].
  rewrite strip_class_attr.
  replace (nonempty ($"class=""" ++ cls ++ [34])) with true by reflexivity.
  rewrite E3. unfold bind at 1. cbn [modify ret]. unfold clear_pending. reflexivity.
Qed.

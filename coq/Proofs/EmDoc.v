(* C07 end to end: a one-line document with an emphasis (instance of ParaDoc.v). *)
From Rimu Require Import Base Unicode Regex RegexAnalysis RegexParse Str Types Tables Guards State Inline Block
  Frame FrameBlock FrameInst OptionsLemmas MiscLemmas MoreLemmas Plain TableFacts Lines PlainDoc
  RegexSem MatchLemmas MatchExact ScanLemmas ParaDoc Emphasis.
From Coq Require Import Lia.
Local Open Scope monad_scope.

(* ---- instance: a line with an emphasis ---- *)
Definition em_line_alphabet : list char := safe_alphabet ++ [star].

Lemma em_line_facts :
  forallb (fun r => never_matches em_line_alphabet safe_first (re_ast r)) block_regexes = true /\
  forallb (fun c => negb (is_nl c) && negb (reserved c) && no_macro_start c) em_line_alphabet = true.
Proof. split; vm_compute; reflexivity. Qed.

Theorem emphasis_document n s c pre body post :
  quiet_default s -> In c safe_first -> over safe_alphabet (c :: pre) -> over safe_alphabet body -> body_ok body -> over safe_alphabet post ->
  doc_render (S (S (S (S (S (S n)))))) ((c :: pre) ++ star :: body ++ star :: post) s =
  Ok ($"<p>" ++ (escape (c :: pre) ++ $"<em>" ++ escape body ++ $"</em>" ++ escape post) ++ $"</p>", s).
Proof.
  intros Hq Hc Hpre Hbody Hbok Hpost. apply para_line_document; [|exact Hq].
  destruct em_line_facts as [F1 F2].
  apply (a_line_para em_line_alphabet safe_first F1 safe_first_not_space F2).
  - cbn [app]. split; [exact Hc|]. unfold em_line_alphabet. intros x Hx. apply in_or_app.
    change (c :: pre ++ star :: body ++ star :: post) with ((c :: pre) ++ star :: body ++ star :: post) in Hx.
    apply in_app_or in Hx as [Hx|[<-|Hx]]; [left; auto|right; left; reflexivity|].
    apply in_app_or in Hx as [Hx|[<-|Hx]]; [left; auto|right; left; reflexivity|left; auto].
  - intros m. apply spans_render_em; auto using safe_over_plain. apply quiet_defaults. exact Hq.
Qed.


Corollary emphasis_api n o s s1 c pre body post :
  updateFrom o (if (s_mode s =? -1)%Z then document_init s else s) = Ok (tt, s1) -> quiet_default s1 ->
  In c safe_first -> over safe_alphabet (c :: pre) -> over safe_alphabet body -> body_ok body -> over safe_alphabet post ->
  api_render (S (S (S (S (S (S n)))))) ((c :: pre) ++ star :: body ++ star :: post) o s =
  Ok ($"<p>" ++ (escape (c :: pre) ++ $"<em>" ++ escape body ++ $"</em>" ++ escape post) ++ $"</p>", s1).
Proof. intros Hu Hq. intros. eapply api_of_doc; [exact Hu|]. apply emphasis_document; assumption. Qed.


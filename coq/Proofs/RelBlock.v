(* Every block-layer function respects the relation [Rel] of Proofs/Rel.v. *)
From Rimu Require Import Base Regex RegexParse Str Types Tables Guards State Inline Block Rel.
From Coq Require Import Lia.
Local Open Scope monad_scope.

Section RelBlock.
Variables ls0 lt0 : list (bool * str).
Notation rel := (rel ls0 lt0).
Notation Rel := (Rel ls0 lt0).
Variable fuel : nat.

Ltac rr := relt.

Lemma rel_blockattributes_parse c attrs : rel c (blockattributes_parse fuel attrs).
Proof. unfold blockattributes_parse. rr. Qed.

Lemma Rel_register c s t has_id id : Rel c s t -> Rel c (register_or_report has_id id s) (register_or_report has_id id t).
Proof.
  intros H. unfold register_or_report.
  assert (E : s_ids s = s_ids t).
  { pose proof (Rel_core _ _ _ _ _ H) as Hc. unfold core in Hc. destruct s, t; simpl in *. inversion Hc; subst. reflexivity. }
  rewrite E. destruct (has_id || mem id (s_ids t)).
  - apply Rel_log. exact H.
  - rewrite <- E. revert H. generalize (id :: s_ids s). intros v H. revert s t H E. clear. intros s t H _.
    destruct H as (Hc & Hl & Hf & Hd). unfold core in Hc. destruct s, t; simpl in *. inversion Hc; subst.
    split; [reflexivity|]. split; [auto|]. split; [auto|]. exact Hd.
Qed.

Lemma rel_injectHtmlAttributes c tag consume : rel c (injectHtmlAttributes tag consume).
Proof.
  unfold injectHtmlAttributes. destruct tag; [apply rel_ret|]. rr.
  all: try (apply rel_modify; intros sx tx Hx; apply Rel_register; exact Hx).
Qed.

Hint Resolve rel_blockattributes_parse rel_injectHtmlAttributes : reldb.

Lemma rel_macros_setValue c name value : rel c (macros_setValue name value).
Proof. unfold macros_setValue. rr. Qed.

Lemma rel_quotes_setDefinition c q : rel c (quotes_setDefinition q).
Proof. unfold quotes_setDefinition. apply rel_modify. rel_set. Qed.

Lemma rel_replacements_setDefinition c p f r : rel c (replacements_setDefinition p f r).
Proof. unfold replacements_setDefinition. destruct (parse_regex _ _ _); rr. Qed.

Lemma rel_dblocks_setDefinition c n v : rel c (dblocks_setDefinition n v).
Proof. unfold dblocks_setDefinition. rr. Qed.

Lemma Rel_init c s t : Rel c s t -> Rel c (document_init s) (document_init t).
Proof.
  intros (Hc & Hl & Hf & Hd). split; [reflexivity|]. split; [exact Hl|]. split; [intros; reflexivity|]. exact Hd.
Qed.

Lemma rel_setOption_safeMode c v : rel c (setOption_safeMode v).
Proof. unfold setOption_safeMode. rr. Qed.

Lemma rel_setOption_reset c v : rel c (setOption_reset v).
Proof.
  unfold setOption_reset. destruct (reset_is_false v); [apply rel_ret|].
  destruct (reset_is_true v); [|apply rel_log_msg].
  apply rel_modify. intros sx tx Hx. apply Rel_init. exact Hx.
Qed.

Lemma rel_setOption_doc c n v : rel c (setOption_doc n v).
Proof.
  unfold setOption_doc.
  destruct (str_eqb n _); [apply rel_setOption_safeMode|].
  destruct (str_eqb n _); [apply rel_setOption_reset|].
  destruct (str_eqb n _); rr.
Qed.

Hint Resolve rel_macros_setValue rel_quotes_setDefinition rel_replacements_setDefinition rel_dblocks_setDefinition
  rel_setOption_doc : reldb.

Lemma rel_verifyMacroLine c m rd : rel c (verifyMacroLine fuel m rd).
Proof. unfold verifyMacroLine. rr. Qed.

Lemma rel_macros_expand c t : rel c (macros_expand fuel t).
Proof. unfold macros_expand. apply rel_lift. Qed.
Hint Resolve rel_macros_expand rel_verifyMacroLine : reldb.

Lemma rel_line_filter c d m : rel c (line_filter fuel d m).
Proof. unfold line_filter. destruct (l_filter d); rr. Qed.
Hint Resolve rel_line_filter : reldb.

Lemma rel_lineblocks_loop c defs : forall rd allowed, rel c (lineblocks_loop fuel defs rd allowed).
Proof.
  induction defs as [|d ds IH]; intros rd allowed; simpl; [apply rel_ret|].
  destruct (_ && _); [apply IH|].
  destruct rd as [|cur rest]; [apply rel_raise|].
  destruct (re_search _ _) as [m|]; [|apply IH].
  destruct (grp0 m) as [|c0 ?]; [apply rel_raise|].
  destruct (c0 =? 92); [apply IH|].
  apply rel_bind.
  { destruct (l_verify d); [apply rel_ret | apply rel_verifyMacroLine |].
    apply rel_bind; [apply rel_blockattributes_parse | intros; apply rel_ret]. }
  intros [ok rd1]. destruct (negb ok); [apply IH|].
  apply rel_bind; [apply rel_line_filter|]. intros text.
  destruct text; [apply rel_ret|].
  apply rel_bind; [apply rel_injectHtmlAttributes | intros; apply rel_ret].
Qed.

Lemma rel_lineblocks_render c rd allowed : rel c (lineblocks_render fuel rd allowed).
Proof. apply rel_lineblocks_loop. Qed.
Hint Resolve rel_lineblocks_render : reldb.

Lemma rel_macroDefContentFilter c text m e : rel c (macroDefContentFilter fuel text m e).
Proof. unfold macroDefContentFilter. rr. Qed.
Hint Resolve rel_macroDefContentFilter : reldb.

Section WithDoc.
Variable doc : str -> M str.
Hypothesis Hdoc : forall c t, rel c (doc t).
Hint Resolve Hdoc : reldb.

Lemma Rel_set_closeRe c i rx s t : Rel c s t -> Rel c (set_closeRe i rx s) (set_closeRe i rx t).
Proof.
  intros (Hc & Hl & Hf & Hd). unfold core in Hc. unfold set_closeRe. destruct s, t; simpl in *. inversion Hc; subst.
  split; [reflexivity|]. split; [auto|]. split; [auto|]. exact Hd.
Qed.

Lemma rel_dblock_body c i d m rest : rel c (dblock_body fuel doc i d m rest).
Proof.
  unfold dblock_body. rr.
  all: try (apply rel_modify; intros sx tx Hx; apply Rel_set_closeRe; exact Hx).
Qed.
Hint Resolve rel_dblock_body : reldb.

Lemma rel_dblock_loop c k : forall i rd allowed, rel c (dblock_loop fuel doc k i rd allowed).
Proof.
  induction k as [|k IH]; intros i rd allowed; simpl; [apply rel_ret|].
  apply rel_bind; [apply rel_gets; rel_proj|]. intros od.
  destruct od as [d|]; [|apply rel_ret].
  destruct (_ && _); [apply IH|].
  destruct rd as [|cur rest]; [apply rel_raise|].
  destruct (re_search _ _) as [m|]; [|apply IH].
  destruct (grp0 m) as [|c0 ?]; destruct (str_eqb _ _); try apply rel_raise.
  - destruct (negb _); [apply IH|]. rr.
  - destruct (c0 =? 92); [apply IH|]. destruct (negb _); [apply IH|]. rr.
Qed.

Lemma rel_dblocks_render c rd allowed : rel c (dblocks_render fuel doc rd allowed).
Proof. unfold dblocks_render. apply rel_bind; [apply rel_gets; rel_proj|]. intros; apply rel_dblock_loop. Qed.
Hint Resolve rel_dblocks_render : reldb.

Lemma rel_matchItem c rd : rel c (matchItem rd).
Proof. unfold matchItem. destruct (matchItem_loop _ _); rr. Qed.
Hint Resolve rel_matchItem : reldb.

Lemma rel_consumeBlockAttributes c n : forall rd b acc, rel c (consumeBlockAttributes fuel n rd b acc).
Proof.
  induction n as [|n IH]; intros rd b acc; simpl; [apply rel_fuel|].
  destruct rd as [|l t]; [apply rel_ret|].
  apply rel_bind; [apply rel_lineblocks_render|]. intros [[out|] rd'].
  - apply IH.
  - destruct rd' as [|cur rest]; [apply rel_raise|]. destruct (nonempty cur); [apply rel_ret|apply IH].
Qed.
Hint Resolve rel_consumeBlockAttributes : reldb.

(* the list functions read the id stack: sessions must agree on it *)
Lemma Rel_listids c s t : tight c = true -> Rel c s t -> s_listids s = s_listids t.
Proof. intros Ht (_ & Hl & _). auto. Qed.

Ltac rel_ids Ht :=
  apply rel_gets; let s := fresh "s" in let t := fresh "t" in let H := fresh "H" in
  intros s t H; rewrite (Rel_listids _ s t Ht H); reflexivity.

Lemma Rel_set_listids c s t v : Rel c s t -> Rel c (set_listids s v) (set_listids t v).
Proof.
  intros (Hc & Hl & Hf & Hd). split; [destruct s, t; exact Hc|]. split; [intros; destruct s, t; reflexivity|].
  split; [destruct s, t; exact Hf|]. destruct s, t; exact Hd.
Qed.

Lemma Rel_push_listid c s t x : tight c = true -> Rel c s t ->
  Rel c (set_listids s (s_listids s ++ [x])) (set_listids t (s_listids t ++ [x])).
Proof. intros Ht H. rewrite (Rel_listids _ s t Ht H). apply Rel_set_listids. exact H. Qed.

Lemma rel_pop_listid c : tight c = true -> rel c pop_listid.
Proof.
  intros Ht. unfold pop_listid. apply rel_bind; [rel_ids Ht|]. intros ids.
  destruct (frev ids); [apply rel_raise|]. apply rel_modify. intros sx tx Hx. apply Rel_set_listids. exact Hx.
Qed.

Lemma rel_lists c n : tight c = true ->
  (forall it rd, rel c (renderList fuel doc n it rd)) /\
  (forall it rd, rel c (renderItems fuel doc n it rd)) /\
  (forall it rd, rel c (renderListItem fuel doc n it rd)) /\
  (forall rd il at_ ad, rel c (itemLoop fuel doc n rd il at_ ad)).
Proof.
  intros Ht. induction n as [|n (IH1 & IH2 & IH3 & IH4)].
  - repeat split; intros; simpl; apply rel_fuel.
  - repeat split; intros; simpl.
    + apply rel_bind; [apply rel_modify; intros sx tx Hx; apply Rel_push_listid; auto|]. intros _.
      apply rel_bind; [apply rel_injectHtmlAttributes|]. intros o.
      apply rel_bind; [apply IH2|]. intros [[body nx] rd'].
      apply rel_bind; [apply rel_pop_listid; exact Ht|]. intros; apply rel_ret.
    + apply rel_bind; [apply IH3|]. intros [[out nx] rd'].
      destruct nx as [nx|]; [|apply rel_ret].
      destruct (str_eqb _ _); [|apply rel_ret].
      apply rel_bind; [apply IH2|]. intros [[out2 nn] rd2]. apply rel_ret.
    + apply rel_bind.
      { destruct (nonempty _); [|apply rel_ret]. rr. }
      intros head. apply rel_bind; [apply rel_injectHtmlAttributes|]. intros iopen.
      destruct (item_text it); [|apply rel_raise].
      apply rel_bind; [apply IH4|]. intros [[[nx rd'] il] at_]. rr.
    + apply rel_bind; [apply rel_consumeBlockAttributes|]. intros [[bl out] rd1].
      destruct (_ || _); [apply rel_ret|].
      apply rel_bind; [apply rel_matchItem|]. intros [nx rd2].
      destruct nx as [nx|].
      * apply rel_bind; [rel_ids Ht|]. intros is_open. destruct is_open; [apply rel_ret|].
        apply rel_bind; [apply IH1|]. intros [[o nn] rd3]. apply rel_ret.
      * destruct ad; [apply rel_ret|].
        destruct (bl =? 0)%Z.
        { apply rel_bind; [rel_ids Ht|]. intros saved.
          apply rel_bind; [apply rel_modify; intros sx tx Hx; apply Rel_set_listids; exact Hx|]. intros _.
          apply rel_bind; [apply rel_dblocks_render|]. intros r.
          apply rel_bind; [apply rel_modify; intros sx tx Hx; apply Rel_set_listids; exact Hx|]. intros _.
          destruct r as [[o|] rd3]; [apply IH4|].
          destruct rd3; [apply rel_raise|apply IH4]. }
        destruct (bl =? 1)%Z; [|apply rel_fuel].
        apply rel_bind; [rel_ids Ht|]. intros saved.
        apply rel_bind; [apply rel_modify; intros sx tx Hx; apply Rel_set_listids; exact Hx|]. intros _.
        apply rel_bind; [apply rel_dblocks_render|]. intros r.
        apply rel_bind; [apply rel_modify; intros sx tx Hx; apply Rel_set_listids; exact Hx|]. intros _.
        destruct r as [[o|] rd3]; [apply IH4|apply rel_ret].
Qed.

(* lists.render resets the stack first, so it needs no agreement on it *)
Lemma rel_lists_render c n rd : rel c (lists_render fuel doc n rd).
Proof.
  unfold lists_render. apply rel_bind; [apply rel_matchItem|]. intros [[it|] rd']; [|apply rel_ret].
  set (c' := mkCfg true (flags c)).
  assert (Ht : tight c' = true) by reflexivity.
  eapply relIO_bind with (R2 := Rel c').
  { intros s t H. simpl. split; auto. apply Rel_tighten. exact H. }
  intros _.
  apply relIO_weaken with (R2 := Rel c'); [intros s t H; apply Rel_loosen; exact H|].
  change (rel c' (r <- renderList fuel doc n it rd' ;;
                  let '(out, _, rd2) := r in
                  ids <- gets s_listids ;;
                  (match ids with [] => ret tt | _ => log_msg $"panic: list stack failure" end) ;;; ret (Some out, rd2))).
  apply rel_bind; [apply (proj1 (rel_lists c' n Ht))|]. intros [[out nx] rd2].
  apply rel_bind; [rel_ids Ht|]. intros ids. rr.
Qed.

Lemma rel_doc_loop c n : forall rd, rel c (doc_loop fuel doc n rd).
Proof.
  induction n as [|n IH]; intros rd; simpl; [apply rel_fuel|].
  destruct (skipBlankLines rd) as [|l t]; [apply rel_ret|].
  apply rel_bind; [apply rel_lineblocks_render|]. intros [[out|] rd'].
  - apply rel_bind; [apply IH|]. intros; apply rel_ret.
  - apply rel_bind; [apply rel_lists_render|]. intros [[out|] rd2].
    + apply rel_bind; [apply IH|]. intros; apply rel_ret.
    + apply rel_bind; [apply rel_dblocks_render|]. intros [[out|] rd3].
      * apply rel_bind; [apply IH|]. intros; apply rel_ret.
      * apply rel_fuel.
Qed.
End WithDoc.

End RelBlock.

(* document.render takes related sessions to the same HTML and related sessions *)
Theorem rel_doc_render ls0 lt0 : forall n c text, rel ls0 lt0 c (doc_render n text).
Proof.
  induction n as [|n IH]; intros c text; simpl; [apply rel_fuel|].
  apply rel_doc_loop. intros c' t. apply IH.
Qed.

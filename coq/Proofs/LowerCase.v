(* str.lower of the model is idempotent, and what slugify returns is lower-case (C15). *)
From Rimu Require Import Base Unicode Str.
From Coq Require Import Lia.

Definition is_lower (s : str) : Prop := lower s = s.

Definition fixed_char (y : char) : bool := match lower_char y with [z] => z =? y | _ => false end.

(* every code point the generated table maps to is itself left alone by lower() *)
Lemma lower_table_fixed : forallb (fun e => forallb fixed_char (snd e)) lower_table = true.
Proof. vm_compute. reflexivity. Qed.

Lemma fixed_char_spec y : fixed_char y = true -> lower_char y = [y].
Proof.
  unfold fixed_char. destruct (lower_char y) as [|z [|w t]]; try discriminate. intros H. apply N.eqb_eq in H. subst. reflexivity.
Qed.

Lemma lower_fixed l : forallb fixed_char l = true -> lower l = l.
Proof.
  induction l as [|y l IH]; [reflexivity|]. cbn [forallb]. intros H. apply andb_prop in H as [Hy Hl].
  unfold lower in *. cbn [flat_map]. rewrite (fixed_char_spec y Hy), IH by exact Hl. reflexivity.
Qed.

Lemma lower_one y : lower [y] = lower_char y.
Proof. unfold lower. cbn [flat_map]. apply app_nil_r. Qed.

Lemma lower_char_idem x : lower (lower_char x) = lower_char x.
Proof.
  destruct ((65 <=? x) && (x <=? 90)) eqn:E1.
  - assert (E : lower_char x = [x + 32]) by (unfold lower_char; rewrite E1; reflexivity). rewrite E, lower_one.
    apply andb_prop in E1 as [A B]. apply N.leb_le in A, B. unfold lower_char.
    replace ((65 <=? x + 32) && (x + 32 <=? 90)) with false by (symmetry; apply andb_false_iff; right; apply N.leb_gt; lia).
    replace (x + 32 <? 128) with true by (symmetry; apply N.ltb_lt; lia). reflexivity.
  - destruct (x <? 128) eqn:E2.
    + assert (E : lower_char x = [x]) by (unfold lower_char; rewrite E1, E2; reflexivity). rewrite E, lower_one. exact E.
    + destruct (find (fun e => fst e =? x) lower_table) as [[k l]|] eqn:F.
      * assert (E : lower_char x = l) by (unfold lower_char; rewrite E1, E2, F; reflexivity). rewrite E.
        apply find_some in F as [F _]. pose proof lower_table_fixed as T. rewrite forallb_forall in T. apply T in F. cbn [snd] in F.
        apply lower_fixed. exact F.
      * assert (E : lower_char x = [x]) by (unfold lower_char; rewrite E1, E2, F; reflexivity). rewrite E, lower_one. exact E.
Qed.

Lemma lower_app a b : lower (a ++ b) = lower a ++ lower b.
Proof. unfold lower. apply flat_map_app. Qed.

Theorem lower_idem s : lower (lower s) = lower s.
Proof.
  induction s as [|x s IH]; [reflexivity|]. unfold lower in *. cbn [flat_map]. fold (lower (lower_char x ++ flat_map lower_char s)).
  rewrite lower_app. rewrite lower_char_idem. unfold lower at 1. rewrite IH. reflexivity.
Qed.

Lemma lower_ascii_fixed x : x < 128 -> (65 <=? x) && (x <=? 90) = false -> lower_char x = [x].
Proof. intros H E. unfold lower_char. rewrite E. replace (x <? 128) with true by (symmetry; apply N.ltb_lt; exact H). reflexivity. Qed.

Lemma lower_digits : forall fuel n acc, lower acc = acc -> lower (digits_fuel fuel n acc) = digits_fuel fuel n acc.
Proof.
  induction fuel as [|f IH]; intros n acc H; cbn [digits_fuel]; [exact H|].
  assert (H' : lower ((48 + n mod 10) :: acc) = (48 + n mod 10) :: acc).
  { unfold lower in *. cbn [flat_map]. rewrite H. pose proof (N.mod_upper_bound n 10 ltac:(discriminate)) as B.
    rewrite lower_ascii_fixed; [reflexivity|lia|]. apply andb_false_iff. left. apply N.leb_gt. lia. }
  destruct (n <? 10); [exact H'|apply IH; exact H'].
Qed.

Lemma lower_str_of_N n : lower (str_of_N n) = str_of_N n.
Proof. apply lower_digits. reflexivity. Qed.

(* Lemmas for C09, C11, C12, C17, C19: macro table algebra, Block Attributes consumption,
   code definitions, escaped replacements. *)
From Rimu Require Import Base Regex RegexParse Str Types Tables Guards State Inline Block
  Frame FrameBlock FrameInst OptionsLemmas MiscLemmas.
From Coq Require Import Lia.
Local Open Scope monad_scope.

(* ---- macros.setValue as a function on the table ---- *)
Fixpoint upd_macro (name value : str) (existential : bool) (l : list (str * str)) : list (str * str) :=
  match l with
  | [] => [(name, value)]
  | (n, v) :: t => if str_eqb n name then (n, if existential then v else value) :: t
                   else (n, v) :: upd_macro name value existential t
  end.

Definition setValue_table (name value : str) (l : list (str * str)) : list (str * str) :=
  let existential := ends_with [63] name in
  let name' := if existential then drop_last name else name in
  if str_eqb name' $"--" && nonempty value then l else upd_macro name' value existential l.

Lemma macros_setValue_spec name value s :
  setValue_skip (s_mode s) = false ->
  exists s', macros_setValue name value s = Ok (tt, s') /\
             s_macros s' = setValue_table name value (s_macros s) /\ protected s' = protected s.
Proof.
  intros Hs. unfold macros_setValue, bind, gets. rewrite Hs. unfold setValue_table. cbv zeta.
  destruct (str_eqb _ _ && nonempty value).
  - eexists. split; [reflexivity|]. destruct s; split; reflexivity.
  - eexists. split; [reflexivity|]. split; [|destruct s; reflexivity].
    destruct s; simpl. clear.
    induction s_macros as [|[n v] t IH]; simpl; auto.
    destruct (str_eqb n _); auto. f_equal. exact IH.
Qed.

Lemma macros_setValue_skipped name value s :
  setValue_skip (s_mode s) = true -> macros_setValue name value s = Ok (tt, s).
Proof. intros Hs. unfold macros_setValue, bind, gets. rewrite Hs. reflexivity. Qed.

Lemma assoc_get_upd_same name value ex l :
  assoc_get name (upd_macro name value ex l) =
  match assoc_get name l with
  | Some v => Some (if ex then v else value)
  | None => Some value
  end.
Proof.
  induction l as [|[n v] t IH]; simpl.
  - rewrite str_eqb_refl. reflexivity.
  - destruct (str_eqb n name) eqn:E; simpl; rewrite E; auto.
Qed.

Lemma assoc_get_upd_other name other value ex l :
  other <> name -> assoc_get other (upd_macro name value ex l) = assoc_get other l.
Proof.
  intros Hne. induction l as [|[n v] t IH]; simpl.
  - destruct (str_eqb name other) eqn:E; auto. apply str_eqb_eq in E. congruence.
  - destruct (str_eqb n name) eqn:E; simpl.
    + apply str_eqb_eq in E. subst.
      destruct (str_eqb name other) eqn:E2; auto. apply str_eqb_eq in E2. congruence.
    + destruct (str_eqb n other); auto.
Qed.

(* an existential definition never overrides an existing value *)
Theorem existential_keeps name value l v :
  assoc_get name l = Some v -> assoc_get name (upd_macro name value true l) = Some v.
Proof. intros H. rewrite assoc_get_upd_same, H. reflexivity. Qed.

(* an ordinary definition: last write wins, other names untouched *)
Theorem define_overrides name value l : assoc_get name (upd_macro name value false l) = Some value.
Proof. rewrite assoc_get_upd_same. destruct (assoc_get name l); reflexivity. Qed.

Theorem define_new name value ex l : assoc_get name l = None -> assoc_get name (upd_macro name value ex l) = Some value.
Proof. intros H. rewrite assoc_get_upd_same, H. reflexivity. Qed.

(* the blank macro stays blank *)
Theorem blank_stays_blank value l :
  assoc_get $"--" l = Some [] -> assoc_get $"--" (setValue_table $"--" value l) = Some [].
Proof.
  intros H. unfold setValue_table.
  assert (E : ends_with [63] $"--" = false) by (vm_compute; reflexivity).
  rewrite E. cbv zeta. rewrite str_eqb_refl. simpl andb.
  destruct (nonempty value) eqn:Ev; auto.
  rewrite assoc_get_upd_same, H. destruct value; [reflexivity|discriminate].
Qed.

Theorem blank_initially : assoc_get $"--" predefined_macros = Some [].
Proof. vm_compute. reflexivity. Qed.

(* ---- Block Attributes are consumed by injection ---- *)
Definition pending_empty (s : session) : Prop :=
  p_classes s = [] /\ p_id s = [] /\ p_css s = [] /\ p_attrs s = [].

Lemma inject_consumes tag s r s' :
  tag <> [] -> injectHtmlAttributes tag true s = Ok (r, s') -> pending_empty s'.
Proof.
  intros Ht H. revert s r s' H. change (post pending_empty (injectHtmlAttributes tag true)).
  unfold injectHtmlAttributes. destruct tag as [|c t]; [contradiction|].
  repeat first
    [ match goal with
      | |- post _ (bind (modify _) (fun _ => ret _)) =>
          apply post_bind_pres; [apply post_modify; intros; unfold pending_empty; repeat split | intros; apply pres_ret]
      | |- post _ (let '(_, _) := ?x in _) => destruct x
      | |- post _ (match ?x with _ => _ end) => destruct x
      end
    | apply post_bind; intro ].
Qed.

Lemma inject_empty_tag consume s : injectHtmlAttributes [] consume s = Ok ([], s).
Proof. reflexivity. Qed.

(* with safe-mode bit 4 a Block Attributes line is ignored altogether *)
Theorem parse_ignored_bit4 fuel attrs s :
  parse_skip (s_mode s) = true -> blockattributes_parse fuel attrs s = Ok (true, s).
Proof. intros H. unfold blockattributes_parse, bind, gets. rewrite H. reflexivity. Qed.

(* in a non-zero safe mode raw HTML attributes are never accumulated *)
Definition no_raw_attrs (m0 : Z) (s : session) : Prop := s_mode s = m0 /\ p_attrs s = [].

Lemma frame_ok_no_raw_attrs m0 : m0 <> 0%Z -> frame_ok (no_raw_attrs m0).
Proof.
  intros Hm. pose proof (safe_mode_guards m0 Hm) as (G1 & G2 & G3 & G4 & G5 & G6).
  split; unfold no_raw_attrs; intros s; intros;
    match goal with H : _ /\ _ |- _ => destruct H as [Hmode Hattr] end;
    try (rewrite Hmode in *; congruence);
    try (destruct s; simpl in *; split; auto; fail).
  all: try (unfold set_closeRe; destruct s; simpl in *; auto).
Qed.

Theorem doc_render_no_raw_attrs n src s html s' :
  s_mode s <> 0%Z -> p_attrs s = [] -> doc_render n src s = Ok (html, s') -> p_attrs s' = [].
Proof.
  intros Hm Ha H.
  pose proof (pres_doc_render _ (frame_ok_no_raw_attrs (s_mode s) Hm) n src s html s' H) as R.
  apply R. split; auto.
Qed.

(* ---- code definitions: macros and spans off, specials on (facts on the generated table) ---- *)
Definition def_named (name : str) : option ddef := find (fun d => str_eqb (d_name d) name) dblocks_default.

Definition verbatim_expand (e : expand) : bool :=
  negb (truthy (e_macros e)) && negb (truthy (e_spans e)) && negb (truthy (e_container e)) &&
  negb (truthy (e_skip e)) && truthy (e_specials e).

Theorem code_blocks_verbatim :
  match def_named $"code", def_named $"indented" with
  | Some c, Some i => verbatim_expand (d_expand c) && verbatim_expand (d_expand i) &&
                      str_eqb (d_openTag c) $"<pre><code>" && str_eqb (d_closeTag c) $"</code></pre>" &&
                      str_eqb (d_openTag i) $"<pre><code>" && str_eqb (d_closeTag i) $"</code></pre>"
  | _, _ => false
  end = true.
Proof. vm_compute. reflexivity. Qed.

Theorem code_quotes_no_spans :
  forallb (fun q => if str_eqb (q_open q) $"<code>" then negb (q_spans q) && str_eqb (q_close q) $"</code>" else true)
          quotes_default = true /\
  existsb (fun q => str_eqb (q_quote q) $"`") quotes_default = true.
Proof. vm_compute. split; reflexivity. Qed.

(* replaceInline with a verbatim expansion is exactly escaping *)
Theorem replaceInline_verbatim mr sr t e :
  verbatim_expand e = true -> replaceInline mr sr (Some t) e = iret (escape t).
Proof.
  unfold verbatim_expand, replaceInline. intros H.
  repeat (apply andb_true_iff in H as [H ?]).
  apply negb_true_iff in H. rewrite H.
  match goal with H1 : negb (truthy (e_spans e)) = true |- _ => apply negb_true_iff in H1; rewrite H1 end.
  match goal with H2 : truthy (e_specials e) = true |- _ => rewrite H2 end.
  reflexivity.
Qed.

(* ---- an escaped replacement is rendered as its own escaped text, minus the backslash ---- *)
Theorem escaped_replacement s sr rdef m :
  starts_with [92] (grp0 m) = true -> replacement_text s sr rdef m = iret (escape (tl (grp0 m))).
Proof. intros H. unfold replacement_text. rewrite H. reflexivity. Qed.

(* ---- a line block that renders anything has consumed the pending Block Attributes ---- *)
Definition postv {A} (Q : A -> session -> Prop) (m : M A) : Prop :=
  forall s a s', m s = Ok (a, s') -> Q a s'.

Lemma postv_bind {A B} (Q : B -> session -> Prop) (m : M A) (f : A -> M B) :
  (forall a, postv Q (f a)) -> postv Q (bind m f).
Proof.
  intros Hf s b s' H. unfold bind in H. destruct (m s) as [[a s1]| |]; try discriminate. eapply Hf; eauto.
Qed.

Definition rendered_consumed (r : option str * reader) (s : session) : Prop :=
  match fst r with Some (_ :: _) => pending_empty s | _ => True end.

Theorem lineblocks_consume fuel defs : forall rd allowed, postv rendered_consumed (lineblocks_loop fuel defs rd allowed).
Proof.
  induction defs as [|d ds IH]; intros rd allowed; simpl.
  - intros sx ax sx' H. inversion H; subst. exact Logic.I.
  - destruct (_ && _); [apply IH|].
    destruct rd as [|cur rest]; [intros sx ax sx' H; discriminate H|].
    destruct (re_search _ _) as [m|]; [|apply IH].
    destruct (grp0 m) as [|c0 ?]; [intros sx ax sx' H; discriminate H|].
    destruct (c0 =? 92); [apply IH|].
    apply postv_bind. intros [ok rd1]. destruct (negb ok); [apply IH|].
    apply postv_bind. intros text.
    destruct text as [|t0 text]; [intros sx ax sx' H; inversion H; subst; exact Logic.I|].
    intros sx ax sx' H. unfold bind in H.
    destruct (injectHtmlAttributes (t0 :: text) true sx) as [[text' s1]| |] eqn:E; try discriminate.
    inversion H; subst. unfold rendered_consumed. cbn [fst].
    apply inject_consumes in E; [|discriminate].
    destruct (text' ++ _); auto.
Qed.

(* C12: a delimited block resets the pending block options when it is done, whatever it rendered: options given on a
   Block Attributes line alter the processing of that one block only *)
Lemma dblock_body_resets_options fuel doc i d m rest s r s' :
  dblock_body fuel doc i d m rest s = Ok (r, s') -> p_opts s' = expand_none.
Proof.
  revert s r s'. change (post (fun s => p_opts s = expand_none) (dblock_body fuel doc i d m rest)).
  unfold dblock_body. apply post_bind; intros dt. apply post_bind; intros closeRe.
  destruct (readTo closeRe rest) as [[content rd1]|e|]; [|apply post_raise|intros s a s' H; discriminate].
  apply post_bind; intros _. apply post_bind; intros expand. apply post_bind; intros out.
  intros s a s' H. unfold bind, modify, ret in H. inversion H; subst. destruct s; reflexivity.
Qed.

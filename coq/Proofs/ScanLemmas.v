(* Generic lemmas about the exact matcher semantics and about scanning, used by the functional theorems (macros, quotes, HTML
   tags, list items): nothing here depends on the generated tables. *)
From Rimu Require Import Base Unicode Regex RegexSem RegexAnalysis RegexParse Str Types State Inline MatchLemmas MatchExact.
From Coq Require Import Lia.
Local Open Scope monad_scope.

Lemma ibind_iret_l {A B} (a : A) (f : A -> I B) : ibind (iret a) f = f a.
Proof. unfold ibind, iret. destruct (f a) as [[b l]|e|]; reflexivity. Qed.

(* ---- a pattern every match of which consumes a non-space character ---- *)
Definition nonspace (x : char) : bool := set_match false [ICat CatSpace true] x.

Definition is_nonspace_set (neg : bool) (items : list citem) : bool :=
  match neg, items with
  | false, [ICat CatSpace true] => true
  | _, _ => false
  end.

Fixpoint must_ns (r : regex) : bool :=
  match r with
  | RSet neg items => is_nonspace_set neg items
  | RSeq a b => must_ns a || must_ns b
  | RAlt a b => must_ns a && must_ns b
  | RGrp _ b => must_ns b
  | RRep _ mn _ b => (0 <? mn) && must_ns b
  | _ => false
  end.

Lemma is_nonspace_set_spec neg items x : is_nonspace_set neg items = true -> set_match neg items x = true -> nonspace x = true.
Proof.
  unfold is_nonspace_set. destruct neg; [discriminate|]. destruct items as [|it rest]; [discriminate|].
  destruct it as [lo hi|c n]; [discriminate|]. destruct c; try discriminate. destruct n; try discriminate.
  destruct rest; [|discriminate]. intros _ H. exact H.
Qed.

Lemma Matches_consumed_ex :
  (forall r s s', Matches r s s' -> exists w, consumed s s' w) /\
  (forall b s k s', Iter b s k s' -> exists w, consumed s s' w).
Proof.
  apply Matches_Iter_ind; intros; unfold consumed in *; cbn [st_rest] in *;
    try (exists []; reflexivity); try (exists [x]; reflexivity); auto.
  - destruct H as (w1 & E1). destruct H0 as (w2 & E2). exists (w1 ++ w2). rewrite E1, E2, app_assoc. reflexivity.
  - exists (cap_text g). eapply strip_prefix_app; eauto.
  - destruct H as (w1 & E1). destruct H0 as (w2 & E2). exists (w1 ++ w2). rewrite E1, E2, app_assoc. reflexivity.
Qed.

Lemma must_ns_sound :
  (forall r s s', Matches r s s' -> must_ns r = true -> exists w x, consumed s s' w /\ In x w /\ nonspace x = true) /\
  (forall b s k s', Iter b s k s' -> must_ns b = true -> (0 < k)%nat -> exists w x, consumed s s' w /\ In x w /\ nonspace x = true).
Proof.
  apply Matches_Iter_ind; intros; cbn [must_ns] in *; try discriminate.
  - exists [x], x. split; [reflexivity|]. split; [left; reflexivity|]. eapply is_nonspace_set_spec; eauto.
  - (* seq *)
    destruct (proj1 Matches_consumed_ex _ _ _ m) as (w1 & C1). destruct (proj1 Matches_consumed_ex _ _ _ m0) as (w2 & C2).
    unfold consumed in *. apply orb_prop in H1 as [Ha|Hb].
    + destruct (H Ha) as (w & x & C & Hx & Hn).
      assert (w = w1) by (rewrite C1 in C; apply app_inv_tail in C; auto). subst w.
      exists (w1 ++ w2), x. split; [rewrite C1, C2, app_assoc; reflexivity|]. split; [|exact Hn].
      apply in_or_app. left. exact Hx.
    + destruct (H0 Hb) as (w & x & C & Hx & Hn). exists (w1 ++ w2), x.
      split; [rewrite C1, C2, app_assoc; reflexivity|]. split; [|exact Hn].
      assert (w = w2). { rewrite C2 in C. apply app_inv_tail in C. auto. }
      subst w. apply in_or_app. right. exact Hx.
  - apply andb_prop in H0 as [Ha _]. auto.
  - apply andb_prop in H0 as [_ Hb]. auto.
  - apply andb_prop in H0 as [Hmn Hb]. apply N.ltb_lt in Hmn. apply H; [exact Hb|lia].
  - (* group *) destruct (H H0) as (w & x & C & Hx & Hn). exists w, x. split; [exact C|auto].
  - lia.
  - (* one more iteration *)
    destruct (H H1) as (w & x & C & Hx & Hn). destruct (proj2 Matches_consumed_ex _ _ _ _ i) as (w2 & C2).
    unfold consumed in *. exists (w ++ w2), x. split; [rewrite C, C2, app_assoc; reflexivity|]. split; [apply in_or_app; left; exact Hx|exact Hn].
Qed.

(* group k takes part in every match and its text holds a non-space character *)
Fixpoint gmust (k : nat) (r : regex) : bool :=
  match r with
  | RGrp j b => Nat.eqb j k && must_ns b
  | RSeq a b => gmust k b || (gmust k a && negb (mentions k b))
  | _ => false
  end.

Lemma gmust_sound subj k : forall r s s', Matches r s s' -> wfst subj s -> gmust k r = true ->
  exists g x, cap_get k (st_c s') = Some g /\ In x (cap_text g) /\ nonspace x = true.
Proof.
  induction r; intros s s' M W H; cbn [gmust] in H; try discriminate.
  - apply Matches_seq_inv in M as (s2 & M1 & M2). apply orb_prop in H as [H|H].
    + destruct (Matches_step subj _ _ _ M1 W) as [W2 _]. eapply IHr2; eauto.
    + apply andb_prop in H as [Ha Hb]. apply negb_true_iff in Hb.
      destruct (IHr1 _ _ M1 W Ha) as (g & x & Hg & Hx & Hn). exists g, x.
      rewrite (proj1 (caps_other k) _ _ _ M2 Hb). auto.
  - apply andb_prop in H as [Hj Hb]. apply PeanoNat.Nat.eqb_eq in Hj. subst n.
    destruct (Matches_grp_text subj _ _ _ _ M W) as (s1 & g & w & Mb & C & Kc & Tg & Rs & _).
    destruct (proj1 must_ns_sound _ _ _ Mb Hb) as (w' & x & C' & Hx & Hn).
    assert (w' = w). { unfold consumed in *. rewrite Rs in C. rewrite C in C'. apply app_inv_tail in C'. auto. }
    subst w'. exists g, x. rewrite Kc. cbn [cap_get]. rewrite PeanoNat.Nat.eqb_refl. rewrite Tg. auto.
Qed.

Lemma gmust_match r text m : match_spec r text m -> gmust 1 (re_ast r) = true -> (0 < re_groups r)%nat ->
  exists g x, grp m 1 = Some g /\ In x g /\ nonspace x = true.
Proof.
  intros [pre w post p fin Hs Hst Hen Hg Mrun Hrest Hwf] H Hk.
  assert (W0 : wfst text (mkSt (lenN pre) p (w ++ post) [])). { split; [exists pre; auto|intros n g []]. }
  destruct (gmust_sound text 1 _ _ _ Mrun W0 H) as (g & x & Hc & Hx & Hn).
  exists (cap_text g), x. unfold grp. rewrite Hg. cbn [nth]. rewrite group_list_nth by exact Hk. rewrite Hc. auto.
Qed.

(* the search for a non-space character *)
Lemma In_join_head (sep g : str) (l : list str) x : In x g -> In x (join sep (g :: l)).
Proof. intros H. cbn [join]. destruct l; [exact H|]. apply in_or_app. left. exact H. Qed.

(* ---- decidable equality of patterns ---- *)
Definition cat_eqb (a b : cat) : bool :=
  match a, b with CatSpace, CatSpace | CatWord, CatWord | CatDigit, CatDigit => true | _, _ => false end.
Definition citem_eqb (a b : citem) : bool :=
  match a, b with
  | IRange l h, IRange l' h' => (l =? l') && (h =? h')
  | ICat c n, ICat c' n' => cat_eqb c c' && Bool.eqb n n'
  | _, _ => false
  end.
Fixpoint items_eqb (a b : list citem) : bool :=
  match a, b with
  | [], [] => true
  | x :: a', y :: b' => citem_eqb x y && items_eqb a' b'
  | _, _ => false
  end.
Definition optN_eqb (a b : option N) : bool :=
  match a, b with None, None => true | Some x, Some y => x =? y | _, _ => false end.
Fixpoint regex_eqb (a b : regex) : bool :=
  match a, b with
  | REps, REps => true
  | RSet n i, RSet n' i' => Bool.eqb n n' && items_eqb i i'
  | RAny d, RAny d' => Bool.eqb d d'
  | RSeq x y, RSeq x' y' => regex_eqb x x' && regex_eqb y y'
  | RAlt x y, RAlt x' y' => regex_eqb x x' && regex_eqb y y'
  | RRep g mn mxx x, RRep g' mn' mxx' x' => Bool.eqb g g' && (mn =? mn') && optN_eqb mxx mxx' && regex_eqb x x'
  | RGrp n x, RGrp n' x' => Nat.eqb n n' && regex_eqb x x'
  | RLook n x, RLook n' x' => Bool.eqb n n' && regex_eqb x x'
  | RBref n, RBref n' => Nat.eqb n n'
  | RBol m, RBol m' => Bool.eqb m m'
  | REol m, REol m' => Bool.eqb m m'
  | RWordB m, RWordB m' => Bool.eqb m m'
  | _, _ => false
  end.

Lemma citem_eqb_eq a b : citem_eqb a b = true -> a = b.
Proof.
  destruct a as [l h|c n], b as [l' h'|c' n']; cbn; try discriminate; intros H; apply andb_prop in H as [H1 H2].
  - apply N.eqb_eq in H1, H2. congruence.
  - apply Bool.eqb_prop in H2. destruct c, c'; try discriminate; congruence.
Qed.

Lemma items_eqb_eq : forall a b, items_eqb a b = true -> a = b.
Proof.
  induction a as [|x a IH]; destruct b as [|y b]; cbn; try discriminate; [reflexivity|].
  intros H. apply andb_prop in H as [H1 H2]. apply citem_eqb_eq in H1. apply IH in H2. congruence.
Qed.

Lemma optN_eqb_eq a b : optN_eqb a b = true -> a = b.
Proof. destruct a, b; cbn; try discriminate; [|reflexivity]. intros H. apply N.eqb_eq in H. congruence. Qed.

Lemma regex_eqb_eq : forall a b, regex_eqb a b = true -> a = b.
Proof.
  induction a; destruct b; cbn [regex_eqb]; try discriminate; intros H;
    repeat match goal with H : _ && _ = true |- _ => apply andb_prop in H as [? ?] end;
    repeat match goal with
           | H : Bool.eqb _ _ = true |- _ => apply Bool.eqb_prop in H
           | H : (_ =? _) = true |- _ => apply N.eqb_eq in H
           | H : Nat.eqb _ _ = true |- _ => apply PeanoNat.Nat.eqb_eq in H
           | H : items_eqb _ _ = true |- _ => apply items_eqb_eq in H
           | H : optN_eqb _ _ = true |- _ => apply optN_eqb_eq in H
           | IH : forall b, regex_eqb ?a b = true -> ?a = b, H : regex_eqb ?a _ = true |- _ => apply IH in H
           end; subst; reflexivity.
Qed.

(* ---- patterns whose matching depends only on the characters ahead ---- *)
Fixpoint pure (r : regex) : bool :=
  match r with
  | REps | RSet _ _ | RAny _ => true
  | RSeq a b | RAlt a b => pure a && pure b
  | RRep _ _ _ b => pure b
  | _ => false
  end.

Lemma last_of_app w1 : forall p w2, last_of p (w1 ++ w2) = last_of (last_of p w1) w2.
Proof. induction w1 as [|x w1 IH]; intros p w2; [reflexivity|]. cbn. apply IH. Qed.

Definition transports (R : mst -> mst -> Prop) (s s' : mst) : Prop :=
  exists wc, st_rest s = wc ++ st_rest s' /\ st_p s' = last_of (st_p s) wc /\
    (st_i s' = st_i s + lenN wc /\ st_c s' = st_c s) /\
    forall i2 c2 z2, R (mkSt i2 (st_p s) (wc ++ z2) c2) (mkSt (i2 + lenN wc) (last_of (st_p s) wc) z2 c2).

Lemma iter_transport (R : mst -> mst -> Prop) : (forall s s', R s s' -> transports R s s') ->
  forall n s s', iterR R n s s' -> transports (iterR R n) s s'.
Proof.
  intros HR. induction n as [|n IH]; intros s s' H; cbn [iterR] in H.
  - subst s'. exists []. split; [reflexivity|]. split; [reflexivity|]. split; [cbn; split; [lia|reflexivity]|].
    intros i2 c2 z2. cbn. rewrite N.add_0_r. reflexivity.
  - destruct H as (s1 & H1 & H2). apply HR in H1 as (w1 & E1 & P1 & [I1 C1] & T1). apply IH in H2 as (w2 & E2 & P2 & [I2 C2] & T2).
    exists (w1 ++ w2). split; [rewrite E1, E2, app_assoc; reflexivity|].
    split; [rewrite P2, P1, last_of_app; reflexivity|].
    split; [split; [rewrite I2, I1, lenN_app; lia|congruence]|]. intros i2 c2 z2. cbn [iterR].
    exists (mkSt (i2 + lenN w1) (last_of (st_p s) w1) (w2 ++ z2) c2). split.
    + rewrite <- app_assoc. apply T1.
    + specialize (T2 (i2 + lenN w1) c2 z2). rewrite P1 in T2. rewrite last_of_app, lenN_app, N.add_assoc. exact T2.
Qed.

Lemma pure_transport : forall r, pure r = true -> forall s s', mx r s s' -> transports (mx r) s s'.
Proof.
  induction r; intros Hp s s' H; cbn [pure] in Hp; try discriminate; cbn [MatchExact.mx] in H.
  - subst s'. exists []. split; [reflexivity|]. split; [reflexivity|]. split; [cbn; split; [lia|reflexivity]|].
    intros i2 c2 z2. cbn. rewrite N.add_0_r. reflexivity.
  - destruct H as (x & t & Hr & Hm & ->). exists [x]. cbn. split; [exact Hr|]. split; [reflexivity|]. split; [split; reflexivity|].
    intros i2 c2 z2. exists x, z2. cbn. auto.
  - destruct H as (x & t & Hr & Hm & ->). exists [x]. cbn. split; [exact Hr|]. split; [reflexivity|]. split; [split; reflexivity|].
    intros i2 c2 z2. exists x, z2. cbn. auto.
  - apply andb_prop in Hp as [Hp1 Hp2]. destruct H as (s2 & H1 & H2).
    apply (IHr1 Hp1) in H1 as (w1 & E1 & P1 & [I1 C1] & T1). apply (IHr2 Hp2) in H2 as (w2 & E2 & P2 & [I2 C2] & T2).
    exists (w1 ++ w2). split; [rewrite E1, E2, app_assoc; reflexivity|].
    split; [rewrite P2, P1, last_of_app; reflexivity|].
    split; [split; [rewrite I2, I1, lenN_app; lia|congruence]|]. intros i2 c2 z2. cbn [MatchExact.mx].
    exists (mkSt (i2 + lenN w1) (last_of (st_p s) w1) (w2 ++ z2) c2). split.
    + rewrite <- app_assoc. apply T1.
    + specialize (T2 (i2 + lenN w1) c2 z2). rewrite P1 in T2. rewrite last_of_app, lenN_app, N.add_assoc. exact T2.
  - apply andb_prop in Hp as [Hp1 Hp2]. destruct H as [H|H].
    + apply (IHr1 Hp1) in H as (w & E & P & IC & T). exists w. split; [exact E|]. split; [exact P|]. split; [exact IC|]. intros. left. apply T.
    + apply (IHr2 Hp2) in H as (w & E & P & IC & T). exists w. split; [exact E|]. split; [exact P|]. split; [exact IC|]. intros. right. apply T.
  - destruct H as (n & Hi & Hmn & Hmx). apply (iter_transport _ (IHr Hp)) in Hi as (w & E & P & IC & T).
    exists w. split; [exact E|]. split; [exact P|]. split; [exact IC|]. intros i2 c2 z2. cbn [MatchExact.mx]. exists n. split; [apply T|]. split; assumption.
Qed.

(* ---- scanning a text with exactly one match ---- *)
Lemma search_from_skip r : nullable (re_ast r) = false -> forall pre i p rest,
  (forall x, In x pre -> first (re_ast r) x = false) ->
  search_from r i p (pre ++ rest) = search_from r (i + lenN pre) (last_of p pre) rest.
Proof.
  intros Hn. induction pre as [|x pre IH]; intros i p rest Hf.
  - cbn [app lenN last_of]. rewrite N.add_0_r. reflexivity.
  - cbn [app search_from]. unfold match_at at 1. destruct (exec _ _ _ _ _ _) eqn:E.
    + apply exec_nonnull_first in E as (y & s' & Hy & Hfy); auto. inversion Hy; subst.
      rewrite Hf in Hfy by (left; reflexivity). discriminate.
    + cbn [option_map]. rewrite IH by (intros y Hy; apply Hf; right; exact Hy).
      cbn [lenN last_of]. f_equal. lia.
Qed.

Lemma units_cons (s : str) : s <> [] -> exists u, units s = tt :: u.
Proof. destruct s; [congruence|]. intros _. cbn. eauto. Qed.

Lemma re_scan_one r pre w post m : nullable (re_ast r) = false ->
  (forall x, In x pre -> first (re_ast r) x = false) -> (forall x, In x post -> first (re_ast r) x = false) ->
  match_at r (lenN pre) (last_of None pre) (w ++ post) = Some m ->
  m_start m = lenN pre -> m_end m = lenN pre + lenN w -> w <> [] ->
  re_scan r (pre ++ w ++ post) = ([(pre, m)], post).
Proof.
  intros Hn Hpre Hpost Hm Hst Hen Hw. unfold re_scan.
  destruct (units_cons (pre ++ w ++ post)) as (u & Hu). { destruct pre; [destruct w; [congruence|discriminate]|discriminate]. }
  rewrite Hu. cbn [scan_loop]. rewrite (search_from_skip r Hn pre 0 None (w ++ post) Hpre). rewrite N.add_0_l.
  assert (Hs : search_from r (lenN pre) (last_of None pre) (w ++ post) = Some m).
  { destruct (w ++ post); cbn [search_from]; rewrite Hm; reflexivity. }
  rewrite Hs. rewrite Hst, Hen, !N.sub_0_r.
  assert (Hlw : 0 < lenN w) by (destruct w; [congruence|simpl; lia]).
  replace (lenN pre + lenN w =? lenN pre) with false by (symmetry; apply N.eqb_neq; lia).
  rewrite takeN_app_exact. rewrite dropN_app_plus.
  replace (dropN (lenN w) (w ++ post)) with post by (symmetry; apply dropN_app_exact).
  rewrite (search_from_none r Hn post _ _ Hpost). reflexivity.
Qed.

Lemma iter_set_run items : forall n s s', iterR (mx (RSet false items)) n s s' ->
  exists u, st_rest s = u ++ st_rest s' /\ (forall x, In x u -> set_match false items x = true) /\
            st_c s' = st_c s /\ st_i s' = st_i s + lenN u /\ st_p s' = last_of (st_p s) u /\ length u = n.
Proof.
  induction n as [|n IH]; intros s s' H; cbn [iterR] in H.
  - subst s'. exists []. cbn. rewrite N.add_0_r. repeat split; auto; try (intros x []; fail).
  - destruct H as (s1 & (x & t & Hr & Hx & ->) & H2). apply IH in H2 as (u & Eu & Hu & Hc & Hi & Hp & Hl). cbn in *.
    exists (x :: u). rewrite Hr, Eu. cbn. repeat split; auto; try (intros y [<-|Hy]; auto; fail); try (rewrite Hi; lia); try congruence.
Qed.

Lemma run_unique (P : char -> bool) stop : P stop = false -> forall name u post rest',
  (forall x, In x name -> P x = true) -> (forall x, In x u -> P x = true) ->
  name ++ stop :: post = u ++ stop :: rest' -> u = name /\ rest' = post.
Proof.
  intros Hs. induction name as [|a name IH]; intros u post rest' Hn Hu E.
  - destruct u as [|b u]; [cbn in E; inversion E; auto|]. cbn in E. inversion E; subst b.
    rewrite Hu in Hs by (left; reflexivity). discriminate.
  - destruct u as [|b u].
    + cbn in E. inversion E; subst a. rewrite Hn in Hs by (left; reflexivity). discriminate.
    + cbn in E. inversion E; subst b. destruct (IH u post rest') as [-> ->]; auto.
      * intros x Hx. apply Hn. right. exact Hx.
      * intros x Hx. apply Hu. right. exact Hx.
Qed.

Lemma iter_set_intro items : forall u i p z c, (forall x, In x u -> set_match false items x = true) ->
  iterR (mx (RSet false items)) (length u) (mkSt i p (u ++ z) c) (mkSt (i + lenN u) (last_of p u) z c).
Proof.
  induction u as [|x u IH]; intros i p z c Hu; cbn [length iterR app lenN last_of].
  - rewrite N.add_0_r. reflexivity.
  - exists (mkSt (i + 1) (Some x) (u ++ z) c). split.
    + exists x, (u ++ z). cbn. repeat split; auto. apply Hu. left. reflexivity.
    + replace (i + N.succ (lenN u)) with (i + 1 + lenN u) by lia. apply IH. intros y Hy. apply Hu. right. exact Hy.
Qed.

Lemma run_next (P Q : char -> bool) stop : P stop = false -> Q stop = false -> (forall x, P x = true -> Q x = false) ->
  forall name u y rest' post, (forall x, In x name -> P x = true) -> (forall x, In x u -> P x = true) -> Q y = true ->
  name ++ stop :: post = u ++ y :: rest' -> False.
Proof.
  intros Hp Hq Hpq. induction name as [|a name IH]; intros u y rest' post Hn Hu Hy E.
  - destruct u as [|b u]; cbn in E; inversion E; subst.
    + congruence.
    + rewrite Hu in Hp by (left; reflexivity). discriminate.
  - destruct u as [|b u]; cbn in E; inversion E; subst.
    + rewrite (Hpq y) in Hy; [discriminate|]. apply Hn. left. reflexivity.
    + eapply (IH u y rest' post); eauto.
      * intros x Hx. apply Hn. right. exact Hx.
      * intros x Hx. apply Hu. right. exact Hx.
Qed.

Lemma search_from_hole r : nullable (re_ast r) = false -> forall pre i p x rest,
  (forall y, In y pre -> first (re_ast r) y = false) ->
  match_at r (i + lenN pre) (last_of p pre) (x :: rest) = None ->
  (forall y, In y rest -> first (re_ast r) y = false) ->
  search_from r i p (pre ++ x :: rest) = None.
Proof.
  intros Hn pre i p x rest Hpre Hm Hrest. rewrite (search_from_skip r Hn pre i p (x :: rest) Hpre).
  cbn [search_from]. rewrite Hm. apply search_from_none; assumption.
Qed.


(* ---- literal strings and alternatives ---- *)
Lemma mx_rstr_intro : forall q i p z cc, q <> [] ->
  mx (rstr q) (mkSt i p (q ++ z) cc) (mkSt (i + lenN q) (last_of p q) z cc).
Proof.
  unfold rstr. induction q as [|x q IH]; intros i p z cc Hne; [congruence|].
  destruct q as [|y q].
  - cbn. exists x, z. cbn. repeat split. unfold set_match, in_items. cbn. rewrite N.leb_refl. reflexivity.
  - change (rseq (map (fun c0 : char => RLit c0) (x :: y :: q))) with (RSeq (RLit x) (rseq (map (fun c0 : char => RLit c0) (y :: q)))).
    cbn [mx]. exists (mkSt (i + 1) (Some x) ((y :: q) ++ z) cc). split.
    + exists x, ((y :: q) ++ z). cbn. repeat split. unfold set_match, in_items. cbn. rewrite N.leb_refl. reflexivity.
    + specialize (IH (i + 1) (Some x) z cc ltac:(discriminate)).
      replace (i + lenN (x :: y :: q)) with (i + 1 + lenN (y :: q)) by (cbn [lenN]; lia). exact IH.
Qed.

Lemma mx_ralt_intro : forall (l : list regex) r s s', In r l -> mx r s s' -> mx (ralt l) s s'.
Proof.
  induction l as [|x l IH]; intros r s s' Hin Hm; [destruct Hin|].
  destruct l as [|y l].
  - destruct Hin as [->|[]]. exact Hm.
  - change (ralt (x :: y :: l)) with (RAlt x (ralt (y :: l))). cbn [mx].
    destruct Hin as [->|Hin]; [left; exact Hm|right; eapply IH; eauto].
Qed.


(* C09, block level: a fenced code block is verbatim.  For ANY content lines (no line terminator inside a line, none of them the
   closing fence itself), the lines  ``  content...  ``  render through the delimited-block loop to
   <pre><code> escape(content joined by newlines) </code></pre> : whatever markup the content holds -- quotes, tags, macro
   invocations, Block Attributes, list markers -- none of it is interpreted.  The fence is recognised and the closing fence is
   found with the exact regex semantics. *)
From Rimu Require Import Base Unicode Regex RegexAnalysis RegexParse Str Types Tables Guards State Inline Block
  Frame FrameBlock FrameInst OptionsLemmas MiscLemmas MoreLemmas Plain TableFacts Lines PlainDoc
  RegexSem MatchLemmas MatchExact ScanLemmas.
From Coq Require Import Lia.
Local Open Scope monad_scope.

Definition tick : char := 96.
Definition fence : str := [tick; tick].
Definition code_def : ddef := nth 4 dblocks_default dummy_ddef.
Definition before_code : list ddef := firstn 4 dblocks_default.

Lemma code_facts :
  d_name code_def = $"code" /\ d_openTag code_def = $"<pre><code>" /\ d_closeTag code_def = $"</code></pre>" /\
  d_verify code_def = DvCode /\ d_delim code_def = DfClassInj /\ d_content code_def = CfNone /\
  d_expand code_def = mkExpand (Some false) None None None (Some true) /\
  dblocks_default = before_code ++ code_def :: skipn 5 dblocks_default /\ length before_code = 4%nat.
Proof. repeat split; reflexivity. Qed.

Lemma code_facts_of cd : dcore cd = dcore code_def ->
  d_name cd = $"code" /\ d_openTag cd = $"<pre><code>" /\ d_closeTag cd = $"</code></pre>" /\
  d_verify cd = DvCode /\ d_delim cd = DfClassInj /\ d_content cd = CfNone /\
  d_expand cd = mkExpand (Some false) None None None (Some true) /\ d_openRe cd = d_openRe code_def.
Proof.
  intros H. destruct (dcore_fields _ _ H) as (E1 & E2 & E3 & E4 & E5 & E6 & E7 & E8).
  destruct code_facts as (F1 & F2 & F3 & F4 & F5 & F6 & F7 & _).
  rewrite E1, E2, E3, E5, E6, E7, E8. repeat split; assumption.
Qed.

(* ---- the closing pattern built from the fence: it matches exactly the line that is the fence ---- *)
Lemma lit_close_shape d : re_ast (lit_close d) = RSeq (RBol false) (RSeq (rstr d) (REol false)) /\ re_groups (lit_close d) = O.
Proof. split; reflexivity. Qed.

Lemma wf_rstr : forall d, wf_exact (rstr d) = true.
Proof.
  unfold rstr. induction d as [|x d IH]; [reflexivity|]. destruct d as [|y d]; [reflexivity|].
  change (rseq (map (fun c : char => RLit c) (x :: y :: d))) with (RSeq (RLit x) (rseq (map (fun c : char => RLit c) (y :: d)))).
  cbn [wf_exact]. exact IH.
Qed.

Lemma lit_close_wf d : wf_exact (re_ast (lit_close d)) = true.
Proof. rewrite (proj1 (lit_close_shape d)). cbn [wf_exact]. rewrite wf_rstr. reflexivity. Qed.

Lemma lit_close_match_iff d i p rest : nlfree rest ->
  (match_at (lit_close d) i p rest <> None <-> p = None /\ rest = d).
Proof.
  intros Hnl. rewrite (match_at_iff _ _ _ _ (lit_close_wf d)). rewrite (proj1 (lit_close_shape d)). cbn [mx]. split.
  - intros (s' & s1 & [-> Hb] & s2 & Hs & [-> He]). cbn [st_p st_rest] in *.
    pose proof (mx_Matches _ _ _ Hs) as M. apply Matches_rstr in M as [C _]. unfold consumed in C. cbn [st_rest] in C.
    split; [destruct p; [discriminate|reflexivity]|].
    unfold eol_ok in He. destruct (st_rest s2) as [|x t] eqn:Er; [rewrite C, app_nil_r; reflexivity|].
    exfalso. apply andb_prop in He as [Hx _]. apply N.eqb_eq in Hx. subst x.
    assert (Hin : In 10 rest) by (rewrite C; apply in_or_app; right; left; reflexivity).
    apply Hnl in Hin. discriminate.
  - intros [-> ->]. destruct d as [|x d].
    + exists (mkSt i None [] []). exists (mkSt i None [] []). split; [split; reflexivity|].
      exists (mkSt i None [] []). split; [reflexivity|split; reflexivity].
    + eexists. exists (mkSt i None (x :: d) []). split; [split; reflexivity|].
      exists (mkSt (i + lenN (x :: d)) (last_of None (x :: d)) [] []). split.
      * pose proof (mx_rstr_intro (x :: d) i None [] [] ltac:(discriminate)) as H. rewrite app_nil_r in H. exact H.
      * split; reflexivity.
Qed.

Lemma lit_close_search_none d : forall l, nlfree l -> l <> d -> re_search (lit_close d) l = None.
Proof.
  intros l Hnl Hne. unfold re_search.
  assert (G : forall rest i p, nlfree rest -> (p = None -> rest <> d) -> search_from (lit_close d) i p rest = None).
  { induction rest as [|x t IH]; intros i p Hn Hp; cbn [search_from].
    - destruct (match_at (lit_close d) i p []) eqn:E; [|reflexivity]. exfalso.
      assert (Hx : match_at (lit_close d) i p [] <> None) by congruence.
      apply (lit_close_match_iff d i p [] Hn) in Hx as [-> Hd]. apply Hp; auto.
    - destruct (match_at (lit_close d) i p (x :: t)) eqn:E.
      + exfalso. assert (Hx : match_at (lit_close d) i p (x :: t) <> None) by congruence.
        apply (lit_close_match_iff d i p (x :: t) Hn) in Hx as [-> Hd]. apply Hp; auto.
      + apply IH; [intros y Hy; apply Hn; right; exact Hy|discriminate]. }
  apply G; [exact Hnl|intros _; exact Hne].
Qed.

Lemma lit_close_search_self d : nlfree d -> exists m, re_search (lit_close d) d = Some m.
Proof.
  intros Hn. unfold re_search.
  assert (Hx : match_at (lit_close d) 0 None d <> None) by (apply (lit_close_match_iff d 0 None d Hn); auto).
  destruct (match_at (lit_close d) 0 None d) as [m|] eqn:E; [|congruence]. exists m.
  destruct d; cbn [search_from]; rewrite E; reflexivity.
Qed.

(* reading up to the closing fence *)
Lemma readTo_fence d : nlfree d -> forall content rest, Forall nlfree content -> ~ In d content ->
  readTo (lit_close d) (content ++ d :: rest) = Ok (content, d :: rest).
Proof.
  intros Hd. induction content as [|l content IH]; intros rest Hc Hnot; cbn [app readTo].
  - destruct (lit_close_search_self d Hd) as (m & ->). reflexivity.
  - inversion Hc; subst. rewrite lit_close_search_none; [|assumption|intros ->; apply Hnot; left; reflexivity].
    rewrite IH; [reflexivity|assumption|intros Hin; apply Hnot; right; exact Hin].
Qed.

(* ---- the fence line against the block-level patterns (the fence is a constant: computed) ---- *)
Definition m_fence : mres := {| m_start := 0; m_end := 2; m_groups := [Some fence; Some fence; Some []] |}.

Lemma fence_facts :
  forallb (fun d => match re_search (l_re d) fence with None => true | Some _ => false end) lineblocks_defs = true /\
  forallb (fun d => match re_search (li_re d) fence with None => true | Some _ => false end) lists_defs = true /\
  forallb (fun d => match re_search (d_openRe d) fence with None => true | Some _ => false end) before_code = true /\
  re_search (d_openRe code_def) fence = Some m_fence /\ db_verify code_def m_fence = true /\ nlfree fence.
Proof.
  repeat split; try (vm_compute; reflexivity). intros x [<-|[<-|[]]]; reflexivity.
Qed.

Lemma none_of {A} (f : A -> option mres) l : forallb (fun d => match f d with None => true | Some _ => false end) l = true ->
  forall d, In d l -> f d = None.
Proof. intros H d Hd. rewrite forallb_forall in H. apply H in Hd. destruct (f d); [discriminate|reflexivity]. Qed.

Lemma lineblocks_loop_none_rest fuel l rest s : forall defs,
  (forall d, In d defs -> re_search (l_re d) l = None) ->
  lineblocks_loop fuel defs (l :: rest) [] s = Ok ((None, l :: rest), s).
Proof.
  induction defs as [|d ds IH]; intros H; cbn [lineblocks_loop]; [reflexivity|].
  cbn [andb]. rewrite (H d (or_introl eq_refl)). apply IH. intros d' Hd'. apply H. right. exact Hd'.
Qed.

Lemma matchItem_loop_none_rest l rest : forall defs,
  (forall d, In d defs -> re_search (li_re d) l = None) -> matchItem_loop defs (l :: rest) = Ok (None, l :: rest).
Proof.
  induction defs as [|d ds IH]; intros H; cbn [matchItem_loop]; [reflexivity|].
  rewrite (H d (or_introl eq_refl)). apply IH. intros d' Hd'. apply H. right. exact Hd'.
Qed.

Lemma dblock_loop_skip_rest fuel doc l tl0 s : forall pre done rest k,
  s_dblocks s = done ++ pre ++ rest ->
  (forall d, In d pre -> re_search (d_openRe d) l = None) ->
  dblock_loop fuel doc (length pre + k) (length done) (l :: tl0) [] s = dblock_loop fuel doc k (length done + length pre) (l :: tl0) [] s.
Proof.
  induction pre as [|d pre IH]; intros done rest k Hs H.
  - simpl. rewrite Nat.add_0_r. reflexivity.
  - cbn [length Nat.add dblock_loop]. unfold bind at 1. unfold gets at 1.
    assert (E : nth_error (s_dblocks s) (length done) = Some d).
    { rewrite Hs. rewrite nth_error_app2 by lia. rewrite Nat.sub_diag. reflexivity. }
    rewrite E. cbn [andb]. rewrite (H d (or_introl eq_refl)).
    replace (S (length done)) with (length (done ++ [d])) by (rewrite app_length; simpl; lia).
    rewrite (IH (done ++ [d]) rest k).
    + rewrite app_length. simpl. f_equal. lia.
    + rewrite Hs. rewrite <- app_assoc. reflexivity.
    + intros d' Hd'. apply H. right. exact Hd'.
Qed.

Lemma dblock_loop_unfold fuel doc k i rd allowed :
  dblock_loop fuel doc (S k) i rd allowed =
  (od <- gets (fun s => nth_error (s_dblocks s) i) ;;
   match od with
   | None => ret (None, rd)
   | Some d =>
       if (match allowed with [] => false | _ => true end) && negb (mem (d_name d) allowed)
       then dblock_loop fuel doc k (S i) rd allowed
       else
         match rd with
         | [] => raise ExAssert
         | cur :: rest =>
             match re_search (d_openRe d) cur with
             | None => dblock_loop fuel doc k (S i) rd allowed
             | Some m =>
                 match grp0 m, str_eqb (d_name d) $"paragraph" with
                 | [], false => raise ExIndex
                 | c0 :: _, false =>
                     if c0 =? 92 then dblock_loop fuel doc k (S i) (tl cur :: rest) allowed
                     else if negb (db_verify d m) then dblock_loop fuel doc k (S i) rd allowed
                     else r <- dblock_body fuel doc i d m rest ;; ret (Some (fst r), snd r)
                 | [], true => raise ExIndex
                 | _ :: _, true =>
                     if negb (db_verify d m) then dblock_loop fuel doc k (S i) rd allowed
                     else r <- dblock_body fuel doc i d m rest ;; ret (Some (fst r), snd r)
                 end
             end
         end
   end).
Proof. reflexivity. Qed.

(* ---- the closing pattern stored by the opening fence ---- *)
Lemma nth_set_closeRe rx d0 : forall i (l : list ddef), (i < length l)%nat ->
  let l' := (fix go (k : nat) (l : list ddef) : list ddef :=
               match l with
               | [] => []
               | d :: t => match k with
                           | O => mkD (d_name d) (d_openTag d) (d_closeTag d) (d_openRe d) rx
                                      (d_verify d) (d_delim d) (d_content d) (d_expand d) :: t
                           | S k' => d :: go k' t
                           end
               end) i l in
  nth i l' d0 = (let d := nth i l d0 in mkD (d_name d) (d_openTag d) (d_closeTag d) (d_openRe d) rx
                                            (d_verify d) (d_delim d) (d_content d) (d_expand d)).
Proof.
  induction i as [|i IH]; intros l Hl; destruct l as [|d t]; try (simpl in Hl; lia); cbn; [reflexivity|].
  apply IH. simpl in Hl. lia.
Qed.

Definition code_after (s : session) : session := set_popts (set_closeRe 4 (lit_close fence) s) expand_none.

Section Code.
Variable fuel : nat.
Variable doc : str -> M str.

Lemma dblock_body_code content rest s cd : quiet_default s -> Forall nlfree content -> ~ In fence content ->
  dcore cd = dcore code_def -> (forall d0, nth 4 (s_dblocks s) d0 = cd) ->
  dblock_body (S fuel) doc 4 cd m_fence (content ++ fence :: rest) s =
  Ok (($"<pre><code>" ++ escape (join [10] content) ++ $"</code></pre>" ++ (match rest with [] => [] | _ => [10] end), rest), code_after s).
Proof.
  intros Hq Hc Hnot Hcd Hnth. pose proof Hq as (Hd & Hr & Hqt & Hp & Ho).
  destruct (code_facts_of cd Hcd) as (Fname & Fopen & Fclose & Fverify & Fdelim & Fcontent & Fexp & Fre).
  unfold dblock_body. rewrite Fdelim.
  unfold bind at 1. cbn [grp_s grp nth m_groups m_fence]. replace (strip []) with (@nil char) by reflexivity.
  cbn [nonempty is_empty negb]. unfold bind at 1. cbn [ret]. unfold bind at 1. cbn [modify ret].
  set (s1 := set_closeRe 4 (lit_close fence) s).
  assert (Hn4 : nth 4 (s_dblocks s1) cd =
                mkD (d_name cd) (d_openTag cd) (d_closeTag cd) (d_openRe cd) (lit_close fence)
                    (d_verify cd) (d_delim cd) (d_content cd) (d_expand cd)).
  { unfold s1, set_closeRe. cbn [s_dblocks set_dblocks]. rewrite (nth_set_closeRe (lit_close fence) cd 4 (s_dblocks s)).
    - rewrite (Hnth cd). reflexivity.
    - rewrite (std_length _ Hd). lia. }
  unfold bind at 1. unfold gets at 1. rewrite Hn4. cbn [d_closeRe].
  rewrite (readTo_fence fence (proj2 (proj2 (proj2 (proj2 (proj2 fence_facts))))) content rest Hc Hnot).
  unfold bind at 1. cbn [andb ret tl]. cbn [app].
  unfold bind at 1. unfold gets at 1. rewrite Hn4. cbn [d_expand]. rewrite Fexp.
  assert (Ho1 : p_opts s1 = expand_none) by exact Ho. rewrite Ho1.
  unfold expand_merge, expand_none. cbn [e_macros e_container e_skip e_spans e_specials truthy].
  rewrite Fcontent.
  unfold bind at 1. unfold bind at 1. cbn [ret].
  unfold bind at 1. unfold gets at 1. rewrite Hn4.
  replace (str_eqb (d_name cd) $"html") with false by (rewrite Fname; vm_compute; reflexivity).
  unfold bind at 1. cbn [ret].
  unfold bind at 1. cbn [d_openTag]. rewrite Fopen.
  assert (Hp1 : pending_empty s1) by exact Hp.
  change ($"<pre><code>") with (60 :: $"pre><code>"). rewrite inject_nothing_pending by exact Hp1.
  unfold bind at 1. unfold lift. unfold replaceInline_top, replaceInline. cbn [truthy e_macros e_spans e_specials ibind iret].
  cbn [app log_msgs bind ret].
  unfold gets at 1. unfold bind at 1. cbv beta.
  assert (Hn4' : d_closeTag (nth 4 (s_dblocks s1) (mkD (d_name cd) (60 :: $"pre><code>") (d_closeTag cd) (d_openRe cd) (lit_close fence)
                    (d_verify cd) (d_delim cd) (d_content cd) (d_expand cd))) = $"</code></pre>").
  { unfold s1, set_closeRe. cbn [s_dblocks set_dblocks]. rewrite (nth_set_closeRe (lit_close fence) _ 4 (s_dblocks s)).
    - rewrite Hnth. cbn [d_closeTag]. exact Fclose.
    - rewrite (std_length _ Hd). lia. }
  rewrite Hn4'.
  replace (str_eqb (d_name cd) $"division") with false by (rewrite Fname; vm_compute; reflexivity).
  cbn [andb ret bind modify]. unfold code_after. fold s1.
  destruct rest as [|r0 rest]; cbn [andb nonempty is_empty negb app]; rewrite <- ?app_assoc; cbn [app]; rewrite ?app_nil_r; reflexivity.
Qed.
Lemma dblocks_render_code content rest s : quiet_default s -> Forall nlfree content -> ~ In fence content ->
  dblocks_render (S fuel) doc (fence :: content ++ fence :: rest) [] s =
  Ok ((Some ($"<pre><code>" ++ escape (join [10] content) ++ $"</code></pre>" ++ (match rest with [] => [] | _ => [10] end)), rest), code_after s).
Proof.
  intros Hq Hc Hnot. pose proof Hq as (Hd & _).
  destruct fence_facts as (_ & _ & Fbefore & Fmatch & Fverify & _).
  destruct (std_at (s_dblocks s) 4 dummy_ddef Hd ltac:(lia)) as (pre & cd & post & Esplit & Lpre & Hcd & En & Hnth & Hpre).
  fold code_def in Hcd. destruct (code_facts_of cd Hcd) as (Fname & _ & _ & Fv & _ & _ & _ & Fre).
  unfold dblocks_render. unfold bind at 1. unfold gets at 1. rewrite (std_length _ Hd).
  pose proof (dblock_loop_skip_rest (S fuel) doc fence (content ++ fence :: rest) s pre [] (cd :: post) 5) as Sk.
  cbn [length app] in Sk. rewrite Lpre in Sk. change (4 + 5)%nat with 9%nat in Sk. change (0 + 4)%nat with 4%nat in Sk.
  rewrite Sk; [|exact Esplit|].
  - cbn [dblock_loop]. unfold bind at 1. unfold gets at 1.
    rewrite En. cbn [andb]. rewrite Fre. rewrite Fmatch.
    unfold grp0, grp_s, grp. cbn [nth m_groups m_fence fence].
    rewrite Fname. replace (str_eqb $"code" $"paragraph") with false by reflexivity.
    replace (tick =? 92) with false by reflexivity. fold fence. fold m_fence.
    assert (Fverify' : db_verify cd m_fence = true) by (unfold db_verify in *; rewrite Fv; destruct code_facts as (_ & _ & _ & Fv0 & _); rewrite Fv0 in Fverify; exact Fverify).
    rewrite Fverify'. cbn [negb].
    unfold bind at 1. rewrite (dblock_body_code content rest s cd Hq Hc Hnot Hcd Hnth). reflexivity.
  - intros d Hdin. destruct (Hpre d Hdin) as (d' & Hd' & -> & _). exact (none_of (fun d => re_search (d_openRe d) fence) _ Fbefore d' Hd').
Qed.

(* the document that is one fenced code block *)
Theorem code_block_document n content s : quiet_default s -> Forall nlfree content -> ~ In fence content ->
  doc_loop (S fuel) doc (S (S n)) (fence :: content ++ [fence]) s =
  Ok ($"<pre><code>" ++ escape (join [10] content) ++ $"</code></pre>", code_after s).
Proof.
  intros Hq Hc Hnot. destruct fence_facts as (Fl & Fli & _).
  rewrite (TableFacts.doc_loop_delimited_block (S fuel) doc (S n) (fence :: content ++ [fence]) fence (content ++ [fence])
             (fence :: content ++ [fence]) (fence :: content ++ [fence])
             ($"<pre><code>" ++ escape (join [10] content) ++ $"</code></pre>" ++ []) [] s s s (code_after s)).
  - rewrite (TableFacts.doc_loop_blank_only _ _ n [] (code_after s)) by reflexivity. rewrite !app_nil_r. reflexivity.
  - reflexivity.
  - unfold lineblocks_render. apply lineblocks_loop_none_rest. exact (none_of (fun d => re_search (l_re d) fence) _ Fl).
  - unfold lists_render, bind, matchItem. rewrite matchItem_loop_none_rest; [reflexivity|].
    exact (none_of (fun d => re_search (li_re d) fence) _ Fli).
  - apply (dblocks_render_code content [] s Hq Hc Hnot).
Qed.
End Code.

(* ---- C08: a comment block renders to nothing, whatever it holds ---- *)
Definition copen : str := $"/*".
Definition cclose : str := $"*/".
Definition comment_def : ddef := nth 1 dblocks_default dummy_ddef.
Definition before_comment : list ddef := firstn 1 dblocks_default.
Definition m_copen : mres := {| m_start := 0; m_end := 2; m_groups := [Some copen] |}.

Lemma comment_facts :
  d_name comment_def = $"comment" /\ d_verify comment_def = DvNone /\ d_delim comment_def = DfNone /\
  d_expand comment_def = mkExpand None None (Some true) None (Some true) /\
  re_groups (d_closeRe comment_def) = O /\
  dblocks_default = before_comment ++ comment_def :: skipn 2 dblocks_default /\ length before_comment = 1%nat /\
  forallb (fun d => match re_search (l_re d) copen with None => true | Some _ => false end) lineblocks_defs = true /\
  forallb (fun d => match re_search (li_re d) copen with None => true | Some _ => false end) lists_defs = true /\
  forallb (fun d => match re_search (d_openRe d) copen with None => true | Some _ => false end) before_comment = true /\
  re_search (d_openRe comment_def) copen = Some m_copen /\
  (exists m, re_search (d_closeRe comment_def) cclose = Some m).
Proof. repeat split; try (vm_compute; reflexivity). eexists. vm_compute. reflexivity. Qed.

Lemma readTo_closer rx closer : re_groups rx = O -> (exists m, re_search rx closer = Some m) ->
  forall content rest, (forall l, In l content -> re_search rx l = None) ->
  readTo rx (content ++ closer :: rest) = Ok (content, closer :: rest).
Proof.
  intros Hg (m & Hm). induction content as [|l content IH]; intros rest Hc; cbn [app readTo].
  - rewrite Hm, Hg. reflexivity.
  - rewrite (Hc l (or_introl eq_refl)). rewrite IH; [reflexivity|]. intros l' Hl'. apply Hc. right. exact Hl'.
Qed.

Section Comment.
Variable fuel : nat.
Variable doc : str -> M str.

Lemma comment_facts_of cm : dcore cm = dcore comment_def ->
  d_name cm = $"comment" /\ d_verify cm = DvNone /\ d_delim cm = DfNone /\
  d_expand cm = mkExpand None None (Some true) None (Some true) /\ d_openRe cm = d_openRe comment_def /\
  d_closeRe cm = d_closeRe comment_def.
Proof.
  intros H. destruct (dcore_fields _ _ H) as (E1 & E2 & E3 & E4 & E5 & E6 & E7 & E8).
  destruct comment_facts as (F1 & F2 & F3 & F4 & _).
  rewrite E1, E4, E5, E6, E8. repeat split; try assumption. apply (dcore_close _ _ H). unfold is_classinj. rewrite F3. reflexivity.
Qed.

Lemma dblock_body_comment content rest s cm : quiet_default s ->
  (forall l, In l content -> re_search (d_closeRe comment_def) l = None) ->
  dcore cm = dcore comment_def -> (forall d0, nth 1 (s_dblocks s) d0 = cm) ->
  dblock_body fuel doc 1 cm m_copen (content ++ cclose :: rest) s = Ok (([], rest), s).
Proof.
  intros Hq Hc Hcm Hnth. pose proof Hq as (Hd & Hr & Hqt & Hp & Ho).
  destruct comment_facts as (_ & _ & _ & _ & Fg & _ & _ & _ & _ & _ & _ & Fclose).
  destruct (comment_facts_of cm Hcm) as (Fname & Fverify & Fdelim & Fexp & Fre & Fcl).
  unfold dblock_body. rewrite Fdelim. unfold bind at 1. cbn [ret].
  unfold bind at 1. unfold gets at 1.
  rewrite (Hnth cm). rewrite Fcl.
  rewrite (readTo_closer _ cclose Fg Fclose content rest Hc).
  unfold bind at 1. cbn [andb ret tl app].
  unfold bind at 1. unfold gets at 1. rewrite (Hnth cm), Fexp, Ho.
  unfold expand_merge, expand_none. cbn [e_macros e_container e_skip e_spans e_specials truthy].
  unfold bind at 1. cbn [ret bind modify]. f_equal. f_equal. destruct s; cbn in *; subst; reflexivity.
Qed.

Theorem comment_block_document n content s : quiet_default s ->
  (forall l, In l content -> re_search (d_closeRe comment_def) l = None) ->
  doc_loop fuel doc (S (S n)) (copen :: content ++ [cclose]) s = Ok ([], s).
Proof.
  intros Hq Hc. pose proof Hq as (Hd & _).
  destruct comment_facts as (_ & _ & _ & _ & _ & _ & _ & Fl & Fli & Fbefore & Fmatch & _).
  rewrite (TableFacts.doc_loop_delimited_block fuel doc (S n) (copen :: content ++ [cclose]) copen (content ++ [cclose])
             (copen :: content ++ [cclose]) (copen :: content ++ [cclose]) [] [] s s s s).
  - rewrite (TableFacts.doc_loop_blank_only fuel doc n [] s) by reflexivity. reflexivity.
  - reflexivity.
  - unfold lineblocks_render. apply lineblocks_loop_none_rest. exact (none_of (fun d => re_search (l_re d) copen) _ Fl).
  - unfold lists_render, bind, matchItem. rewrite matchItem_loop_none_rest; [reflexivity|].
    exact (none_of (fun d => re_search (li_re d) copen) _ Fli).
  - unfold dblocks_render. unfold bind at 1. unfold gets at 1. rewrite (std_length _ Hd).
    destruct (std_at (s_dblocks s) 1 dummy_ddef Hd ltac:(lia)) as (pre & cm & post & Esplit & Lpre & Hcm & En & Hnth & Hpre).
    fold comment_def in Hcm. destruct (comment_facts_of cm Hcm) as (Fname & Fverify & _ & _ & Fre & _).
    pose proof (dblock_loop_skip_rest fuel doc copen (content ++ [cclose]) s pre [] (cm :: post) 8) as Sk.
    cbn [length app] in Sk. rewrite Lpre in Sk. change (1 + 8)%nat with 9%nat in Sk. change (0 + 1)%nat with 1%nat in Sk.
    rewrite Sk; [|exact Esplit|].
    + change 8%nat with (S 7). rewrite dblock_loop_unfold. unfold bind at 1. unfold gets at 1.
      rewrite En. cbn [andb]. rewrite Fre, Fmatch.
      unfold grp0, grp_s, grp. cbn [nth m_groups m_copen]. unfold copen. change ($"/*") with (47 :: 42 :: @nil char).
      rewrite Fname. replace (str_eqb $"comment" $"paragraph") with false by reflexivity.
      replace (47 =? 92) with false by reflexivity. unfold db_verify. rewrite Fverify. cbn [negb].
      unfold bind at 1. rewrite (dblock_body_comment content [] s cm Hq Hc Hcm Hnth). reflexivity.
    + intros d Hdin. destruct (Hpre d Hdin) as (d' & Hd' & -> & _). exact (none_of (fun d => re_search (d_openRe d) copen) _ Fbefore d' Hd').
Qed.
End Comment.

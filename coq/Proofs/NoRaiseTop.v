(* C01: the inline entry points used by the block layer raise nothing but the two documented exceptions. *)
From Rimu Require Import Base Unicode Regex RegexSem RegexAnalysis RegexParse Str Types Tables Guards State Inline Block
  MatchLemmas Placeholder TaintInline NoRaise.
From Coq Require Import Lia.
Local Open Scope monad_scope.

Definition inline_exn (e : exn) : Prop := e = ExIntTooLong \/ e = ExUnsupported.
Definition raises_only {T} (A : exn -> Prop) (m : I T) : Prop := match m with Raise e => A e | _ => True end.

Lemma nr_good_combine {T} (P : T -> Prop) (m : I T) : nr (fun e => macro_exn e \/ only_pop e) m -> good P m -> raises_only inline_exn m.
Proof.
  unfold nr, good, raises_only. destruct m as [[a l]|e|]; auto. intros [H|H] G; [exact H|]. unfold only_pop in H. congruence.
Qed.

Section Top.
Variable fuel : nat.
Variable s : ienv.
Hypothesis Hs : ienv_ok s.
Hypothesis Hf : Forall filt_ok (en_repls s).

Lemma nr_spans_top t : nr (fun e => macro_exn e \/ only_pop e) (spans_render fuel s t).
Proof. eapply nr_weaken; [|apply nr_spans_render; exact Hf]. intros e H. right. exact H. Qed.

Lemma nr_macros_top t silent : nr (fun e => macro_exn e \/ only_pop e) (macros_render_top fuel s t silent).
Proof.
  unfold macros_render_top.
  assert (G : good rfree (spans_render fuel s [])) by (apply spans_ok; [exact Hs|apply allc_nil]).
  (* macros.render raises what its nested spans.render raises, or its own two exceptions *)
  assert (H : forall A : exn -> Prop, (forall e, macro_exn e -> A e) -> (forall t', nr A (spans_render fuel s t')) ->
              nr A (macros_render (spans_render fuel s) s t silent)).
  { intros A HA Hsr. unfold macros_render.
    assert (MR : forall subj simple m, (simple = true \/ match_spec re_macros_render_0 subj m) ->
                 nr A (macro_repl (spans_render fuel s) s t silent simple m)).
    { intros subj simple m Hm. unfold macro_repl. destruct (starts_with [92] (grp0 m)); [exact Logic.I|].
      destruct (starts_with [63] (grp_s m 2)). { apply nr_bind; [destruct silent; exact Logic.I|intros; exact Logic.I]. }
      destruct (getValue s (grp_s m 1)) as [value|]. 2:{ apply nr_bind; [destruct silent; exact Logic.I|intros; exact Logic.I]. }
      destruct simple; [exact Logic.I|]. destruct Hm as [Hm|Hm]; [discriminate|].
      destruct (invocation_params subj m Hm) as (x & t0 & -> & Hx).
      match goal with |- context [replace_all ?o ?nw (x :: t0)] =>
        destruct (replace_all_head x t0 o nw) as (t' & ->); [intros o1 o2 E; vm_compute in E; inversion E; subst; congruence|vm_compute; discriminate|] end.
      destruct (x =? 124).
      { apply nr_isub. intros m' Hm'. unfold param_repl. destruct (starts_with [92] (grp0 m')); [exact Logic.I|].
        destruct (param_match_digits _ m' Hm') as [Hd Hne]. pose proof (py_int_digits _ Hd Hne) as Hp.
        destruct (py_int (grp_s m' 2)) as [pz| |]; [|congruence|apply HA; left; reflexivity].
        destruct (pz =? 0)%Z; [exact Logic.I|]. destruct (str_eqb (grp_s m' 1) _); [apply Hsr|exact Logic.I]. }
      destruct ((x =? 33) || (x =? 61)). 2:{ apply nr_bind; [exact Logic.I|intros; exact Logic.I]. }
      destruct (parse_regex _ false false); [exact Logic.I| |apply HA; right; reflexivity].
      apply nr_bind; [destruct silent; exact Logic.I|intros; exact Logic.I]. }
    apply nr_bind; [apply nr_isub; intros m Hm; apply (MR t); left; reflexivity|].
    intros r1. apply nr_bind; [apply nr_isub; intros m Hm; apply (MR r1); right; exact Hm|].
    intros r2. destruct (existsb (N.eqb 2) r2); exact Logic.I. }
  apply H; [intros e He; left; exact He|apply nr_spans_top].
Qed.

Theorem replaceInline_top_raises t e : rfree t -> raises_only inline_exn (replaceInline_top fuel s (Some t) e).
Proof.
  intros Ht. eapply nr_good_combine with (P := rfree); [|apply replaceInline_top_good; assumption].
  unfold replaceInline_top. apply nr_replaceInline; [apply nr_spans_top|intros t'; apply nr_macros_top].
Qed.

Theorem macros_render_top_raises t silent : rfree t -> raises_only inline_exn (macros_render_top fuel s t silent).
Proof.
  intros Ht. eapply nr_good_combine with (P := rfree); [apply nr_macros_top|apply macros_top_ok; assumption].
Qed.

Theorem replaceMatch_top_raises m ng repl e : (forall k, rfree (grp_s m k)) -> rfree repl ->
  raises_only inline_exn (replaceMatch_top fuel s m ng repl e).
Proof.
  intros Hm Hr. eapply nr_good_combine with (P := rfree); [|apply replaceMatch_top_good; assumption].
  unfold replaceMatch_top. apply nr_replaceMatch; [apply nr_spans_top|intros t'; apply nr_macros_top].
Qed.
End Top.

(* C17: an escaped emphasis  \*body*  in plain text is rendered as the literal text without the backslash.
   The quote pattern matches at the backslash (unique derivation), the escaped-quote loop moves on past the opening star,
   the rest holds a single star and cannot match, the unescape pass removes the backslash, and everything is escaped as text. *)
From Rimu Require Import Base Unicode Regex RegexSem RegexAnalysis RegexParse Str Types Tables Guards State Inline
  MatchLemmas MatchExact ScanLemmas Plain Emphasis.
From Coq Require Import Lia.
Local Open Scope monad_scope.

Lemma quotes_not_backslash : forallb (fun q => match q with x :: _ => negb (x =? 92) | [] => false end) (map q_quote quotes_default) = true.
Proof. reflexivity. Qed.

Lemma quote_first q : In q (map q_quote quotes_default) -> exists x t, q = x :: t /\ x <> 92.
Proof.
  intros Hq. pose proof quotes_not_backslash as F. rewrite forallb_forall in F. apply F in Hq. destruct q as [|x t]; [discriminate|].
  exists x, t. split; [reflexivity|]. apply negb_true_iff in Hq. apply N.eqb_neq in Hq. exact Hq.
Qed.

(* the part of the quote pattern after the optional backslash *)
Definition qtail : regex := RSeq (RGrp 1 (quote_alts quotes_default)) (RSeq (RGrp 2 qX) (RBref 1)).

Lemma qre_tail : re_ast qre = RSeq (RRep true 0 (Some 1) (RLit 92)) qtail.
Proof. destruct qre_shape as (Sh & _). exact Sh. Qed.

(* a derivation of the tail is a derivation of the whole pattern that takes no backslash *)
Lemma qtail_qre s s' : mx qtail s s' -> mx (re_ast qre) s s'.
Proof. intros M. rewrite qre_tail. cbn [mx]. exists s. split; [exists O; cbn; repeat split; lia|exact M]. Qed.

Lemma qre_qtail i p x rest s' : x <> 92 -> mx (re_ast qre) (mkSt i p (x :: rest) []) s' -> mx qtail (mkSt i p (x :: rest) []) s'.
Proof.
  intros Hx M. rewrite qre_tail in M. cbn [mx] in M. destruct M as (s1 & (n & Hit & _ & _) & M).
  destruct n as [|n]; [cbn [iterR] in Hit; subst s1; exact M|]. exfalso. cbn [iterR mx] in Hit.
  destruct Hit as (sx & (z & tz & Hrz & Hz & _) & _). apply lit_match in Hz. subst z. cbn in Hrz. inversion Hrz. congruence.
Qed.

(* the tail cannot start at a backslash *)
Lemma qtail_not_backslash i p rest c s' : ~ mx qtail (mkSt i p (92 :: rest) c) s'.
Proof.
  unfold qtail. cbn [mx]. intros (s2 & (s1 & Hh & _) & _).
  pose proof (mx_Matches _ _ _ Hh) as Mh. unfold quote_alts in Mh. rewrite <- map_map in Mh.
  apply Matches_ralt_rstr in Mh as (q & Hq & Cq & _). unfold consumed in Cq. cbn [st_rest] in Cq.
  destruct (quote_first q Hq) as (x & t & -> & Hx). cbn [app] in Cq. inversion Cq. congruence.
Qed.

Definition esc_final (i : N) (body post : str) : mst := em_final (i + 1) body post.

Lemma esc_derivation i p body post s' : body_ok body -> over plain_alphabet post ->
  mx (re_ast qre) (mkSt i p (92 :: star :: body ++ star :: post) []) s' <-> s' = esc_final i body post.
Proof.
  intros Hb Hp. split.
  - intros M. rewrite qre_tail in M. cbn [mx] in M. destruct M as (s1 & (n & Hit & _ & Hmax) & M).
    destruct n as [|[|n]].
    + cbn [iterR] in Hit. subst s1. exfalso. exact (qtail_not_backslash _ _ _ _ _ M).
    + cbn [iterR mx] in Hit. destruct Hit as (sx & (z & tz & Hrz & Hz & ->) & ->). cbn [st_rest st_i st_c] in *.
      inversion Hrz; subst z tz. apply qtail_qre in M. apply (em_derivation (i + 1) (Some 92) body post s' Hb Hp) in M. exact M.
    + unfold max_ok in Hmax. lia.
  - intros ->. unfold esc_final. rewrite qre_tail. cbn [mx].
    exists (mkSt (i + 1) (Some 92) (star :: body ++ star :: post) []). split.
    + exists 1%nat. split; [|split; [lia|unfold max_ok; lia]]. cbn [iterR mx].
      exists (mkSt (i + 1) (Some 92) (star :: body ++ star :: post) []). split; [|reflexivity].
      exists 92, (star :: body ++ star :: post). cbn. auto.
    + apply (qre_qtail (i + 1) (Some 92) star (body ++ star :: post)); [discriminate|].
      apply (em_derivation (i + 1) (Some 92) body post _ Hb Hp). reflexivity.
Qed.

(* ---- a lone star followed by plain text: no match ---- *)
Lemma lone_star_no_derivation i p post s' : over plain_alphabet post -> ~ mx (re_ast qre) (mkSt i p (star :: post) []) s'.
Proof.
  intros Hp M. apply qre_qtail in M; [|discriminate]. unfold qtail in M. cbn [mx] in M.
  destruct M as (s2 & (s1 & Hh & ->) & s3 & (s2' & HX & ->) & (g & rest' & p' & Hg & Hsp & _)).
  destruct qre_shape as (_ & _ & HpX & _).
  pose proof (mx_Matches _ _ _ Hh) as Mh. unfold quote_alts in Mh. rewrite <- map_map in Mh.
  apply Matches_ralt_rstr in Mh as (q & Hq & Cq & _).
  assert (Hpure : pure (quote_alts quotes_default) = true) by reflexivity.
  apply (pure_transport _ Hpure) in Hh as (wq & Eq & Pq & [Iq Cq'] & _).
  unfold consumed in Cq. cbn [st_rest st_p st_i st_c] in *.
  assert (wq = q) by (rewrite Eq in Cq; apply app_inv_tail in Cq; exact Cq). subst wq.
  assert (Hps : forall x, In x post -> x <> star) by (apply plain_not_star; exact Hp).
  assert (q = [star]).
  { destruct post as [|x rest].
    - destruct (quote_first q Hq) as (y & t & -> & _). cbn [app] in Cq. inversion Cq as [[E1 E2]]. destruct t; [reflexivity|discriminate].
    - eapply (star_sole q x rest Hq); [apply Hps; left; reflexivity|eauto]. }
  subst q. cbn [app lenN last_of] in *. inversion Eq as [Er1]. clear Eq Cq.
  apply (pure_transport _ HpX) in HX as (w2 & E2 & P2 & [I2 C2] & _). cbn [st_rest st_p st_i st_c] in *.
  rewrite C2, Cq' in Hg. cbn [cap_get Nat.eqb] in Hg. inversion Hg; subst g. clear Hg.
  unfold cap_text in Hsp. cbn [c_s c_e c_txt] in Hsp. rewrite Iq in Hsp.
  replace (i + N.succ 0 - i) with 1 in Hsp by lia. cbn [takeN N.eqb Pos.eqb N.pred Pos.pred_N] in Hsp.
  replace (takeN 0 post) with (@nil char) in Hsp by (destruct post; reflexivity).
  cbn [strip_prefix] in Hsp. destruct (st_rest s2') as [|y r2] eqn:Er2; [discriminate|].
  destruct (star =? y) eqn:Ey; [|discriminate]. apply N.eqb_eq in Ey. subst y.
  apply (Hps star); [|reflexivity]. rewrite <- Er1 in E2. rewrite E2. apply in_or_app. right. left. reflexivity.
Qed.

(* ---- the searches of the escaped-quote loop ---- *)
Lemma skip_to_app : forall (w : str) i p rest, skip_to (lenN w) i p (w ++ rest) = (i + lenN w, last_of p w, rest).
Proof.
  induction w as [|x w IH]; intros i p rest.
  - cbn [lenN app last_of]. rewrite N.add_0_r. destruct rest; reflexivity.
  - cbn [lenN app last_of skip_to]. replace (N.succ (lenN w) =? 0) with false by (symmetry; apply N.eqb_neq; lia).
    rewrite N.pred_succ. rewrite IH. f_equal. f_equal. lia.
Qed.

Definition esc_text (pre body post : str) : str := pre ++ 92 :: star :: body ++ star :: post.

Lemma plain_first x : In x plain_alphabet -> first (re_ast qre) x = false.
Proof. intros Hx. apply plain_char in Hx. tauto. Qed.

Lemma esc_match pre body post : over plain_alphabet pre -> body_ok body -> over plain_alphabet post ->
  exists m, re_search qre (esc_text pre body post) = Some m /\
    m_start m = lenN pre /\ m_groups m = [Some (92 :: star :: body ++ [star]); Some [star]; Some body].
Proof.
  intros Hpre Hb Hp. destruct qre_shape as (_ & Hng & _ & Hwf).
  assert (Hn : nullable (re_ast qre) = false) by reflexivity.
  destruct (exec_exact _ Hwf) as [S C].
  set (i := lenN pre). set (p := last_of None pre).
  assert (Hex : match_at qre i p (92 :: star :: body ++ star :: post) <> None).
  { apply (proj2 (match_at_iff _ _ _ _ Hwf)). exists (esc_final i body post). apply esc_derivation; auto. }
  unfold match_at in Hex.
  destruct (exec (re_ast qre) kfinal i p (92 :: star :: body ++ star :: post) []) as [[e cc]|] eqn:E; [|cbn in Hex; congruence].
  pose proof E as E'. apply S in E' as (s' & M & Hk). apply (esc_derivation i p body post s' Hb Hp) in M. subst s'.
  unfold kapp, kfinal, esc_final, em_final, q_final in Hk. cbn [st_i st_p st_rest st_c] in Hk.
  remember (i + 1) as i1 eqn:Ei1. injection Hk as He Hc. subst e cc.
  eexists. split.
  - unfold re_search, esc_text. rewrite (search_from_skip qre Hn pre 0 None _ (fun x Hx => plain_first x (Hpre x Hx))).
    rewrite N.add_0_l. fold i p. cbn [search_from]. unfold match_at. rewrite E. reflexivity.
  - cbn [option_map mk_mres m_start m_end m_groups]. split; [reflexivity|].
    rewrite Hng. cbn [group_list cap_get Nat.eqb option_map]. unfold cap_text. cbn [c_s c_e c_txt]. subst i1.
    replace (i + 1 + 1 + lenN body + 1 - i) with (lenN (92 :: star :: body ++ [star])) by (cbn [lenN]; rewrite lenN_app; cbn [lenN]; lia).
    replace (i + 1 + 1 - (i + 1)) with (lenN [star]) by (cbn; lia).
    replace (i + 1 + 1 + lenN body - (i + 1 + 1)) with (lenN body) by lia.
    replace (92 :: star :: body ++ star :: post) with ((92 :: star :: body ++ [star]) ++ post) by (cbn; rewrite <- app_assoc; reflexivity).
    rewrite takeN_app_exact.
    replace (star :: body ++ star :: post) with ([star] ++ body ++ star :: post) by reflexivity.
    rewrite takeN_app_exact. rewrite takeN_app_exact. reflexivity.
Qed.

Lemma esc_rest_no_match pre body post : body_ok body -> over plain_alphabet post ->
  re_search_pos qre (esc_text pre body post) (lenN pre + 1 + 1) = None.
Proof.
  intros [Hb _] Hp. destruct qre_shape as (_ & _ & _ & Hwf). assert (Hn : nullable (re_ast qre) = false) by reflexivity.
  unfold re_search_pos, esc_text.
  replace (pre ++ 92 :: star :: body ++ star :: post) with ((pre ++ [92; star]) ++ body ++ star :: post)
    by (rewrite <- app_assoc; reflexivity).
  replace (lenN pre + 1 + 1) with (lenN (pre ++ [92; star])) by (rewrite lenN_app; cbn [lenN]; lia).
  rewrite skip_to_app.
  apply (search_from_hole qre Hn body _ _ star post).
  - intros y Hy. apply plain_first. apply Hb. exact Hy.
  - destruct (match_at qre _ _ (star :: post)) eqn:E; [|reflexivity]. exfalso.
    assert (Hne : match_at qre (0 + lenN (pre ++ [92; star]) + lenN body) (last_of (last_of None (pre ++ [92; star])) body) (star :: post) <> None) by congruence.
    apply (proj1 (match_at_iff _ _ _ _ Hwf)) in Hne as (s' & M). exact (lone_star_no_derivation _ _ _ _ Hp M).
  - intros y Hy. apply plain_first. apply Hp. exact Hy.
Qed.

Lemma find_quote_escaped n pre body post : over plain_alphabet pre -> body_ok body -> over plain_alphabet post ->
  find_quote (S (S n)) qre (esc_text pre body post) 0 = Ok None.
Proof.
  intros Hpre Hb Hp. destruct (esc_match pre body post Hpre Hb Hp) as (m & Hm & Hst & Hg).
  cbn [find_quote]. unfold re_search_pos at 1.
  assert (E : skip_to 0 0 None (esc_text pre body post) = (0, None, esc_text pre body post)) by (destruct (esc_text pre body post); reflexivity).
  rewrite E. fold (re_search qre (esc_text pre body post)). rewrite Hm.
  assert (G0 : grp0 m = 92 :: star :: body ++ [star]) by (unfold grp0, grp_s, grp; rewrite Hg; reflexivity).
  assert (G1 : grp_s m 1 = [star]) by (unfold grp_s, grp; rewrite Hg; reflexivity).
  rewrite G0. cbn [starts_with N.eqb Pos.eqb andb]. rewrite G1, Hst. cbn [lenN].
  replace (lenN pre + N.succ 0 + 1) with (lenN pre + 1 + 1) by lia.
  rewrite (esc_rest_no_match pre body post Hb Hp). reflexivity.
Qed.

(* ---- the replacements pass: nothing matches ---- *)
Definition esc_alphabet : list char := plain_alphabet ++ [star; 92].
Definition lb_ast : regex :=
  RSeq (RSet false [IRange 92 92; IRange 32 32]) (RSeq (RLit 92) (RGrp 1 (RAlt (RLit 10) (REol false)))).

Lemma esc_alphabet_facts :
  forallb (fun d => negb (okA esc_alphabet (re_ast (r_re d))) || regex_eqb (re_ast (r_re d)) lb_ast) replacements_default = true /\
  wf_exact lb_ast = true.
Proof. split; vm_compute; reflexivity. Qed.

Lemma esc_text_over pre body post : over plain_alphabet pre -> body_ok body -> over plain_alphabet post ->
  over esc_alphabet (esc_text pre body post).
Proof.
  intros Hpre [Hb _] Hp x Hx. unfold esc_text in Hx. unfold esc_alphabet. apply in_or_app.
  apply in_app_or in Hx as [Hx|[<-|[<-|Hx]]]; [left; auto|right; right; left; reflexivity|right; left; reflexivity|].
  apply in_app_or in Hx as [Hx|[<-|Hx]]; [left; auto|right; left; reflexivity|left; auto].
Qed.

(* the only backslash of the text is followed by the star: the line-break pattern  [\\ ]\\(\n|$)  has no match *)
Lemma linebreak_no_match (r : cre) pre body post : re_ast r = lb_ast ->
  over plain_alphabet pre -> body_ok body -> over plain_alphabet post -> re_search r (esc_text pre body post) = None.
Proof.
  intros Er Hpre [Hb _] Hp. destruct (re_search r (esc_text pre body post)) as [m|] eqn:Hs; [|reflexivity]. exfalso.
  assert (Hwf : wf_exact (re_ast r) = true) by (rewrite Er; exact (proj2 esc_alphabet_facts)).
  destruct (re_search_sound r _ m Hwf Hs) as (pre' & rest' & s' & Et & _ & M & _).
  rewrite Er in M. unfold lb_ast in M. cbn [mx] in M.
  destruct M as (s1 & (x1 & t1 & Hr1 & _ & ->) & s2 & (x2 & t2 & Hr2 & Hx2 & ->) & (s3 & Halt & _)).
  cbn [st_rest st_i st_p st_c] in *. apply lit_match in Hx2. subst x2. subst rest' t1.
  assert (N92 : forall t, over plain_alphabet t -> forall x, In x t -> x <> 92) by (intros t Ht x Hx; apply Ht in Hx; apply plain_char in Hx; tauto).
  assert (Hsplit : pre' ++ [x1] = pre /\ t2 = star :: body ++ star :: post).
  { unfold esc_text in Et.
    assert (Et' : pre ++ 92 :: star :: body ++ star :: post = (pre' ++ [x1]) ++ 92 :: t2)
      by (rewrite <- app_assoc; exact Et).
    assert (Hpost92 : forall x, In x (star :: body ++ star :: post) -> x <> 92).
    { intros x [<-|Hx]; [discriminate|]. apply in_app_or in Hx as [Hx|[<-|Hx]]; [apply (N92 body Hb x Hx)|discriminate|apply (N92 post Hp x Hx)]. }
    destruct (split_at_first 92 _ Hpost92 pre (pre' ++ [x1]) t2 (N92 pre Hpre) Et') as [E1 E2]. auto. }
  destruct Hsplit as [_ ->]. destruct Halt as [Hl|He].
  - cbn [mx] in Hl. destruct Hl as (y & ty & Hry & Hy & _). cbn [st_rest] in Hry. inversion Hry; subst y. apply lit_match in Hy. discriminate.
  - cbn [mx] in He. destruct He as [_ He]. cbn [st_rest eol_ok] in He. discriminate.
Qed.

Section ReplEsc.
Variable s : ienv.
Variable sr : str -> I str.

Lemma fragReplacements_none n t : forall defs,
  (forall d, In d defs -> re_search (r_re d) t = None) ->
  fragReplacements s sr (S n) defs [undone t] = iret [undone t].
Proof.
  induction defs as [|d ds IH]; intros Hds; cbn [fragReplacements]; [reflexivity|].
  cbn [iconcat_map undone f_done f_text fragReplacement].
  rewrite (Hds d (or_introl eq_refl)).
  cbn [ibind iret app]. rewrite IH; auto. intros d' Hd'. apply Hds. right. exact Hd'.
Qed.

Lemma fragReplacements_esc n pre body post : over plain_alphabet pre -> body_ok body -> over plain_alphabet post ->
  fragReplacements s sr (S n) replacements_default [undone (esc_text pre body post)] = iret [undone (esc_text pre body post)].
Proof.
  intros Hpre Hb Hp. apply fragReplacements_none. intros d Hd.
  destruct esc_alphabet_facts as [F _]. rewrite forallb_forall in F. apply F in Hd. apply orb_prop in Hd as [Hd|Hd].
  - apply negb_true_iff in Hd. apply (re_search_none_over esc_alphabet); [exact Hd|apply esc_text_over; assumption].
  - apply regex_eqb_eq in Hd. apply linebreak_no_match; assumption.
Qed.
End ReplEsc.

(* ---- the unescape pass removes the backslash ---- *)
Definition ure : cre := unescapeRe quotes_default.

Lemma ure_shape : re_ast ure = RSeq (RLit 92) (RGrp 1 (quote_alts quotes_default)) /\ re_groups ure = 1%nat /\
  wf_exact (re_ast ure) = true /\ nullable (re_ast ure) = false /\
  forallb (fun x => negb (first (re_ast ure) x)) (plain_alphabet ++ [star]) = true.
Proof. repeat split; vm_compute; reflexivity. Qed.

Definition unesc_final (i : N) (R : str) : mst :=
  mkSt (i + 1 + 1) (Some star) R [(1%nat, {| c_s := i + 1; c_e := i + 1 + 1; c_txt := star :: R |})].

Lemma unesc_derivation i p b0 t s' : b0 <> star ->
  mx (re_ast ure) (mkSt i p (92 :: star :: b0 :: t) []) s' <-> s' = unesc_final i (b0 :: t).
Proof.
  intros Hb0. destruct ure_shape as (Sh & _). rewrite Sh. cbn [mx]. split.
  - intros (s1 & (x & tx & Hr & Hx & ->) & (s2 & Hh & ->)). cbn [st_rest st_i st_p st_c] in *. inversion Hr; subst x tx. clear Hr Hx.
    pose proof (mx_Matches _ _ _ Hh) as Mh. unfold quote_alts in Mh. rewrite <- map_map in Mh.
    apply Matches_ralt_rstr in Mh as (q & Hq & Cq & _).
    assert (Hpure : pure (quote_alts quotes_default) = true) by reflexivity.
    apply (pure_transport _ Hpure) in Hh as (wq & Eq & Pq & [Iq Cq'] & _).
    unfold consumed in Cq. cbn [st_rest st_p st_i st_c] in *.
    assert (wq = q) by (rewrite Eq in Cq; apply app_inv_tail in Cq; exact Cq). subst wq.
    assert (q = [star]) by (eapply (star_sole q b0 t Hq Hb0); eauto). subst q.
    cbn [app lenN last_of] in *. inversion Eq as [Er1]. unfold unesc_final.
    destruct s2 as [i2 p2 r2 c2]. cbn [st_rest st_p st_i st_c] in *. subst. replace (i + 1 + N.succ 0) with (i + 1 + 1) by lia. reflexivity.
  - intros ->. unfold unesc_final.
    exists (mkSt (i + 1) (Some 92) (star :: b0 :: t) []). split; [exists 92, (star :: b0 :: t); cbn; auto|].
    exists (mkSt (i + 1 + 1) (Some star) (b0 :: t) []). split; [|reflexivity].
    unfold quote_alts. apply (mx_ralt_intro _ (rstr [star])).
    + pose proof star_in as Hin. apply in_map_iff in Hin as (d0 & Hd0 & Hin0). apply in_map_iff. exists d0. rewrite Hd0. auto.
    + exact (mx_rstr_intro [star] (i + 1) (Some 92) (b0 :: t) [] ltac:(discriminate)).
Qed.

Lemma unescape_esc pre body post : over plain_alphabet pre -> body_ok body -> over plain_alphabet post ->
  quotes_unescape quotes_default (esc_text pre body post) = pre ++ star :: body ++ star :: post.
Proof.
  intros Hpre [Hb (b0 & t & Eb & _)] Hp. destruct ure_shape as (_ & Hng & Hwf & Hn & Hf). rewrite forallb_forall in Hf.
  assert (Hb0 : b0 <> star) by (apply (plain_not_star body Hb); rewrite Eb; left; reflexivity).
  assert (Hfirst : forall w, (forall x, In x w -> In x (plain_alphabet ++ [star])) -> forall x, In x w -> first (re_ast ure) x = false).
  { intros w Hw x Hx. apply Hw in Hx. apply Hf in Hx. apply negb_true_iff in Hx. exact Hx. }
  destruct (exec_exact _ Hwf) as [S C].
  set (i := lenN pre). set (p := last_of None pre). set (R := body ++ star :: post).
  assert (ER : R = b0 :: (t ++ star :: post)) by (unfold R; rewrite Eb; reflexivity).
  assert (Hex : match_at ure i p (92 :: star :: R) <> None).
  { apply (proj2 (match_at_iff _ _ _ _ Hwf)). exists (unesc_final i R). rewrite ER. apply unesc_derivation; auto. }
  unfold match_at in Hex.
  destruct (exec (re_ast ure) kfinal i p (92 :: star :: R) []) as [[e cc]|] eqn:E; [|cbn in Hex; congruence].
  pose proof E as E'. apply S in E' as (s' & M & Hk). rewrite ER in M. apply (unesc_derivation i p b0 _ s' Hb0) in M. subst s'.
  rewrite <- ER in Hk. unfold kapp, kfinal, unesc_final in Hk. cbn [st_i st_p st_rest st_c] in Hk.
  remember (i + 1) as i1 eqn:Ei1. injection Hk as He Hc. subst e cc.
  unfold quotes_unescape, re_sub. fold ure.
  assert (ET : esc_text pre body post = pre ++ [92; star] ++ R) by reflexivity. rewrite ET.
  assert (Hscan : re_scan ure (pre ++ [92; star] ++ R) = ([(pre, mk_mres (re_groups ure) i (92 :: star :: R) (i1 + 1, [(1%nat, {| c_s := i1; c_e := i1 + 1; c_txt := star :: R |})]))], R)).
  { apply (re_scan_one ure pre [92; star] R _ Hn).
    - apply Hfirst. intros x Hx. apply in_or_app. left. auto.
    - apply Hfirst. intros x Hx. unfold R in Hx. apply in_or_app. apply in_app_or in Hx as [Hx|[<-|Hx]]; [left; auto|right; left; reflexivity|left; auto].
    - fold i p. unfold match_at. cbn [app]. pose proof E as E2. unfold str, char in E2 |- *. rewrite E2. reflexivity.
    - reflexivity.
    - cbn [mk_mres m_end lenN]. subst i1. fold i. lia.
    - discriminate. }
  unfold str, char in Hscan |- *. rewrite Hscan.
  cbn [map concat fst snd app]. rewrite app_nil_r. unfold grp_s, grp. cbn [mk_mres m_groups]. rewrite Hng.
  cbn [group_list cap_get Nat.eqb option_map nth]. unfold cap_text. cbn [c_s c_e c_txt].
  replace (i1 + 1 - i1) with 1 by lia. cbn [takeN N.eqb Pos.eqb N.pred Pos.pred_N].
  replace (takeN 0 R) with (@nil N) by (destruct R; reflexivity). rewrite <- app_assoc. reflexivity.
Qed.

(* ---- spans.render ---- *)
Lemma fragQuote_escaped n pre body post : over plain_alphabet pre -> body_ok body -> over plain_alphabet post ->
  fragQuote (S (S (S n))) quotes_default qre (esc_text pre body post) = Ok [undone (esc_text pre body post)].
Proof.
  intros Hpre Hb Hp. cbn [fragQuote]. rewrite (find_quote_escaped n pre body post Hpre Hb Hp). reflexivity.
Qed.

Theorem spans_render_escaped_em n s pre body post :
  defaults s -> over plain_alphabet pre -> body_ok body -> over plain_alphabet post ->
  spans_render (S (S (S (S n)))) s (pre ++ 92 :: star :: body ++ star :: post) =
  iret (escape (pre ++ star :: body ++ star :: post)).
Proof.
  intros [Hr Hq] Hpre Hbody Hpost. fold (esc_text pre body post). cbn [spans_render]. unfold spans_body. rewrite Hr, Hq.
  rewrite (fragReplacements_esc s _ _ pre body post Hpre Hbody Hpost).
  cbn [ibind iret filter undone f_done app].
  unfold frag_placeholder_text. cbn [flat_map undone f_done f_text]. rewrite ?app_nil_r.
  unfold fragQuotes. cbn [res_concat_map undone f_done f_text].
  fold qre. rewrite (fragQuote_escaped n pre body post Hpre Hbody Hpost).
  cbn [app map undone done f_done f_text f_verb of_res iret ibind flat_map].
  rewrite (unescape_esc pre body post Hpre Hbody Hpost). rewrite ?app_nil_r.
  rewrite (re_scan_none_over code_out_alphabet); [|exact code_out_alphabet_ok|].
  - cbn [postReplacements of_res iret ibind app]. rewrite ?app_nil_r. reflexivity.
  - intros x Hx. unfold code_out_alphabet. apply in_escape in Hx as [Hx|Hx].
    + destruct Hbody as [Hb _]. rewrite app_assoc. apply in_or_app. left. apply in_or_app.
      apply in_app_or in Hx as [Hx|[<-|Hx]]; [left; auto|right; left; reflexivity|].
      apply in_app_or in Hx as [Hx|[<-|Hx]]; [left; auto|right; left; reflexivity|left; auto].
    + apply in_or_app. right. apply in_or_app. right. apply in_or_app. left. exact Hx.
Qed.

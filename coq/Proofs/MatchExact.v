(* L1, second half: an exact semantics of matching ([mx]: anchors, word boundaries, look-ahead in both polarities and the
   repetition bounds are all constrained) and the proof that the backtracking matcher [exec] is sound AND complete for it on
   every pattern whose repetition bodies cannot match the empty string and whose look-aheads contain no group ([wf_exact],
   decided on the generated tables): exec finds a match exactly when one exists.  Which match it finds (the priorities) is not
   specified.  [mx] refines [Matches], so every decomposition lemma applies to it. *)
From Rimu Require Import Base Unicode Regex RegexSem RegexAnalysis Str MatchLemmas.
From Coq Require Import Lia.

Fixpoint iterR (R : mst -> mst -> Prop) (n : nat) (s s' : mst) : Prop :=
  match n with
  | O => s' = s
  | S n' => exists s1, R s s1 /\ iterR R n' s1 s'
  end.

Definition bol_ok (ml : bool) (p : option char) : bool :=
  match p with None => true | Some x => ml && (x =? 10) end.
Definition eol_ok (ml : bool) (rest : str) : bool :=
  match rest with [] => true | x :: t => (x =? 10) && (ml || match t with [] => true | _ => false end) end.
Definition wordb_ok (neg : bool) (p : option char) (rest : str) : bool :=
  (match p, rest with None, [] => false | _, _ => true end) && xorb neg (xorb (is_word p) (is_word (hd_error rest))).
Definition max_ok (mxx : option N) (mn total : N) : Prop :=
  match mxx with Some x => total <= N.max x mn | None => True end.

Fixpoint mx (r : regex) (s s' : mst) : Prop :=
  match r with
  | REps => s' = s
  | RSet neg items => exists x t, st_rest s = x :: t /\ set_match neg items x = true /\
                                  s' = mkSt (st_i s + 1) (Some x) t (st_c s)
  | RAny dotall => exists x t, st_rest s = x :: t /\ dotall || negb (x =? 10) = true /\
                               s' = mkSt (st_i s + 1) (Some x) t (st_c s)
  | RSeq a b => exists s2, mx a s s2 /\ mx b s2 s'
  | RAlt a b => mx a s s' \/ mx b s s'
  | RRep _ mn mxx b => exists n, iterR (mx b) n s s' /\ mn <= N.of_nat n /\ max_ok mxx mn (N.of_nat n)
  | RGrp n b => exists s1, mx b s s1 /\
                  s' = mkSt (st_i s1) (st_p s1) (st_rest s1)
                            ((n, {| c_s := st_i s; c_e := st_i s1; c_txt := st_rest s |}) :: st_c s1)
  | RLook neg b =>
      if neg then s' = s /\ (forall s1, ~ mx b s s1)
      else exists s1, mx b s s1 /\ s' = mkSt (st_i s) (st_p s) (st_rest s) (st_c s1)
  | RBref n => exists g rest' p', cap_get n (st_c s) = Some g /\
                 strip_prefix (cap_text g) (st_rest s) (st_p s) = Some (rest', p') /\
                 s' = mkSt (st_i s + (c_e g - c_s g)) p' rest' (st_c s)
  | RBol ml => s' = s /\ bol_ok ml (st_p s) = true
  | REol ml => s' = s /\ eol_ok ml (st_rest s) = true
  | RWordB neg => s' = s /\ wordb_ok neg (st_p s) (st_rest s) = true
  end.

(* ---- the exact semantics refines the over-approximation ---- *)
Lemma iterR_Iter (R : mst -> mst -> Prop) b : (forall s s', R s s' -> Matches b s s') ->
  forall n s s', iterR R n s s' -> Iter b s n s'.
Proof.
  intros H. induction n as [|n IH]; intros s s' Hi; cbn [iterR] in Hi.
  - subst. constructor.
  - destruct Hi as (s1 & H1 & H2). econstructor; eauto.
Qed.

Lemma mx_Matches : forall r s s', mx r s s' -> Matches r s s'.
Proof.
  induction r; intros s s' H; cbn [mx] in H.
  - subst. constructor.
  - destruct H as (x & t & Hr & Hm & ->). destruct s as [i p rest c]. cbn in *. subst rest. constructor. exact Hm.
  - destruct H as (x & t & Hr & Hm & ->). destruct s as [i p rest c]. cbn in *. subst rest. constructor. exact Hm.
  - destruct H as (s2 & H1 & H2). econstructor; eauto.
  - destruct H as [H|H]; [apply MAltL|apply MAltR]; auto.
  - destruct H as (n & Hi & Hmn & _). apply (MRep _ _ _ _ _ _ n); [eapply iterR_Iter; eauto|lia].
  - destruct H as (s1 & H1 & ->). apply MGrp. auto.
  - destruct neg.
    + destruct H as [-> _]. constructor.
    + destruct H as (s1 & H1 & ->). apply MLookPos. auto.
  - destruct H as (g & rest' & p' & Hg & Hs & ->). eapply MBref; eauto.
  - destruct H as [-> _]. constructor.
  - destruct H as [-> _]. constructor.
  - destruct H as [-> _]. constructor.
Qed.

(* ---- positions: a step that consumes something moves on ---- *)
Lemma strip_prefix_nil s last : strip_prefix [] s last = Some (s, last).
Proof. reflexivity. Qed.

Lemma takeN_nil_inv n (l : str) : takeN n l = [] -> n = 0 \/ l = [].
Proof. destruct l as [|x t]; [auto|]. cbn [takeN]. destruct (n =? 0) eqn:E; [apply N.eqb_eq in E; auto|discriminate]. Qed.

Lemma pos_rest :
  (forall r s s', Matches r s s' -> st_i s <= st_i s' /\ (st_i s' = st_i s -> st_rest s' = st_rest s)) /\
  (forall b s k s', Iter b s k s' -> st_i s <= st_i s' /\ (st_i s' = st_i s -> st_rest s' = st_rest s)).
Proof.
  apply Matches_Iter_ind; intros; cbn [st_i st_rest] in *;
    repeat match goal with H : _ <= _ /\ _ |- _ => destruct H end;
    try (split; [lia|intros; try lia; auto]).
  - (* seq *) transitivity (st_rest s2);
      [match goal with H : st_i s3 = st_i s2 -> _ |- _ => apply H; lia end
      |match goal with H : st_i s2 = st_i s1 -> _ |- _ => apply H; lia end].
  - (* back-reference *)
    assert (Hd : c_e g - c_s g = 0) by lia. unfold cap_text in e0. rewrite Hd in e0.
    replace (takeN 0 (c_txt g)) with (@nil char) in e0 by (destruct (c_txt g); reflexivity).
    cbn in e0. inversion e0. reflexivity.
  - (* iteration *) transitivity (st_rest s1);
      [match goal with H : st_i s' = st_i s1 -> _ |- _ => apply H; lia end
      |match goal with H : st_i s1 = st_i s -> _ |- _ => apply H; lia end].
Qed.

Lemma nonnull_moves r s s' : Matches r s s' -> nullable r = false ->
  st_i s < st_i s' /\ (length (st_rest s') < length (st_rest s))%nat.
Proof.
  intros M Hn. pose proof (proj2 (proj1 nonnull_consumes _ _ _ M) Hn) as Hl.
  destruct (proj1 pos_rest _ _ _ M) as [Hle Heq]. split; [|exact Hl].
  destruct (N.eq_dec (st_i s') (st_i s)) as [E|E]; [apply Heq in E; rewrite E in Hl; lia|lia].
Qed.

(* ---- well-formedness for exactness ---- *)
(* an optional part ({0,1} or {1,1}) may have a body that matches the empty string: no second iteration is ever needed,
   so sre's last-position rule cannot stop one *)
Definition opt1 (mn : N) (mxx : option N) : bool :=
  match mxx with Some 1 => mn <=? 1 | _ => false end.
Fixpoint wf_exact (r : regex) : bool :=
  match r with
  | RSeq a b | RAlt a b => wf_exact a && wf_exact b
  | RRep _ mn mxx b => (negb (nullable b) || opt1 mn mxx) && wf_exact b
  | RGrp _ b => wf_exact b
  | RLook _ b => nogroups b && wf_exact b
  | _ => true
  end.

Definition soundX (r : regex) (m : matcher) : Prop :=
  forall k i p rest c res, m k i p rest c = Some res ->
    exists s', mx r (mkSt i p rest c) s' /\ kapp k s' = Some res.

Definition completeX (r : regex) (m : matcher) : Prop :=
  forall k s s', mx r s s' -> kapp k s' <> None -> m k (st_i s) (st_p s) (st_rest s) (st_c s) <> None.

Lemma loop_soundX b mb k g mn mxx : soundX b mb ->
  forall fuel cnt last i p rest c res, max_ok mxx mn cnt ->
    loop mb k g mn mxx fuel cnt last i p rest c = Some res ->
    exists n s', iterR (mx b) n (mkSt i p rest c) s' /\ mn <= cnt + N.of_nat n /\
                 max_ok mxx mn (cnt + N.of_nat n) /\ kapp k s' = Some res.
Proof.
  intros Hb. induction fuel as [|f fuel IH]; intros cnt last i p rest c res Hmax H; cbn [loop] in H; [discriminate|].
  assert (More : forall last' res', max_ok mxx mn (cnt + 1) ->
     mb (fun j p' r' c' => loop mb k g mn mxx fuel (cnt + 1) last' j p' r' c') i p rest c = Some res' ->
     exists n s', iterR (mx b) n (mkSt i p rest c) s' /\ mn <= cnt + N.of_nat n /\
                  max_ok mxx mn (cnt + N.of_nat n) /\ kapp k s' = Some res').
  { intros last' res' Hm1 Hx. apply Hb in Hx as (s1 & M1 & Hx). destruct s1 as [i1 p1 r1 c1]. unfold kapp in Hx. cbn in Hx.
    apply IH in Hx as (n & s' & It & Hmn & Hmx & Hk); [|exact Hm1]. exists (S n), s'.
    split; [cbn [iterR]; eauto|]. split; [lia|].
    split; [replace (cnt + N.of_nat (S n)) with (cnt + 1 + N.of_nat n) by lia; exact Hmx|exact Hk]. }
  assert (Stop : forall res', cnt <? mn = false -> k i p rest c = Some res' ->
     exists n s', iterR (mx b) n (mkSt i p rest c) s' /\ mn <= cnt + N.of_nat n /\
                  max_ok mxx mn (cnt + N.of_nat n) /\ kapp k s' = Some res').
  { intros res' E Hk. apply N.ltb_ge in E. exists O, (mkSt i p rest c). split; [reflexivity|].
    split; [simpl; lia|]. split; [rewrite N.add_0_r; exact Hmax|exact Hk]. }
  assert (Mless : cnt <? mn = true -> max_ok mxx mn (cnt + 1)).
  { intros E. apply N.ltb_lt in E. unfold max_ok. destruct mxx; [lia|exact Logic.I]. }
  assert (Mmore : more_ok mxx cnt = true -> max_ok mxx mn (cnt + 1)).
  { unfold more_ok, max_ok. destruct mxx; [|intros; exact Logic.I]. intros E. apply N.ltb_lt in E. lia. }
  destruct (cnt <? mn) eqn:E.
  - eapply More; eauto.
  - destruct g.
    + destruct (more_ok mxx cnt) eqn:Emo; cbn [andb] in H.
      * destruct (negb (same_pos last i)).
        -- destruct (mb _ i p rest c) eqn:Em.
           ++ inversion H; subst. eapply More; eauto.
           ++ eapply Stop; eauto.
        -- eapply Stop; eauto.
      * eapply Stop; eauto.
    + destruct (k i p rest c) eqn:Ek.
      * inversion H; subst. eapply Stop; eauto.
      * destruct (more_ok mxx cnt) eqn:Emo; cbn [andb] in H; [|discriminate].
        destruct (negb (same_pos last i)); [|discriminate]. eapply More; eauto.
Qed.

Lemma loop_completeX b mb k g mn mxx : nullable b = false -> completeX b mb ->
  forall n s s', iterR (mx b) n s s' -> forall fuel cnt last,
    mn <= cnt + N.of_nat n -> max_ok mxx mn (cnt + N.of_nat n) ->
    (length (st_rest s) + 1 + (N.to_nat mn - N.to_nat cnt) <= length fuel)%nat ->
    (forall l, last = Some l -> l < st_i s) ->
    kapp k s' <> None ->
    loop mb k g mn mxx fuel cnt last (st_i s) (st_p s) (st_rest s) (st_c s) <> None.
Proof.
  intros Hnn Hb. induction n as [|n IH]; intros s s' Hi fuel cnt last Hmn Hmx Hf Hlast Hk; cbn [iterR] in Hi.
  - subst s'. destruct fuel as [|f fuel]; [simpl in Hf; lia|]. cbn [loop].
    replace (cnt <? mn) with false by (symmetry; apply N.ltb_ge; lia).
    unfold kapp in Hk. destruct g.
    + destruct (if more_ok mxx cnt && negb (same_pos last (st_i s)) then _ else None); [discriminate|exact Hk].
    + destruct (k (st_i s) (st_p s) (st_rest s) (st_c s)); [discriminate|congruence].
  - destruct Hi as (s1 & H1 & Hi). destruct fuel as [|f fuel]; [simpl in Hf; lia|]. cbn [loop].
    destruct (nonnull_moves _ _ _ (mx_Matches _ _ _ H1) Hnn) as [Hpos Hlen].
    assert (Step : forall last', (forall l, last' = Some l -> l < st_i s1) ->
              mb (fun j p' r' c' => loop mb k g mn mxx fuel (cnt + 1) last' j p' r' c')
                 (st_i s) (st_p s) (st_rest s) (st_c s) <> None).
    { intros last' Hl'. apply (Hb _ s s1 H1). unfold kapp.
      apply (IH s1 s' Hi fuel (cnt + 1) last'); [lia| |simpl in Hf; lia|exact Hl'|exact Hk].
      replace (cnt + 1 + N.of_nat n) with (cnt + N.of_nat (S n)) by lia. exact Hmx. }
    destruct (cnt <? mn) eqn:E.
    + apply Step. intros l Hl. apply Hlast in Hl. lia.
    + apply N.ltb_ge in E.
      assert (Emo : more_ok mxx cnt = true).
      { unfold more_ok, max_ok in *. destruct mxx as [x|]; [|reflexivity]. apply N.ltb_lt. lia. }
      assert (Esp : same_pos last (st_i s) = false).
      { unfold same_pos. destruct last as [l|]; [|reflexivity]. apply N.eqb_neq. specialize (Hlast l eq_refl). lia. }
      rewrite Emo, Esp. cbn [andb negb].
      assert (St : mb (fun j p' r' c' => loop mb k g mn mxx fuel (cnt + 1) (Some (st_i s)) j p' r' c')
                      (st_i s) (st_p s) (st_rest s) (st_c s) <> None).
      { apply Step. intros l Hl. inversion Hl; subst. exact Hpos. }
      destruct g.
      * destruct (mb _ (st_i s) (st_p s) (st_rest s) (st_c s)); [discriminate|congruence].
      * destruct (k (st_i s) (st_p s) (st_rest s) (st_c s)); [discriminate|exact St].
Qed.

Lemma loop_completeX_opt b mb k g mn mxx : opt1 mn mxx = true -> completeX b mb ->
  forall n s s', iterR (mx b) n s s' -> forall fuel,
    mn <= N.of_nat n -> max_ok mxx mn (N.of_nat n) -> (2 <= length fuel)%nat -> kapp k s' <> None ->
    loop mb k g mn mxx fuel 0 None (st_i s) (st_p s) (st_rest s) (st_c s) <> None.
Proof.
  intros Hopt Hb n s s' Hi fuel Hmn Hmx Hf Hk.
  unfold opt1 in Hopt. destruct mxx as [[|[| |]]|]; try discriminate. apply N.leb_le in Hopt.
  unfold max_ok in Hmx.
  destruct fuel as [|f1 [|f2 fuel]]; try (simpl in Hf; lia).
  (* the loop after one iteration: nothing more is tried *)
  assert (After : forall s1 last, kapp k s1 <> None ->
            loop mb k g mn (Some 1) (f2 :: fuel) (0 + 1) last (st_i s1) (st_p s1) (st_rest s1) (st_c s1) <> None).
  { intros s1 last Hk1. cbn [loop]. replace (0 + 1 <? mn) with false by (symmetry; apply N.ltb_ge; lia).
    cbn [more_ok]. replace (0 + 1 <? 1) with false by reflexivity. cbn [andb]. unfold kapp in Hk1.
    destruct g; [exact Hk1|]. destruct (k (st_i s1) (st_p s1) (st_rest s1) (st_c s1)); [discriminate|congruence]. }
  destruct n as [|[|n]]; cbn [iterR] in Hi.
  - subst s'. cbn [loop]. replace (0 <? mn) with false by (symmetry; apply N.ltb_ge; lia). unfold kapp in Hk.
    destruct g.
    + destruct (if more_ok (Some 1) 0 && negb (same_pos None (st_i s)) then _ else None); [discriminate|exact Hk].
    + destruct (k (st_i s) (st_p s) (st_rest s) (st_c s)); [discriminate|congruence].
  - destruct Hi as (s1 & H1 & ->).
    assert (St : forall last, mb (fun j p' r' c' => loop mb k g mn (Some 1) (f2 :: fuel) (0 + 1) last j p' r' c')
                                 (st_i s) (st_p s) (st_rest s) (st_c s) <> None).
    { intros last. apply (Hb _ s s1 H1). unfold kapp. apply After. exact Hk. }
    cbn [loop]. destruct (0 <? mn); [apply St|]. cbn [more_ok same_pos andb negb]. replace (0 <? 1) with true by reflexivity. cbn [andb].
    destruct g.
    + specialize (St (Some (st_i s))). destruct (mb _ (st_i s) (st_p s) (st_rest s) (st_c s)); [discriminate|congruence].
    + destruct (k (st_i s) (st_p s) (st_rest s) (st_c s)); [discriminate|apply St].
  - exfalso. lia.
Qed.

Lemma mx_nogroups r s s' : mx r s s' -> nogroups r = true -> st_c s' = st_c s.
Proof. intros H. apply mx_Matches in H. exact (proj1 nogroups_caps _ _ _ H). Qed.

Theorem exec_exact r : wf_exact r = true -> soundX r (exec r) /\ completeX r (exec r).
Proof.
  induction r; intros Hwf; cbn [wf_exact] in Hwf;
    try (apply andb_prop in Hwf as [Hwf1 Hwf2]).
  - (* eps *) split.
    + intros k i p rest c res H. cbn [exec] in H. eexists; split; [reflexivity|exact H].
    + intros k s s' H Hk. cbn [mx] in H. subst. exact Hk.
  - (* set *) split.
    + intros k i p rest c res H. cbn [exec] in H. destruct rest as [|x t]; [discriminate|].
      destruct (set_match neg items x) eqn:E; [|discriminate].
      eexists; split; [exists x, t; cbn; auto|exact H].
    + intros k s s' H Hk. cbn [mx] in H. destruct H as (x & t & Hr & Hm & ->). cbn [exec]. rewrite Hr, Hm. exact Hk.
  - (* any *) split.
    + intros k i p rest c res H. cbn [exec] in H. destruct rest as [|x t]; [discriminate|].
      destruct (dotall || negb (x =? 10)) eqn:E; [|discriminate].
      eexists; split; [exists x, t; cbn; auto|exact H].
    + intros k s s' H Hk. cbn [mx] in H. destruct H as (x & t & Hr & Hm & ->). cbn [exec]. rewrite Hr, Hm. exact Hk.
  - (* seq *) destruct (IHr1 Hwf1) as [S1 C1]. destruct (IHr2 Hwf2) as [S2 C2]. split.
    + intros k i p rest c res H. cbn [exec] in H.
      apply S1 in H as (s1 & M1 & H). destruct s1 as [i1 p1 r1' c1]. unfold kapp in H; cbn in H.
      apply S2 in H as (s2 & M2 & H). exists s2. split; [exists (mkSt i1 p1 r1' c1); auto|exact H].
    + intros k s s' H Hk. cbn [mx] in H. destruct H as (s2 & H1 & H2). cbn [exec].
      apply (C1 _ s s2 H1). unfold kapp. apply (C2 _ s2 s' H2 Hk).
  - (* alt *) destruct (IHr1 Hwf1) as [S1 C1]. destruct (IHr2 Hwf2) as [S2 C2]. split.
    + intros k i p rest c res H. cbn [exec] in H. destruct (exec r1 k i p rest c) eqn:E1.
      * inversion H; subst. apply S1 in E1 as (s1 & M1 & Hk). exists s1. split; [left; exact M1|exact Hk].
      * apply S2 in H as (s1 & M1 & Hk). exists s1. split; [right; exact M1|exact Hk].
    + intros k s s' H Hk. cbn [mx] in H. cbn [exec].
      destruct (exec r1 k (st_i s) (st_p s) (st_rest s) (st_c s)) eqn:E1; [discriminate|].
      destruct H as [H|H]; [exfalso; exact (C1 _ s s' H Hk E1)|apply (C2 _ s s' H Hk)].
  - (* repetition *) destruct (IHr Hwf2) as [S1 C1]. split.
    + intros k i p rest c res H. cbn [exec] in H.
      eapply (loop_soundX r) in H; [|exact S1|unfold max_ok; destruct mx0; [lia|exact Logic.I]].
      destruct H as (n & s' & It & Hmn & Hmx & Hk). exists s'. split; [|exact Hk].
      exists n. split; [exact It|]. split; [lia|]. rewrite N.add_0_l in Hmx. exact Hmx.
    + intros k s s' H Hk. cbn [mx] in H. destruct H as (n & It & Hmn & Hmx). cbn [exec].
      apply orb_prop in Hwf1 as [Hwf1|Hwf1].
      2:{ apply (loop_completeX_opt r (exec r) k greedy mn mx0 Hwf1 C1 n s s' It); [exact Hmn|exact Hmx| |exact Hk].
          unfold rep_fuel. rewrite app_length, repeat_length. generalize (N.to_nat mn). intros q. lia. }
      apply negb_true_iff in Hwf1.
      apply (loop_completeX r (exec r) k greedy mn mx0 Hwf1 C1 n s s' It); [lia|rewrite N.add_0_l; exact Hmx| |intros l Hl; discriminate|exact Hk].
      unfold rep_fuel. rewrite app_length, repeat_length. change (N.to_nat 0) with O. generalize (N.to_nat mn). intros q. match goal with |- (?a + 1 + _ <= _ + ?b)%nat => change b with a; generalize a end. intros a. lia.
  - (* group *) destruct (IHr Hwf) as [S1 C1]. split.
    + intros k i p rest c res H. cbn [exec] in H. apply S1 in H as (s1 & M1 & H). unfold kapp in H. cbn in H.
      eexists. split; [exists s1; split; [exact M1|reflexivity]|]. exact H.
    + intros k s s' H Hk. cbn [mx] in H. destruct H as (s1 & H1 & ->). cbn [exec].
      apply (C1 _ s s1 H1). exact Hk.
  - (* look-ahead *) destruct (IHr Hwf2) as [S1 C1]. split.
    + intros k i p rest c res H. cbn [exec] in H. destruct neg.
      * destruct (exec r _ i p rest c) as [[j c']|] eqn:E; [discriminate|].
        exists (mkSt i p rest c). split; [|exact H]. cbn [mx]. split; [reflexivity|].
        intros s1 Hm. apply (C1 (fun j _ _ c' => Some (j, c')) _ _ Hm); [discriminate|exact E].
      * destruct (exec r _ i p rest c) as [[j c']|] eqn:E; [|discriminate].
        apply S1 in E as (s1 & M1 & Hk). unfold kapp in Hk. inversion Hk; subst.
        eexists. split; [cbn [mx]; exists s1; split; [exact M1|reflexivity]|]. exact H.
    + intros k s s' H Hk. cbn [mx] in H. cbn [exec]. destruct neg.
      * destruct H as [-> Hno].
        destruct (exec r _ (st_i s) (st_p s) (st_rest s) (st_c s)) as [[j c']|] eqn:E; [|exact Hk].
        apply S1 in E as (s1 & M1 & _). destruct s; exfalso; exact (Hno _ M1).
      * destruct H as (s1 & H1 & ->).
        pose proof (C1 (fun j _ _ c' => Some (j, c')) s s1 H1 ltac:(discriminate)) as Hne.
        destruct (exec r _ (st_i s) (st_p s) (st_rest s) (st_c s)) as [[j c']|] eqn:E; [|congruence].
        apply S1 in E as (s1' & M1' & Hk'). unfold kapp in Hk'. inversion Hk'; subst.
        assert (Ec : st_c s1' = st_c s1).
        { rewrite (mx_nogroups _ _ _ H1 Hwf1). destruct s. exact (mx_nogroups _ _ _ M1' Hwf1). }
        rewrite Ec. exact Hk.
  - (* back-reference *) split.
    + intros k i p rest c res H. cbn [exec] in H. destruct (cap_get n c) as [g|] eqn:Eg; [|discriminate].
      destruct (strip_prefix (cap_text g) rest p) as [[rest' p']|] eqn:E; [|discriminate].
      eexists. split; [exists g, rest', p'; cbn; auto|]. exact H.
    + intros k s s' H Hk. cbn [mx] in H. destruct H as (g & rest' & p' & Hg & Hs & ->). cbn [exec]. rewrite Hg, Hs. exact Hk.
  - (* bol *) split.
    + intros k i p rest c res H. cbn [exec] in H. exists (mkSt i p rest c). split; [split; [reflexivity|]|].
      * cbn. destruct p as [x|]; [|reflexivity]. cbn. destruct (multiline && (x =? 10)); [reflexivity|discriminate].
      * destruct p as [x|]; [destruct (multiline && (x =? 10)); [|discriminate]|]; exact H.
    + intros k s s' H Hk. cbn [mx] in H. destruct H as [-> Hb]. cbn [exec]. unfold bol_ok in Hb. unfold kapp in Hk.
      destruct (st_p s) as [x|]; [rewrite Hb|]; exact Hk.
  - (* eol *) split.
    + intros k i p rest c res H. cbn [exec] in H. exists (mkSt i p rest c). split; [split; [reflexivity|]|].
      * cbn. destruct rest as [|x t]; [reflexivity|]. cbn.
        destruct ((x =? 10) && (multiline || match t with [] => true | _ => false end)); [reflexivity|discriminate].
      * destruct rest as [|x t]; [exact H|].
        destruct ((x =? 10) && (multiline || match t with [] => true | _ => false end)); [exact H|discriminate].
    + intros k s s' H Hk. cbn [mx] in H. destruct H as [-> Hb]. cbn [exec]. unfold eol_ok in Hb. unfold kapp in Hk.
      destruct (st_rest s) as [|x t]; [exact Hk|]. rewrite Hb. exact Hk.
  - (* word boundary *) split.
    + intros k i p rest c res H. cbn [exec] in H. exists (mkSt i p rest c). split; [split; [reflexivity|]|].
      * cbn. unfold wordb_ok. destruct (_ && xorb neg _); [reflexivity|discriminate].
      * destruct (_ && xorb neg _); [exact H|discriminate].
    + intros k s s' H Hk. cbn [mx] in H. destruct H as [-> Hb]. cbn [exec]. unfold wordb_ok in Hb. rewrite Hb. exact Hk.
Qed.

(* ---- match / search level ---- *)
Theorem match_at_iff r i p rest : wf_exact (re_ast r) = true ->
  (match_at r i p rest <> None <-> exists s', mx (re_ast r) (mkSt i p rest []) s').
Proof.
  intros Hwf. destruct (exec_exact _ Hwf) as [S C]. unfold match_at. split.
  - intros H. destruct (exec (re_ast r) kfinal i p rest []) as [res|] eqn:E; [|cbn in H; congruence].
    apply S in E as (s' & M & _). eauto.
  - intros (s' & M) H. apply (C kfinal _ _ M); [discriminate|].
    cbn. destruct (exec (re_ast r) kfinal i p rest []); [discriminate|reflexivity].
Qed.

Fixpoint last_of (p : option char) (w : str) : option char :=
  match w with [] => p | x :: t => last_of (Some x) t end.

Lemma search_from_complete r : forall pre i p rest, match_at r (i + lenN pre) (last_of p pre) rest <> None ->
  search_from r i p (pre ++ rest) <> None.
Proof.
  induction pre as [|x pre IH]; intros i p rest H.
  - cbn [app lenN last_of] in *. rewrite N.add_0_r in H. destruct rest; cbn [search_from]; destruct (match_at r i p _); congruence.
  - cbn [app search_from]. destruct (match_at r i p (x :: pre ++ rest)); [discriminate|].
    apply IH. cbn [lenN last_of] in H. replace (i + 1 + lenN pre) with (i + N.succ (lenN pre)) by lia. exact H.
Qed.

Theorem re_search_complete r pre rest s' : wf_exact (re_ast r) = true ->
  mx (re_ast r) (mkSt (lenN pre) (last_of None pre) rest []) s' -> re_search r (pre ++ rest) <> None.
Proof.
  intros Hwf M. unfold re_search. apply search_from_complete. rewrite N.add_0_l.
  apply (proj2 (match_at_iff r _ _ _ Hwf)). eauto.
Qed.

Theorem re_search_sound r text m : wf_exact (re_ast r) = true -> re_search r text = Some m ->
  exists pre rest s', text = pre ++ rest /\ m_start m = lenN pre /\ mx (re_ast r) (mkSt (lenN pre) (last_of None pre) rest []) s' /\
                      m_end m = st_i s' /\ m_groups m = Some (takeN (st_i s' - lenN pre) rest) :: group_list (re_groups r) (st_c s') [].
Proof.
  intros Hwf. destruct (exec_exact _ Hwf) as [S _]. unfold re_search.
  assert (G : forall rest pre p, p = last_of None pre -> search_from r (lenN pre) p rest = Some m ->
     exists pre' rest' s', pre ++ rest = pre' ++ rest' /\ m_start m = lenN pre' /\
       mx (re_ast r) (mkSt (lenN pre') (last_of None pre') rest' []) s' /\
       m_end m = st_i s' /\ m_groups m = Some (takeN (st_i s' - lenN pre') rest') :: group_list (re_groups r) (st_c s') []).
  { induction rest as [|x t IH]; intros pre p Hp H; cbn [search_from] in H.
    - destruct (match_at r (lenN pre) p []) eqn:E; [|discriminate]. inversion H; subst m0. unfold match_at in E.
      destruct (exec (re_ast r) kfinal (lenN pre) p [] []) as [[e c]|] eqn:Ex; [|discriminate].
      apply S in Ex as (s' & M & Hk). unfold kapp, kfinal in Hk. inversion Hk; subst e c.
      cbn in E. inversion E; subst m. exists pre, [], s'. subst p. cbn. auto.
    - destruct (match_at r (lenN pre) p (x :: t)) eqn:E.
      + inversion H; subst m0. unfold match_at in E.
        destruct (exec (re_ast r) kfinal (lenN pre) p (x :: t) []) as [[e c]|] eqn:Ex; [|discriminate].
        apply S in Ex as (s' & M & Hk). unfold kapp, kfinal in Hk. inversion Hk; subst e c.
        cbn in E. inversion E; subst m. exists pre, (x :: t), s'. subst p. cbn. auto.
      + specialize (IH (pre ++ [x]) (Some x)). rewrite lenN_app in IH. cbn [lenN] in IH.
        replace (lenN pre + N.succ 0) with (lenN pre + 1) in IH by lia.
        destruct IH as (pre' & rest' & s' & Hs & Hrest); [|exact H|].
        * clear. revert x. generalize (@None char). induction pre as [|y pre IH]; intros o x; [reflexivity|]. cbn. apply IH.
        * exists pre', rest', s'. rewrite <- app_assoc in Hs. split; [exact Hs|exact Hrest]. }
  intros H. destruct (G text [] None eq_refl H) as (pre & rest & s' & Hs & Hrest). exists pre, rest, s'. split; [exact Hs|exact Hrest].
Qed.


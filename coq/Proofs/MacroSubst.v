(* C11, the functional core: in text that holds no other brace or backslash, a simple invocation {name} of a defined macro
   is replaced by the macro's value, and nothing else changes.  The match that re.sub hands to the replacement callback is
   pinned down with the exact semantics of MatchExact.v: completeness shows that the invocation is found, soundness plus the
   inversion of the derivation that the match is the whole invocation with the name in group 1. *)
From Rimu Require Import Base Unicode Regex RegexSem RegexAnalysis RegexParse Str Types Tables Guards State Inline
  MatchLemmas MatchExact ScanLemmas Plain.
From Coq Require Import Lia.
Local Open Scope monad_scope.

(* ---- the simple-invocation pattern on an invocation ---- *)
Definition name_set : list citem :=
  match re_ast re_macros_render_1 with
  | RSeq _ (RSeq _ (RSeq (RGrp _ (RRep _ _ _ (RSet false items))) _)) => items
  | _ => []
  end.

Lemma simple_shape : re_ast re_macros_render_1 =
  RSeq (RRep true 0 (Some 1) (RLit 92)) (RSeq (RLit 123) (RSeq (RGrp 1 (RRep true 1 None (RSet false name_set)))
       (RSeq (RGrp 2 REps) (RLit 125)))) /\ set_match false name_set 125 = false /\ re_groups re_macros_render_1 = 2%nat.
Proof. repeat split; reflexivity. Qed.

Definition name_ok (name : str) : Prop := name <> [] /\ forall x, In x name -> set_match false name_set x = true.

(* the state every derivation of the simple pattern reaches on {name}post *)
Definition inv_final (i : N) (name post : str) : mst :=
  mkSt (i + 1 + lenN name + 1) (Some 125) post
       [(2%nat, {| c_s := i + 1 + lenN name; c_e := i + 1 + lenN name; c_txt := 125 :: post |});
        (1%nat, {| c_s := i + 1; c_e := i + 1 + lenN name; c_txt := name ++ 125 :: post |})].

Lemma simple_derivation i p name post s' : name_ok name ->
  mx (re_ast re_macros_render_1) (mkSt i p (123 :: name ++ 125 :: post) []) s' <-> s' = inv_final i name post.
Proof.
  intros [Hne Hname]. destruct simple_shape as (Sh & H125 & _). rewrite Sh. cbn [mx]. split.
  - intros (s1 & (n & Hbs & _ & _) & s2 & (x & t & Hr & Hx & ->) & s3 & (s3' & (k & Hit & Hk & _) & ->) & s4 & (s4' & -> & ->) & (y & t5 & Hr5 & Hy & ->)).
    assert (s1 = mkSt i p (123 :: name ++ 125 :: post) []).
    { destruct n as [|n]; [exact Hbs|]. exfalso. cbn [iterR mx] in Hbs. destruct Hbs as (sx & (z & tz & Hrz & Hz & _) & _).
      apply lit_match in Hz. subst z. cbn in Hrz. inversion Hrz. }
    subst s1. cbn [st_rest st_i st_p st_c] in *. inversion Hr; subst x t. clear Hr Hx.
    apply iter_set_run in Hit as (u & Eu & Hu & Hc & Hi & Hp & Hl). cbn [st_rest st_i st_p st_c] in *.
    apply lit_match in Hy. subst y. rewrite Hr5 in Eu.
    destruct (run_unique (set_match false name_set) 125 H125 name u post t5 Hname Hu Eu) as [-> ->].
    unfold inv_final. rewrite Hi, Hc, Hr5. reflexivity.
  - intros ->. unfold inv_final.
    exists (mkSt i p (123 :: name ++ 125 :: post) []). split; [exists O; cbn; repeat split; lia|].
    exists (mkSt (i + 1) (Some 123) (name ++ 125 :: post) []). split; [exists 123, (name ++ 125 :: post); cbn; auto|].
    exists (mkSt (i + 1 + lenN name) (last_of (Some 123) name) (125 :: post)
                 [(1%nat, {| c_s := i + 1; c_e := i + 1 + lenN name; c_txt := name ++ 125 :: post |})]). split.
    + exists (mkSt (i + 1 + lenN name) (last_of (Some 123) name) (125 :: post) []). split; [|reflexivity].
      exists (length name). split; [apply iter_set_intro; exact Hname|]. split; [|exact Logic.I].
      destruct name; [congruence|]. cbn [length]. lia.
    + exists (mkSt (i + 1 + lenN name) (last_of (Some 123) name) (125 :: post)
                   [(2%nat, {| c_s := i + 1 + lenN name; c_e := i + 1 + lenN name; c_txt := 125 :: post |});
                    (1%nat, {| c_s := i + 1; c_e := i + 1 + lenN name; c_txt := name ++ 125 :: post |})]).
      split; [eexists; split; reflexivity|]. exists 125, post. cbn. auto.
Qed.

Lemma simple_match i p name post : name_ok name ->
  exists m, match_at re_macros_render_1 i p (123 :: name ++ 125 :: post) = Some m /\
    m_start m = i /\ m_end m = i + lenN (123 :: name ++ [125]) /\
    m_groups m = [Some (123 :: name ++ [125]); Some name; Some []].
Proof.
  intros Hn. assert (Hwf : wf_exact (re_ast re_macros_render_1) = true) by (vm_compute; reflexivity).
  destruct (exec_exact _ Hwf) as [S C].
  assert (Hex : match_at re_macros_render_1 i p (123 :: name ++ 125 :: post) <> None).
  { apply (proj2 (match_at_iff _ _ _ _ Hwf)). exists (inv_final i name post). apply simple_derivation; auto. }
  unfold match_at in *. destruct (exec (re_ast re_macros_render_1) kfinal i p (123 :: name ++ 125 :: post) []) as [[e c]|] eqn:E;
    [|cbn in Hex; congruence].
  apply S in E as (s' & M & Hk). apply (simple_derivation i p name post s' Hn) in M. subst s'.
  unfold kapp, kfinal, inv_final in Hk. cbn in Hk. inversion Hk; subst e c. clear Hk.
  eexists. split; [reflexivity|]. cbn [option_map mk_mres m_start m_end m_groups]. split; [reflexivity|].
  split; [cbn [lenN]; rewrite lenN_app; cbn [lenN]; lia|].
  destruct simple_shape as (_ & _ & ->). cbn [group_list cap_get Nat.eqb option_map]. unfold cap_text. cbn [c_s c_e c_txt].
  replace (i + 1 + lenN name + 1 - i) with (lenN (123 :: name ++ [125])) by (cbn [lenN]; rewrite lenN_app; cbn [lenN]; lia).
  replace (i + 1 + lenN name - (i + 1)) with (lenN name) by lia.
  replace (i + 1 + lenN name - (i + 1 + lenN name)) with 0 by lia.
  replace (123 :: name ++ 125 :: post) with ((123 :: name ++ [125]) ++ post) by (cbn; rewrite <- app_assoc; reflexivity).
  rewrite !takeN_app_exact. cbn [takeN N.eqb]. reflexivity.
Qed.

(* ---- macros.render on a simple invocation ---- *)
Definition quiet (t : str) : Prop := (forall x, In x t -> no_macro_start x = true) /\ existsb (N.eqb 2) t = false.

Lemma quiet_first r t : In r macro_regexes -> quiet t -> forall x, In x t -> first (re_ast r) x = false.
Proof.
  intros Hr [Ht _] x Hx. apply Ht in Hx. unfold no_macro_start in Hx. rewrite forallb_forall in Hx.
  apply Hx in Hr. apply negb_true_iff in Hr. exact Hr.
Qed.

Lemma quiet_app a b : quiet a -> quiet b -> quiet (a ++ b).
Proof.
  intros [A1 A2] [B1 B2]. split.
  - intros x Hx. apply in_app_or in Hx as [Hx|Hx]; auto.
  - rewrite existsb_app. apply orb_false_iff. split; assumption.
Qed.

Theorem simple_invocation sr s pre name post value silent :
  quiet pre -> quiet post -> quiet value -> name_ok name -> getValue s name = Some value ->
  macros_render sr s (pre ++ 123 :: name ++ 125 :: post) silent = iret (pre ++ value ++ post).
Proof.
  intros Hpre Hpost Hval Hname Hget. unfold macros_render.
  assert (N1 : nullable (re_ast re_macros_render_1) = false) by (vm_compute; reflexivity).
  assert (N0 : nullable (re_ast re_macros_render_0) = false) by (vm_compute; reflexivity).
  assert (In1 : In re_macros_render_1 macro_regexes) by (right; left; reflexivity).
  assert (In0 : In re_macros_render_0 macro_regexes) by (left; reflexivity).
  destruct (simple_match (lenN pre) (last_of None pre) name post Hname) as (m & Hm & Hst & Hen & Hg).
  assert (Et : pre ++ 123 :: name ++ 125 :: post = pre ++ (123 :: name ++ [125]) ++ post)
    by (cbn; rewrite <- app_assoc; reflexivity).
  rewrite Et. unfold isub.
  assert (Hscan : re_scan re_macros_render_1 (pre ++ (123 :: name ++ [125]) ++ post) = ([(pre, m)], post)).
  { apply re_scan_one; [exact N1|exact (quiet_first _ _ In1 Hpre)|exact (quiet_first _ _ In1 Hpost)| |exact Hst|exact Hen|discriminate].
    cbn [app]. rewrite <- app_assoc. exact Hm. }
  unfold str, char in *. rewrite Hscan.
  cbn [imapM snd fst].
  assert (Hrepl : macro_repl sr s (pre ++ (123 :: name ++ [125]) ++ post) silent true m = iret value).
  { unfold macro_repl, grp0, grp_s, grp. rewrite Hg. cbn [nth starts_with N.eqb Pos.eqb andb]. rewrite Hget. reflexivity. }
  rewrite Hrepl. cbn [ibind iret concat app]. rewrite app_nil_r.
  assert (Hq : quiet (pre ++ value ++ post)) by (apply quiet_app; [exact Hpre|apply quiet_app; assumption]).
  rewrite <- app_assoc.
  rewrite (re_scan_none re_macros_render_0 _ N0 (quiet_first _ _ In0 Hq)).
  cbn [imapM ibind iret concat app]. destruct Hq as [_ H2]. rewrite H2. reflexivity.
Qed.

(* the invocation renders as the text with the value written in its place, whatever the expansion options *)
Theorem invocation_equals_substitution n s pre name post value e :
  quiet pre -> quiet post -> quiet value -> name_ok name -> getValue s name = Some value -> truthy (e_macros e) = true ->
  replaceInline_top n s (Some (pre ++ 123 :: name ++ 125 :: post)) e =
  replaceInline_top n s (Some (pre ++ value ++ post)) e.
Proof.
  intros Hpre Hpost Hval Hname Hget He. unfold replaceInline_top, replaceInline, macros_render_top. rewrite He.
  rewrite (simple_invocation _ s pre name post value false Hpre Hpost Hval Hname Hget).
  assert (Hq : quiet (pre ++ value ++ post)) by (apply quiet_app; [exact Hpre|apply quiet_app; assumption]).
  destruct Hq as [Q1 Q2].
  rewrite (macros_render_identity _ s (pre ++ value ++ post) false Q1) by (rewrite Q2; reflexivity).
  reflexivity.
Qed.

(* ---- an escaped invocation is left as written, without its backslash (C17, C11) ---- *)
Definition punct_set : list citem :=
  match re_ast re_macros_render_0 with
  | RSeq _ (RSeq _ (RSeq _ (RSeq (RGrp _ (RSeq (RSet false items) _)) _))) => items
  | _ => []
  end.

Lemma complex_shape : exists tail, re_ast re_macros_render_0 =
  RSeq (RRep true 0 (Some 1) (RLit 92)) (RSeq (RLit 123) (RSeq (RGrp 1 (RRep true 1 None (RSet false name_set)))
       (RSeq (RGrp 2 (RSeq (RSet false punct_set) tail)) (RLit 125)))).
Proof. eexists. reflexivity. Qed.

(* the name alphabet is a subset of the Latin-1 / BMP word characters: what matters here is only that none of
   backslash, the braces and the four parameter punctuation marks belongs to it *)
Lemma name_set_excludes : forallb (fun x => negb (set_match false name_set x)) [92; 123; 125; 33; 61; 124; 63] = true.
Proof. vm_compute. reflexivity. Qed.

Lemma punct_only x : set_match false punct_set x = true -> In x [33; 61; 124; 63].
Proof.
  unfold punct_set. cbn. unfold set_match, in_items. cbn [existsb in_item negb xorb].
  intros H. repeat (apply orb_prop in H as [H|H]);
    try (apply andb_prop in H as [H1 H2]; apply N.leb_le in H1, H2; assert (E : x = 33 \/ x = 61 \/ x = 124 \/ x = 63) by lia;
         destruct E as [-> | [-> | [-> | ->]]]; cbn; auto 10);
    try discriminate.
Qed.

Lemma complex_no_match i p name post : name_ok name ->
  match_at re_macros_render_0 i p (123 :: name ++ 125 :: post) = None.
Proof.
  intros [Hne Hname]. assert (Hwf : wf_exact (re_ast re_macros_render_0) = true) by (vm_compute; reflexivity).
  destruct (match_at re_macros_render_0 i p (123 :: name ++ 125 :: post)) eqn:E; [exfalso|reflexivity].
  assert (Hex : match_at re_macros_render_0 i p (123 :: name ++ 125 :: post) <> None) by congruence.
  apply (proj1 (match_at_iff _ _ _ _ Hwf)) in Hex as (s' & M). destruct complex_shape as (tail & Sh). rewrite Sh in M. cbn [mx] in M.
  destruct M as (s1 & (n & Hbs & _ & _) & s2 & (x & t & Hr & Hx & ->) & s3 & (s3' & (k & Hit & Hk & _) & ->) & s4 &
                 (s4' & (s5 & (y & t5 & Hr5 & Hy & ->) & _) & _) & _).
  assert (s1 = mkSt i p (123 :: name ++ 125 :: post) []).
  { destruct n as [|n]; [exact Hbs|]. exfalso. cbn [iterR mx] in Hbs. destruct Hbs as (sx & (z & tz & Hrz & Hz & _) & _).
    apply lit_match in Hz. subst z. cbn in Hrz. inversion Hrz. }
  subst s1. cbn [st_rest st_i st_p st_c] in *. inversion Hr; subst x t. clear Hr Hx.
  apply iter_set_run in Hit as (u & Eu & Hu & _). cbn [st_rest] in *. rewrite Hr5 in Eu.
  pose proof name_set_excludes as Hex. cbn [forallb] in Hex.
  repeat match goal with H : _ && _ = true |- _ => apply andb_prop in H as [? H] end.
  repeat match goal with H : negb _ = true |- _ => apply negb_true_iff in H end.
  assert (Q125 : set_match false punct_set 125 = false).
  { destruct (set_match false punct_set 125) eqn:E5; [|reflexivity]. apply punct_only in E5. cbn in E5. intuition discriminate. }
  assert (PQ : forall z, set_match false name_set z = true -> set_match false punct_set z = false).
  { intros z Hz. destruct (set_match false punct_set z) eqn:Ez; [|reflexivity]. apply punct_only in Ez. cbn in Ez.
    destruct Ez as [<-|[<-|[<-|[<-|[]]]]]; congruence. }
  exact (run_next (set_match false name_set) (set_match false punct_set) 125 H1 Q125 PQ name u y t5 post Hname Hu Hy Eu).
Qed.

Lemma macro_first r x : In r macro_regexes -> first (re_ast r) x = true -> x = 92 \/ x = 123.
Proof.
  intros [<-|[<-|[]]]; [destruct complex_shape as (tail & ->)|rewrite (proj1 simple_shape)]; cbn [first nullable N.eqb orb andb];
    unfold set_match, in_items; cbn [existsb in_item negb xorb]; intros H;
    repeat (apply orb_prop in H as [H|H]); try discriminate;
    apply andb_prop in H as [H1 H2]; apply N.leb_le in H1, H2; lia.
Qed.

Lemma name_no_first r name : In r macro_regexes -> name_ok name -> forall x, In x name -> first (re_ast r) x = false.
Proof.
  intros Hr [_ Hn] x Hx. destruct (first (re_ast r) x) eqn:E; [|reflexivity]. apply Hn in Hx.
  pose proof name_set_excludes as Hex. cbn [forallb] in Hex.
  repeat match goal with H : _ && _ = true |- _ => apply andb_prop in H as [? H] end.
  repeat match goal with H : negb _ = true |- _ => apply negb_true_iff in H end.
  apply (macro_first r x Hr) in E as [->| ->]; congruence.
Qed.

(* a simple invocation with a backslash before it *)
Lemma escaped_match i p name post : name_ok name ->
  exists m, match_at re_macros_render_1 i p (92 :: 123 :: name ++ 125 :: post) = Some m /\
    m_start m = i /\ m_end m = i + lenN (92 :: 123 :: name ++ [125]) /\ grp0 m = 92 :: 123 :: name ++ [125].
Proof.
  intros Hn. assert (Hwf : wf_exact (re_ast re_macros_render_1) = true) by (vm_compute; reflexivity).
  destruct (exec_exact _ Hwf) as [S C]. destruct Hn as [Hne Hname]. destruct simple_shape as (Sh & H125 & Hng).
  set (fin := mkSt (i + 1 + 1 + lenN name + 1) (Some 125) post
       [(2%nat, {| c_s := i + 1 + 1 + lenN name; c_e := i + 1 + 1 + lenN name; c_txt := 125 :: post |});
        (1%nat, {| c_s := i + 1 + 1; c_e := i + 1 + 1 + lenN name; c_txt := name ++ 125 :: post |})]).
  assert (D : forall s', mx (re_ast re_macros_render_1) (mkSt i p (92 :: 123 :: name ++ 125 :: post) []) s' <-> s' = fin).
  { intros s'. rewrite Sh. cbn [mx]. split.
    - intros (s1 & (n & Hbs & _ & Hmax) & s2 & (x & t & Hr & Hx & ->) & s3 & (s3' & (k & Hit & Hk & _) & ->) & s4 & (s4' & -> & ->) & (y & t5 & Hr5 & Hy & ->)).
      assert (s1 = mkSt (i + 1) (Some 92) (123 :: name ++ 125 :: post) []).
      { destruct n as [|[|n]].
        - cbn [iterR] in Hbs. subst s1. cbn in Hr. inversion Hr; subst x. apply lit_match in Hx. discriminate.
        - cbn [iterR mx] in Hbs. destruct Hbs as (sx & (z & tz & Hrz & Hz & ->) & ->). cbn in Hrz. inversion Hrz; subst. reflexivity.
        - unfold max_ok in Hmax. lia. }
      subst s1. cbn [st_rest st_i st_p st_c] in *. inversion Hr; subst x t. clear Hr Hx.
      apply iter_set_run in Hit as (u & Eu & Hu & Hc & Hi & Hp & Hl). cbn [st_rest st_i st_p st_c] in *.
      apply lit_match in Hy. subst y. rewrite Hr5 in Eu.
      destruct (run_unique (set_match false name_set) 125 H125 name u post t5 Hname Hu Eu) as [-> ->].
      unfold fin. rewrite Hi, Hc, Hr5. reflexivity.
    - intros ->. unfold fin.
      exists (mkSt (i + 1) (Some 92) (123 :: name ++ 125 :: post) []). split.
      { exists 1%nat. split; [|split; [lia|unfold max_ok; lia]]. cbn [iterR mx].
        exists (mkSt (i + 1) (Some 92) (123 :: name ++ 125 :: post) []). split; [|reflexivity].
        exists 92, (123 :: name ++ 125 :: post). cbn. auto. }
      exists (mkSt (i + 1 + 1) (Some 123) (name ++ 125 :: post) []). split; [exists 123, (name ++ 125 :: post); cbn; auto|].
      exists (mkSt (i + 1 + 1 + lenN name) (last_of (Some 123) name) (125 :: post)
                   [(1%nat, {| c_s := i + 1 + 1; c_e := i + 1 + 1 + lenN name; c_txt := name ++ 125 :: post |})]). split.
      + exists (mkSt (i + 1 + 1 + lenN name) (last_of (Some 123) name) (125 :: post) []). split; [|reflexivity].
        exists (length name). split; [apply iter_set_intro; exact Hname|]. split; [|exact Logic.I].
        destruct name; [congruence|]. cbn [length]. lia.
      + exists (mkSt (i + 1 + 1 + lenN name) (last_of (Some 123) name) (125 :: post)
                     [(2%nat, {| c_s := i + 1 + 1 + lenN name; c_e := i + 1 + 1 + lenN name; c_txt := 125 :: post |});
                      (1%nat, {| c_s := i + 1 + 1; c_e := i + 1 + 1 + lenN name; c_txt := name ++ 125 :: post |})]).
        split; [eexists; split; reflexivity|]. exists 125, post. cbn. auto. }
  assert (Hex : match_at re_macros_render_1 i p (92 :: 123 :: name ++ 125 :: post) <> None).
  { apply (proj2 (match_at_iff _ _ _ _ Hwf)). exists fin. apply D. reflexivity. }
  unfold match_at in *. destruct (exec (re_ast re_macros_render_1) kfinal i p (92 :: 123 :: name ++ 125 :: post) []) as [[e c]|] eqn:E;
    [|cbn in Hex; congruence].
  apply S in E as (s' & M & Hk). apply D in M. subst s'.
  unfold kapp, kfinal, fin in Hk. cbn in Hk. inversion Hk; subst e c. clear Hk.
  eexists. split; [reflexivity|]. cbn [option_map mk_mres m_start m_end m_groups]. split; [reflexivity|].
  split; [cbn [lenN]; rewrite lenN_app; cbn [lenN]; lia|].
  unfold grp0, grp_s, grp. cbn [m_groups nth].
  replace (i + 1 + 1 + lenN name + 1 - i) with (lenN (92 :: 123 :: name ++ [125])) by (cbn [lenN]; rewrite lenN_app; cbn [lenN]; lia).
  replace (92 :: 123 :: name ++ 125 :: post) with ((92 :: 123 :: name ++ [125]) ++ post) by (cbn; rewrite <- app_assoc; reflexivity).
  rewrite takeN_app_exact. reflexivity.
Qed.

Theorem escaped_invocation sr s pre name post silent :
  quiet pre -> quiet post -> name_ok name ->
  macros_render sr s (pre ++ 92 :: 123 :: name ++ 125 :: post) silent = iret (pre ++ 123 :: name ++ 125 :: post).
Proof.
  intros Hpre Hpost Hname. unfold macros_render.
  assert (N1 : nullable (re_ast re_macros_render_1) = false) by (vm_compute; reflexivity).
  assert (N0 : nullable (re_ast re_macros_render_0) = false) by (vm_compute; reflexivity).
  assert (In1 : In re_macros_render_1 macro_regexes) by (right; left; reflexivity).
  assert (In0 : In re_macros_render_0 macro_regexes) by (left; reflexivity).
  destruct (escaped_match (lenN pre) (last_of None pre) name post Hname) as (m & Hm & Hst & Hen & Hg).
  assert (Et : pre ++ 92 :: 123 :: name ++ 125 :: post = pre ++ (92 :: 123 :: name ++ [125]) ++ post)
    by (cbn; rewrite <- app_assoc; reflexivity).
  rewrite Et. unfold isub.
  assert (Hscan : re_scan re_macros_render_1 (pre ++ (92 :: 123 :: name ++ [125]) ++ post) = ([(pre, m)], post)).
  { apply re_scan_one; [exact N1|exact (quiet_first _ _ In1 Hpre)|exact (quiet_first _ _ In1 Hpost)| |exact Hst|exact Hen|discriminate].
    cbn [app]. rewrite <- app_assoc. exact Hm. }
  assert (Hrepl : macro_repl sr s (pre ++ (92 :: 123 :: name ++ [125]) ++ post) silent true m = iret (123 :: name ++ [125])).
  { unfold macro_repl. rewrite Hg. reflexivity. }
  assert (Hscan0 : re_scan re_macros_render_0 (pre ++ 123 :: name ++ 125 :: post) = ([], pre ++ 123 :: name ++ 125 :: post)).
  { assert (Hh : search_from re_macros_render_0 0 None (pre ++ 123 :: name ++ 125 :: post) = None);
      [|unfold re_scan; cbn [scan_loop]; unfold str, char in *; rewrite Hh; reflexivity].
    apply (search_from_hole re_macros_render_0 N0 pre 0 None 123 (name ++ 125 :: post)).
    - exact (quiet_first _ _ In0 Hpre).
    - apply complex_no_match. exact Hname.
    - intros y Hy. apply in_app_or in Hy as [Hy|[<-|Hy]].
      + eapply name_no_first; eauto.
      + destruct (first (re_ast re_macros_render_0) 125) eqn:E5; [|reflexivity]. apply (macro_first _ _ In0) in E5. lia.
      + exact (quiet_first _ _ In0 Hpost y Hy). }
  unfold str, char in *. rewrite Hscan. cbn [imapM snd fst]. rewrite Hrepl. cbn [ibind iret concat app]. rewrite app_nil_r.
  rewrite <- app_assoc. cbn [app]. rewrite <- app_assoc. cbn [app].
  rewrite Hscan0. cbn [imapM ibind iret concat app].
  assert (H2 : existsb (N.eqb 2) (pre ++ 123 :: name ++ 125 :: post) = false).
  { rewrite existsb_app. apply orb_false_iff. split; [apply Hpre|]. cbn [existsb]. apply orb_false_iff. split; [reflexivity|].
    rewrite existsb_app. apply orb_false_iff. split; [|cbn [existsb]; apply orb_false_iff; split; [reflexivity|apply Hpost]].
    destruct (existsb (N.eqb 2) name) eqn:E2; [|reflexivity]. apply existsb_exists in E2 as (z & Hz & Ez). apply N.eqb_eq in Ez. subst z.
    pose proof (name_no_first _ name In0 Hname) as Hf. destruct Hname as [_ Hn]. apply Hn in Hz. vm_compute in Hz. discriminate. }
  rewrite H2. reflexivity.
Qed.

(* ---- an undefined macro: left as written, with exactly one diagnostic (C11, C19) ---- *)
Theorem undefined_invocation sr s pre name post :
  quiet pre -> quiet post -> name_ok name -> getValue s name = None ->
  let text := pre ++ 123 :: name ++ 125 :: post in
  macros_render sr s text false =
  Ok (text, [$"undefined macro: " ++ (123 :: name ++ [125]) ++ $": " ++ pre ++ (123 :: name ++ [125]) ++ post]).
Proof.
  intros Hpre Hpost Hname Hget text. unfold text. unfold macros_render.
  assert (N1 : nullable (re_ast re_macros_render_1) = false) by (vm_compute; reflexivity).
  assert (N0 : nullable (re_ast re_macros_render_0) = false) by (vm_compute; reflexivity).
  assert (In1 : In re_macros_render_1 macro_regexes) by (right; left; reflexivity).
  assert (In0 : In re_macros_render_0 macro_regexes) by (left; reflexivity).
  destruct (simple_match (lenN pre) (last_of None pre) name post Hname) as (m & Hm & Hst & Hen & Hg).
  assert (Et : pre ++ 123 :: name ++ 125 :: post = pre ++ (123 :: name ++ [125]) ++ post)
    by (cbn; rewrite <- app_assoc; reflexivity).
  rewrite Et. unfold isub.
  assert (Hscan : re_scan re_macros_render_1 (pre ++ (123 :: name ++ [125]) ++ post) = ([(pre, m)], post)).
  { apply re_scan_one; [exact N1|exact (quiet_first _ _ In1 Hpre)|exact (quiet_first _ _ In1 Hpost)| |exact Hst|exact Hen|discriminate].
    cbn [app]. rewrite <- app_assoc. exact Hm. }
  assert (Hrepl : macro_repl sr s (pre ++ (123 :: name ++ [125]) ++ post) false true m =
                  Ok (123 :: name ++ [125], [$"undefined macro: " ++ (123 :: name ++ [125]) ++ $": " ++ pre ++ (123 :: name ++ [125]) ++ post])).
  { unfold macro_repl, grp0, grp_s, grp. rewrite Hg. cbn [nth starts_with N.eqb Pos.eqb andb]. rewrite Hget. reflexivity. }
  assert (Hscan0 : re_scan re_macros_render_0 (pre ++ 123 :: name ++ 125 :: post) = ([], pre ++ 123 :: name ++ 125 :: post)).
  { assert (Hh : search_from re_macros_render_0 0 None (pre ++ 123 :: name ++ 125 :: post) = None);
      [|unfold re_scan; cbn [scan_loop]; unfold str, char in *; rewrite Hh; reflexivity].
    apply (search_from_hole re_macros_render_0 N0 pre 0 None 123 (name ++ 125 :: post)).
    - exact (quiet_first _ _ In0 Hpre).
    - apply complex_no_match. exact Hname.
    - intros y Hy. apply in_app_or in Hy as [Hy|[<-|Hy]].
      + eapply name_no_first; eauto.
      + destruct (first (re_ast re_macros_render_0) 125) eqn:E5; [|reflexivity]. apply (macro_first _ _ In0) in E5. lia.
      + exact (quiet_first _ _ In0 Hpost y Hy). }
  unfold str, char in *. rewrite Hscan. cbn [imapM snd fst]. rewrite Hrepl. cbn [ibind iret concat app]. rewrite app_nil_r.
  rewrite <- app_assoc. cbn [app]. rewrite <- app_assoc. cbn [app].
  rewrite Hscan0. cbn [imapM ibind iret concat app].
  assert (H2 : existsb (N.eqb 2) (pre ++ 123 :: name ++ 125 :: post) = false).
  { rewrite existsb_app. apply orb_false_iff. split; [apply Hpre|]. cbn [existsb]. apply orb_false_iff. split; [reflexivity|].
    rewrite existsb_app. apply orb_false_iff. split; [|cbn [existsb]; apply orb_false_iff; split; [reflexivity|apply Hpost]].
    destruct (existsb (N.eqb 2) name) eqn:E2; [|reflexivity]. apply existsb_exists in E2 as (z & Hz & Ez). apply N.eqb_eq in Ez. subst z.
    destruct Hname as [_ Hn]. apply Hn in Hz. vm_compute in Hz. discriminate. }
  rewrite H2. cbn [ibind iret app]. rewrite ?app_nil_r. reflexivity.
Qed.

(* ---- definition followed by invocation ---- *)
Lemma ends_with_q_false name : (forall x, In x name -> x <> 63) -> ends_with [63] name = false.
Proof.
  intros H. unfold ends_with. change (frev [63]) with [63]. rewrite frev_rev.
  assert (Hin : forall y, In y (rev name) -> In y name) by (intros y Hy; apply in_rev; exact Hy).
  unfold str, char in *. destruct (rev name) as [|y t]; [reflexivity|]. cbn [starts_with].
  assert (Hy : In y name) by (apply Hin; left; reflexivity).
  apply H in Hy. replace (63 =? y) with false; [reflexivity|]. symmetry. apply N.eqb_neq. congruence.
Qed.

Lemma name_set_q : set_match false name_set 63 = false.
Proof. vm_compute. reflexivity. Qed.


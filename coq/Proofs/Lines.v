(* C16: the reader's line splitting on the generated pattern \r\n|\r|\n is exactly
   [split_lines], and re-encoding the line terminators does not change the lines. *)
From Rimu Require Import Base Unicode Regex RegexSem RegexParse Str Types Tables Guards State Inline Block.
From Coq Require Import Lia.

Definition rx := re_io_Reader___init___0.

(* reference splitter: CR LF, CR and LF end a line *)
Fixpoint split_lines_aux (s : str) (cur : str) : list str :=
  match s with
  | [] => [frev cur]
  | 13 :: 10 :: t => frev cur :: split_lines_aux t []
  | 13 :: t => frev cur :: split_lines_aux t []
  | 10 :: t => frev cur :: split_lines_aux t []
  | x :: t => split_lines_aux t (x :: cur)
  end.
Definition split_lines (s : str) : list str := split_lines_aux s [].

Definition is_nl (x : char) : bool := (x =? 13) || (x =? 10).

Lemma range_eq c x : (c <=? x) && (x <=? c) = (x =? c).
Proof.
  destruct (x =? c) eqn:E.
  - apply N.eqb_eq in E. subst. rewrite N.leb_refl. reflexivity.
  - apply N.eqb_neq in E. destruct (c <=? x) eqn:A; destruct (x <=? c) eqn:B; auto.
    apply N.leb_le in A. apply N.leb_le in B. lia.
Qed.

(* the matcher on this pattern, position by position *)
Lemma match_at_rx i p x t :
  match_at rx i p (x :: t) =
  if x =? 13 then
    match t with
    | y :: t' => if y =? 10 then Some {| m_start := i; m_end := i + 1 + 1; m_groups := [Some [x; y]] |}
                 else Some {| m_start := i; m_end := i + 1; m_groups := [Some [x]] |}
    | [] => Some {| m_start := i; m_end := i + 1; m_groups := [Some [x]] |}
    end
  else if x =? 10 then Some {| m_start := i; m_end := i + 1; m_groups := [Some [x]] |}
  else None.
Proof.
  unfold match_at, rx, re_io_Reader___init___0.
  cbn [re_ast re_groups ralt rseq exec set_match in_items existsb in_item xorb].
  rewrite !range_eq, !orb_false_r.
  assert (T1 : forall z, takeN (i + 1 - i) (x :: z) = [x]).
  { intros z. replace (i + 1 - i) with 1 by lia. destruct z; reflexivity. }
  destruct (x =? 13) eqn:E13.
  - destruct t as [|y t'].
    + cbn [kfinal option_map mk_mres group_list]. rewrite T1. reflexivity.
    + rewrite !range_eq, !orb_false_r. destruct (y =? 10) eqn:E10.
      * cbn [kfinal option_map mk_mres group_list].
        replace (i + 1 + 1 - i) with 2 by lia.
        replace (takeN 2 (x :: y :: t')) with [x; y] by (destruct t'; reflexivity). reflexivity.
      * cbn [kfinal option_map mk_mres group_list]. rewrite T1. reflexivity.
  - destruct (x =? 10) eqn:E10.
    + cbn [kfinal option_map mk_mres group_list]. rewrite T1. reflexivity.
    + reflexivity.
Qed.

Lemma match_at_rx_nil i p : match_at rx i p [] = None.
Proof. reflexivity. Qed.

Definition nlfree (s : str) : Prop := forall c, In c s -> is_nl c = false.

Lemma is_nl_false x : is_nl x = false -> (x =? 13) = false /\ (x =? 10) = false.
Proof. unfold is_nl. intros H. apply orb_false_iff in H. exact H. Qed.

Lemma match_at_rx_p i p p' s : match_at rx i p s = match_at rx i p' s.
Proof. destruct s as [|x t]; [reflexivity|]. rewrite !match_at_rx. reflexivity. Qed.

Lemma search_from_p s : forall i p p', search_from rx i p s = search_from rx i p' s.
Proof.
  induction s as [|x t IH]; intros i p p'; cbn [search_from].
  - reflexivity.
  - rewrite (match_at_rx_p i p p'). destruct (match_at rx i p' (x :: t)); auto.
Qed.

Lemma search_nlfree s : forall i p, nlfree s -> search_from rx i p s = None.
Proof.
  induction s as [|x t IH]; intros i p H; cbn [search_from].
  - reflexivity.
  - rewrite match_at_rx. destruct (is_nl_false x (H x (or_introl eq_refl))) as [E1 E2]. rewrite E1, E2.
    apply IH. intros c Hc. apply H. right. exact Hc.
Qed.

Lemma search_prefix pre : forall i p rest, nlfree pre ->
  search_from rx i p (pre ++ rest) = search_from rx (i + lenN pre) p rest.
Proof.
  induction pre as [|x pre IH]; intros i p rest H; simpl app.
  - simpl. rewrite N.add_0_r. reflexivity.
  - cbn [search_from]. rewrite match_at_rx.
    destruct (is_nl_false x (H x (or_introl eq_refl))) as [E1 E2]. rewrite E1, E2.
    rewrite IH by (intros c Hc; apply H; right; exact Hc).
    simpl lenN. replace (i + 1 + lenN pre) with (i + N.succ (lenN pre)) by lia.
    apply search_from_p.
Qed.

Definition lines_of (r : list (str * mres) * str) : list str := map fst (fst r) ++ [snd r].

(* one scan step at a line terminator of length k after a newline-free prefix *)
Lemma scan_step fuel pre nl t i p m :
  nlfree pre -> nl <> [] ->
  search_from rx (i + lenN pre) p (nl ++ t) = Some m ->
  m_start m = i + lenN pre -> m_end m = i + lenN pre + lenN nl ->
  lines_of (scan_loop rx (tt :: fuel) i p (pre ++ nl ++ t)) =
  pre :: lines_of (scan_loop rx fuel (i + lenN pre + lenN nl) (Some (last (takeN (lenN pre + lenN nl) (pre ++ nl ++ t)) 0)) t).
Proof.
  intros Hpre Hnl Hs Hst Hen. cbn [scan_loop]. rewrite search_prefix by exact Hpre. rewrite Hs.
  assert (Ene : (m_end m =? m_start m) = false).
  { apply N.eqb_neq. rewrite Hst, Hen. destruct nl; [contradiction|]. simpl. lia. }
  rewrite Ene.
  replace (m_start m - i) with (lenN pre) by lia.
  replace (m_end m - i) with (lenN pre + lenN nl) by lia.
  rewrite takeN_app_exact.
  rewrite dropN_app_plus.
  replace (dropN (lenN nl) (nl ++ t)) with t.
  2:{ rewrite <- (N.add_0_r (lenN nl)). rewrite dropN_app_plus. destruct t; reflexivity. }
  rewrite Hen.
  destruct (scan_loop rx fuel _ _ t) as [l tl]. reflexivity.
Qed.

Lemma frev_cons {A} (x : A) l : frev (x :: l) = frev l ++ [x].
Proof. rewrite !frev_rev. reflexivity. Qed.

Lemma nlfree_snoc pre x : nlfree pre -> is_nl x = false -> nlfree (pre ++ [x]).
Proof. intros H Hx c Hc. apply in_app_or in Hc as [Hc|[<-|[]]]; auto. Qed.

Theorem scan_is_split_lines : forall n s cur fuel i p,
  (length s <= n)%nat -> (length s < length fuel)%nat -> nlfree (frev cur) ->
  lines_of (scan_loop rx fuel i p (frev cur ++ s)) = split_lines_aux s cur.
Proof.
  induction n as [|n IH]; intros s cur fuel i p Hn Hf Hc.
  - destruct s; [|simpl in Hn; lia]. rewrite app_nil_r. destruct fuel as [|u fuel]; [simpl in Hf; lia|].
    cbn [scan_loop split_lines_aux]. rewrite search_nlfree by exact Hc. reflexivity.
  - destruct s as [|x t].
    + rewrite app_nil_r. destruct fuel as [|u fuel]; [simpl in Hf; lia|].
      cbn [scan_loop split_lines_aux]. rewrite search_nlfree by exact Hc. reflexivity.
    + destruct fuel as [|[] fuel]; [simpl in Hf; lia|].
      destruct (x =? 13) eqn:E13.
      * apply N.eqb_eq in E13. subst x.
        destruct t as [|y t'].
        -- (* CR at the end *)
           change (frev cur ++ [13]) with (frev cur ++ [13] ++ []).
           erewrite scan_step; try exact Hc; try discriminate.
           2:{ cbn [search_from app]. rewrite match_at_rx. reflexivity. }
           2:reflexivity. 2:{ simpl. lia. }
           cbn [split_lines_aux]. f_equal.
           specialize (IH [] [] fuel (i + lenN (frev cur) + lenN [13]) (Some (last (takeN (lenN (frev cur) + lenN [13]) (frev cur ++ [13] ++ [])) 0))).
           simpl app in IH. apply IH; simpl in *; try lia. intros c [].
        -- destruct (y =? 10) eqn:E10.
           ++ apply N.eqb_eq in E10. subst y.
              change (frev cur ++ 13 :: 10 :: t') with (frev cur ++ [13; 10] ++ t').
              erewrite scan_step; try exact Hc; try discriminate.
              2:{ cbn [search_from app]. rewrite match_at_rx. reflexivity. }
              2:reflexivity. 2:{ simpl. lia. }
              cbn [split_lines_aux]. f_equal.
              specialize (IH t' [] fuel (i + lenN (frev cur) + lenN [13; 10]) (Some (last (takeN (lenN (frev cur) + lenN [13; 10]) (frev cur ++ [13; 10] ++ t')) 0))).
              simpl app in IH. apply IH; simpl in *; try lia. intros c [].
           ++ change (frev cur ++ 13 :: y :: t') with (frev cur ++ [13] ++ y :: t').
              erewrite scan_step; try exact Hc; try discriminate.
              2:{ cbn [search_from app]. rewrite match_at_rx. rewrite E10. reflexivity. }
              2:reflexivity. 2:{ simpl. lia. }
              assert (Es : split_lines_aux (13 :: y :: t') cur = frev cur :: split_lines_aux (y :: t') []).
              { cbn [split_lines_aux]. destruct y as [|py]; [reflexivity|].
                destruct py as [[[|[]|]|[[]|[]|]|]|[[|[]|]|[]|]|]; try reflexivity. discriminate E10. }
              eapply eq_trans; [|symmetry; exact Es]. f_equal.
              specialize (IH (y :: t') [] fuel (i + lenN (frev cur) + lenN [13]) (Some (last (takeN (lenN (frev cur) + lenN [13]) (frev cur ++ [13] ++ y :: t')) 0))).
              simpl app in IH. apply IH; simpl in *; try lia. intros c [].
      * destruct (x =? 10) eqn:E10.
        -- apply N.eqb_eq in E10. subst x.
           change (frev cur ++ 10 :: t) with (frev cur ++ [10] ++ t).
           erewrite scan_step; try exact Hc; try discriminate.
           2:{ cbn [search_from app]. rewrite match_at_rx. reflexivity. }
           2:reflexivity. 2:{ simpl. lia. }
           cbn [split_lines_aux]. f_equal.
           specialize (IH t [] fuel (i + lenN (frev cur) + lenN [10]) (Some (last (takeN (lenN (frev cur) + lenN [10]) (frev cur ++ [10] ++ t)) 0))).
           simpl app in IH. apply IH; simpl in *; try lia. intros c [].
        -- (* an ordinary character joins the current line *)
           assert (Es : split_lines_aux (x :: t) cur = split_lines_aux t (x :: cur)).
           { cbn [split_lines_aux]. destruct x as [|px]; [reflexivity|].
             destruct px as [[[|[]|]|[[]|[]|]|]|[[|[]|]|[]|]|]; try reflexivity; try discriminate E10; try discriminate E13. }
           eapply eq_trans; [|symmetry; exact Es].
           replace (frev cur ++ x :: t) with (frev (x :: cur) ++ t) by (rewrite frev_cons, <- app_assoc; reflexivity).
           apply IH; simpl in *; try lia.
           rewrite frev_cons. apply nlfree_snoc; auto. unfold is_nl. rewrite E13, E10. reflexivity.
Qed.

(* the reader's splitting is the reference splitter *)
Theorem re_split_is_split_lines s : re_split rx s = split_lines s.
Proof.
  unfold re_split, re_scan, split_lines.
  pose proof (scan_is_split_lines (length s) s [] (tt :: units s) 0 None) as H.
  simpl app in H. unfold lines_of in H.
  destruct (scan_loop rx (tt :: units s) 0 None s) as [l tl]. apply H; auto.
  - simpl. clear. induction s; simpl; lia.
  - intros c [].
Qed.

Theorem mk_reader_spec text : mk_reader text = split_lines (blank_reserved text).
Proof. unfold mk_reader. apply re_split_is_split_lines. Qed.

(* ---- re-encoding the terminators ---- *)
(* the lines of the reader contain no line terminator *)
Lemma nlfree_frev cur : nlfree cur -> nlfree (frev cur).
Proof. intros H c Hc. apply H. rewrite frev_rev in Hc. apply in_rev. exact Hc. Qed.

Lemma split_lines_aux_nlfree : forall n s cur, (length s <= n)%nat -> nlfree cur -> Forall nlfree (split_lines_aux s cur).
Proof.
  induction n as [|n IH]; intros s cur Hn Hc.
  - destruct s; [|simpl in Hn; lia]. cbn [split_lines_aux]. constructor; [apply nlfree_frev; exact Hc|constructor].
  - destruct s as [|x t]; [cbn [split_lines_aux]; constructor; [apply nlfree_frev; exact Hc|constructor]|].
    assert (Nil : nlfree []) by (intros c []).
    destruct (x =? 13) eqn:E13.
    + apply N.eqb_eq in E13. subst x. destruct t as [|y t'].
      * cbn [split_lines_aux]. constructor; [apply nlfree_frev; exact Hc|]. constructor; [apply nlfree_frev; exact Nil|constructor].
      * destruct (y =? 10) eqn:E10.
        -- apply N.eqb_eq in E10. subst y. cbn [split_lines_aux]. constructor; [apply nlfree_frev; exact Hc|].
           apply IH; [simpl in *; lia|exact Nil].
        -- assert (Es : split_lines_aux (13 :: y :: t') cur = frev cur :: split_lines_aux (y :: t') []).
           { cbn [split_lines_aux]. destruct y as [|py]; [reflexivity|].
             destruct py as [[[|[]|]|[[]|[]|]|]|[[|[]|]|[]|]|]; try reflexivity. discriminate E10. }
           refine (eq_ind _ (fun l => Forall nlfree l) _ _ (eq_sym Es)). constructor; [apply nlfree_frev; exact Hc|]. apply IH; [simpl in *; lia|exact Nil].
    + destruct (x =? 10) eqn:E10.
      * apply N.eqb_eq in E10. subst x. cbn [split_lines_aux]. constructor; [apply nlfree_frev; exact Hc|].
        apply IH; [simpl in *; lia|exact Nil].
      * assert (Es : split_lines_aux (x :: t) cur = split_lines_aux t (x :: cur)).
        { cbn [split_lines_aux]. destruct x as [|px]; [reflexivity|].
          destruct px as [[[|[]|]|[[]|[]|]|]|[[|[]|]|[]|]|]; try reflexivity; try discriminate E10; try discriminate E13. }
        refine (eq_ind _ (fun l => Forall nlfree l) _ _ (eq_sym Es)). apply IH; [simpl in *; lia|]. intros c [<-|Hin]; [unfold is_nl; rewrite E13, E10; reflexivity|apply Hc; exact Hin].
Qed.

Theorem mk_reader_nlfree text : Forall nlfree (mk_reader text).
Proof. rewrite mk_reader_spec. unfold split_lines. eapply split_lines_aux_nlfree; [apply le_n|intros c []]. Qed.

Lemma split_aux_prefix l : forall rest cur, nlfree l ->
  split_lines_aux (l ++ rest) cur = split_lines_aux rest (rev_append l cur).
Proof.
  induction l as [|x l IH]; intros rest cur H; simpl app; simpl rev_append; [reflexivity|].
  destruct (is_nl_false x (H x (or_introl eq_refl))) as [E13 E10].
  assert (Es : split_lines_aux (x :: l ++ rest) cur = split_lines_aux (l ++ rest) (x :: cur)).
  { cbn [split_lines_aux]. destruct x as [|px]; [reflexivity|].
    destruct px as [[[|[]|]|[[]|[]|]|]|[[|[]|]|[]|]|]; try reflexivity; try discriminate E10; try discriminate E13. }
  eapply eq_trans; [exact Es|]. apply IH. intros c Hc. apply H. right. exact Hc.
Qed.

Inductive term := TLF | TCRLF | TCR.
Definition term_str (t : term) : str := match t with TLF => [10] | TCRLF => [13; 10] | TCR => [13] end.

(* lines joined with the chosen terminators; the last line has none *)
Fixpoint encode (ls : list str) (ts : list term) : str :=
  match ls with
  | [] => []
  | [l] => l
  | l :: ls' => match ts with
                | t :: ts' => l ++ term_str t ++ encode ls' ts'
                | [] => l ++ [10] ++ encode ls' []
                end
  end.

(* a CR terminator directly followed by an empty line that ends in LF would read as CR LF *)
Fixpoint unambiguous (ls : list str) (ts : list term) : Prop :=
  match ls with
  | [] | [_] => True
  | l :: ls' => match ts with
                | TCR :: ts' => (match encode ls' ts' with 10 :: _ => False | _ => True end) /\ unambiguous ls' ts'
                | _ :: ts' => unambiguous ls' ts'
                | [] => unambiguous ls' []
                end
  end.

Lemma split_aux_nil_cur_frev (l : str) : frev (rev_append l []) = l.
Proof. unfold frev. rewrite !rev_append_rev, !app_nil_r. apply rev_involutive. Qed.

Theorem split_encode : forall ls ts, ls <> [] -> Forall nlfree ls -> unambiguous ls ts ->
  split_lines (encode ls ts) = ls.
Proof.
  unfold split_lines. induction ls as [|l ls IH]; intros ts Hne Hf Hu; [contradiction|].
  inversion Hf as [|? ? Hl Hf']; subst.
  destruct ls as [|l2 ls].
  - cbn [encode]. pose proof (split_aux_prefix l [] [] Hl) as E. rewrite app_nil_r in E. rewrite E.
    cbn [split_lines_aux]. rewrite split_aux_nil_cur_frev. reflexivity.
  - assert (Step : forall tstr rest, (tstr = [10] \/ tstr = [13; 10] \/ (tstr = [13] /\ match rest with 10 :: _ => False | _ => True end)) ->
       split_lines_aux (l ++ tstr ++ rest) [] = l :: split_lines_aux rest []).
    { intros tstr rest Ht. rewrite split_aux_prefix by exact Hl.
      destruct Ht as [-> | [-> | [-> Hr]]]; cbn [app split_lines_aux]; rewrite ?split_aux_nil_cur_frev; try reflexivity.
      destruct rest as [|y r]; [reflexivity|].
      destruct y as [|py]; [reflexivity|].
      destruct py as [[[|[]|]|[[]|[]|]|]|[[|[]|]|[]|]|]; try reflexivity. contradiction. }
    destruct ts as [|t ts].
    + cbn [encode]. rewrite Step by auto. f_equal. apply (IH []); auto. discriminate.
    + cbn [encode]. destruct t; cbn [term_str].
      * rewrite Step by auto. f_equal. apply IH; auto. discriminate.
      * rewrite Step by auto. f_equal. apply IH; auto. discriminate.
      * cbn [unambiguous] in Hu. destruct Hu as [Hr Hu]. rewrite Step by auto. f_equal. apply IH; auto. discriminate.
Qed.

(* two sources with the same lines render identically, from every state and for every fuel *)
Theorem doc_render_same_lines n t1 t2 s :
  split_lines (blank_reserved t1) = split_lines (blank_reserved t2) -> doc_render n t1 s = doc_render n t2 s.
Proof.
  intros H. destruct n as [|n]; [reflexivity|]. cbn [doc_render]. rewrite !mk_reader_spec, H. reflexivity.
Qed.

Theorem api_render_same_lines n t1 t2 o s :
  split_lines (blank_reserved t1) = split_lines (blank_reserved t2) -> api_render n t1 o s = api_render n t2 o s.
Proof.
  intros H. unfold api_render, bind, gets.
  destruct (s_mode s =? -1)%Z; cbn [modify ret];
    (destruct (updateFrom o _) as [[[] s2]| |]; [apply doc_render_same_lines; exact H|reflexivity|reflexivity]).
Qed.

(* re-encoding the terminators of a reserved-free, newline-free list of lines leaves the rendering unchanged *)
Corollary render_recode n ls ts ts' o s :
  ls <> [] -> Forall nlfree ls -> unambiguous ls ts -> unambiguous ls ts' ->
  (forall l, In l ls -> blank_reserved l = l) ->
  api_render n (encode ls ts) o s = api_render n (encode ls ts') o s.
Proof.
  intros Hne Hf Hu Hu' Hb. apply api_render_same_lines.
  assert (BA : forall a b, blank_reserved (a ++ b) = blank_reserved a ++ blank_reserved b)
    by (intros; unfold blank_reserved; apply map_app).
  assert (B : forall ts0, blank_reserved (encode ls ts0) = encode ls ts0).
  { clear Hu Hu' Hne Hf. induction ls as [|l ls IH]; intros ts0; [reflexivity|].
    assert (Hl : blank_reserved l = l) by (apply Hb; left; reflexivity).
    assert (IH' : forall ts1, blank_reserved (encode ls ts1) = encode ls ts1) by (apply IH; intros; apply Hb; right; auto).
    destruct ls as [|l2 ls]; [exact Hl|].
    destruct ts0 as [|t ts0].
    - change (encode (l :: l2 :: ls) []) with (l ++ [10] ++ encode (l2 :: ls) []). rewrite !BA, Hl, IH'. reflexivity.
    - change (encode (l :: l2 :: ls) (t :: ts0)) with (l ++ term_str t ++ encode (l2 :: ls) ts0). rewrite !BA, Hl, IH'.
      destruct t; reflexivity. }
  rewrite !B. rewrite !split_encode; auto.
Qed.

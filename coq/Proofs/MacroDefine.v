(* A macro definition followed by its invocation: setValue then the simple invocation. *)
From Rimu Require Import Base Unicode Regex RegexSem RegexAnalysis RegexParse Str Types Tables Guards State Inline Block
  Frame FrameBlock FrameInst OptionsLemmas MiscLemmas MoreLemmas MatchExact MacroSubst.

Theorem define_then_invoke name value s :
  name_ok name -> name <> $"--" -> setValue_skip (s_mode s) = false ->
  exists s', macros_setValue name value s = Ok (tt, s') /\ protected s' = protected s /\
    forall sr pre post silent, quiet pre -> quiet post -> quiet value ->
      macros_render sr (ienv_of s') (pre ++ 123 :: name ++ 125 :: post) silent = iret (pre ++ value ++ post).
Proof.
  intros Hn Hne Hs. destruct (macros_setValue_spec name value s Hs) as (s' & E & Hm & Hp).
  exists s'. split; [exact E|]. split; [exact Hp|]. intros sr pre post silent Hpre Hpost Hval.
  apply simple_invocation; auto. unfold getValue, ienv_of. cbn [en_macros]. rewrite Hm. unfold setValue_table.
  rewrite (ends_with_q_false name).
  - replace (str_eqb name ($"--")) with false.
    + cbn [andb]. apply define_overrides.
    + symmetry. apply Bool.not_true_iff_false. intros Heq. apply str_eqb_eq in Heq. contradiction.
  - intros x Hx Hq. subst x. destruct Hn as [_ Hn]. apply Hn in Hx. rewrite name_set_q in Hx. discriminate.
Qed.

(* ================= the macro definition line {name}='value' ================= *)
From Rimu Require Import MatchLemmas ScanLemmas AnchoredLine Plain PlainDoc HeaderDoc.
From Coq Require Import Lia.
Local Open Scope monad_scope.

Definition mline_def : ldef := nth 1 lineblocks_defs dummy_ldef.
Definition qdef_def : ldef := nth 3 lineblocks_defs dummy_ldef.
Definition mdef_def : ldef := nth 5 lineblocks_defs dummy_ldef.
Definition mlre : cre := l_re mline_def.
Definition qdre : cre := l_re qdef_def.
Definition mdre : cre := l_re mdef_def.

Definition def_line (name value : str) : str := 123 :: name ++ 125 :: 61 :: 39 :: value ++ [39].
Definition value_ok (value : str) : Prop := forall x, In x value -> x <> 10.

Definition spset : list citem := [ICat CatSpace false].
Definition optset : list citem := [IRange 33 33; IRange 61 61; IRange 124 124; IRange 63 63].

Lemma mlre_shape : exists opt,
  re_ast mlre = RSeq (RBol false) (RSeq (RGrp 1 (RSeq (RLit 123) (RSeq (RRep true 1 None (RSet false name_set))
                    (RSeq (RRep true 0 (Some 1) opt) (RLit 125)))))
                    (RSeq (RRep true 0 None (RAny false)) (REol false))) /\
  wf_exact (re_ast mlre) = true /\ ends_eol (match re_ast mlre with RSeq _ r' => r' | r => r end) = true /\
  bref_free (re_ast mlre) = true.
Proof. eexists. repeat split; reflexivity. Qed.

Ltac mx_lit := cbn [mx]; eexists; eexists; cbn [st_rest st_i st_p st_c]; split; [reflexivity|split; [reflexivity|reflexivity]].
Ltac mx_zero := exists O; split; [reflexivity|split; [cbn; lia|unfold max_ok; cbn; try lia; try exact Logic.I]].

Lemma name_len name : name_ok name -> (1 <= N.of_nat (length name)).
Proof. intros [Hne _]. destruct name; [congruence|cbn [length]; lia]. Qed.

Lemma def_line_no_nl name value : name_ok name -> value_ok value -> forall x, In x (def_line name value) -> x <> 10.
Proof.
  intros [_ Hn] Hv x Hx. unfold def_line in Hx. destruct Hx as [<-|Hx]; [discriminate|].
  apply in_app_or in Hx as [Hx|[<-|[<-|[<-|Hx]]]]; try discriminate.
  - intros ->. apply Hn in Hx. vm_compute in Hx. discriminate.
  - apply in_app_or in Hx as [Hx|[<-|[]]]; [auto|discriminate].
Qed.

Lemma mline_exists name value : name_ok name -> value_ok value ->
  exists s', mx (re_ast mlre) (mkSt 0 None (def_line name value) []) s'.
Proof.
  intros Hn Hv. destruct mlre_shape as (opt & Sh & _). rewrite Sh. unfold def_line. eexists. cbn [mx].
  eexists. split; [split; reflexivity|].
  eexists. split.
  { eexists. split; [|reflexivity].
    eexists. split; [mx_lit|].
    eexists. split; [exists (length name); split; [apply iter_set_intro; exact (proj2 Hn)|split; [apply name_len; exact Hn|exact Logic.I]]|].
    eexists. split; [mx_zero|]. mx_lit. }
  cbn [st_i st_p st_rest st_c].
  eexists. split.
  { exists (length (61 :: 39 :: value ++ [39])). split; [|split; [lia|exact Logic.I]].
    rewrite <- (app_nil_r (61 :: 39 :: value ++ [39])) at 2. apply iter_any_intro.
    intros x [<-|[<-|Hx]]; try discriminate. apply in_app_or in Hx as [Hx|[<-|[]]]; [auto|discriminate]. }
  split; reflexivity.
Qed.

Lemma grp0_of_groups m L : nth_error (m_groups m) 0 = Some (Some L) -> grp0 m = L.
Proof. unfold grp0, grp_s, grp. destruct (m_groups m) as [|g t]; cbn; [discriminate|]. intros H. inversion H. reflexivity. Qed.

Lemma mline_match name value : name_ok name -> value_ok value ->
  exists m, re_search mlre (def_line name value) = Some m /\ grp0 m = def_line name value.
Proof.
  intros Hn Hv. destruct mlre_shape as (opt & Sh & Hwf & He & Hb). destruct (mline_exists name value Hn Hv) as (s' & M).
  assert (Hex : match_at mlre 0 None (def_line name value) <> None) by (apply (proj2 (match_at_iff _ _ _ _ Hwf)); eauto).
  destruct (match_at mlre 0 None (def_line name value)) as [m|] eqn:E; [|congruence].
  exists m. pose proof (search_of_match_at _ _ _ _ _ E) as Hs. split; [exact Hs|].
  apply grp0_of_groups. rewrite Sh in He, Hb. cbn [bref_free andb] in Hb.
  eapply anchored_grp0; [exact Hwf|exact Sh|exact He|exact Hb|apply def_line_no_nl; auto|exact Hs].
Qed.

(* the definition-opening pattern, which makes verify() reject the macro-line block for this line *)
Lemma defopen_shape :
  re_ast re_macros_DEF_OPEN =
    RSeq (RBol false) (RSeq (RRep true 0 (Some 1) (RLit 92)) (RSeq (RLit 123) (RSeq (RRep true 1 None (RSet false name_set))
      (RSeq (RRep true 0 (Some 1) (RLit 63)) (RSeq (RLit 125) (RSeq (RRep true 0 None (RSet false spset)) (RSeq (RLit 61)
      (RSeq (RRep true 0 None (RSet false spset)) (RSeq (RLit 39) (RSeq (RGrp 1 (RRep true 0 None (RAny false))) (REol false))))))))))) /\
  wf_exact (re_ast re_macros_DEF_OPEN) = true.
Proof. split; reflexivity. Qed.

Lemma defopen_found name value : name_ok name -> value_ok value ->
  re_search re_macros_DEF_OPEN (def_line name value) <> None.
Proof.
  intros Hn Hv. destruct defopen_shape as (Sh & Hwf).
  apply (re_search_complete re_macros_DEF_OPEN [] (def_line name value)
           (mkSt (0 + 1 + lenN name + 1 + 1 + 1 + lenN (value ++ [39])) (last_of (Some 39) (value ++ [39])) []
                 [(1%nat, {| c_s := 0 + 1 + lenN name + 1 + 1 + 1; c_e := 0 + 1 + lenN name + 1 + 1 + 1 + lenN (value ++ [39]); c_txt := value ++ [39] |})]) Hwf).
  rewrite Sh. unfold def_line. cbn [lenN last_of mx].
  eexists. split; [split; reflexivity|].
  eexists. split; [mx_zero|].
  eexists. split; [mx_lit|].
  eexists. split; [exists (length name); split; [apply iter_set_intro; exact (proj2 Hn)|split; [apply name_len; exact Hn|exact Logic.I]]|].
  eexists. split; [mx_zero|].
  eexists. split; [mx_lit|].
  eexists. split; [mx_zero|].
  eexists. split; [mx_lit|].
  eexists. split; [mx_zero|].
  eexists. split; [mx_lit|].
  cbn [st_i st_p st_rest st_c].
  eexists. split.
  { eexists. split; [|reflexivity].
    exists (length (value ++ [39])). split; [|split; [lia|exact Logic.I]].
    rewrite <- (app_nil_r (value ++ [39])) at 2. apply iter_any_intro.
    intros x Hx. apply in_app_or in Hx as [Hx|[<-|[]]]; [auto|discriminate]. }
  cbn [st_i st_p st_rest st_c]. split; reflexivity.
Qed.

(* ---- name characters are not blanks ---- *)
From Rimu Require Import NoRaise.

Lemma spaces_not_names : forallb (fun r => forallb (fun c => negb (set_match false name_set c)) (N_range (fst r) (snd r))) space_ranges = true.
Proof. vm_compute. reflexivity. Qed.

Lemma space_class x : set_match false spset x = in_ranges x space_ranges.
Proof. unfold set_match, in_items, spset. cbn [existsb in_item]. unfold in_cat. generalize (in_ranges x space_ranges). intros b. destruct b; reflexivity. Qed.

Lemma name_not_space x : set_match false name_set x = true -> set_match false spset x = false.
Proof.
  intros Hd. rewrite space_class. destruct (in_ranges x space_ranges) eqn:Es; [|reflexivity].
  apply in_ranges_bounds in Es as (lo & hi & Hin & Hb). pose proof spaces_not_names as T.
  rewrite forallb_forall in T. specialize (T _ Hin). cbn [fst snd] in T.
  pose proof (proj1 (forallb_forall _ _) T x (N_range_In lo hi x Hb)) as T2. cbv beta in T2. rewrite Hd in T2. discriminate.
Qed.

(* ---- an anchored pattern with no derivation at the start of the line does not match the line ---- *)
Lemma anchored_no_match (r : cre) r' L : wf_exact (re_ast r) = true -> re_ast r = RSeq (RBol false) r' ->
  (forall s', ~ mx r' (mkSt 0 None L []) s') -> re_search r L = None.
Proof.
  intros Hwf Er Hno. destruct (re_search r L) as [m|] eqn:Hs; [|reflexivity]. exfalso.
  destruct (re_search_sound r L m Hwf Hs) as (pre & rest & s' & Et & _ & M & _).
  rewrite Er in M. cbn [mx] in M. destruct M as (s2 & [-> Hbol] & M). cbn [st_p] in Hbol.
  assert (pre = []).
  { destruct pre as [|a pre] using rev_ind; [reflexivity|]. exfalso. rewrite last_of_app in Hbol. cbn in Hbol. discriminate. }
  subst pre. cbn [app lenN last_of] in *. subst rest. exact (Hno s' M).
Qed.

(* the quote-definition pattern  ^(\S{1,2})\s*=...  does not match a macro definition line *)
Lemma qdre_shape : exists ns tail,
  re_ast qdre = RSeq (RBol false) (RSeq (RGrp 1 (RRep true 1 (Some 2) (RSet false ns)))
                      (RSeq (RRep true 0 None (RSet false spset)) (RSeq (RLit 61) tail))) /\
  wf_exact (re_ast qdre) = true.
Proof. eexists _, _. split; reflexivity. Qed.

Lemma name_set_facts : set_match false name_set 61 = false /\ set_match false name_set 125 = false /\
  set_match false spset 125 = false.
Proof. repeat split; vm_compute; reflexivity. Qed.

Lemma space_run_then_lit k s s1 c s2 y t : iterR (MatchExact.mx (RSet false spset)) k s s1 -> MatchExact.mx (RLit c) s1 s2 ->
  st_rest s = y :: t -> set_match false spset y = false -> y = c.
Proof.
  intros Hit Hl Hr Hy. apply iter_set_run in Hit as (u & Eu & Hu & _). cbn [mx] in Hl. destruct Hl as (x & t' & Hr1 & Hx & _).
  apply lit_match in Hx. subst x. rewrite Hr1, Hr in Eu. destruct u as [|b u]; cbn [app] in Eu; inversion Eu; subst.
  - reflexivity.
  - rewrite Hu in Hy by (left; reflexivity). discriminate.
Qed.

Lemma qdef_nomatch name value : name_ok name -> re_search qdre (def_line name value) = None.
Proof.
  intros [Hne Hn]. destruct qdre_shape as (ns & tail & Sh & Hwf). apply (anchored_no_match qdre _ _ Hwf Sh).
  intros s' M. cbn [mx] in M.
  destruct M as (s2 & (s1 & (n & Hit & Hn1 & Hmax) & ->) & s3 & (k & Hsp & _) & s4 & Hlit & _).
  destruct name_set_facts as (H61 & H125 & Hs125).
  apply iter_set_run in Hit as (u1 & Eu1 & _ & _ & _ & _ & Hl1). cbn [st_rest] in *.
  unfold max_ok in Hmax. destruct name as [|a name']; [congruence|].
  assert (Ha : set_match false name_set a = true) by (apply Hn; left; reflexivity).
  unfold def_line in Eu1. cbn [app] in Eu1.
  destruct u1 as [|x1 [|x2 [|x3 u1]]]; cbn [length] in Hl1; try lia; cbn [app] in Eu1.
  - (* one character taken: the next one is the first name character *)
    inversion Eu1 as [[E1 E2]]. clear Eu1.
    assert (a = 61).
    { eapply (space_run_then_lit k _ s3 61 s4 a); [exact Hsp|exact Hlit|cbn [st_rest]; symmetry; exact E2|apply name_not_space; exact Ha]. }
    subst a. rewrite H61 in Ha. discriminate.
  - (* two characters taken *)
    inversion Eu1 as [[E1 E2 H0]]. clear Eu1.
    destruct name' as [|b name''].
    + cbn [app] in H0. assert (125 = 61); [|discriminate].
      eapply (space_run_then_lit k _ s3 61 s4 125); [exact Hsp|exact Hlit|cbn [st_rest]; symmetry; exact H0|exact Hs125].
    + cbn [app] in H0. assert (Hb : set_match false name_set b = true) by (apply Hn; right; left; reflexivity).
      assert (b = 61).
      { eapply (space_run_then_lit k _ s3 61 s4 b); [exact Hsp|exact Hlit|cbn [st_rest]; symmetry; exact H0|apply name_not_space; exact Hb]. }
      subst b. rewrite H61 in Hb. discriminate.
Qed.

(* ---- the macro-definition pattern on the line: every derivation ends in the same state ---- *)
Lemma mdre_shape :
  re_ast mdre =
    RSeq (RBol false) (RSeq (RRep true 0 (Some 1) (RLit 92)) (RSeq (RLit 123)
      (RSeq (RGrp 1 (RSeq (RRep true 1 None (RSet false name_set)) (RRep true 0 (Some 1) (RLit 63))))
      (RSeq (RLit 125) (RSeq (RRep true 0 None (RSet false spset)) (RSeq (RLit 61)
      (RSeq (RRep true 0 None (RSet false spset)) (RSeq (RLit 39) (RSeq (RGrp 2 (RRep true 0 None (RAny false)))
      (RSeq (RLit 39) (REol false))))))))))) /\
  wf_exact (re_ast mdre) = true /\ re_groups mdre = 2%nat /\ l_verify mdef_def = LvNone /\ l_filter mdef_def = LfMacroDef.
Proof. repeat split; reflexivity. Qed.

Lemma lit_iter_zero c n s s1 y t : iterR (MatchExact.mx (RLit c)) n s s1 -> st_rest s = y :: t -> y <> c -> s1 = s.
Proof.
  intros H Hr Hy. destruct n as [|n]; [exact H|]. exfalso. cbn [iterR mx] in H. destruct H as (sx & (z & tz & Hrz & Hz & _) & _).
  apply lit_match in Hz. subst z. rewrite Hr in Hrz. inversion Hrz. congruence.
Qed.

Lemma space_run_lit_exact k s s1 c s2 t : iterR (MatchExact.mx (RSet false spset)) k s s1 -> MatchExact.mx (RLit c) s1 s2 ->
  st_rest s = c :: t -> set_match false spset c = false -> s2 = mkSt (st_i s + 1) (Some c) t (st_c s).
Proof.
  intros Hit Hl Hr Hc. apply iter_set_run in Hit as (u & Eu & Hu & Hcc & Hi & Hp & _). cbn [mx] in Hl. destruct Hl as (x & t' & Hr1 & Hx & ->).
  apply lit_match in Hx. subst x. rewrite Hr1, Hr in Eu. destruct u as [|b u]; cbn [app] in Eu; inversion Eu; subst.
  - cbn [lenN last_of] in *. rewrite Hi, Hcc, N.add_0_r. reflexivity.
  - rewrite Hu in Hc by (left; reflexivity). discriminate.
Qed.

Definition md_final (name value : str) : mst :=
  mkSt (0 + 1 + lenN name + 1 + 1 + 1 + lenN value + 1) (Some 39) []
       [(2%nat, {| c_s := 0 + 1 + lenN name + 1 + 1 + 1; c_e := 0 + 1 + lenN name + 1 + 1 + 1 + lenN value; c_txt := value ++ [39] |});
        (1%nat, {| c_s := 0 + 1; c_e := 0 + 1 + lenN name; c_txt := name ++ 125 :: 61 :: 39 :: value ++ [39] |})].

Lemma md_derivation name value s' : name_ok name -> value_ok value ->
  MatchExact.mx (re_ast mdre) (mkSt 0 None (def_line name value) []) s' -> s' = md_final name value.
Proof.
  intros [Hne Hn] Hv M. destruct mdre_shape as (Sh & _). rewrite Sh in M. unfold def_line in M. cbn [mx] in M.
  destruct name_set_facts as (H61 & H125 & Hs125).
  destruct M as (s0 & [-> _] & s1 & (n1 & Hbs & _ & _) & s2 & (x & t & Hr & Hx & ->) &
                 s3 & (s3' & (s3a & (k & Hrun & Hk & _) & (nq & Hq & _ & Hmaxq)) & ->) &
                 s4 & Hl125 & s5 & (k1 & Hsp1 & _) & s6 & Hl61 & s7 & (k2 & Hsp2 & _) & s8 & Hl39 &
                 s9 & (s9' & (n9 & Hany & _) & ->) & s10 & Hl39b & [-> Heol]).
  eapply (lit_iter_zero 92 n1 _ s1 123) in Hbs; [|cbn [st_rest]; reflexivity|discriminate]. subst s1.
  cbn [st_rest st_i st_p st_c] in *. inversion Hr; subst x t. clear Hr Hx.
  apply iter_set_run in Hrun as (u & Eu & Hu & Hc3 & Hi3 & Hp3 & Hl3). cbn [st_rest st_i st_p st_c] in *.
  (* the optional question mark is not there *)
  assert (s3' = s3a).
  { destruct nq as [|nq]; [exact Hq|]. exfalso. cbn [iterR mx] in Hq. destruct Hq as (sx & (z & tz & Hrz & Hz & _) & _).
    apply lit_match in Hz. subst z. rewrite Hrz in Eu.
    assert (Hpq : forall y, set_match false name_set y = true -> (63 =? y) = false).
    { intros y Hy. destruct (63 =? y) eqn:E; [|reflexivity]. apply N.eqb_eq in E. subst y. rewrite name_set_q in Hy. discriminate. }
    exact (run_next (set_match false name_set) (N.eqb 63) 125 H125 eq_refl Hpq name u 63 _ _ Hn Hu eq_refl Eu). }
  subst s3'. cbn [mx] in Hl125. destruct Hl125 as (x & t & Hr & Hx & ->). cbn [st_rest st_i st_p st_c] in *.
  apply lit_match in Hx. subst x. rewrite Hr in Eu.
  destruct (run_unique (set_match false name_set) 125 H125 name u _ t Hn Hu Eu) as [-> ->].
  pose proof (space_run_lit_exact k1 _ s5 61 s6 _ Hsp1 Hl61 eq_refl eq_refl) as E6. cbn [st_rest st_i st_p st_c] in E6. subst s6.
  pose proof (space_run_lit_exact k2 _ s7 39 s8 _ Hsp2 Hl39 eq_refl eq_refl) as E8. cbn [st_rest st_i st_p st_c] in E8. subst s8.
  apply iter_any_run in Hany as (w & Ew & Hc9 & Hi9 & Hp9 & Hl9). cbn [st_rest st_i st_p st_c] in *.
  cbn [mx] in Hl39b. destruct Hl39b as (x & t & Hr9 & Hx & ->). cbn [st_rest st_i st_p st_c] in *.
  apply lit_match in Hx. subst x. rewrite Hr9 in Ew.
  assert (Ht : t = []).
  { apply eol_no_newline; [exact Heol|]. intros y Hy. assert (Hin : In y (value ++ [39])) by (rewrite Ew; apply in_or_app; right; right; exact Hy).
    apply in_app_or in Hin as [Hin|[<-|[]]]; [auto|discriminate]. }
  subst t. apply app_inj_tail in Ew as [-> _].
  unfold md_final. rewrite Hi9, Hc9, Hi3, Hc3. reflexivity.
Qed.

Lemma md_exists name value : name_ok name -> value_ok value ->
  MatchExact.mx (re_ast mdre) (mkSt 0 None (def_line name value) []) (md_final name value).
Proof.
  intros Hn Hv. destruct mdre_shape as (Sh & _). rewrite Sh. unfold def_line, md_final. cbn [mx].
  eexists. split; [split; reflexivity|].
  eexists. split; [mx_zero|].
  eexists. split; [mx_lit|].
  eexists. split.
  { eexists. split; [|reflexivity].
    eexists. split; [exists (length name); split; [apply iter_set_intro; exact (proj2 Hn)|split; [apply name_len; exact Hn|exact Logic.I]]|].
    mx_zero. }
  cbn [st_i st_p st_rest st_c].
  eexists. split; [mx_lit|].
  eexists. split; [mx_zero|].
  eexists. split; [mx_lit|].
  eexists. split; [mx_zero|].
  eexists. split; [mx_lit|].
  cbn [st_i st_p st_rest st_c].
  eexists. split.
  { eexists. split; [|reflexivity].
    exists (length value). split; [|split; [lia|exact Logic.I]]. apply iter_any_intro. exact Hv. }
  cbn [st_i st_p st_rest st_c].
  eexists. split; [mx_lit|]. cbn [st_i st_p st_rest st_c]. split; reflexivity.
Qed.

Lemma md_match name value : name_ok name -> value_ok value ->
  exists m, re_search mdre (def_line name value) = Some m /\
            m_groups m = [Some (def_line name value); Some name; Some value].
Proof.
  intros Hn Hv. destruct mdre_shape as (_ & Hwf & Hng & _). destruct (exec_exact _ Hwf) as [S C].
  assert (Hex : match_at mdre 0 None (def_line name value) <> None).
  { apply (proj2 (match_at_iff _ _ _ _ Hwf)). exists (md_final name value). apply md_exists; auto. }
  unfold match_at in Hex.
  destruct (exec (re_ast mdre) kfinal 0 None (def_line name value) []) as [[e cc]|] eqn:E; [|cbn in Hex; congruence].
  pose proof E as E'. apply S in E' as (s' & M & Hk). apply (md_derivation name value s' Hn Hv) in M. subst s'.
  unfold kapp, kfinal, md_final in Hk. cbn [st_i st_p st_rest st_c] in Hk. remember (0 + 1 + lenN name) as i1 eqn:Ei1. remember (0 + 1) as i0 eqn:Ei0.
  injection Hk as He Hc. subst e cc.
  eexists. split.
  - unfold re_search. apply search_of_match_at. unfold match_at. rewrite E. reflexivity.
  - cbn [option_map mk_mres m_groups]. rewrite Hng. cbn [group_list cap_get Nat.eqb option_map]. unfold cap_text. cbn [c_s c_e c_txt]. subst i1 i0.
    replace (0 + 1 + lenN name + 1 + 1 + 1 + lenN value + 1 - 0) with (lenN (def_line name value))
      by (unfold def_line; cbn [lenN]; rewrite lenN_app; cbn [lenN]; rewrite lenN_app; cbn [lenN]; lia).
    replace (0 + 1 + lenN name - (0 + 1)) with (lenN name) by lia.
    replace (0 + 1 + lenN name + 1 + 1 + 1 + lenN value - (0 + 1 + lenN name + 1 + 1 + 1)) with (lenN value) by lia.
    rewrite takeN_all. rewrite !takeN_app_exact. reflexivity.
Qed.

(* ---- the line-block stage on a definition line ---- *)
Lemma starts_safe_sound A0 (r : cre) c rest : starts_safe A0 (re_ast r) = true -> In c A0 -> re_search r (c :: rest) = None.
Proof.
  intros H Hc. unfold starts_safe in H. destruct (anchored_body (re_ast r)) as [r'|] eqn:Ea; [|discriminate].
  apply andb_true_iff in H as [Hn Hf]. apply negb_true_iff in Hn.
  assert (E : re_ast r = RSeq (RBol false) r').
  { unfold anchored_body in Ea. destruct (re_ast r) as [| | |a b| | | | | | | |]; try discriminate.
    destruct a; try discriminate. destruct multiline; try discriminate. inversion Ea; subst. reflexivity. }
  unfold re_search. cbn [search_from]. unfold match_at. rewrite E. cbn [exec].
  destruct (exec r' kfinal 0 None (c :: rest) []) eqn:Ex.
  - apply exec_nonnull_first in Ex as (y & t & Hy & Hfy); auto. inversion Hy; subst.
    rewrite forallb_forall in Hf. apply Hf in Hc. rewrite Hfy in Hc. discriminate.
  - cbn [option_map]. apply (search_from_later r r' E).
Qed.

Lemma defline_facts :
  lineblocks_defs = nth 0 lineblocks_defs dummy_ldef :: mline_def :: nth 2 lineblocks_defs dummy_ldef :: qdef_def ::
                    nth 4 lineblocks_defs dummy_ldef :: mdef_def :: skipn 6 lineblocks_defs /\
  starts_safe [123] (re_ast (l_re (nth 0 lineblocks_defs dummy_ldef))) = true /\
  starts_safe [123] (re_ast (l_re (nth 2 lineblocks_defs dummy_ldef))) = true /\
  starts_safe [123] (re_ast (l_re (nth 4 lineblocks_defs dummy_ldef))) = true /\
  l_verify mline_def = LvMacroLine.
Proof. repeat split; reflexivity. Qed.

Section DefLine.
Variable fuel : nat.

Lemma macros_expand_quiet value s : quiet value -> macros_expand fuel (Some value) s = Ok (value, s).
Proof.
  intros [Q1 Q2]. unfold macros_expand, lift, replaceInline_top, replaceInline. cbn [expand_macros e_macros e_spans e_specials truthy].
  unfold macros_render_top. rewrite macros_render_identity; [|exact Q1|rewrite Q2; reflexivity].
  cbn [iret ibind]. reflexivity.
Qed.

Ltac rw H := let E := fresh in pose proof H as E; unfold reader, str, char in E |- *; rewrite E; clear E.

Theorem macro_def_line name value rest s s' :
  name_ok name -> value_ok value -> quiet value -> macros_setValue name value s = Ok (tt, s') ->
  lineblocks_render fuel (def_line name value :: rest) [] s = Ok ((Some [], rest), s').
Proof.
  intros Hn Hv Hq Hset. destruct defline_facts as (Fsplit & F0 & F2 & F4 & Fv1).
  destruct mdre_shape as (_ & _ & _ & Fv5 & Ff5).
  destruct (mline_match name value Hn Hv) as (m1 & Hm1 & G01).
  destruct (md_match name value Hn Hv) as (m5 & Hm5 & Hg5).
  pose proof (qdef_nomatch name value Hn) as Hq3. pose proof (defopen_found name value Hn Hv) as Hdo.
  assert (G0 : grp0 m5 = def_line name value) by (unfold grp0, grp_s, grp; rewrite Hg5; reflexivity).
  assert (G1 : grp_s m5 1 = name) by (unfold grp_s, grp; rewrite Hg5; reflexivity).
  assert (G2 : grp m5 2 = Some value) by (unfold grp; rewrite Hg5; reflexivity).
  assert (Hfirst : exists t, def_line name value = 123 :: t) by (unfold def_line; eauto). destruct Hfirst as (t & EL).
  rewrite EL in *. clear EL.
  unfold lineblocks_render. rewrite Fsplit.
  (* the comment pattern *)
  rewrite lineblocks_loop_unfold. cbn [andb]. rw (starts_safe_sound [123] _ 123 t F0 (or_introl eq_refl)).
  (* the macro-line pattern matches, and its verify() rejects the line because it opens a definition *)
  rewrite lineblocks_loop_unfold. cbn [andb]. fold mlre. rewrite Hm1. rewrite G01.
  replace (123 =? 92) with false by reflexivity. rewrite Fv1. unfold verifyMacroLine. rewrite G01.
  destruct (re_search re_macros_DEF_OPEN (123 :: t)) as [mo|] eqn:Edo; [|exfalso; exact (Hdo eq_refl)].
  unfold bind at 1. cbn [ret negb].
  (* block, quote and replacement definitions *)
  rewrite lineblocks_loop_unfold. cbn [andb]. rw (starts_safe_sound [123] _ 123 t F2 (or_introl eq_refl)).
  rewrite lineblocks_loop_unfold. cbn [andb]. fold qdre. rewrite Hq3.
  rewrite lineblocks_loop_unfold. cbn [andb]. rw (starts_safe_sound [123] _ 123 t F4 (or_introl eq_refl)).
  (* the macro definition *)
  rewrite lineblocks_loop_unfold. cbn [andb]. fold mdre. rewrite Hm5.
  rewrite G0. replace (123 =? 92) with false by reflexivity. rewrite Fv5. unfold bind at 1. cbn [ret negb].
  unfold line_filter. rewrite Ff5. unfold bind at 1. unfold bind at 1. unfold gets at 1.
  change (macroDefFilter_skip (s_mode s)) with false. cbv iota.
  unfold bind at 1. rewrite G2. rewrite (macros_expand_quiet value s Hq).
  unfold bind at 1. rewrite G1. rewrite Hset. cbn [ret tl]. reflexivity.
Qed.
End DefLine.

(* ---- in a document: the definition line renders nothing; what follows is rendered in the session with the macro defined ---- *)
Theorem def_line_document fuel doc n name value rest s s' :
  name_ok name -> value_ok value -> quiet value -> macros_setValue name value s = Ok (tt, s') ->
  doc_loop fuel doc (S n) (def_line name value :: rest) s = doc_loop fuel doc n rest s'.
Proof.
  intros Hn Hv Hq Hset.
  rewrite (TableFacts.doc_loop_line_block fuel doc n (def_line name value :: rest) (def_line name value) rest [] rest s s').
  - destruct (doc_loop fuel doc n rest s') as [[r s2]| |]; reflexivity.
  - unfold def_line. cbn [skipBlankLines]. rewrite strip_nonblank; reflexivity.
  - apply macro_def_line; assumption.
Qed.

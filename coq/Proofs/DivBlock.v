(* C08, a container block: a division block delimited by .. without class renders to the recursively rendered content alone
   (the div is omitted when it would carry no attribute).
   Generic in the nested render; instantiated with a paragraph line as content. *)
From Rimu Require Import Base Unicode Regex RegexAnalysis RegexParse Str Types Tables Guards State Inline Block
  Frame FrameBlock FrameInst OptionsLemmas MiscLemmas MoreLemmas Plain TableFacts Lines PlainDoc
  RegexSem MatchLemmas MatchExact ScanLemmas ParaDoc CodeBlock MacroSubst MacroDefine MacroDoc Compose QuoteBlock.
From Coq Require Import Lia.
Local Open Scope monad_scope.

Definition dfence : str := [46; 46].
Definition div_def : ddef := nth 2 dblocks_default dummy_ddef.
Definition before_div : list ddef := firstn 2 dblocks_default.
Definition m_dfence : mres := {| m_start := 0; m_end := 2; m_groups := [Some dfence; Some dfence; Some []] |}.

Lemma div_facts :
  d_name div_def = $"division" /\ d_openTag div_def = $"<div>" /\ d_closeTag div_def = $"</div>" /\
  d_verify div_def = DvNone /\ d_delim div_def = DfClassInj /\ d_content div_def = CfNone /\
  d_expand div_def = mkExpand None (Some true) None None (Some true).
Proof. repeat split; reflexivity. Qed.

Lemma dfence_facts :
  forallb (fun d => match re_search (l_re d) dfence with None => true | Some _ => false end) lineblocks_defs = true /\
  forallb (fun d => match re_search (li_re d) dfence with None => true | Some _ => false end) lists_defs = true /\
  forallb (fun d => match re_search (d_openRe d) dfence with None => true | Some _ => false end) before_div = true /\
  re_search (d_openRe div_def) dfence = Some m_dfence /\ nlfree dfence.
Proof.
  repeat split; try (vm_compute; reflexivity). intros x [<-|[<-|[]]]; reflexivity.
Qed.

Lemma div_facts_of cd : dcore cd = dcore div_def ->
  d_name cd = $"division" /\ d_openTag cd = $"<div>" /\ d_closeTag cd = $"</div>" /\
  d_verify cd = DvNone /\ d_delim cd = DfClassInj /\ d_content cd = CfNone /\
  d_expand cd = mkExpand None (Some true) None None (Some true) /\ d_openRe cd = d_openRe div_def.
Proof.
  intros H. destruct (dcore_fields _ _ H) as (E1 & E2 & E3 & E4 & E5 & E6 & E7 & E8).
  destruct div_facts as (F1 & F2 & F3 & F4 & F5 & F6 & F7).
  rewrite E1, E2, E3, E5, E6, E7, E8. repeat split; assumption.
Qed.

(* the session in which the content of the block is rendered, and the one the block leaves *)
Definition div_open (s : session) : session := set_popts (set_closeRe 2 (lit_close dfence) s) expand_none.

Lemma quiet_div_open s : quiet_default s -> quiet_default (div_open s).
Proof.
  intros (Hd & Hr & Hq & Hp & Ho). unfold div_open.
  assert (Hstd : dblocks_std (s_dblocks (set_closeRe 2 (lit_close dfence) s))) by (apply std_set_closeRe; [exact Hd|reflexivity|lia]).
  destruct Hp as (P1 & P2 & P3 & P4).
  unfold set_closeRe in *. destruct s; cbn in *. repeat split; assumption.
Qed.

Section Div.
Variable fuel : nat.
Variable doc : str -> M str.

Lemma dblock_body_div content rest s cd inner s2 : quiet_default s -> Forall nlfree content -> ~ In dfence content ->
  dcore cd = dcore div_def -> (forall d0, nth 2 (s_dblocks s) d0 = cd) ->
  doc (join [10] content) (div_open s) = Ok (inner, s2) -> dblocks_std (s_dblocks s2) ->
  dblock_body (S fuel) doc 2 cd m_dfence (content ++ dfence :: rest) s =
  Ok ((inner ++ (match rest with [] => [] | _ => if nonempty inner then [10] else [] end), rest), set_popts s2 expand_none).
Proof.
  intros Hq Hc Hnot Hcd Hnth Hdoc Hstd2. pose proof Hq as (Hd & Hr & Hqt & Hp & Ho).
  destruct (div_facts_of cd Hcd) as (Fname & Fopen & Fclose & Fverify & Fdelim & Fcontent & Fexp & Fre).
  unfold dblock_body. rewrite Fdelim.
  unfold bind at 1. cbn [grp_s grp nth m_groups m_dfence]. replace (strip []) with (@nil char) by reflexivity.
  cbn [nonempty is_empty negb]. unfold bind at 1. cbn [ret]. unfold bind at 1. cbn [modify ret].
  set (s1 := set_closeRe 2 (lit_close dfence) s).
  assert (Hn3 : forall d0, nth 2 (s_dblocks s1) d0 =
                mkD (d_name cd) (d_openTag cd) (d_closeTag cd) (d_openRe cd) (lit_close dfence)
                    (d_verify cd) (d_delim cd) (d_content cd) (d_expand cd)).
  { intros d0. unfold s1, set_closeRe. cbn [s_dblocks set_dblocks]. rewrite (nth_set_closeRe (lit_close dfence) d0 2 (s_dblocks s)).
    - rewrite (Hnth d0). reflexivity.
    - rewrite (std_length _ Hd). lia. }
  unfold bind at 1. unfold gets at 1. rewrite Hn3. cbn [d_closeRe].
  rewrite (readTo_fence dfence (proj2 (proj2 (proj2 (proj2 dfence_facts)))) content rest Hc Hnot).
  unfold bind at 1. cbn [andb ret tl]. cbn [app].
  unfold bind at 1. unfold gets at 1. rewrite Hn3. cbn [d_expand]. rewrite Fexp.
  assert (Ho1 : p_opts s1 = expand_none) by exact Ho. rewrite Ho1.
  unfold expand_merge, expand_none. cbn [e_macros e_container e_skip e_spans e_specials truthy].
  rewrite Fcontent.
  unfold bind at 1. unfold bind at 1. cbn [ret].
  unfold bind at 1. unfold gets at 1. rewrite Hn3.
  replace (str_eqb (d_name cd) $"html") with false by (rewrite Fname; vm_compute; reflexivity).
  unfold bind at 1. cbn [ret].
  unfold bind at 1. cbn [d_openTag]. rewrite Fopen.
  assert (Hp1 : pending_empty s1) by exact Hp.
  change ($"<div>") with (60 :: $"div>"). rewrite inject_nothing_pending by exact Hp1.
  unfold bind at 1. unfold bind at 1. cbn [modify]. rewrite Ho1. cbn [e_macros e_skip e_spans e_specials expand_none].
  change (set_popts s1 (mkExpand None None None None None)) with (div_open s).
  unfold reader, str, char in Hdoc |- *. rewrite Hdoc.
  unfold gets at 1. unfold bind at 1. cbv beta.
  (* the closing tag is read from the session the nested render left *)
  destruct (std_at (s_dblocks s2) 2 dummy_ddef Hstd2 ltac:(lia)) as (pre2 & cd2 & post2 & _ & _ & Hcd2 & _ & Hnth2 & _).
  fold div_def in Hcd2. destruct (div_facts_of cd2 Hcd2) as (_ & _ & Fclose2 & _).
  rewrite Hnth2, Fclose2.
  replace (str_eqb (d_name cd) $"division") with true by (rewrite Fname; vm_compute; reflexivity).
  replace (str_eqb (60 :: $"div>") $"<div>") with true by reflexivity.
  cbn [andb ret bind modify app].
  replace (str_eqb (60 :: $"div>") (60 :: $"div>")) with true by reflexivity. cbv iota beta. cbn [app ret bind modify]. rewrite app_nil_r.
  destruct rest as [|r0 rest]; cbn [andb]; [rewrite app_nil_r; reflexivity|]. destruct (nonempty inner); reflexivity.
Qed.
End Div.

Section DivDoc.
Variable fuel : nat.
Variable doc : str -> M str.

Lemma dblocks_render_div content rest s inner s2 : quiet_default s -> Forall nlfree content -> ~ In dfence content ->
  doc (join [10] content) (div_open s) = Ok (inner, s2) -> dblocks_std (s_dblocks s2) ->
  dblocks_render (S fuel) doc (dfence :: content ++ dfence :: rest) [] s =
  Ok ((Some (inner ++ (match rest with [] => [] | _ => if nonempty inner then [10] else [] end)), rest), set_popts s2 expand_none).
Proof.
  intros Hq Hc Hnot Hdoc Hstd2. pose proof Hq as (Hd & _).
  destruct dfence_facts as (_ & _ & Fbefore & Fmatch & _).
  destruct (std_at (s_dblocks s) 2 dummy_ddef Hd ltac:(lia)) as (pre & cd & post & Esplit & Lpre & Hcd & En & Hnth & Hpre).
  fold div_def in Hcd. destruct (div_facts_of cd Hcd) as (Fname & _ & _ & Fv & _ & _ & _ & Fre).
  unfold dblocks_render. unfold bind at 1. unfold gets at 1. rewrite (std_length _ Hd).
  pose proof (dblock_loop_skip_rest (S fuel) doc dfence (content ++ dfence :: rest) s pre [] (cd :: post) 7) as Sk.
  cbn [length app] in Sk. rewrite Lpre in Sk. change (2 + 7)%nat with 9%nat in Sk. change (0 + 2)%nat with 2%nat in Sk.
  rewrite Sk; [|exact Esplit|].
  - change 7%nat with (S 6). rewrite dblock_loop_unfold. unfold bind at 1. unfold gets at 1.
    rewrite En. cbn [andb]. rewrite Fre. rewrite Fmatch.
    unfold grp0, grp_s, grp. cbn [nth m_groups m_dfence dfence].
    rewrite Fname. replace (str_eqb $"division" $"paragraph") with false by reflexivity.
    replace (46 =? 92) with false by reflexivity. fold dfence. fold m_dfence.
    unfold db_verify. rewrite Fv. cbn [negb].
    unfold bind at 1. rewrite (dblock_body_div fuel doc content rest s cd inner s2 Hq Hc Hnot Hcd Hnth Hdoc Hstd2). reflexivity.
  - intros d Hdin. destruct (Hpre d Hdin) as (d' & Hd' & -> & _). exact (none_of (fun d => re_search (d_openRe d) dfence) _ Fbefore d' Hd').
Qed.

(* IN ORDER and RECURSIVELY: a division block without class as the first block of any reader renders to whatever the nested
   render makes of its content, followed by the rendering of the rest *)
Theorem div_block_then_rest n content rest s inner s2 : quiet_default s -> Forall nlfree content -> ~ In dfence content ->
  doc (join [10] content) (div_open s) = Ok (inner, s2) -> dblocks_std (s_dblocks s2) ->
  doc_loop (S fuel) doc (S n) (dfence :: content ++ dfence :: rest) s =
  match doc_loop (S fuel) doc n rest (set_popts s2 expand_none) with
  | Ok (r, s3) => Ok (inner ++ (match rest with [] => [] | _ => if nonempty inner then [10] else [] end) ++ r, s3)
  | Raise e => Raise e
  | Fuel => Fuel
  end.
Proof.
  intros Hq Hc Hnot Hdoc Hstd2. destruct dfence_facts as (Fl & Fli & _).
  rewrite (TableFacts.doc_loop_delimited_block (S fuel) doc n (dfence :: content ++ dfence :: rest) dfence (content ++ dfence :: rest)
             (dfence :: content ++ dfence :: rest) (dfence :: content ++ dfence :: rest)
             (inner ++ (match rest with [] => [] | _ => if nonempty inner then [10] else [] end)) rest s s s (set_popts s2 expand_none)).
  - destruct (doc_loop (S fuel) doc n rest (set_popts s2 expand_none)) as [[r s3]| |]; try reflexivity.
    rewrite <- app_assoc. reflexivity.
  - reflexivity.
  - unfold lineblocks_render. apply lineblocks_loop_none_rest. exact (none_of (fun d => re_search (l_re d) dfence) _ Fl).
  - unfold lists_render, bind, matchItem. rewrite matchItem_loop_none_rest; [reflexivity|].
    exact (none_of (fun d => re_search (li_re d) dfence) _ Fli).
  - apply (dblocks_render_div content rest s inner s2 Hq Hc Hnot Hdoc Hstd2).
Qed.
End DivDoc.

(* ---- a quote block holding one paragraph line ---- *)
Lemma div_open_idem s : p_opts s = expand_none -> set_popts (div_open s) expand_none = div_open s.
Proof. intros _. unfold div_open, set_closeRe. destruct s; reflexivity. Qed.

Theorem div_paragraph_document n l R s (Hpl : para_line (ienv_of s) l R) : quiet_default s -> l <> dfence ->
  doc_render (S (S (S (S (S (S (S n))))))) (dfence ++ 10 :: l ++ 10 :: dfence) s =
  Ok ($"<p>" ++ R ++ $"</p>", div_open s).
Proof.
  intros Hq Hne.
  set (F := S (S (S (S (S (S n)))))).
  change (doc_render (S F) (dfence ++ 10 :: l ++ 10 :: dfence)) with (doc_loop F (doc_render F) F (mk_reader (dfence ++ 10 :: l ++ 10 :: dfence))).
  assert (Hlch : forall x, In x l -> is_nl x = false /\ reserved x = false).
  { intros x Hx. split; [apply (pl_nl _ _ _ Hpl x Hx)|].
    pose proof (pl_res _ _ _ Hpl) as Hr. unfold blank_reserved in Hr. unfold reserved.
    assert (Hm : forall (t : str), map (fun c => if (c =? 0) || (c =? 1) || (c =? 2) then 32 else c) t = t ->
                 forall y, In y t -> (y =? 0) || (y =? 1) || (y =? 2) = false).
    { induction t as [|a t IH]; intros E y Hy; [destruct Hy|]. cbn [map] in E. inversion E as [[E1 E2]]. destruct Hy as [<-|Hy].
      - destruct ((a =? 0) || (a =? 1) || (a =? 2)) eqn:Er; [|reflexivity]. subst a. discriminate Er.
      - apply IH; assumption. }
    apply (Hm l Hr x Hx). }
  assert (Hqch : forall x, In x dfence -> is_nl x = false /\ reserved x = false) by (intros x [<-|[<-|[]]]; split; reflexivity).
  assert (Er : mk_reader (dfence ++ 10 :: l ++ 10 :: dfence) = [dfence; l; dfence]).
  { rewrite Locality.mk_reader_join by (intros x Hx E; subst x; apply Hqch in Hx; destruct Hx as [Hx _]; discriminate Hx).
    rewrite (mk_reader_line _ Hqch). rewrite Locality.mk_reader_join by (intros x Hx E; subst x; apply Hlch in Hx; destruct Hx as [Hx _]; discriminate Hx).
    rewrite (mk_reader_line _ Hlch), (mk_reader_line _ Hqch). reflexivity. }
  rewrite Er.
  assert (Hpl' : para_line (ienv_of (div_open s)) l R) by (unfold div_open, set_closeRe; destruct s; exact Hpl).
  assert (Hdoc : doc_render F (join [10] [l]) (div_open s) = Ok ($"<p>" ++ R ++ $"</p>", div_open s)).
  { cbn [join]. apply (para_line_document l R n (div_open s) Hpl' (quiet_div_open s Hq)). }
  pose proof (div_block_then_rest (S (S (S (S (S n))))) (doc_render F) (S (S (S (S (S n))))) [l] [] s _ _ Hq
                (Forall_cons l (pl_nl _ _ _ Hpl) (Forall_nil _)) ltac:(intros [E|[]]; apply Hne; exact E) Hdoc
                (proj1 (quiet_div_open s Hq))) as Hb.
  subst F. cbn [app] in Hb. unfold reader, str, char in Hb |- *. rewrite Hb.
  rewrite (TableFacts.doc_loop_blank_only _ _ (S (S (S (S n)))) [] _) by reflexivity.
  rewrite div_open_idem by (destruct Hq as (_ & _ & _ & _ & Ho); exact Ho).
  rewrite !app_nil_r. repeat (rewrite <- app_assoc; cbn [app]). reflexivity.
Qed.

(* The paragraph-line conditions of ParaDoc.v discharged once per kind of line, so that the compositional theorems (a header, a code
   block, a quote or division block, a Block Attributes line ... followed by / containing a paragraph line) apply to each of them. *)
From Rimu Require Import Base Unicode Regex RegexAnalysis RegexParse Str Types Tables Guards State Inline Block
  Frame FrameBlock FrameInst OptionsLemmas MiscLemmas MoreLemmas Plain TableFacts Lines PlainDoc
  RegexSem MatchLemmas MatchExact ScanLemmas ParaDoc Emphasis EmDoc HtmlTag TagDoc HeaderDoc CodeBlock MacroSubst MacroDefine MacroDoc
  Compose QuoteBlock DivBlock GreedyLoop AttrInject AttrDoc.
From Coq Require Import Lia.
Local Open Scope monad_scope.

Lemma safe_facts_line :
  forallb (fun r => never_matches safe_alphabet safe_first (re_ast r)) block_regexes = true /\
  forallb (fun c => negb (is_nl c) && negb (reserved c) && no_macro_start c) safe_alphabet = true.
Proof. split; vm_compute; reflexivity. Qed.

Lemma plain_para_line e l : defaults e -> safe_line l -> para_line e l (escape l).
Proof.
  intros Hd Hl. destruct safe_facts_line as [F1 F2].
  apply (a_line_para safe_alphabet safe_first F1 safe_first_not_space F2).
  - destruct l as [|c rest]; [destruct Hl|]. exact Hl.
  - intros m. apply spans_render_plain; [exact Hd|apply safe_line_plain; exact Hl].
Qed.

Lemma emphasis_para_line e c pre body post : defaults e ->
  In c safe_first -> over safe_alphabet (c :: pre) -> over safe_alphabet body -> body_ok body -> over safe_alphabet post ->
  para_line e ((c :: pre) ++ star :: body ++ star :: post) (escape (c :: pre) ++ $"<em>" ++ escape body ++ $"</em>" ++ escape post).
Proof.
  intros Hd Hc Hpre Hbody Hbok Hpost. destruct em_line_facts as [F1 F2].
  apply (a_line_para em_line_alphabet safe_first F1 safe_first_not_space F2).
  - cbn [app]. split; [exact Hc|]. unfold em_line_alphabet. intros x Hx. apply in_or_app.
    change (c :: pre ++ star :: body ++ star :: post) with ((c :: pre) ++ star :: body ++ star :: post) in Hx.
    apply in_app_or in Hx as [Hx|[<-|Hx]]; [left; auto|right; left; reflexivity|].
    apply in_app_or in Hx as [Hx|[<-|Hx]]; [left; auto|right; left; reflexivity|left; auto].
  - intros m. apply spans_render_em; auto using safe_over_plain.
Qed.

Lemma tag_para_line e c pre name post : defaults e ->
  In c word_first -> over word2_alphabet (c :: pre) -> name_ok2 name -> over word2_alphabet name -> over word2_alphabet post ->
  para_line e ((c :: pre) ++ 60 :: name ++ 62 :: post) ((c :: pre) ++ htmlSafeModeFilter e (60 :: name ++ [62]) ++ post).
Proof.
  intros Hd Hc Hpre Hname Hnw Hpost. destruct tag_line_facts as (F1 & F0 & F2 & _).
  apply (a_line_para tag_line_alphabet word_first F1 F0 F2).
  - cbn [app]. split; [exact Hc|]. unfold tag_line_alphabet. intros x Hx. apply in_or_app.
    change (c :: pre ++ 60 :: name ++ 62 :: post) with ((c :: pre) ++ 60 :: name ++ 62 :: post) in Hx.
    apply in_app_or in Hx as [Hx|[<-|Hx]]; [left; auto|right; left; reflexivity|].
    apply in_app_or in Hx as [Hx|[<-|Hx]]; [left; auto|right; right; left; reflexivity|left; auto].
  - intros m. apply spans_render_tag; auto using word2_word.
Qed.

(* ---- showcases: the compositional theorems on concrete kinds of paragraph ---- *)
Theorem class_emphasis_paragraph n a w c pre body post s :
  quiet_default s -> parse_skip (s_mode s) = false -> cls_name_ok a w ->
  In c safe_first -> over safe_alphabet (c :: pre) -> over safe_alphabet body -> body_ok body -> over safe_alphabet post ->
  doc_render (S (S (S (S (S n))))) (ba_line a w ++ 10 :: (c :: pre) ++ star :: body ++ star :: post) s =
  Ok (cls_html (a :: w) ++ (escape (c :: pre) ++ $"<em>" ++ escape body ++ $"</em>" ++ escape post) ++ $"</p>", s).
Proof.
  intros Hq Hs Hc. intros. apply class_paragraph_document; auto. apply emphasis_para_line; auto. apply quiet_defaults. exact Hq.
Qed.

Theorem quote_tag_paragraph n c pre name post s :
  quiet_default s -> In c word_first -> over word2_alphabet (c :: pre) -> name_ok2 name -> over word2_alphabet name -> over word2_alphabet post ->
  doc_render (S (S (S (S (S (S (S n))))))) (qfence ++ 10 :: ((c :: pre) ++ 60 :: name ++ 62 :: post) ++ 10 :: qfence) s =
  Ok ($"<blockquote><p>" ++ ((c :: pre) ++ htmlSafeModeFilter (ienv_of s) (60 :: name ++ [62]) ++ post) ++ $"</p></blockquote>", quote_open s).
Proof.
  intros Hq Hc Hpre Hname Hnw Hpost. apply quote_paragraph_document; [|exact Hq|].
  - apply tag_para_line; auto. apply quiet_defaults. exact Hq.
  - cbn [app]. intros E. unfold qfence in E. inversion E as [[E1 E2]]. subst c.
    destruct tag_line_facts as (_ & F0 & _). rewrite forallb_forall in F0.
    assert (Hq34 : In 34 word_first -> False) by (intros H34; vm_compute in H34; intuition discriminate). exact (Hq34 Hc).
Qed.

Theorem header_then_plain_paragraph n k doc mk title l s :
  quiet_default s -> header_ids_off s -> marker_ok mk -> title_ok title -> safe_line l ->
  doc_loop (S (S (S (S n)))) doc (S (S (S k))) [hd_line mk title; []; l] s =
  Ok (header_html mk title ++ [10] ++ $"<p>" ++ escape l ++ $"</p>", s).
Proof.
  intros Hq Ho Hm Ht Hl. apply header_then_paragraph; auto. apply plain_para_line; [apply quiet_defaults; exact Hq|exact Hl].
Qed.

(* Greedy execution of the matcher where the exact semantics has many derivations: a star over a character set takes the whole
   run when the continuation succeeds there.  Used for the first Block Attributes pattern (class names), which is matched as a
   prefix and whose end decides how the rest of the line is read. *)
From Rimu Require Import Base Unicode Regex RegexSem RegexAnalysis RegexParse Str Types Tables Guards State Inline
  MatchLemmas MatchExact ScanLemmas.
From Coq Require Import Lia.

Lemma star_greedy_aux (mb : matcher) (P : char -> bool) (k : cont) :
  (forall K i p x t c, mb K i p (x :: t) c = if P x then K (i + 1) (Some x) t c else None) ->
  (forall K i p c, mb K i p [] c = None) ->
  forall u fuel cnt last i p rest c res,
  (forall x, In x u -> P x = true) ->
  (match rest with [] => True | y :: _ => P y = false end) ->
  (length u < length fuel)%nat ->
  (match last with Some j => j < i | None => True end) ->
  k (i + lenN u) (last_of p u) rest c = Some res ->
  loop mb k true 0 None fuel cnt last i p (u ++ rest) c = Some res.
Proof.
  intros Hc Hn. induction u as [|x u IH]; intros fuel cnt last i p rest c res Hu Hr Hf Hl Hk; destruct fuel as [|f fuel]; try (simpl in Hf; lia).
  - cbn [loop app]. replace (cnt <? 0) with false by (symmetry; apply N.ltb_ge; lia).
    assert (Es : same_pos last i = false) by (unfold same_pos; destruct last as [j|]; auto; apply N.eqb_neq; lia).
    cbn [more_ok andb]. rewrite Es. cbn [negb]. cbn [lenN last_of] in Hk. rewrite N.add_0_r in Hk.
    destruct rest as [|y t]; [rewrite Hn; exact Hk|]. rewrite Hc, Hr. exact Hk.
  - cbn [loop app]. replace (cnt <? 0) with false by (symmetry; apply N.ltb_ge; lia).
    assert (Es : same_pos last i = false) by (unfold same_pos; destruct last as [j|]; auto; apply N.eqb_neq; lia).
    cbn [more_ok andb]. rewrite Es. cbn [negb]. rewrite Hc. rewrite (Hu x (or_introl eq_refl)).
    rewrite (IH fuel (cnt + 1) (Some i) (i + 1) (Some x) rest c res); [reflexivity| | | | |].
    + intros y Hy. apply Hu. right. exact Hy.
    + exact Hr.
    + simpl in Hf. lia.
    + lia.
    + cbn [lenN last_of] in Hk. replace (i + 1 + lenN u) with (i + N.succ (lenN u)) by lia. exact Hk.
Qed.

Lemma star_set_greedy items (k : cont) : forall u fuel cnt last i p rest c res,
  (forall x, In x u -> set_match false items x = true) ->
  (match rest with [] => True | y :: _ => set_match false items y = false end) ->
  (length u < length fuel)%nat ->
  (match last with Some j => j < i | None => True end) ->
  k (i + lenN u) (last_of p u) rest c = Some res ->
  loop (exec (RSet false items)) k true 0 None fuel cnt last i p (u ++ rest) c = Some res.
Proof. apply (star_greedy_aux _ (set_match false items)); reflexivity. Qed.

(* ---- the first Block Attributes pattern on  .name  (one class name, nothing after it) ---- *)
Definition spS : list citem := [ICat CatSpace false].
Definition letS : list citem := [IRange 97 122; IRange 65 90].
Definition wdS : list citem := [ICat CatWord false; IRange 45 45].
Definition baBODY : regex := RSeq (RRep true 0 None (RSet false spS)) (RSeq (RSet false letS) (RRep true 0 None (RSet false wdS))).
Definition baINNER : regex := RRep true 1 None baBODY.
Definition baOUTER : regex := RRep true 0 None (RGrp 1 baINNER).

Lemma parse0_shape : re_ast re_blockattributes_parse_0 = RSeq (RBol false) (RSeq (RRep true 0 (Some 1) (RLit 92)) (RSeq (RLit 46) baOUTER)) /\
  re_groups re_blockattributes_parse_0 = 1%nat.
Proof. split; reflexivity. Qed.

Lemma star_empty (mb : matcher) (k : cont) f fuel cnt i p c : (forall K i p c, mb K i p [] c = None) ->
  loop mb k true 0 None (f :: fuel) cnt None i p [] c = k i p [] c.
Proof.
  intros Hn. cbn [loop]. replace (cnt <? 0) with false by (symmetry; apply N.ltb_ge; lia). cbn [more_ok same_pos andb negb]. rewrite Hn. reflexivity.
Qed.

Lemma body_end K i p c : exec baBODY K i p [] c = None.
Proof.
  unfold baBODY. cbn [exec rep_fuel repeat app N.to_nat]. rewrite star_empty by reflexivity. reflexivity.
Qed.

Lemma inner_end K i p c : exec baINNER K i p [] c = None.
Proof.
  unfold baINNER. cbn [exec rep_fuel repeat app]. change (N.to_nat 1) with 1%nat. cbn [repeat app loop].
  replace (0 <? 1) with true by reflexivity. apply body_end.
Qed.

Lemma loop_step_min (mb : matcher) (k : cont) g mn mx f fuel cnt last i p rest c : cnt <? mn = true ->
  loop mb k g mn mx (f :: fuel) cnt last i p rest c =
  mb (fun j p' r' c' => loop mb k g mn mx fuel (cnt + 1) last j p' r' c') i p rest c.
Proof. intros H. cbn [loop]. rewrite H. reflexivity. Qed.

Lemma loop_step_greedy (mb : matcher) (k : cont) mn mx f fuel cnt last i p rest c :
  cnt <? mn = false -> more_ok mx cnt = true -> same_pos last i = false ->
  loop mb k true mn mx (f :: fuel) cnt last i p rest c =
  match mb (fun j p' r' c' => loop mb k true mn mx fuel (cnt + 1) (Some i) j p' r' c') i p rest c with
  | Some x => Some x
  | None => k i p rest c
  end.
Proof. intros H1 H2 H3. cbn [loop]. rewrite H1, H2, H3. reflexivity. Qed.

Lemma star_zero items (k : cont) f fuel cnt last i p rest c :
  (match rest with [] => True | y :: _ => set_match false items y = false end) -> same_pos last i = false ->
  loop (exec (RSet false items)) k true 0 None (f :: fuel) cnt last i p rest c = k i p rest c.
Proof.
  intros Hr Hs. cbn [loop]. replace (cnt <? 0) with false by (symmetry; apply N.ltb_ge; lia). cbn [more_ok andb]. rewrite Hs. cbn [negb exec].
  destruct rest as [|y t]; [reflexivity|]. rewrite Hr. reflexivity.
Qed.

Lemma exec_seq a b k i p rest c : exec (RSeq a b) k i p rest c = exec a (fun j p' r' c' => exec b k j p' r' c') i p rest c.
Proof. reflexivity. Qed.
Lemma exec_rep g mn mx b k i p rest c : exec (RRep g mn mx b) k i p rest c = loop (exec b) k g mn mx (rep_fuel mn rest) 0 None i p rest c.
Proof. reflexivity. Qed.
Lemma exec_set_cons items k i p x t c : exec (RSet false items) k i p (x :: t) c = if set_match false items x then k (i + 1) (Some x) t c else None.
Proof. reflexivity. Qed.
Lemma exec_grp n b k i p rest c :
  exec (RGrp n b) k i p rest c = exec b (fun j p' r' c' => k j p' r' ((n, {| c_s := i; c_e := j; c_txt := rest |}) :: c')) i p rest c.
Proof. reflexivity. Qed.

Lemma match_some {A} (X Y : option A) res : X = Some res -> match X with Some x => Some x | None => Y end = Some res.
Proof. intros ->. reflexivity. Qed.

Definition class_name_ok (a : char) (w : str) : Prop :=
  set_match false letS a = true /\ set_match false spS a = false /\ forall x, In x w -> set_match false wdS x = true.

Lemma parse0_class a w : class_name_ok a w ->
  re_match re_blockattributes_parse_0 (46 :: a :: w) =
  Some {| m_start := 0; m_end := 0 + 1 + 1 + lenN w; m_groups := [Some (46 :: a :: w); Some (a :: w)] |}.
Proof.
  intros (Ha & Has & Hw). destruct parse0_shape as (Sh & Hng). unfold re_match, match_at. rewrite Sh, Hng.
  set (iend := 0 + 1 + 1 + lenN w). set (pend := last_of (Some a) w).
  set (cap := (1%nat, {| c_s := 0 + 1; c_e := iend; c_txt := a :: w |})).
  assert (E : exec (RSeq (RBol false) (RSeq (RRep true 0 (Some 1) (RLit 92)) (RSeq (RLit 46) baOUTER))) kfinal 0 None (46 :: a :: w) [] = Some (iend, [cap])).
  { cbn [exec]. cbn [rep_fuel repeat app N.to_nat].
    rewrite loop_step_greedy by reflexivity. cbn [exec].
    replace (set_match false [IRange 92 92] 46) with false by reflexivity.
    replace (set_match false [IRange 46 46] 46) with true by reflexivity.
    (* the outer star: first iteration *)
    unfold baOUTER at 1. cbn [exec]. cbn [rep_fuel repeat app N.to_nat].
    rewrite loop_step_greedy by reflexivity. apply match_some. cbn [exec].
    (* the inner plus: the mandatory iteration *)
    unfold baINNER at 1. cbn [exec]. change (rep_fuel 1 (a :: w)) with (0 :: 0 :: 0 :: a :: w).
    rewrite loop_step_min by reflexivity.
    unfold baBODY at 1. rewrite exec_seq, exec_rep. cbn [rep_fuel repeat app N.to_nat].
    rewrite star_zero by (try exact Has; reflexivity).
    rewrite exec_seq, exec_set_cons, Ha, exec_rep. cbn [rep_fuel repeat app N.to_nat].
    pose proof (star_set_greedy wdS) as Hstar. rewrite <- (app_nil_r w) at 2.
    apply (Hstar _ w (0 :: 0 :: w) 0 None (0 + 1 + 1) (Some a) [] [] (iend, [cap])); [exact Hw|exact Logic.I|cbn [length]; lia|exact Logic.I|].
    fold iend pend.
    (* back in the inner plus: no further iteration at the end of the text *)
    rewrite loop_step_greedy by reflexivity. rewrite body_end.
    (* back in the outer star: no further iteration *)
    rewrite loop_step_greedy; [|reflexivity|reflexivity|unfold same_pos, iend; apply N.eqb_neq; lia].
    cbv beta. rewrite inner_end. reflexivity. }
  unfold str, char in E |- *. rewrite E. cbn [option_map mk_mres]. f_equal. f_equal.
  cbn [group_list cap_get Nat.eqb option_map]. unfold cap_text, cap. cbn [c_s c_e c_txt].
  replace (iend - 0) with (lenN (46 :: a :: w)) by (unfold iend; cbn [lenN]; lia).
  replace (iend - (0 + 1)) with (lenN (a :: w)) by (unfold iend; cbn [lenN]; lia).
  rewrite !takeN_all. cbn [option_map c_s c_e c_txt].
  replace (iend - (0 + 1)) with (lenN (a :: w)) by (unfold iend; cbn [lenN]; lia). rewrite takeN_all. reflexivity.
Qed.

(* Reserved code points never reach the output, part 1: string operations and the inline layer (macros.render, on top of the
   placeholder protocol); part 2 (Taint.v) covers every block-layer function, for sessions whose definitions and
   replacement option are free of U+0000..U+0002 -- an invariant of every reachable session. *)
From Rimu Require Import Base Unicode Regex RegexSem RegexParse Str Types Tables Guards State Inline Block MatchLemmas Placeholder.
From Coq Require Import Lia.
Local Open Scope monad_scope.

(* ---- string operations keep character predicates ---- *)
Lemma allc_tl P s : allc P s -> allc P (tl s).
Proof. destruct s; [auto|]. intros H. apply allc_cons in H. apply H. Qed.

Lemma allc_rev_append P a : forall b, allc P a -> allc P b -> allc P (rev_append a b).
Proof.
  induction a as [|x a IH]; intros b Ha Hb; simpl; [exact Hb|]. apply allc_cons in Ha as [Hx Ha].
  apply IH; [exact Ha|]. apply allc_cons. auto.
Qed.

Lemma allc_frev P s : allc P s -> allc P (frev s).
Proof. intros H. unfold frev. apply allc_rev_append; [exact H|apply allc_nil]. Qed.

Lemma allc_lstrip P s : allc P s -> allc P (lstrip s).
Proof. induction s as [|x t IH]; intros H; simpl; [exact H|]. destruct (is_space x); [apply IH; apply allc_cons in H; apply H|exact H]. Qed.

Lemma allc_strip P s : allc P s -> allc P (strip s).
Proof. intros H. unfold strip, rstrip. apply allc_frev, allc_lstrip, allc_frev, allc_lstrip, H. Qed.

Lemma allc_takeN P s : forall n, allc P s -> allc P (takeN n s).
Proof.
  induction s as [|x t IH]; intros n H; simpl; [exact H|]. destruct (n =? 0); [apply allc_nil|].
  apply allc_cons in H as [Hx Ht]. apply allc_cons. auto.
Qed.

Lemma allc_dropN P s : forall n, allc P s -> allc P (dropN n s).
Proof.
  induction s as [|x t IH]; intros n H; simpl; [exact H|]. destruct (n =? 0); [exact H|].
  apply allc_cons in H as [Hx Ht]. auto.
Qed.

Lemma allc_drop_last P s : allc P s -> allc P (drop_last s).
Proof. intros H. unfold drop_last. apply allc_frev, allc_tl, allc_frev, H. Qed.

Lemma allc_split_char_aux P c s : forall cur, allc P s -> allc P cur -> Forall (allc P) (split_char_aux c s cur).
Proof.
  induction s as [|x t IH]; intros cur Hs Hc; simpl.
  - constructor; [apply allc_frev; exact Hc|constructor].
  - apply allc_cons in Hs as [Hx Ht]. destruct (x =? c).
    + constructor; [apply allc_frev; exact Hc|]. apply IH; [exact Ht|apply allc_nil].
    + apply IH; [exact Ht|]. apply allc_cons. auto.
Qed.

Lemma allc_split_char P c s : allc P s -> Forall (allc P) (split_char c s).
Proof. intros H. apply allc_split_char_aux; [exact H|apply allc_nil]. Qed.

Lemma allc_join P sep l : allc P sep -> Forall (allc P) l -> allc P (join sep l).
Proof.
  intros Hs. induction 1 as [|x l Hx Hl IH]; [apply allc_nil|]. cbn [join]. destruct l as [|y l]; [exact Hx|].
  apply allc_app. split; [exact Hx|]. apply allc_app. split; [exact Hs|exact IH].
Qed.

Lemma allc_replace_first P old new : allc P new -> forall s, allc P s -> allc P (replace_first old new s).
Proof.
  intros Hn. induction s as [|x t IH]; intros Hs; simpl.
  - destruct (drop_prefix old []) as [rest|] eqn:E; [|apply allc_nil].
    destruct old; [apply allc_nil|]. simpl in E. discriminate.
  - destruct (drop_prefix old (x :: t)) as [rest|] eqn:E.
    + destruct old; [exact Hs|]. apply drop_prefix_app in E. rewrite E in Hs. apply allc_app in Hs as [_ Hr].
      apply allc_app. auto.
    + apply allc_cons in Hs as [Hx Ht]. apply allc_cons. auto.
Qed.

Lemma allc_replace_all' P old new s : allc P new -> allc P s -> allc P (replace_all old new s).
Proof. intros. apply allc_replace_all; auto. Qed.

Lemma allc_filter_lines P (f : str -> bool) l : Forall (allc P) l -> Forall (allc P) (filter f l).
Proof. induction 1 as [|x l Hx Hl IH]; simpl; [constructor|]. destruct (f x); [constructor; auto|auto]. Qed.

Lemma re_sub_allc P r f s : allc P s -> (forall m, (forall k, allc P (grp_s m k)) -> allc P (f m)) -> allc P (re_sub r f s).
Proof.
  intros Hs Hf. unfold re_sub. destruct (re_scan r s) as [l tl] eqn:E.
  apply (re_scan_allc P) in E as [Hl Htl]; [|exact Hs]. apply allc_app. split; [|exact Htl].
  apply allc_concat. rewrite Forall_forall in *. intros x Hx. apply in_map_iff in Hx as (bm & <- & Hb).
  destruct (Hl bm Hb) as [H1 H2]. apply allc_app. split; [exact H1|]. apply Hf. intros k.
  unfold grp_s. destruct (grp (snd bm) k) eqn:Eg; [eapply H2; eauto|apply allc_nil].
Qed.

(* lower-casing: the generated table maps nothing to a reserved code point *)
Lemma lower_table_ok : forallb (fun e => forallb (fun x => 2 <? x) (snd e)) lower_table = true.
Proof. vm_compute. reflexivity. Qed.

Lemma rfree_lower s : rfree s -> rfree (lower s).
Proof.
  intros H. unfold lower. apply allc_flat_map. intros x Hx. apply H in Hx. unfold lower_char.
  cbv beta in Hx.
  destruct ((65 <=? x) && (x <=? 90)); [intros y [<-|[]]; cbv beta; lia|].
  destruct (x <? 128); [intros y [<-|[]]; exact Hx|].
  destruct (find _ lower_table) as [[k l]|] eqn:E; [|intros y [<-|[]]; exact Hx].
  apply find_some in E as [E _]. pose proof lower_table_ok as T. rewrite forallb_forall in T. apply T in E. cbn in E.
  apply rfreeb_spec. exact E.
Qed.

Lemma rfree_digits : forall fuel n acc, rfree acc -> rfree (digits_fuel fuel n acc).
Proof.
  induction fuel as [|f IH]; intros n acc H; cbn [digits_fuel]; [exact H|].
  assert (H' : rfree ((48 + n mod 10) :: acc)).
  { apply allc_cons; split; [|exact H]. cbv beta. generalize (n mod 10). intros k. lia. }
  destruct (n <? 10); [exact H'|apply IH; exact H'].
Qed.

Lemma rfree_str_of_N n : rfree (str_of_N n).
Proof. apply rfree_digits, allc_nil. Qed.

Ltac rf_lit := apply rfreeb_spec; vm_compute; reflexivity.

(* ---- the inline monad: sequences ---- *)
Lemma imapM_good {A B} (P : A -> Prop) (Q : B -> Prop) (f : A -> I B) l :
  (forall a, P a -> good Q (f a)) -> Forall P l -> good (Forall Q) (imapM f l).
Proof.
  intros Hf. induction 1 as [|a l Ha Hl IH]; cbn [imapM]; [constructor|].
  eapply good_bind; [apply Hf; exact Ha|]. intros y Hy. eapply good_bind; [exact IH|]. intros ys Hys. constructor; auto.
Qed.

Lemma grp_s_allc P m : (forall k t, grp m k = Some t -> allc P t) -> forall k, allc P (grp_s m k).
Proof. intros H k. unfold grp_s. destruct (grp m k) eqn:E; [eapply H; eauto|apply allc_nil]. Qed.

Lemma isub_good2 (P Q : char -> Prop) r f s : (forall x, P x -> Q x) -> allc P s ->
  (forall m, (forall k, allc P (grp_s m k)) -> good (allc Q) (f m)) -> good (allc Q) (isub r f s).
Proof.
  intros PQ Hs Hf. unfold isub. destruct (re_scan r s) as [l tl] eqn:E.
  apply (re_scan_allc P) in E as [Hl Htl]; [|exact Hs].
  assert (W : forall t, allc P t -> allc Q t) by (intros t Ht x Hx; apply PQ, Ht, Hx).
  eapply good_bind with (P := Forall (allc Q)).
  - eapply imapM_good with (P := fun bm => allc P (fst bm) /\ forall k t, grp (snd bm) k = Some t -> allc P t); [|exact Hl].
    intros bm [H1 H2]. eapply good_bind; [apply Hf; apply grp_s_allc; exact H2|].
    intros x Hx. apply allc_app. auto.
  - intros parts Hp. apply allc_app. split; [apply allc_concat; exact Hp|apply W; exact Htl].
Qed.

Lemma isub_good P r f s : allc P s -> (forall m, (forall k, allc P (grp_s m k)) -> good (allc P) (f m)) ->
  good (allc P) (isub r f s).
Proof. apply isub_good2. auto. Qed.

(* ---- macros.render ---- *)
Record ienv_ok (s : ienv) : Prop := {
  io_env : env_ok s;
  io_macros : Forall (fun nv => rfree (snd nv)) (en_macros s) }.

Definition p2 (x : char) : Prop := 2 <= x.   (* reserved-free apart from the line-deletion flag *)

Lemma rfree_p2 s : rfree s -> allc p2 s.
Proof. intros H x Hx. apply H in Hx. unfold p2. lia. Qed.

Lemma p2_no2_rfree s : allc p2 s -> existsb (N.eqb 2) s = false -> rfree s.
Proof.
  intros H E x Hx. specialize (H x Hx). unfold p2 in H.
  destruct (N.eq_dec x 2) as [->|Hn]; [|lia].
  exfalso. assert (existsb (N.eqb 2) s = true) by (apply existsb_exists; exists 2; split; [exact Hx|reflexivity]). congruence.
Qed.

Lemma assoc_get_In name l v : assoc_get name l = Some v -> exists n, In (n, v) l.
Proof.
  induction l as [|[n v'] l IH]; simpl; [discriminate|]. destruct (str_eqb n name).
  - intros H. inversion H; subst. exists n. left. reflexivity.
  - intros H. destruct (IH H) as (n' & Hn). exists n'. right. exact Hn.
Qed.

Section Macros.
Variable s : ienv.
Variable sr : str -> I str.
Hypothesis Hs : ienv_ok s.
Hypothesis Hsr : sr_ok sr.

Lemma getValue_rfree name v : getValue s name = Some v -> rfree v.
Proof.
  intros H. apply assoc_get_In in H as (n & Hn). destruct Hs as [_ Hm]. rewrite Forall_forall in Hm. apply (Hm _ Hn).
Qed.

Lemma param_repl_good params m : Forall rfree params -> (forall k, rfree (grp_s m k)) -> good rfree (param_repl sr params m).
Proof.
  intros Hp Hm. unfold param_repl.
  destruct (starts_with [92] (grp0 m)); [apply allc_tl; apply (Hm O)|].
  destruct (py_int (grp_s m 2)) as [pz| |]; [|discriminate|discriminate].
  destruct (pz =? 0)%Z; [apply (Hm O)|].
  set (param0 := if (Z.of_nat (length params) <? pz)%Z then [] else nth (Z.to_nat pz - 1) params []).
  assert (H0 : rfree param0).
  { unfold param0. destruct (_ <? _)%Z; [apply allc_nil|].
    destruct (nth_in_or_default (Z.to_nat pz - 1) params []) as [Hin | ->]; [|apply allc_nil].
    rewrite Forall_forall in Hp. apply Hp. exact Hin. }
  set (param := if nonempty (grp_s m 3) then _ else param0).
  assert (H1 : rfree param).
  { unfold param. destruct (nonempty (grp_s m 3)); [|exact H0].
    destruct (starts_with [92] (grp_s m 3)); [apply allc_app; split; [exact H0|apply allc_tl, Hm]|].
    destruct (is_empty param0); [|exact H0]. apply allc_replace_all'; [rf_lit|apply Hm]. }
  destruct (str_eqb (grp_s m 1) _); [apply Hsr; exact H1|exact H1].
Qed.

Lemma macro_repl_simple_good text silent m : (forall k, rfree (grp_s m k)) ->
  good rfree (macro_repl sr s text silent true m).
Proof.
  intros Hm. unfold macro_repl.
  destruct (starts_with [92] (grp0 m)); [apply allc_tl, (Hm O)|].
  destruct (starts_with [63] (grp_s m 2)).
  { eapply good_bind with (P := fun _ => True); [destruct silent; exact Logic.I|]. intros _ _. apply (Hm O). }
  destruct (getValue s (grp_s m 1)) as [value|] eqn:Ev.
  2:{ eapply good_bind with (P := fun _ => True); [destruct silent; exact Logic.I|]. intros _ _. apply (Hm O). }
  apply getValue_rfree in Ev. exact Ev.
Qed.

Lemma macro_repl_good text silent m : (forall k, rfree (grp_s m k)) ->
  good (allc p2) (macro_repl sr s text silent false m).
Proof.
  intros Hm. unfold macro_repl.
  destruct (starts_with [92] (grp0 m)); [apply rfree_p2, allc_tl, (Hm O)|].
  destruct (starts_with [63] (grp_s m 2)).
  { eapply good_bind with (P := fun _ => True); [destruct silent; exact Logic.I|]. intros _ _. apply rfree_p2, (Hm O). }
  destruct (getValue s (grp_s m 1)) as [value|] eqn:Ev.
  2:{ eapply good_bind with (P := fun _ => True); [destruct silent; exact Logic.I|]. intros _ _. apply rfree_p2, (Hm O). }
  apply getValue_rfree in Ev.
  destruct (replace_all _ _ (grp_s m 2)) as [|c ptail] eqn:Ep; [discriminate|].
  assert (Hpt : rfree (c :: ptail)).
  { rewrite <- Ep. apply allc_replace_all'; [rf_lit|apply Hm]. }
  apply allc_cons in Hpt as [_ Hpt].
  destruct (c =? 124).
  { eapply good_weaken; [apply rfree_p2|]. apply isub_good; [exact Ev|]. intros m' Hm'.
    apply param_repl_good; [apply allc_split_char; exact Hpt|exact Hm']. }
  destruct ((c =? 33) || (c =? 61)).
  2:{ eapply good_bind with (P := fun _ => True); [exact Logic.I|]. intros _ _. apply allc_nil. }
  destruct (parse_regex _ false false) as [rx| |]; [| |discriminate].
  - cbn. destruct (if c =? 33 then _ else _); [intros x [<-|[]]; unfold p2; lia|apply allc_nil].
  - eapply good_bind with (P := fun _ => True); [destruct silent; exact Logic.I|]. intros _ _. apply rfree_p2, (Hm O).
Qed.

Lemma macros_render_good text silent : rfree text -> good rfree (macros_render sr s text silent).
Proof.
  intros Ht. unfold macros_render.
  eapply good_bind with (P := rfree).
  { apply isub_good; [exact Ht|]. intros m Hm. apply macro_repl_simple_good. exact Hm. }
  intros r1 H1. eapply good_bind with (P := allc p2).
  { apply isub_good2 with (P := fun x => 2 < x); [intros x Hx; unfold p2; lia|exact H1|].
    intros m Hm. apply macro_repl_good. exact Hm. }
  intros r2 H2. destruct (existsb (N.eqb 2) r2) eqn:E.
  - apply allc_join; [intros x [<-|[]]; cbv beta; lia|].
    pose proof (allc_split_char p2 10 r2 H2) as Hl. induction Hl as [|l ls Hl Hls IH]; cbn [filter]; [constructor|].
    destruct (existsb (N.eqb 2) l) eqn:El; cbn [negb]; [exact IH|]. constructor; [apply p2_no2_rfree; auto|exact IH].
  - apply p2_no2_rfree; auto.
Qed.
End Macros.

(* ---- inline entry points used by the block layer ---- *)
Lemma spans_ok fuel s : ienv_ok s -> sr_ok (spans_render fuel s).
Proof. intros [He _]. apply spans_render_good. exact He. Qed.

Lemma macros_top_ok fuel s silent : ienv_ok s -> sr_ok (fun t => macros_render_top fuel s t silent).
Proof. intros Hs t Ht. apply macros_render_good; auto using spans_ok. Qed.

Lemma replaceInline_top_good fuel s t e : ienv_ok s -> rfree t -> good rfree (replaceInline_top fuel s (Some t) e).
Proof. intros Hs Ht. apply replaceInline_good; auto using spans_ok, macros_top_ok. Qed.

Lemma replaceMatch_top_good fuel s m ng repl e : ienv_ok s -> (forall k, rfree (grp_s m k)) -> rfree repl ->
  good rfree (replaceMatch_top fuel s m ng repl e).
Proof. intros Hs Hm Hr. apply replaceMatch_good; auto using spans_ok, macros_top_ok. Qed.


(* C13 / C03: an inline HTML tag in plain text.  For pre, post over letters, digits, blank, full stop and comma, and a tag name
   of letters and digits, spans.render of  pre <name> post  is  escape pre . F . escape post  where F is what the HTML policy
   of the safe mode makes of the tag: the tag itself, nothing, the replacement text, or the escaped tag.  So the three policies
   differ at the tag and nowhere else, and the surrounding text is rendered the same. *)
From Rimu Require Import Base Unicode Regex RegexSem RegexAnalysis RegexParse Str Types Tables Guards State Inline
  MatchLemmas Placeholder MatchExact ScanLemmas Plain.
From Coq Require Import Lia.
Local Open Scope monad_scope.

Definition word_alphabet : list char :=
  $"abcdefghijklmnopqrstuvwxyzABCDEFGHIJKLMNOPQRSTUVWXYZ0123456789 .,".
Definition tag_alphabet : list char := word_alphabet ++ [60; 62].
Definition ph_alphabet : list char := word_alphabet ++ [0].

Definition html_def : rdef := nth 9 replacements_default dummy_rdef.
Definition hre : cre := r_re html_def.
Definition before_html : list rdef := firstn 9 replacements_default.
Definition after_html : list rdef := skipn 10 replacements_default.

Lemma html_split : replacements_default = before_html ++ html_def :: after_html /\ r_filter html_def = RfHtml.
Proof. split; reflexivity. Qed.

Lemma before_no_match : forallb (fun d => negb (okA tag_alphabet (re_ast (r_re d)))) before_html = true.
Proof. vm_compute. reflexivity. Qed.

Lemma word_sub_plain : forallb (fun c => existsb (N.eqb c) plain_alphabet) word_alphabet = true.
Proof. vm_compute. reflexivity. Qed.

Lemma word_plain t : over word_alphabet t -> over plain_alphabet t.
Proof.
  intros H x Hx. apply H in Hx. pose proof word_sub_plain as W. rewrite forallb_forall in W. apply W in Hx.
  apply existsb_exists in Hx as (y & Hy & E). apply N.eqb_eq in E. subst y. exact Hy.
Qed.

Lemma word_facts : forallb (fun x => negb (first (re_ast hre) x) && negb (x =? 0) && negb (x =? 38) && negb (x =? 60) && negb (x =? 62)) word_alphabet = true.
Proof. vm_compute. reflexivity. Qed.

Lemma word_char x : In x word_alphabet -> first (re_ast hre) x = false /\ x <> 0 /\ x <> 38 /\ x <> 60 /\ x <> 62.
Proof.
  intros Hx. pose proof word_facts as H. rewrite forallb_forall in H. apply H in Hx.
  repeat match goal with H : _ && _ = true |- _ => apply andb_prop in H as [H ?] end.
  repeat match goal with H : negb _ = true |- _ => apply negb_true_iff in H end.
  repeat match goal with H : (_ =? _) = false |- _ => apply N.eqb_neq in H end. auto.
Qed.

(* escape is the identity on such text *)
Lemma escape_word t : over word_alphabet t -> escape t = t.
Proof.
  unfold escape. induction t as [|c t IH]; intros H; [reflexivity|]. cbn [flat_map].
  destruct (word_char c (H c (or_introl eq_refl))) as (_ & _ & H38 & H60 & H62).
  unfold escape_char. replace (c =? 38) with false by (symmetry; apply N.eqb_neq; exact H38).
  replace (c =? 62) with false by (symmetry; apply N.eqb_neq; exact H62).
  replace (c =? 60) with false by (symmetry; apply N.eqb_neq; exact H60).
  cbn [app]. f_equal. apply IH. intros x Hx. apply H. right. exact Hx.
Qed.

(* ---- the tag pattern on <name>post ---- *)
Definition set1 : list citem :=
  match re_ast hre with
  | RSeq _ (RGrp _ (RSeq _ (RAlt _ (RSeq _ (RSeq (RGrp _ (RSeq (RSet false i1) _)) _))))) => i1
  | _ => []
  end.
Definition set2 : list citem :=
  match re_ast hre with
  | RSeq _ (RGrp _ (RSeq _ (RAlt _ (RSeq _ (RSeq (RGrp _ (RSeq _ (RRep _ _ _ (RSet false i2)))) _))))) => i2
  | _ => []
  end.
Definition sp_set : list citem :=
  match re_ast hre with
  | RSeq _ (RGrp _ (RSeq _ (RAlt _ (RSeq _ (RSeq _ (RSeq (RRep _ _ _ (RSeq (RRep _ _ _ (RSet false sp)) _)) _)))))) => sp
  | _ => []
  end.

Lemma hre_shape : exists comment attrs,
  re_ast hre = RSeq (RRep true 0 (Some 1) (RLit 92))
     (RGrp 1 (RSeq (RLit 60) (RAlt (RSeq (RLit 33) comment)
        (RSeq (RRep true 0 (Some 1) (RLit 47))
           (RSeq (RGrp 2 (RSeq (RSet false set1) (RRep true 0 None (RSet false set2))))
              (RSeq (RRep true 0 (Some 1) (RSeq (RRep true 1 None (RSet false sp_set)) attrs)) (RLit 62))))))) /\
  re_groups hre = 2%nat /\ wf_exact (re_ast hre) = true /\ nullable (re_ast hre) = false.
Proof. eexists _, _. repeat split; reflexivity. Qed.

Definition name_ok2 (name : str) : Prop :=
  exists l0 t, name = l0 :: t /\ set_match false set1 l0 = true /\ (forall x, In x t -> set_match false set2 x = true) /\
               l0 <> 33 /\ l0 <> 47.

Lemma set2_excludes : set_match false set2 62 = false /\ set_match false sp_set 62 = false.
Proof. split; vm_compute; reflexivity. Qed.

(* two sets given by ranges that do not overlap have no common element *)
Definition range_disjoint (a b : citem) : bool :=
  match a, b with
  | IRange l1 h1, IRange l2 h2 => (h1 <? l2) || (h2 <? l1)
  | _, _ => false
  end.
Definition ranges_disjoint (a b : list citem) : bool := forallb (fun x => forallb (range_disjoint x) b) a.

Lemma range_disjoint_sound a b x : range_disjoint a b = true -> in_item x a = true -> in_item x b = true -> False.
Proof.
  destruct a as [l1 h1|? ?], b as [l2 h2|? ?]; cbn; try discriminate. intros H H1 H2.
  apply andb_prop in H1 as [A1 A2]. apply andb_prop in H2 as [B1 B2]. apply N.leb_le in A1, A2, B1, B2.
  apply orb_prop in H as [H|H]; apply N.ltb_lt in H; lia.
Qed.

Lemma ranges_disjoint_sound a b x : ranges_disjoint a b = true ->
  set_match false a x = true -> set_match false b x = true -> False.
Proof.
  unfold set_match, in_items. cbn [xorb negb]. intros H Ha Hb.
  assert (Ha' : existsb (in_item x) a = true) by (destruct (existsb (in_item x) a); [reflexivity|discriminate]).
  assert (Hb' : existsb (in_item x) b = true) by (destruct (existsb (in_item x) b); [reflexivity|discriminate]).
  apply existsb_exists in Ha' as (ia & Hia & Eia). apply existsb_exists in Hb' as (ib & Hib & Eib).
  unfold ranges_disjoint in H. rewrite forallb_forall in H. specialize (H ia Hia). rewrite forallb_forall in H. specialize (H ib Hib).
  eapply range_disjoint_sound; eauto.
Qed.

Lemma set2_sp_disjoint : ranges_disjoint set2 sp_set = true.
Proof. vm_compute. reflexivity. Qed.

Lemma set2_not_space x : set_match false set2 x = true -> set_match false sp_set x = false.
Proof.
  intros H. destruct (set_match false sp_set x) eqn:E; [|reflexivity]. exfalso.
  exact (ranges_disjoint_sound _ _ x set2_sp_disjoint H E).
Qed.

Definition tag_final (i : N) (name post : str) : mst :=
  mkSt (i + 1 + lenN name + 1) (Some 62) post
       [(1%nat, {| c_s := i; c_e := i + 1 + lenN name + 1; c_txt := 60 :: name ++ 62 :: post |});
        (2%nat, {| c_s := i + 1; c_e := i + 1 + lenN name; c_txt := name ++ 62 :: post |})].

Lemma tag_derivation i p name post s' : name_ok2 name ->
  mx (re_ast hre) (mkSt i p (60 :: name ++ 62 :: post) []) s' <-> s' = tag_final i name post.
Proof.
  intros (l0 & t & En & Hl0 & Ht & H33 & H47). destruct hre_shape as (comment & attrs & Sh & _). rewrite Sh. cbn [mx].
  destruct set2_excludes as [H62 _]. split.
  - intros (s1 & (n & Hbs & _ & _) & sg & (s2 & (x & tx & Hr & Hx & ->) & Hbranch) & ->).
    assert (s1 = mkSt i p (60 :: name ++ 62 :: post) []).
    { destruct n as [|n]; [exact Hbs|]. exfalso. cbn [iterR mx] in Hbs. destruct Hbs as (sx & (z & tz & Hrz & Hz & _) & _).
      apply lit_match in Hz. subst z. cbn in Hrz. inversion Hrz. }
    subst s1. cbn [st_rest st_i st_p st_c] in *. inversion Hr; subst x tx. clear Hr Hx.
    destruct Hbranch as [Hc|Ht2].
    { (* the comment branch needs an exclamation mark *)
      exfalso. destruct Hc as (sc & (y & ty & Hry & Hy & _) & _). cbn in Hry. rewrite En in Hry. cbn in Hry. inversion Hry; subst.
      apply lit_match in Hy. congruence. }
    destruct Ht2 as (s3 & (n2 & Hsl & _ & _) & s4 & (s3' & (s5 & (y & ty & Hry & Hy & ->) & (k & Hit & _ & _)) & ->) & s6 & (n3 & Hopt & _ & Hmax3) & (z & tz & Hrz & Hz & ->)).
    assert (s3 = mkSt (i + 1) (Some 60) (name ++ 62 :: post) []).
    { destruct n2 as [|n2]; [exact Hsl|]. exfalso. cbn [iterR mx] in Hsl. destruct Hsl as (sx & (w & tw & Hrw & Hw & _) & _).
      apply lit_match in Hw. subst w. cbn in Hrw. rewrite En in Hrw. cbn in Hrw. inversion Hrw. congruence. }
    subst s3. cbn [st_rest st_i st_p st_c] in *. rewrite En in Hry. cbn [app] in Hry. inversion Hry; subst y ty. clear Hry Hy.
    apply iter_set_run in Hit as (u & Eu & Hu & Hc & Hi & Hp & Hl). cbn [st_rest st_i st_p st_c] in *.
    (* no attribute part: the next character is a name character or the closing bracket, not a space *)
    assert (s6 = mkSt (st_i s3') (st_p s3') (st_rest s3')
                      ((2%nat, {| c_s := i + 1; c_e := st_i s3'; c_txt := name ++ 62 :: post |}) :: st_c s3')).
    { destruct n3 as [|n3]; [exact Hopt|]. exfalso. cbn [iterR mx] in Hopt.
      destruct Hopt as (sx & (sy & (k2 & Hsp & Hk2 & _) & _) & _).
      destruct k2 as [|k2]; [lia|]. cbn [iterR mx] in Hsp. destruct Hsp as (sz & (w & tw & Hrw & Hw & _) & _).
      cbn [st_rest] in Hrw. rewrite Hrw in Eu.
      (* t ++ 62 :: post = u ++ w :: tw with w a space: impossible *)
      clear -Eu Hu Ht Hw H62. revert u Eu Hu. induction t as [|a t IH]; intros u Eu Hu.
      - destruct u as [|b u]; cbn in Eu; inversion Eu; subst.
        + destruct set2_excludes as [_ Hs]. congruence.
        + rewrite Hu in H62 by (left; reflexivity). discriminate.
      - destruct u as [|b u]; cbn in Eu; inversion Eu; subst.
        + rewrite (set2_not_space w) in Hw; [discriminate|]. apply Ht. left. reflexivity.
        + eapply (IH (fun x Hx => Ht x (or_intror Hx)) u); eauto. intros x Hx. apply Hu. right. exact Hx. }
    subst s6. cbn [st_rest st_i st_p st_c] in *. apply lit_match in Hz. subst z. rewrite Hrz in Eu.
    destruct (run_unique (set_match false set2) 62 H62 t u post tz Ht Hu Eu) as [-> ->].
    unfold tag_final. rewrite Hi, Hc, En. cbn [lenN st_c]. replace (i + 1 + N.succ (lenN t)) with (i + 1 + 1 + lenN t) by lia. reflexivity.
  - intros ->. unfold tag_final. rewrite En. cbn [lenN].
    replace (i + 1 + N.succ (lenN t)) with (i + 1 + 1 + lenN t) by lia.
    set (cap2 := (2%nat, {| c_s := i + 1; c_e := i + 1 + 1 + lenN t; c_txt := (l0 :: t) ++ 62 :: post |})).
    exists (mkSt i p (60 :: (l0 :: t) ++ 62 :: post) []). split; [exists O; cbn; repeat split; lia|].
    exists (mkSt (i + 1 + 1 + lenN t + 1) (Some 62) post [cap2]). split; [|reflexivity].
    exists (mkSt (i + 1) (Some 60) ((l0 :: t) ++ 62 :: post) []). split; [exists 60, ((l0 :: t) ++ 62 :: post); cbn; auto|].
    right.
    exists (mkSt (i + 1) (Some 60) ((l0 :: t) ++ 62 :: post) []). split; [exists O; cbn; repeat split; lia|].
    exists (mkSt (i + 1 + 1 + lenN t) (last_of (Some l0) t) (62 :: post) [cap2]). split.
    + exists (mkSt (i + 1 + 1 + lenN t) (last_of (Some l0) t) (62 :: post) []). split; [|reflexivity].
      exists (mkSt (i + 1 + 1) (Some l0) (t ++ 62 :: post) []). split; [exists l0, (t ++ 62 :: post); cbn; auto|].
      exists (length t). split; [apply iter_set_intro; exact Ht|]. split; [lia|exact Logic.I].
    + exists (mkSt (i + 1 + 1 + lenN t) (last_of (Some l0) t) (62 :: post) [cap2]).
      split; [exists O; cbn; repeat split; lia|]. exists 62, post. cbn [st_rest st_i st_p st_c]. auto.
Qed.

Lemma tag_match pre name post : over word_alphabet pre -> name_ok2 name ->
  exists m, re_search hre (pre ++ 60 :: name ++ 62 :: post) = Some m /\
    m_start m = lenN pre /\ m_end m = lenN pre + lenN (60 :: name ++ [62]) /\
    m_groups m = [Some (60 :: name ++ [62]); Some (60 :: name ++ [62]); Some name].
Proof.
  intros Hpre Hname. destruct hre_shape as (_ & _ & _ & Hng & Hwf & Hn).
  destruct (exec_exact _ Hwf) as [S C].
  set (i := lenN pre). set (p := last_of None pre).
  assert (Hex : match_at hre i p (60 :: name ++ 62 :: post) <> None).
  { apply (proj2 (match_at_iff _ _ _ _ Hwf)). exists (tag_final i name post). apply tag_derivation; auto. }
  unfold match_at in Hex.
  destruct (exec (re_ast hre) kfinal i p (60 :: name ++ 62 :: post) []) as [[e cc]|] eqn:E; [|cbn in Hex; congruence].
  pose proof E as E'. apply S in E' as (s' & M & Hk). apply (tag_derivation i p name post s' Hname) in M. subst s'.
  unfold kapp, kfinal, tag_final in Hk. cbn in Hk. inversion Hk; subst e cc. clear Hk.
  eexists. split.
  - unfold re_search. rewrite (search_from_skip hre Hn pre 0 None _ (fun x Hx => proj1 (word_char x (Hpre x Hx)))).
    rewrite N.add_0_l. fold i p. cbn [search_from]. unfold match_at. rewrite E. reflexivity.
  - cbn [option_map mk_mres m_start m_end m_groups]. split; [reflexivity|].
    split; [cbn [lenN]; rewrite lenN_app; cbn [lenN]; lia|].
    rewrite Hng. cbn [group_list cap_get Nat.eqb option_map]. unfold cap_text. cbn [c_s c_e c_txt].
    replace (i + 1 + lenN name + 1 - i) with (lenN (60 :: name ++ [62])) by (cbn [lenN]; rewrite lenN_app; cbn [lenN]; lia).
    replace (i + 1 + lenN name - (i + 1)) with (lenN name) by lia.
    replace (60 :: name ++ 62 :: post) with ((60 :: name ++ [62]) ++ post) by (cbn; rewrite <- app_assoc; reflexivity).
    rewrite ?takeN_app_exact. reflexivity.
Qed.

(* ---- the replacements pass ---- *)
Section Tag.
Variable s : ienv.
Variable sr : str -> I str.

Definition tag_of (name : str) : str := 60 :: name ++ [62].
Definition tag_frag (name : str) : frag := mkFrag (htmlSafeModeFilter s (tag_of name)) true (tag_of name).

Lemma fragReplacement_step n d text m : re_search (r_re d) text = Some m ->
  fragReplacement s sr (S n) d text =
  (rep <-i replacement_text s sr d m ;; rest <-i fragReplacement s sr n d (dropN (m_end m) text) ;;
   iret (undone (takeN (m_start m) text) :: mkFrag rep true (grp0 m) :: rest)).
Proof. intros H. cbn [fragReplacement]. rewrite H. reflexivity. Qed.

Lemma fragReplacement_none n d text : re_search (r_re d) text = None -> fragReplacement s sr (S n) d text = iret [undone text].
Proof. intros H. cbn [fragReplacement]. rewrite H. reflexivity. Qed.

Lemma fragReplacement_tag n pre name post : over word_alphabet pre -> name_ok2 name -> over word_alphabet post ->
  fragReplacement s sr (S (S n)) html_def (pre ++ 60 :: name ++ 62 :: post) = iret [undone pre; tag_frag name; undone post].
Proof.
  intros Hpre Hname Hpost. destruct (tag_match pre name post Hpre Hname) as (m & Hm & Hst & Hen & Hg).
  rewrite (fragReplacement_step _ _ _ m Hm).
  assert (G0 : grp0 m = tag_of name) by (unfold grp0, grp_s, grp; rewrite Hg; reflexivity).
  assert (Hrep : replacement_text s sr html_def m = iret (htmlSafeModeFilter s (tag_of name))).
  { unfold replacement_text. rewrite G0. cbn [tag_of starts_with N.eqb Pos.eqb andb]. rewrite (proj2 html_split).
    unfold grp. rewrite Hg. reflexivity. }
  rewrite Hrep.
  assert (Ha : dropN (m_end m) (pre ++ 60 :: name ++ 62 :: post) = post).
  { rewrite Hen. replace (pre ++ 60 :: name ++ 62 :: post) with (pre ++ (60 :: name ++ [62]) ++ post)
      by (cbn; rewrite <- app_assoc; reflexivity).
    rewrite dropN_app_plus. apply dropN_app_exact. }
  assert (Hb : takeN (m_start m) (pre ++ 60 :: name ++ 62 :: post) = pre) by (rewrite Hst; apply takeN_app_exact).
  rewrite Ha, Hb, G0.
  rewrite fragReplacement_none.
  - reflexivity.
  - apply re_search_none; [reflexivity|]. intros x Hx. apply (word_char x (Hpost x Hx)).
Qed.

Lemma fragReplacements_skip n t : forall a b,
  (forall d, In d a -> re_search (r_re d) t = None) ->
  fragReplacements s sr (S n) (a ++ b) [undone t] = fragReplacements s sr (S n) b [undone t].
Proof.
  induction a as [|d a IH]; intros b H; [reflexivity|]. cbn [app fragReplacements iconcat_map undone f_done f_text].
  rewrite fragReplacement_none by (apply H; left; reflexivity). rewrite !ibind_iret_l. cbn [app].
  apply IH. intros d' Hd'. apply H. right. exact Hd'.
Qed.

Lemma fragReplacements_three n pre f post : f_done f = true -> over plain_alphabet pre -> over plain_alphabet post ->
  forall defs, (forall d, In d defs -> In (r_re d) span_regexes) ->
  fragReplacements s sr (S n) defs [undone pre; f; undone post] = iret [undone pre; f; undone post].
Proof.
  intros Hf Hpre Hpost. induction defs as [|d ds IH]; intros Hds; [reflexivity|].
  cbn [fragReplacements iconcat_map undone f_done f_text]. rewrite Hf.
  rewrite !fragReplacement_none by (apply no_match; [apply Hds; left; reflexivity|assumption]).
  rewrite !ibind_iret_l. cbn [app]. apply IH. intros d' Hd'. apply Hds. right. exact Hd'.
Qed.

Lemma after_in_span : forall d, In d after_html -> In (r_re d) span_regexes.
Proof.
  intros d Hd. apply default_repls_in. destruct html_split as [E _]. rewrite E. apply in_or_app. right. right. exact Hd.
Qed.

Lemma fragReplacements_tag n pre name post : over word_alphabet pre -> name_ok2 name -> over word_alphabet name -> over word_alphabet post ->
  fragReplacements s sr (S (S n)) replacements_default [undone (pre ++ 60 :: name ++ 62 :: post)] =
  iret [undone pre; tag_frag name; undone post].
Proof.
  intros Hpre Hname Hname_word Hpost. destruct html_split as [E _]. rewrite E.
  rewrite fragReplacements_skip.
  - cbn [fragReplacements iconcat_map undone f_done f_text]. rewrite (fragReplacement_tag n pre name post Hpre Hname Hpost).
    rewrite !ibind_iret_l. cbn [app]. apply fragReplacements_three; [reflexivity|apply word_plain; exact Hpre|apply word_plain; exact Hpost|exact after_in_span].
  - intros d Hd. apply (re_search_none_over tag_alphabet).
    + pose proof before_no_match as H. rewrite forallb_forall in H. apply H in Hd. apply negb_true_iff in Hd. exact Hd.
    + destruct Hname as (l0 & t & En & Hl0 & Ht & _).
      intros x Hx. unfold tag_alphabet. apply in_or_app. apply in_app_or in Hx as [Hx|[<-|Hx]]; [left; auto|right; left; reflexivity|].
      apply in_app_or in Hx as [Hx|[<-|Hx]]; [|right; right; left; reflexivity|left; auto].
      left. apply Hname_word. exact Hx.
Qed.
End Tag.

(* ---- quotes and the placeholder ---- *)
Definition hqre := quotesRe quotes_default.
Lemma ph_no_match : okA ph_alphabet (re_ast hqre) = false /\ okA ph_alphabet (re_ast (unescapeRe quotes_default)) = false.
Proof. split; vm_compute; reflexivity. Qed.

Lemma fragQuote_none n t : re_search hqre t = None -> fragQuote (S (S n)) quotes_default hqre t = Ok [undone t].
Proof.
  intros H. cbn [fragQuote find_quote]. unfold re_search_pos.
  assert (E : skip_to 0 0 None t = (0, None, t)) by (destruct t; reflexivity).
  rewrite E. fold (re_search hqre t). rewrite H. reflexivity.
Qed.

Lemma escape_app a b : escape (a ++ b) = escape a ++ escape b.
Proof. unfold escape. apply flat_map_app. Qed.

Definition phre := re_spans_postReplacements_0.

Lemma ph_match i p rest : exists m, match_at phre i p (0 :: rest) = Some m /\ m_start m = i /\ m_end m = i + lenN [0] /\ grp0 m = [0].
Proof.
  eexists. split; [reflexivity|]. cbn [option_map mk_mres m_start m_end]. split; [reflexivity|]. split; [reflexivity|].
  unfold grp0, grp_s, grp. cbn [m_groups mk_mres nth]. replace (i + 1 - i) with 1 by lia. cbn. destruct rest; reflexivity.
Qed.

Lemma word_ph_first x : In x word_alphabet -> first (re_ast phre) x = false.
Proof.
  intros Hx. assert (H : forallb (fun y => negb (first (re_ast phre) y)) word_alphabet = true) by (vm_compute; reflexivity).
  rewrite forallb_forall in H. apply H in Hx. apply negb_true_iff in Hx. exact Hx.
Qed.

Theorem spans_render_tag n s pre name post :
  defaults s -> over word_alphabet pre -> name_ok2 name -> over word_alphabet name -> over word_alphabet post ->
  spans_render (S (S (S (S n)))) s (pre ++ 60 :: name ++ 62 :: post) =
  iret (pre ++ htmlSafeModeFilter s (60 :: name ++ [62]) ++ post).
Proof.
  intros [Hr Hq] Hpre Hname Hnw Hpost. cbn [spans_render]. unfold spans_body. rewrite Hr, Hq.
  rewrite (fragReplacements_tag s _ (S n) pre name post Hpre Hname Hnw Hpost).
  rewrite ibind_iret_l. cbn [filter undone f_done tag_frag].
  unfold frag_placeholder_text. cbn [flat_map undone f_done f_text tag_frag app]. rewrite app_nil_r.
  assert (Hph : over ph_alphabet (pre ++ 0 :: post)).
  { unfold ph_alphabet. intros x Hx. apply in_or_app. apply in_app_or in Hx as [Hx|[<-|Hx]]; [left; auto|right; left; reflexivity|left; auto]. }
  unfold fragQuotes. cbn [res_concat_map undone f_done f_text]. fold hqre.
  rewrite (fragQuote_none (S n)) by (apply (re_search_none_over ph_alphabet); [apply ph_no_match|exact Hph]).
  cbn [app map undone f_done f_text f_verb of_res]. rewrite ibind_iret_l. cbn [flat_map undone f_done f_text app].
  unfold quotes_unescape. rewrite (re_sub_none_over ph_alphabet); [|apply ph_no_match|exact Hph].
  rewrite app_nil_r, escape_app. cbn [escape flat_map app]. fold (escape post).
  rewrite (escape_word pre Hpre), (escape_word post Hpost).
  change (escape_char 0) with [0]. cbn [app].
  destruct (ph_match (lenN pre) (last_of None pre) post) as (m & Hm & Hst & Hen & Hg).
  assert (Hscan : re_scan phre (pre ++ [0] ++ post) = ([(pre, m)], post)).
  { apply re_scan_one; [reflexivity|intros x Hx; apply word_ph_first; auto|intros x Hx; apply word_ph_first; auto|exact Hm|exact Hst|exact Hen|discriminate]. }
  cbn [app] in Hscan. fold phre. unfold str, char in *. rewrite Hscan.
  cbn [postReplacements of_res]. rewrite Hg. cbn [str_eqb N.eqb andb f_text tag_frag tag_of app]. rewrite ibind_iret_l.
  rewrite app_nil_r, <- app_assoc. reflexivity.
Qed.

(* under the drop and escape policies no raw angle bracket reaches the output *)
From Rimu Require Import Block Frame FrameBlock FrameInst OptionsLemmas MiscLemmas.
Lemma inline_tag_confined : forall n s pre name post out log,
  defaults s -> over word_alphabet pre -> name_ok2 name -> over word_alphabet name ->
  over word_alphabet post ->
  (html_policy (en_mode s) = PDrop \/ html_policy (en_mode s) = PEscape) ->
  spans_render (S (S (S (S n)))) s (pre ++ 60 :: name ++ 62 :: post) = Ok (out, log) ->
  ~ In 60 out /\ ~ In 62 out.
Proof.
  intros n s pre name post out log Hd Hpre Hn Hnw Hpost Hpol H.
  rewrite (spans_render_tag n s pre name post Hd Hpre Hn Hnw Hpost) in H. inversion H; subst out log. clear H.
  assert (Hw : forall t x, over word_alphabet t -> In x t -> x <> 60 /\ x <> 62).
  { intros t x Ht Hx. apply Ht in Hx. apply word_char in Hx. tauto. }
  assert (HF : ~ In 60 (htmlSafeModeFilter s (60 :: name ++ [62])) /\ ~ In 62 (htmlSafeModeFilter s (60 :: name ++ [62]))).
  { unfold htmlSafeModeFilter. destruct Hpol as [-> | ->]; [split; intros []|apply escape_no_lt_gt]. }
  split; intros Hin; apply in_app_or in Hin as [Hin|Hin];
    try (apply (Hw pre _ Hpre) in Hin; tauto);
    apply in_app_or in Hin as [Hin|Hin]; try (apply (Hw post _ Hpost) in Hin; tauto); tauto.
Qed.

(* Relational ("two runs") reasoning for the block layer: two sessions that agree on
   everything the renderer reads -- but may differ in the diagnostic log, in the callback
   flag, and (at block boundaries) in the list-id scratch stack -- are taken by every
   block-layer function to the same value and to sessions that agree in the same way,
   with the same diagnostics appended. *)
From Rimu Require Import Base Regex RegexParse Str Types Tables Guards State Inline Block.
From Coq Require Import Lia.
Local Open Scope monad_scope.

Definition core (s : session) :=
  (s_mode s, s_repl s, s_quotes s, s_repls s, s_dblocks s, s_macros s,
   (p_classes s, p_id s, p_css s, p_attrs s, p_opts s), s_ids s).

Record cfg := mkCfg { tight : bool; flags : bool }.

Section Rel.
Variables ls0 lt0 : list (bool * str).   (* the logs of the two runs at the start *)

Definition Rel (c : cfg) (s t : session) : Prop :=
  core s = core t /\
  (tight c = true -> s_listids s = s_listids t) /\
  (flags c = true -> s_cb s = s_cb t) /\
  exists d d', s_log s = d ++ ls0 /\ s_log t = d' ++ lt0 /\ map snd d = map snd d' /\ (flags c = true -> d = d').

Definition orel {A} (R : session -> session -> Prop) (x y : Res (A * session)) : Prop :=
  match x, y with
  | Ok (a, s'), Ok (b, t') => a = b /\ R s' t'
  | Raise e, Raise e' => e = e'
  | Fuel, Fuel => True
  | _, _ => False
  end.

Definition relIO {A} (Rin Rout : session -> session -> Prop) (m : M A) : Prop :=
  forall s t, Rin s t -> orel Rout (m s) (m t).

Definition rel {A} (c : cfg) (m : M A) : Prop := relIO (Rel c) (Rel c) m.

Lemma relIO_bind {A B} (R1 R2 R3 : session -> session -> Prop) (m : M A) (f : A -> M B) :
  relIO R1 R2 m -> (forall a, relIO R2 R3 (f a)) -> relIO R1 R3 (bind m f).
Proof.
  intros Hm Hf s t H. specialize (Hm s t H). unfold bind, orel in *.
  destruct (m s) as [[a s1]| |]; destruct (m t) as [[b t1]| |]; try contradiction; auto.
  destruct Hm as [-> H1]. apply Hf. exact H1.
Qed.

Lemma relIO_weaken {A} (R1 R2 R2' : session -> session -> Prop) (m : M A) :
  (forall s t, R2 s t -> R2' s t) -> relIO R1 R2 m -> relIO R1 R2' m.
Proof.
  intros Hw Hm s t H. specialize (Hm s t H). unfold orel in *.
  destruct (m s) as [[a s1]| |]; destruct (m t) as [[b t1]| |]; auto. destruct Hm; split; auto.
Qed.

Lemma rel_bind {A B} c (m : M A) (f : A -> M B) : rel c m -> (forall a, rel c (f a)) -> rel c (bind m f).
Proof. apply relIO_bind. Qed.

Lemma rel_ret {A} c (a : A) : rel c (ret a).
Proof. intros s t H. simpl. auto. Qed.
Lemma rel_raise {A} c e : rel c (@raise A e).
Proof. intros s t H. simpl. auto. Qed.
Lemma rel_fuel {A} c : rel c (@out_of_fuel A).
Proof. intros s t H. simpl. auto. Qed.

Lemma rel_gets {A} c (f : session -> A) : (forall s t, Rel c s t -> f s = f t) -> rel c (gets f).
Proof. intros Hf s t H. simpl. split; auto. Qed.

Lemma rel_modify c (f : session -> session) : (forall s t, Rel c s t -> Rel c (f s) (f t)) -> rel c (modify f).
Proof. intros Hf s t H. simpl. split; auto. Qed.

Lemma Rel_core c s t : Rel c s t -> core s = core t.
Proof. intros H. apply H. Qed.

Lemma Rel_ienv c s t : Rel c s t -> ienv_of s = ienv_of t.
Proof.
  intros H. apply Rel_core in H. unfold core in H. unfold ienv_of. destruct s, t; simpl in *. inversion H; subst. reflexivity.
Qed.

(* appending the same diagnostic to both logs *)
Lemma Rel_log c s t msg : Rel c s t -> Rel c (set_log s ((s_cb s, msg) :: s_log s)) (set_log t ((s_cb t, msg) :: s_log t)).
Proof.
  intros (Hc & Hl & Hf & d & d' & Hd & Hd' & Hm & He).
  split; [destruct s, t; exact Hc|]. split; [destruct s, t; exact Hl|]. split; [destruct s, t; exact Hf|].
  exists ((s_cb s, msg) :: d), ((s_cb t, msg) :: d').
  split; [destruct s; simpl in *; rewrite Hd; reflexivity|].
  split; [destruct t; simpl in *; rewrite Hd'; reflexivity|].
  split; [simpl; rewrite Hm; reflexivity|].
  intros F. rewrite (He F), (Hf F). reflexivity.
Qed.

Lemma rel_log_msg c msg : rel c (log_msg msg).
Proof. unfold log_msg. apply rel_modify. intros s t H. apply Rel_log; auto. Qed.

Lemma rel_log_msgs c l : rel c (log_msgs l).
Proof.
  induction l as [|m l IH]; simpl; [apply rel_ret|].
  apply rel_bind; [apply rel_log_msg | intros; exact IH].
Qed.

Lemma rel_lift {A} c (f : ienv -> I A) : rel c (lift f).
Proof.
  intros s t H. unfold lift. rewrite (Rel_ienv c s t H).
  destruct (f (ienv_of t)) as [[a msgs]| |]; simpl; auto.
  pose proof (rel_log_msgs c msgs s t H) as Hl. unfold bind, orel in *.
  destruct (log_msgs msgs s) as [[u s1]| |]; destruct (log_msgs msgs t) as [[v t1]| |]; try contradiction; auto.
  destruct Hl as [_ Hl]. simpl. auto.
Qed.

(* weakening and tightening *)
Lemma Rel_loosen c s t : Rel (mkCfg true (flags c)) s t -> Rel c s t.
Proof.
  intros (Hc & Hl & Hf & Hd). split; [exact Hc|]. split; [intros _; apply Hl; reflexivity|]. split; [exact Hf|exact Hd].
Qed.

Lemma Rel_tighten c s t : Rel c s t -> Rel (mkCfg true (flags c)) (set_listids s []) (set_listids t []).
Proof.
  intros (Hc & Hl & Hf & d & d' & Hd & Hd' & Hm & He).
  split; [destruct s, t; exact Hc|]. split; [intros _; destruct s, t; reflexivity|].
  split; [destruct s, t; exact Hf|]. exists d, d'. destruct s, t; simpl in *. auto.
Qed.
End Rel.

(* projections of related sessions are equal / setters keep sessions related *)
Ltac rel_proj :=
  let s := fresh "s" in let t := fresh "t" in let H := fresh "H" in
  intros s t H;
  let Hc := fresh "Hc" in
  pose proof (Rel_core _ _ _ _ _ H) as Hc; unfold core in Hc;
  destruct s, t; simpl in *; inversion Hc; subst; reflexivity.

Ltac rel_set :=
  let s := fresh "s" in let t := fresh "t" in let H := fresh "H" in
  intros s t H;
  let Hc := fresh "Hc" in let Hl := fresh "Hl" in let Hf := fresh "Hf" in let Hd := fresh "Hd" in
  destruct H as (Hc & Hl & Hf & Hd); unfold core in Hc;
  destruct s, t; simpl in *; inversion Hc; subst;
  repeat match goal with |- context [if ?b then _ else _] => destruct b end;
  simpl in *;
  (split; [reflexivity|]); (split; [auto|]); (split; [auto|]); exact Hd.

Create HintDb reldb.
Ltac rel_step :=
  first
    [ solve [auto with reldb nocore]
    | apply rel_ret | apply rel_raise | apply rel_fuel
    | apply rel_lift | apply rel_log_msg | apply rel_log_msgs
    | apply rel_bind; [| intro]
    | apply rel_gets; rel_proj
    | apply rel_modify; rel_set
    | match goal with
      | |- rel _ _ _ (if ?b then _ else _) => destruct b
      | |- rel _ _ _ (match ?x with _ => _ end) => destruct x
      | |- rel _ _ _ (let '(_, _) := ?x in _) => destruct x
      end ].

Ltac relt := repeat rel_step.

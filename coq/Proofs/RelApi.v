(* API-level consequences of the relational theorem: callback irrelevance (C01, C19) and
   purity of a render call that carries reset (C05). *)
From Rimu Require Import Base Regex RegexParse Str Types Tables Guards State Inline Block
  Frame FrameBlock FrameInst OptionsLemmas MiscLemmas Rel RelBlock.
From Coq Require Import Lia.
Local Open Scope monad_scope.

(* ---- callback irrelevance ---- *)
Definition NOCB : cfg := mkCfg true false.

Section Callback.
Variables ls0 lt0 : list (bool * str).
Notation Rel := (Rel ls0 lt0).

Lemma Rel_set_cb_l s t b : Rel NOCB s t -> Rel NOCB (set_cb s b) t.
Proof.
  intros (Hc & Hl & Hf & Hd). split; [destruct s, t; exact Hc|]. split; [destruct s, t; exact Hl|].
  split; [intros F; discriminate F|]. destruct s, t; exact Hd.
Qed.
Lemma Rel_set_cb_r s t b : Rel NOCB s t -> Rel NOCB s (set_cb t b).
Proof.
  intros (Hc & Hl & Hf & Hd). split; [destruct s, t; exact Hc|]. split; [destruct s, t; exact Hl|].
  split; [intros F; discriminate F|]. destruct s, t; exact Hd.
Qed.

Lemma Rel_cb_step1 o1 o2 s t : Rel NOCB s t -> Rel NOCB (cb_step1 o1 s) (cb_step1 o2 t).
Proof.
  intros H. unfold cb_step1.
  destruct (s_cb s); destruct (s_cb t); auto using Rel_set_cb_l, Rel_set_cb_r.
Qed.
Lemma Rel_cb_step2 o1 o2 s t : Rel NOCB s t -> Rel NOCB (cb_step2 o1 s) (cb_step2 o2 t).
Proof.
  intros H. unfold cb_step2.
  destruct (o_callback o1); destruct (o_callback o2); auto using Rel_set_cb_l, Rel_set_cb_r.
Qed.

Definition same_but_callback (o1 o2 : opts) : Prop :=
  o_safeMode o1 = o_safeMode o2 /\ o_htmlReplacement o1 = o_htmlReplacement o2 /\ o_reset o1 = o_reset o2.

Lemma updateFrom_callback o1 o2 s t :
  same_but_callback o1 o2 -> Rel NOCB s t -> orel (Rel NOCB) (updateFrom o1 s) (updateFrom o2 t).
Proof.
  intros (E1 & E2 & E3) H. rewrite !updateFrom_unfold. rewrite <- E1, <- E2, <- E3.
  pose proof (rel_setOption_reset ls0 lt0 NOCB (o_reset o1) _ _ (Rel_cb_step1 o1 o2 s t H)) as R1.
  unfold orel in R1.
  destruct (setOption_reset (o_reset o1) (cb_step1 o1 s)) as [[[] s2]| |];
    destruct (setOption_reset (o_reset o1) (cb_step1 o2 t)) as [[[] t2]| |]; try contradiction; auto.
  destruct R1 as [_ R1].
  assert (R2 : orel (Rel NOCB)
            ((match o_safeMode o1 with PyNone => ret tt | v => setOption_safeMode (py_str v) end) (cb_step2 o1 s2))
            ((match o_safeMode o1 with PyNone => ret tt | v => setOption_safeMode (py_str v) end) (cb_step2 o2 t2))).
  { pose proof (Rel_cb_step2 o1 o2 s2 t2 R1) as R.
    destruct (o_safeMode o1); try (apply (rel_setOption_safeMode ls0 lt0 NOCB); exact R). simpl. auto. }
  unfold orel in R2.
  destruct ((match o_safeMode o1 with PyNone => ret tt | v => setOption_safeMode (py_str v) end) (cb_step2 o1 s2)) as [[[] s3]| |];
    destruct ((match o_safeMode o1 with PyNone => ret tt | v => setOption_safeMode (py_str v) end) (cb_step2 o2 t2)) as [[[] t3]| |];
    try contradiction; auto.
  destruct R2 as [_ R2].
  destruct (o_htmlReplacement o1); simpl; try (split; [reflexivity|]); auto.
  all: destruct R2 as (Hc & Hl & Hf & Hd); unfold core in Hc; destruct s3, t3; simpl in *; inversion Hc; subst;
       (split; [reflexivity|]); (split; [auto|]); (split; [auto|]); exact Hd.
Qed.

Lemma Rel_init_both s t : Rel NOCB s t -> Rel NOCB (document_init s) (document_init t).
Proof. apply Rel_init. Qed.

(* rimu.render with and without a callback: same HTML (or the same failure), sessions that agree on
   everything but the callback flag, the same diagnostic texts appended to the log *)
Theorem api_render_callback n src o1 o2 s t :
  same_but_callback o1 o2 -> Rel NOCB s t ->
  orel (Rel NOCB) (api_render n src o1 s) (api_render n src o2 t).
Proof.
  intros Ho H. rewrite !api_render_unfold. cbv zeta.
  assert (Em : s_mode s = s_mode t).
  { pose proof (Rel_core _ _ _ _ _ H) as Hc. unfold core in Hc. destruct s, t; simpl in *. inversion Hc; subst. reflexivity. }
  rewrite <- Em.
  assert (H1 : Rel NOCB (if (s_mode s =? -1)%Z then document_init s else s) (if (s_mode s =? -1)%Z then document_init t else t)).
  { destruct (s_mode s =? -1)%Z; auto using Rel_init_both. }
  pose proof (updateFrom_callback o1 o2 _ _ Ho H1) as R. unfold orel in R.
  destruct (updateFrom o1 _) as [[[] s2]| |]; destruct (updateFrom o2 _) as [[[] t2]| |]; try contradiction; auto.
  destruct R as [_ R]. apply (rel_doc_render ls0 lt0 n NOCB src s2 t2 R).
Qed.
End Callback.

Lemma Rel_refl_cb s b : Rel (s_log s) (s_log s) NOCB s (set_cb s b).
Proof.
  split; [destruct s; reflexivity|]. split; [destruct s; reflexivity|]. split; [intros F; discriminate F|].
  exists [], []. destruct s; simpl. auto.
Qed.

Lemma Rel_refl s : Rel (s_log s) (s_log s) NOCB s s.
Proof.
  split; [reflexivity|]. split; [reflexivity|]. split; [intros F; discriminate F|]. exists [], []. simpl. auto.
Qed.

(* from one and the same session: whether a callback is supplied makes no difference to the HTML,
   to whether the call fails, or to anything the session remembers except the callback itself *)
Corollary callback_irrelevant n src o1 o2 s :
  same_but_callback o1 o2 ->
  match api_render n src o1 s, api_render n src o2 s with
  | Ok (h1, s1), Ok (h2, s2) =>
      h1 = h2 /\ core s1 = core s2 /\
      exists d1 d2, s_log s1 = d1 ++ s_log s /\ s_log s2 = d2 ++ s_log s /\ map snd d1 = map snd d2
  | Raise e1, Raise e2 => e1 = e2
  | Fuel, Fuel => True
  | _, _ => False
  end.
Proof.
  intros Ho. pose proof (api_render_callback (s_log s) (s_log s) n src o1 o2 s s Ho (Rel_refl s)) as R.
  unfold orel in R.
  destruct (api_render n src o1 s) as [[h1 s1]| |]; destruct (api_render n src o2 s) as [[h2 s2]| |]; auto.
  destruct R as [-> (Hc & _ & _ & d & d' & Hd & Hd' & Hm & _)]. split; auto. split; auto. eauto.
Qed.

(* ---- reset: the call is a function of its own source and options ---- *)
Definition PURE : cfg := mkCfg false true.

Lemma scratch_Rel a b : same_but_scratch a b -> Rel (s_log a) (s_log b) PURE a b.
Proof.
  unfold same_but_scratch. intros H. destruct a, b. simpl in *. inversion H; subst.
  split; [reflexivity|]. split; [intros F; discriminate F|]. split; [reflexivity|].
  exists [], []. simpl. auto.
Qed.

(* the diagnostics the option phase itself appends do not depend on the prior session when reset is given *)
Lemma updateFrom_reset_log o a a' :
  reset_is_false (o_reset o) = false -> reset_is_true (o_reset o) = true ->
  updateFrom o a = Ok (tt, a') ->
  s_log a' = (match o_safeMode o with
              | PyNone => []
              | v => if legal_mode (py_str v) then [] else [(o_callback o, illegal_msg (py_str v))]
              end) ++ s_log a.
Proof.
  intros H1 H2 H. rewrite updateFrom_unfold in H. rewrite setOption_reset_true in H by auto.
  set (a1 := cb_step2 o (document_init (cb_step1 o a))) in *.
  assert (L1 : s_log a1 = s_log a).
  { unfold a1, cb_step2, cb_step1. destruct (o_callback o); destruct (s_cb a); destruct a; reflexivity. }
  assert (C1 : s_cb a1 = o_callback o).
  { unfold a1, cb_step2. destruct (o_callback o) eqn:E; [reflexivity|]. reflexivity. }
  assert (K : forall v, v <> PyNone ->
     forall a2, setOption_safeMode (py_str v) a1 = Ok (tt, a2) ->
     s_log a2 = (if legal_mode (py_str v) then [] else [(o_callback o, illegal_msg (py_str v))]) ++ s_log a).
  { intros v _ a2 Hs. destruct (legal_mode (py_str v)) eqn:L.
    - destruct (setOption_safeMode_legal (py_str v) a1 L) as (k & _ & _ & E). rewrite E in Hs. inversion Hs; subst.
      destruct a1; simpl in *. exact L1.
    - rewrite setOption_safeMode_illegal in Hs by auto. inversion Hs; subst. destruct a1; simpl in *. rewrite C1, L1. reflexivity. }
  destruct (o_safeMode o) eqn:Es.
  - cbn in H. destruct (o_htmlReplacement o); inversion H; subst; first [exact L1 | destruct a1; simpl in *; exact L1].
  - destruct (setOption_safeMode _ a1) as [[[] a2]| |] eqn:E; try discriminate.
    apply K in E; [|discriminate]. destruct (o_htmlReplacement o); inversion H; subst; first [exact E | destruct a2; simpl in *; exact E].
  - destruct (setOption_safeMode _ a1) as [[[] a2]| |] eqn:E; try discriminate.
    apply K in E; [|discriminate]. destruct (o_htmlReplacement o); inversion H; subst; first [exact E | destruct a2; simpl in *; exact E].
  - destruct (setOption_safeMode _ a1) as [[[] a2]| |] eqn:E; try discriminate.
    apply K in E; [|discriminate]. destruct (o_htmlReplacement o); inversion H; subst; first [exact E | destruct a2; simpl in *; exact E].
  - destruct (setOption_safeMode _ a1) as [[[] a2]| |] eqn:E; try discriminate.
    apply K in E; [|discriminate]. destruct (o_htmlReplacement o); inversion H; subst; first [exact E | destruct a2; simpl in *; exact E].
Qed.

(* A render call that carries reset: from any two sessions (any histories, including the never-initialised
   interpreter) the same HTML or the same failure, the same diagnostics, and sessions that agree on
   everything except the older part of the log and the list-id scratch stack. *)
Theorem reset_pure n src o a b :
  reset_is_false (o_reset o) = false -> reset_is_true (o_reset o) = true ->
  match api_render n src o a, api_render n src o b with
  | Ok (h1, a'), Ok (h2, b') =>
      h1 = h2 /\ core a' = core b' /\ s_cb a' = s_cb b' /\
      exists d, s_log a' = d ++ s_log a /\ s_log b' = d ++ s_log b
  | Raise e1, Raise e2 => e1 = e2
  | Fuel, Fuel => True
  | _, _ => False
  end.
Proof.
  intros H1 H2. rewrite !api_render_unfold. cbv zeta.
  set (a0 := if (s_mode a =? -1)%Z then document_init a else a).
  set (b0 := if (s_mode b =? -1)%Z then document_init b else b).
  assert (La : s_log a0 = s_log a) by (unfold a0; destruct (s_mode a =? -1)%Z; reflexivity).
  assert (Lb : s_log b0 = s_log b) by (unfold b0; destruct (s_mode b =? -1)%Z; reflexivity).
  destruct (updateFrom_total o a0) as [a1 Ea]. destruct (updateFrom_total o b0) as [b1 Eb].
  rewrite Ea, Eb.
  pose proof (reset_state_independent o a0 b0 a1 b1 H1 H2 Ea Eb) as Hs.
  pose proof (updateFrom_reset_log o a0 a1 H1 H2 Ea) as Ma.
  pose proof (updateFrom_reset_log o b0 b1 H1 H2 Eb) as Mb.
  pose proof (rel_doc_render (s_log a1) (s_log b1) n PURE src a1 b1 (scratch_Rel a1 b1 Hs)) as R.
  unfold orel in R.
  destruct (doc_render n src a1) as [[h1 a2]| |]; destruct (doc_render n src b1) as [[h2 b2]| |]; auto.
  destruct R as [-> (Hc & _ & Hf & d & d' & Hd & Hd' & _ & He)].
  split; [reflexivity|]. split; [exact Hc|]. split; [apply Hf; reflexivity|].
  rewrite (He eq_refl) in Hd. rewrite Hd, Hd', Ma, Mb, La, Lb.
  eexists. rewrite !app_assoc. split; reflexivity.
Qed.

(* C10 / C08: a list inside a container block: a quote block holding a one-item list renders to the list inside <blockquote>. *)
From Rimu Require Import Base Unicode Regex RegexAnalysis RegexParse Str Types Tables Guards State Inline Block
  Frame FrameBlock FrameInst OptionsLemmas MiscLemmas MoreLemmas Plain TableFacts Lines PlainDoc
  RegexSem MatchLemmas MatchExact ScanLemmas ParaDoc CodeBlock ListDoc MacroSubst MacroDefine MacroDoc Compose QuoteBlock.
From Coq Require Import Lia.
Local Open Scope monad_scope.

Lemma li_line_chars mk item : In mk markers -> li_item_ok item -> forall x, In x (li_line mk item) -> is_nl x = false /\ reserved x = false.
Proof.
  intros Hmk [Hitem _] x Hx. unfold li_line in Hx.
  assert (Hs : forall y, In y safe_alphabet -> is_nl y = false /\ reserved y = false).
  { intros y Hy. pose proof safe_no_special as F. rewrite forallb_forall in F. apply F in Hy. apply andb_prop in Hy as [H1 H2].
    apply negb_true_iff in H1, H2. auto. }
  destruct Hx as [<-|[<-|Hx]]; [|split; reflexivity|auto].
  unfold markers in Hmk. destruct Hmk as [<-|[<-|[]]]; split; reflexivity.
Qed.

Lemma quote_open_listids_idem s : p_opts s = expand_none ->
  set_popts (set_listids (quote_open s) []) expand_none = set_listids (quote_open s) [].
Proof. intros Ho. unfold quote_open, set_closeRe. destruct s; cbn in *. subst. reflexivity. Qed.

Theorem quote_list_document mk n item s : In mk markers -> quiet_default s -> li_item_ok item ->
  doc_render (S (S (S (S (S (S (S (S n)))))))) (qfence ++ 10 :: li_line mk item ++ 10 :: qfence) s =
  Ok ($"<blockquote><ul><li>" ++ escape item ++ $"</li></ul></blockquote>", set_listids (quote_open s) []).
Proof.
  intros Hmk Hq Hitem.
  set (F := S (S (S (S (S (S (S n))))))).
  change (doc_render (S F) (qfence ++ 10 :: li_line mk item ++ 10 :: qfence)) with
    (doc_loop F (doc_render F) F (mk_reader (qfence ++ 10 :: li_line mk item ++ 10 :: qfence))).
  pose proof (li_line_chars mk item Hmk Hitem) as Hlch.
  assert (Hqch : forall x, In x qfence -> is_nl x = false /\ reserved x = false) by (intros x [<-|[<-|[]]]; split; reflexivity).
  assert (Er : mk_reader (qfence ++ 10 :: li_line mk item ++ 10 :: qfence) = [qfence; li_line mk item; qfence]).
  { rewrite Locality.mk_reader_join by (intros x Hx E; subst x; apply Hqch in Hx; destruct Hx as [Hx _]; discriminate Hx).
    rewrite (mk_reader_line _ Hqch). rewrite Locality.mk_reader_join by (intros x Hx E; subst x; apply Hlch in Hx; destruct Hx as [Hx _]; discriminate Hx).
    rewrite (mk_reader_line _ Hlch), (mk_reader_line _ Hqch). reflexivity. }
  rewrite Er.
  assert (Hdoc : doc_render F (join [10] [li_line mk item]) (quote_open s) =
                 Ok ($"<ul><li>" ++ escape item ++ $"</li></ul>", set_listids (quote_open s) [])).
  { cbn [join]. apply (single_item_list_document mk Hmk n item (quote_open s) (quiet_quote_open s Hq) Hitem). }
  assert (Hnl : nlfree (li_line mk item)) by (intros x Hx; apply (proj1 (Hlch x Hx))).
  assert (Hne : ~ In qfence [li_line mk item]).
  { intros [E|[]]. unfold qfence, li_line in E. inversion E. }
  assert (Hstd2 : dblocks_std (s_dblocks (set_listids (quote_open s) []))).
  { pose proof (proj1 (quiet_quote_open s Hq)) as H. unfold quote_open, set_closeRe in *. destruct s; exact H. }
  pose proof (quote_block_then_rest (S (S (S (S (S (S n)))))) (doc_render F) (S (S (S (S (S (S n)))))) [li_line mk item] [] s _ _ Hq
                (Forall_cons _ Hnl (Forall_nil _)) Hne Hdoc Hstd2) as Hb.
  subst F. cbn [app] in Hb. unfold reader, str, char in Hb |- *. rewrite Hb.
  rewrite (TableFacts.doc_loop_blank_only _ _ (S (S (S (S (S n))))) [] _) by reflexivity.
  rewrite !app_nil_r.
  rewrite quote_open_listids_idem by (destruct Hq as (_ & _ & _ & _ & Ho); exact Ho). repeat (rewrite <- app_assoc; cbn [app]). reflexivity.
Qed.

(* End to end, with markup: a one-line document whose line (a) matches none of the block-level patterns before the paragraph,
   (b) holds no line terminator or reserved code point, (c) starts with a non-space, and (d) whose inline rendering under the
   paragraph's expansion is R, renders through reader, block dispatch and the paragraph block to <p>R</p> with the session
   unchanged.  PlainDoc.v is the instance R = escape line; EmDoc.v and TagDoc.v hold a line with an emphasis and a line with an HTML tag. *)
From Rimu Require Import Base Unicode Regex RegexAnalysis RegexParse Str Types Tables Guards State Inline Block
  Frame FrameBlock FrameInst OptionsLemmas MiscLemmas MoreLemmas Plain TableFacts Lines PlainDoc
  RegexSem MatchLemmas MatchExact ScanLemmas.
From Coq Require Import Lia.
Local Open Scope monad_scope.

Definition para_expand : expand := mkExpand (Some true) None None (Some true) (Some true).

Record para_line (e : ienv) (l R : str) : Prop := {
  pl_first : exists c rest, l = c :: rest /\ is_space c = false;
  pl_nomatch : forall r, In r block_regexes -> re_search r l = None;
  pl_nl : nlfree l;
  pl_res : blank_reserved l = l;
  pl_inline : forall n, replaceInline_top (S (S (S (S n)))) e (Some l) para_expand = iret R }.

Section Generic.

Lemma g_mk_reader l R e (Hpl : para_line e l R) : mk_reader l = [l].
Proof.
  rewrite mk_reader_spec, (pl_res _ _ _ Hpl). unfold split_lines.
  pose proof (split_aux_prefix l [] [] (pl_nl _ _ _ Hpl)) as E. rewrite app_nil_r in E. rewrite E.
  cbn [split_lines_aux]. rewrite split_aux_nil_cur_frev. reflexivity.
Qed.

Lemma g_skip l R e (Hpl : para_line e l R) : skipBlankLines [l] = [l].
Proof. destruct (pl_first _ _ _ Hpl) as (c & rest & -> & Hc). cbn [skipBlankLines]. rewrite strip_nonblank; [reflexivity|exact Hc]. Qed.

Lemma g_stage_line l R e (Hpl : para_line e l R) fuel s : lineblocks_render fuel [l] [] s = Ok ((None, [l]), s).
Proof.
  unfold lineblocks_render. apply lineblocks_loop_none. intros d Hd. apply (pl_nomatch _ _ _ Hpl). apply in_block_regexes_line. exact Hd.
Qed.

Lemma g_stage_list l R e (Hpl : para_line e l R) fuel doc k s : lists_render fuel doc k [l] s = Ok ((None, [l]), s).
Proof.
  unfold lists_render, bind, matchItem. rewrite matchItem_loop_none; [reflexivity|].
  intros d Hd. apply (pl_nomatch _ _ _ Hpl). apply in_block_regexes_list. exact Hd.
Qed.

Lemma g_dblock_body' l R n doc s m pd : (exists c rest, l = c :: rest) ->
  (forall k, replaceInline_top (S (S (S (S k)))) (ienv_of s) (Some l) para_expand = iret R) -> quiet_default s ->
  dcore pd = dcore para -> (forall d0, nth 8 (s_dblocks s) d0 = pd) ->
  m = {| m_start := 0; m_end := lenN l; m_groups := [Some l; Some l] |} ->
  dblock_body (S (S (S (S n)))) doc 8 pd m [] s = Ok (($"<p>" ++ R ++ $"</p>", []), s).
Proof.
  intros (c0 & rest0 & El) Hinl Hq Hpd Hnth ->. pose proof Hq as (Hd & Hr & Hqt & Hp & Ho).
  subst l. remember (c0 :: rest0) as l eqn:El in *.
  destruct (para_facts_of pd Hpd) as (Fname & Fdelim & Fcontent & Fverify & Fopen & Fclose & Fexp & Fre).
  unfold dblock_body. rewrite Fdelim.
  unfold bind at 1. cbn [grp nth m_groups ret].
  unfold bind at 1. unfold gets at 1. rewrite (Hnth pd).
  cbn [readTo].
  unfold bind at 1.
  replace (mem (d_name pd) unterminated_names) with false by (rewrite Fname; vm_compute; reflexivity).
  rewrite andb_false_r. cbn [ret tl app].
  unfold bind at 1. unfold gets at 1. rewrite (Hnth pd), Fexp, Ho.
  unfold expand_merge, expand_none. cbn [e_macros e_container e_skip e_spans e_specials truthy].
  replace (match l with [] => [] | _ :: _ => [l] end) with [l] by (rewrite El; reflexivity).
  cbn [app join].
  rewrite Fcontent.
  unfold bind at 1. unfold bind at 1. cbn [ret].
  unfold bind at 1. unfold gets at 1. rewrite (Hnth pd).
  replace (str_eqb (d_name pd) $"html") with false by (rewrite Fname; vm_compute; reflexivity).
  unfold bind at 1. cbn [ret].
  unfold bind at 1. rewrite Fopen.
  change ($"<p>") with (60 :: $"p>"). rewrite inject_nothing_pending by exact Hp.
  unfold bind at 1. unfold lift.
  pose proof (Hinl n) as Hin. unfold para_expand in Hin. unfold reader, str, char in Hin |- *. rewrite Hin.
  cbn [iret log_msgs bind ret].
  unfold bind at 1. unfold gets at 1. rewrite (Hnth pd), Fclose.
  replace (str_eqb (d_name pd) $"division") with false by (rewrite Fname; vm_compute; reflexivity).
  cbn [andb ret bind modify].
  assert (Es : forall e, e = expand_none -> set_popts s e = s).
  { intros e ->. destruct s; simpl in *. subst. reflexivity. }
  rewrite Es by reflexivity. rewrite app_nil_r. reflexivity.
Qed.

Lemma g_dblock_body l R n doc s m pd (Hpl : para_line (ienv_of s) l R) : quiet_default s ->
  dcore pd = dcore para -> (forall d0, nth 8 (s_dblocks s) d0 = pd) ->
  m = {| m_start := 0; m_end := lenN l; m_groups := [Some l; Some l] |} ->
  dblock_body (S (S (S (S n)))) doc 8 pd m [] s = Ok (($"<p>" ++ R ++ $"</p>", []), s).
Proof.
  intros Hq Hpd Hnth Hm. apply (g_dblock_body' l R n doc s m pd); auto.
  - destruct (pl_first _ _ _ Hpl) as (c & rest & E & _). eauto.
  - exact (pl_inline _ _ _ Hpl).
Qed.

Lemma g_stage_para' l R n doc s : (exists c rest, l = c :: rest) -> nlfree l ->
  (forall k, replaceInline_top (S (S (S (S k)))) (ienv_of s) (Some l) para_expand = iret R) ->
  (forall d, In d (removelast dblocks_default) -> re_search (d_openRe d) l = None) -> quiet_default s ->
  dblocks_render (S (S (S (S n)))) doc [l] [] s = Ok ((Some ($"<p>" ++ R ++ $"</p>"), []), s).
Proof.
  intros Hfirst Hnl Hinl Hnom Hq. pose proof Hq as (Hd & _).
  unfold dblocks_render. unfold bind at 1. unfold gets at 1.
  destruct (std_para s Hd) as (pre & pd & Esplit & Lpre & Hpd & Hnth & En & Hpre).
  destruct (para_facts_of pd Hpd) as (Fname & _ & _ & Fverify & _ & _ & _ & Fre).
  rewrite (std_length _ Hd).
  pose proof (dblock_loop_skip (S (S (S (S n)))) doc l s pre [] [pd] 1) as Sk.
  cbn [length app] in Sk. rewrite Lpre in Sk.
  change (8 + 1)%nat with 9%nat in Sk. change (0 + 8)%nat with 8%nat in Sk.
  unfold reader, str, char in Sk |- *. rewrite Sk.
  - cbn [dblock_loop]. unfold bind at 1. unfold gets at 1.
    rewrite En. cbn [andb]. rewrite Fre.
    rewrite (para_match l) by exact Hnl.
    unfold grp0, grp_s, grp. cbn [nth m_groups].
    rewrite Fname. replace (str_eqb $"paragraph" $"paragraph") with true by reflexivity.
    unfold db_verify. rewrite Fverify. cbn [negb].
    pose proof (g_dblock_body' l R n doc s _ pd Hfirst Hinl Hq Hpd Hnth eq_refl) as Eb.
    destruct Hfirst as (c & rest & El). subst l.
    unfold bind at 1. unfold reader, str, char in Eb |- *. rewrite Eb. reflexivity.
  - exact Esplit.
  - intros d Hdin. destruct (Hpre d Hdin) as (d' & Hd' & ->). apply Hnom. exact Hd'.
Qed.

Lemma g_stage_para l R n doc s (Hpl : para_line (ienv_of s) l R) : quiet_default s ->
  dblocks_render (S (S (S (S n)))) doc [l] [] s = Ok ((Some ($"<p>" ++ R ++ $"</p>"), []), s).
Proof.
  intros Hq. apply (g_stage_para' l R n doc s); auto.
  - destruct (pl_first _ _ _ Hpl) as (c & rest & E & _). eauto.
  - exact (pl_nl _ _ _ Hpl).
  - exact (pl_inline _ _ _ Hpl).
  - intros d Hdin. apply (pl_nomatch _ _ _ Hpl). apply in_block_regexes_dblock. exact Hdin.
Qed.

Theorem para_line_document l R n s (Hpl : para_line (ienv_of s) l R) : quiet_default s ->
  doc_render (S (S (S (S (S (S n)))))) l s = Ok ($"<p>" ++ R ++ $"</p>", s).
Proof.
  intros Hq.
  change (doc_render (S (S (S (S (S (S n)))))) l) with
    (doc_loop (S (S (S (S (S n))))) (doc_render (S (S (S (S (S n)))))) (S (S (S (S (S n))))) (mk_reader l)).
  rewrite (g_mk_reader l R _ Hpl).
  rewrite (TableFacts.doc_loop_delimited_block (S (S (S (S (S n))))) (doc_render (S (S (S (S (S n)))))) (S (S (S (S n))))
             [l] l [] [l] [l] ($"<p>" ++ R ++ $"</p>") [] s s s s).
  - rewrite (TableFacts.doc_loop_blank_only _ _ (S (S (S n))) [] s) by reflexivity. rewrite app_nil_r. reflexivity.
  - apply (g_skip l R _ Hpl).
  - apply (g_stage_line l R _ Hpl).
  - apply (g_stage_list l R _ Hpl).
  - apply (g_stage_para l R (S n)); auto.
Qed.
End Generic.

(* ---- lines over an alphabet A whose first character is in A0 ---- *)
Section Alphabet.
Variables A A0 : list char.
Hypothesis HA : forallb (fun r => never_matches A A0 (re_ast r)) block_regexes = true.
Hypothesis HA0 : forallb (fun c => negb (is_space c)) A0 = true.
Hypothesis HAs : forallb (fun c => negb (is_nl c) && negb (reserved c) && no_macro_start c) A = true.

Definition a_line (l : str) : Prop := match l with c :: rest => In c A0 /\ over A (c :: rest) | [] => False end.

Lemma a_line_char l x : a_line l -> In x l -> is_nl x = false /\ reserved x = false /\ no_macro_start x = true.
Proof.
  destruct l as [|c rest]; [intros []|]. intros [_ Ho] Hx. apply Ho in Hx. rewrite forallb_forall in HAs. apply HAs in Hx.
  apply andb_prop in Hx as [Hx H3]. apply andb_prop in Hx as [H1 H2]. apply negb_true_iff in H1, H2. auto.
Qed.

Lemma a_line_para e l R : a_line l ->
  (forall n, spans_render (S (S (S (S n)))) e l = iret R) -> para_line e l R.
Proof.
  intros Hl Hsp. constructor.
  - destruct l as [|c rest]; [destruct Hl|]. destruct Hl as [Hc _]. exists c, rest. split; [reflexivity|].
    rewrite forallb_forall in HA0. apply HA0 in Hc. apply negb_true_iff in Hc. exact Hc.
  - intros r Hr. destruct l as [|c rest]; [destruct Hl|]. destruct Hl as [Hc Ho].
    rewrite forallb_forall in HA. eapply never_matches_sound; eauto.
  - intros x Hx. apply (a_line_char l x Hl Hx).
  - unfold blank_reserved. rewrite <- (map_id l) at 2. apply map_ext_in. intros x Hx.
    destruct (a_line_char l x Hl Hx) as (_ & Hr & _). unfold reserved in Hr. rewrite Hr. reflexivity.
  - intros n. unfold replaceInline_top, replaceInline, para_expand. cbn [truthy e_macros e_spans].
    unfold macros_render_top. rewrite macros_render_identity.
    + rewrite ibind_iret_l. apply Hsp.
    + intros x Hx. apply (a_line_char l x Hl Hx).
    + apply negb_true_iff. destruct (existsb (N.eqb 2) l) eqn:E; auto.
      apply existsb_exists in E as (x & Hx & Ex). apply N.eqb_eq in Ex. subst x.
      destruct (a_line_char l 2 Hl Hx) as (_ & Hr & _). discriminate Hr.
Qed.
End Alphabet.


Lemma safe_over_plain t : over safe_alphabet t -> over plain_alphabet t.
Proof. intros H x Hx. apply H in Hx. eapply (in_forallb_eqb x safe_alphabet (fun _ => true)); eauto using safe_sub_plain. Qed.


(* through rimu.render, whatever the option values of the call do to the session first *)
Corollary api_of_doc n src o s s1 r : 
  updateFrom o (if (s_mode s =? -1)%Z then document_init s else s) = Ok (tt, s1) ->
  doc_render n src s1 = r -> api_render n src o s = r.
Proof. intros Hu Hd. rewrite api_render_unfold. cbv zeta. rewrite Hu. exact Hd. Qed.


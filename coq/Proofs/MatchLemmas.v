(* Consequences of matcher soundness (Lib/RegexSem.v) used by the inline-layer proofs:
   scanning partitions the subject, group-free sub-patterns keep the captures, literal
   alternations consume one of their literals, character-class loops consume class members. *)
From Rimu Require Import Base Unicode Regex RegexSem Str Types.
From Coq Require Import Lia.

(* ---- prefixes of one string ---- *)
Lemma app_prefix_split (a b c d : str) : a ++ b = c ++ d -> lenN a <= lenN c -> exists e, c = a ++ e /\ b = e ++ d.
Proof.
  revert c. induction a as [|x a IH]; intros c H L.
  - exists c. simpl in *. auto.
  - destruct c as [|y c]; [simpl in L; lia|]. simpl in H. inversion H; subst y.
    destruct (IH c) as (e & -> & ->); [assumption|simpl in L; lia|]. exists e. auto.
Qed.

Lemma lenN_0 (s : str) : lenN s = 0 -> s = [].
Proof. destruct s; simpl; [reflexivity|lia]. Qed.

(* ---- re_search with a start position ---- *)
Lemma skip_to_spec : forall s n i p pre0, i = lenN pre0 ->
  exists pre rest p', skip_to n i p s = (lenN (pre0 ++ pre), p', rest) /\ s = pre ++ rest.
Proof.
  induction s as [|x t IH]; intros n i p pre0 Hi; cbn [skip_to].
  - exists [], [], p. rewrite app_nil_r. subst. auto.
  - destruct (n =? 0).
    + exists [], (x :: t), p. rewrite app_nil_r. subst. auto.
    + destruct (IH (N.pred n) (i + 1) (Some x) (pre0 ++ [x])) as (pre & rest & p' & E & Hs).
      { rewrite lenN_app. simpl. lia. }
      exists (x :: pre), rest, p'. rewrite E, <- app_assoc. simpl. subst. auto.
Qed.

Lemma re_search_pos_spec r text pos m : re_search_pos r text pos = Some m -> match_spec r text m.
Proof.
  unfold re_search_pos. destruct (skip_to_spec text pos 0 None [] eq_refl) as (pre & rest & p' & E & Hs).
  rewrite E. simpl. intros H. eapply search_from_spec in H; [apply H|exact Hs].
Qed.

(* ---- scanning partitions the subject ---- *)
Definition matched (m : mres) : str := grp_s m 0.

Lemma match_spec_matched r text m : match_spec r text m ->
  exists before after, text = before ++ matched m ++ after /\ m_start m = lenN before /\ m_end m = lenN before + lenN (matched m).
Proof.
  intros [pre w post p fin Hs Hst Hen Hg _ _ _]. exists pre, post. unfold matched, grp_s, grp. rewrite Hg. cbn. auto.
Qed.

Theorem scan_partition r subj : forall fuel pre rest p l tl,
  subj = pre ++ rest -> scan_loop r fuel (lenN pre) p rest = (l, tl) ->
  rest = concat (map (fun bm => fst bm ++ matched (snd bm)) l) ++ tl /\
  Forall (fun bm => match_spec r subj (snd bm)) l.
Proof.
  induction fuel as [|u fuel IH]; intros pre rest p l tl Hs H; cbn [scan_loop] in H.
  - inversion H; subst. simpl. auto.
  - destruct (search_from r (lenN pre) p rest) as [m|] eqn:E.
    2:{ inversion H; subst. simpl. auto. }
    apply (search_from_spec r subj rest pre p m Hs) in E as [Sp Le].
    destruct (match_spec_matched _ _ _ Sp) as (pre2 & post & Hs2 & Hst & Hen).
    rewrite Hst in Le. rewrite Hs in Hs2.
    destruct (app_prefix_split pre rest pre2 (matched m ++ post) Hs2 Le) as (before & -> & Hrest).
    rewrite lenN_app in Hst, Hen.
    replace (m_start m - lenN pre) with (lenN before) in H by lia.
    replace (m_end m - lenN pre) with (lenN before + lenN (matched m)) in H by lia.
    assert (T1 : takeN (lenN before) rest = before) by (rewrite Hrest; apply takeN_app_exact).
    assert (D1 : dropN (lenN before) rest = matched m ++ post) by (rewrite Hrest; apply dropN_app_exact).
    assert (D2 : dropN (lenN before + lenN (matched m)) rest = post).
    { rewrite Hrest, app_assoc, <- lenN_app. apply dropN_app_exact. }
    rewrite T1, D1, D2 in H.
    destruct (m_end m =? m_start m) eqn:Ee.
    + apply N.eqb_eq in Ee. assert (Hw : matched m = []) by (apply lenN_0; lia).
      rewrite Hw in *. simpl in Hrest, H.
      destruct post as [|x t].
      * inversion H; subst l tl. simpl. rewrite Hw, !app_nil_r. split; [rewrite Hrest, app_nil_r; reflexivity|auto].
      * destruct (scan_loop r fuel (m_start m + 1) (Some x) t) as [l1 tl1] eqn:E1.
        specialize (IH ((pre ++ before) ++ [x]) t (Some x) l1 tl1).
        rewrite !lenN_app in IH. simpl in IH.
        rewrite <- Hst in IH.
        destruct IH as [IH1 IH2]; [rewrite Hs, Hrest, <- !app_assoc; reflexivity|exact E1|].
        destruct l1 as [|[b m'] l'].
        -- inversion H; subst l tl. simpl in *. rewrite Hw, !app_nil_r. split; [rewrite Hrest, IH1; reflexivity|auto].
        -- inversion H; subst l tl. simpl in *. rewrite Hw, app_nil_r. split.
           ++ rewrite Hrest. rewrite IH1 at 1. rewrite <- !app_assoc. simpl. rewrite <- !app_assoc. reflexivity.
           ++ constructor; [exact Sp|]. inversion IH2; subst. constructor; auto.
    + destruct (scan_loop r fuel (m_end m) _ post) as [l1 tl1] eqn:E1.
      specialize (IH ((pre ++ before) ++ matched m) post).
      rewrite !lenN_app in IH. rewrite <- Hen in IH.
      edestruct IH as [IH1 IH2]; [|exact E1|].
      { rewrite Hs, Hrest, <- !app_assoc. reflexivity. }
      inversion H; subst l tl. simpl. split.
      * rewrite Hrest at 1. rewrite IH1, <- !app_assoc. reflexivity.
      * constructor; auto.
Qed.

Corollary re_scan_partition r s l tl : re_scan r s = (l, tl) ->
  s = concat (map (fun bm => fst bm ++ matched (snd bm)) l) ++ tl /\ Forall (fun bm => match_spec r s (snd bm)) l.
Proof. intros H. eapply (scan_partition r s _ [] s None); eauto. Qed.

(* ---- group-free patterns keep the captures ---- *)
Fixpoint nogroups (r : regex) : bool :=
  match r with
  | RSeq a b | RAlt a b => nogroups a && nogroups b
  | RRep _ _ _ b | RLook _ b => nogroups b
  | RGrp _ _ => false
  | _ => true
  end.

Lemma nogroups_caps :
  (forall r s s', Matches r s s' -> nogroups r = true -> st_c s' = st_c s) /\
  (forall b s s', Iter b s s' -> nogroups b = true -> st_c s' = st_c s).
Proof.
  apply Matches_Iter_ind; intros; cbn [nogroups] in *; try reflexivity;
    try match goal with H : _ && _ = true |- _ => apply andb_prop in H as [? ?] end.
  - rewrite H0, H by assumption. reflexivity.
  - auto.
  - auto.
  - auto.
  - discriminate.
  - cbn. auto.
  - rewrite H0, H by assumption. reflexivity.
Qed.

(* ---- what a state transition consumed ---- *)
Definition consumed (s s' : mst) (w : str) : Prop := st_rest s = w ++ st_rest s'.

(* literal strings *)
Lemma lit_match x y : set_match false [IRange x x] y = true -> y = x.
Proof.
  unfold set_match, in_items. cbn. rewrite orb_false_r.
  destruct (N.leb_spec x y), (N.leb_spec y x); cbn; intros; try discriminate; lia.
Qed.

Lemma Matches_lit x s s' : Matches (RLit x) s s' -> consumed s s' [x] /\ st_c s' = st_c s.
Proof.
  intros M. inversion M; subst. match goal with H : set_match _ _ _ = true |- _ => apply lit_match in H; subst end.
  split; reflexivity.
Qed.

Lemma Matches_rstr q : forall s s', Matches (rstr q) s s' -> consumed s s' q /\ st_c s' = st_c s.
Proof.
  unfold rstr. induction q as [|x q IH]; intros s s' M.
  - inversion M; subst. split; [reflexivity|reflexivity].
  - destruct q as [|y q].
    + cbn in M. apply Matches_lit in M. exact M.
    + change (rseq (map (fun c => RLit c) (x :: y :: q))) with (RSeq (RLit x) (rseq (map (fun c => RLit c) (y :: q)))) in M.
      inversion M; subst.
      match goal with H : Matches (RLit x) _ _ |- _ => apply Matches_lit in H as [C1 K1] end.
      match goal with H : Matches _ s2 s' |- _ => apply IH in H as [C2 K2] end.
      unfold consumed in *. rewrite C1, C2, K2, K1. split; reflexivity.
Qed.

Lemma Matches_ralt_rstr qs : forall s s', Matches (ralt (map rstr qs)) s s' ->
  exists q, In q qs /\ consumed s s' q /\ st_c s' = st_c s.
Proof.
  induction qs as [|q qs IH]; intros s s' M.
  - cbn in M. inversion M; subst. discriminate.
  - destruct qs as [|q2 qs].
    + cbn in M. apply Matches_rstr in M. exists q. split; [left; reflexivity|exact M].
    + change (ralt (map rstr (q :: q2 :: qs))) with (RAlt (rstr q) (ralt (map rstr (q2 :: qs)))) in M.
      inversion M; subst.
      * apply Matches_rstr in H3. exists q. split; [left; reflexivity|exact H3].
      * apply IH in H3 as (q' & Hin & Hc). exists q'. split; [right; exact Hin|exact Hc].
Qed.

(* a loop over a character class consumes members of the class *)
Lemma Iter_set neg items : forall s s', Iter (RSet neg items) s s' ->
  exists w, consumed s s' w /\ (forall x, In x w -> set_match neg items x = true) /\ st_c s' = st_c s.
Proof.
  intros s s' H. remember (RSet neg items) as b eqn:Eb. induction H as [|b s s1 s' M It IH]; subst.
  - exists []. split; [reflexivity|]. split; [intros x []|reflexivity].
  - destruct (IH eq_refl) as (w & C & Hw & Kc). inversion M; subst.
    exists (x :: w). unfold consumed in *. cbn in *. rewrite C. split; [reflexivity|]. split; [|exact Kc].
    intros y [<-|Hy]; auto.
Qed.

(* ---- inversion lemmas ---- *)
Lemma Matches_seq_inv a b s s' : Matches (RSeq a b) s s' -> exists s2, Matches a s s2 /\ Matches b s2 s'.
Proof. intros M. inversion M; subst. eauto. Qed.

Lemma Matches_alt_inv a b s s' : Matches (RAlt a b) s s' -> Matches a s s' \/ Matches b s s'.
Proof. intros M. inversion M; subst; auto. Qed.

Lemma Matches_rep_inv g mn mx b s s' : Matches (RRep g mn mx b) s s' -> Iter b s s'.
Proof. intros M. inversion M; subst. assumption. Qed.

Lemma Matches_grp_inv n b s s' : Matches (RGrp n b) s s' ->
  exists s1, Matches b s s1 /\
    s' = mkSt (st_i s1) (st_p s1) (st_rest s1) ((n, {| c_s := st_i s; c_e := st_i s1; c_txt := st_rest s |}) :: st_c s1).
Proof. intros M. inversion M; subst. eauto. Qed.

Lemma Matches_bref_inv n s s' : Matches (RBref n) s s' ->
  exists g, cap_get n (st_c s) = Some g /\ consumed s s' (cap_text g) /\ st_c s' = st_c s.
Proof.
  intros M. inversion M; subst. exists g. split; [assumption|]. split; [|reflexivity].
  unfold consumed. cbn. eapply strip_prefix_app; eauto.
Qed.

Lemma Matches_step subj r s s' : Matches r s s' -> wfst subj s ->
  wfst subj s' /\ exists w, consumed s s' w /\ st_i s' = st_i s + lenN w.
Proof. intros M W. exact (proj1 (Matches_wf subj) r s s' M W). Qed.

Lemma Iter_step subj b s s' : Iter b s s' -> wfst subj s ->
  wfst subj s' /\ exists w, consumed s s' w /\ st_i s' = st_i s + lenN w.
Proof. intros M W. exact (proj2 (Matches_wf subj) b s s' M W). Qed.

(* a group records exactly what its body consumed *)
Lemma Matches_grp_text subj n b s s' : Matches (RGrp n b) s s' -> wfst subj s ->
  exists s1 g w, Matches b s s1 /\ consumed s s' w /\ st_c s' = (n, g) :: st_c s1 /\ cap_text g = w /\
                 st_rest s' = st_rest s1 /\ wfst subj s'.
Proof.
  intros M W. pose proof (Matches_step subj _ _ _ M W) as [W' _].
  apply Matches_grp_inv in M as (s1 & M1 & ->).
  destruct (Matches_step subj _ _ _ M1 W) as [W1 (w & C & I)].
  eexists s1, _, w. split; [exact M1|]. split; [exact C|]. split; [reflexivity|]. split; [|split; [reflexivity|exact W']].
  unfold cap_text. cbn. rewrite I, C. replace (st_i s + lenN w - st_i s) with (lenN w) by lia. apply takeN_app_exact.
Qed.

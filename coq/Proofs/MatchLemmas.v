(* Consequences of matcher soundness (Lib/RegexSem.v) used by the inline-layer proofs:
   scanning partitions the subject, group-free sub-patterns keep the captures, literal
   alternations consume one of their literals, character-class loops consume class members. *)
From Rimu Require Import Base Unicode Regex RegexSem RegexAnalysis Str Types.
From Coq Require Import Lia.

(* ---- prefixes of one string ---- *)
Lemma app_prefix_split (a b c d : str) : a ++ b = c ++ d -> lenN a <= lenN c -> exists e, c = a ++ e /\ b = e ++ d.
Proof.
  revert c. induction a as [|x a IH]; intros c H L.
  - exists c. simpl in *. auto.
  - destruct c as [|y c]; [simpl in L; lia|]. simpl in H. inversion H; subst y.
    destruct (IH c) as (e & -> & ->); [assumption|simpl in L; lia|]. exists e. auto.
Qed.

Lemma lenN_0 (s : str) : lenN s = 0 -> s = [].
Proof. destruct s; simpl; [reflexivity|lia]. Qed.

(* ---- re_search with a start position ---- *)
Lemma skip_to_spec : forall s n i p pre0, i = lenN pre0 ->
  exists pre rest p', skip_to n i p s = (lenN (pre0 ++ pre), p', rest) /\ s = pre ++ rest.
Proof.
  induction s as [|x t IH]; intros n i p pre0 Hi; cbn [skip_to].
  - exists [], [], p. rewrite app_nil_r. subst. auto.
  - destruct (n =? 0).
    + exists [], (x :: t), p. rewrite app_nil_r. subst. auto.
    + destruct (IH (N.pred n) (i + 1) (Some x) (pre0 ++ [x])) as (pre & rest & p' & E & Hs).
      { rewrite lenN_app. simpl. lia. }
      exists (x :: pre), rest, p'. rewrite E, <- app_assoc. simpl. subst. auto.
Qed.

Lemma re_search_pos_spec r text pos m : re_search_pos r text pos = Some m -> match_spec r text m.
Proof.
  unfold re_search_pos. destruct (skip_to_spec text pos 0 None [] eq_refl) as (pre & rest & p' & E & Hs).
  rewrite E. simpl. intros H. eapply search_from_spec in H; [apply H|exact Hs].
Qed.

(* ---- scanning partitions the subject ---- *)
Definition matched (m : mres) : str := grp_s m 0.

Lemma match_spec_matched r text m : match_spec r text m ->
  exists before after, text = before ++ matched m ++ after /\ m_start m = lenN before /\ m_end m = lenN before + lenN (matched m).
Proof.
  intros [pre w post p fin Hs Hst Hen Hg _ _ _]. exists pre, post. unfold matched, grp_s, grp. rewrite Hg. cbn. auto.
Qed.

Theorem scan_partition r subj : forall fuel pre rest p l tl,
  subj = pre ++ rest -> scan_loop r fuel (lenN pre) p rest = (l, tl) ->
  rest = concat (map (fun bm => fst bm ++ matched (snd bm)) l) ++ tl /\
  Forall (fun bm => match_spec r subj (snd bm)) l.
Proof.
  induction fuel as [|u fuel IH]; intros pre rest p l tl Hs H; cbn [scan_loop] in H.
  - inversion H; subst. simpl. auto.
  - destruct (search_from r (lenN pre) p rest) as [m|] eqn:E.
    2:{ inversion H; subst. simpl. auto. }
    apply (search_from_spec r subj rest pre p m Hs) in E as [Sp Le].
    destruct (match_spec_matched _ _ _ Sp) as (pre2 & post & Hs2 & Hst & Hen).
    rewrite Hst in Le. rewrite Hs in Hs2.
    destruct (app_prefix_split pre rest pre2 (matched m ++ post) Hs2 Le) as (before & -> & Hrest).
    rewrite lenN_app in Hst, Hen.
    replace (m_start m - lenN pre) with (lenN before) in H by lia.
    replace (m_end m - lenN pre) with (lenN before + lenN (matched m)) in H by lia.
    assert (T1 : takeN (lenN before) rest = before) by (rewrite Hrest; apply takeN_app_exact).
    assert (D1 : dropN (lenN before) rest = matched m ++ post) by (rewrite Hrest; apply dropN_app_exact).
    assert (D2 : dropN (lenN before + lenN (matched m)) rest = post).
    { rewrite Hrest, app_assoc, <- lenN_app. apply dropN_app_exact. }
    rewrite T1, D1, D2 in H.
    destruct (m_end m =? m_start m) eqn:Ee.
    + apply N.eqb_eq in Ee. assert (Hw : matched m = []) by (apply lenN_0; lia).
      rewrite Hw in *. simpl in Hrest, H.
      destruct post as [|x t].
      * inversion H; subst l tl. simpl. rewrite Hw, !app_nil_r. split; [rewrite Hrest, app_nil_r; reflexivity|auto].
      * destruct (scan_loop r fuel (m_start m + 1) (Some x) t) as [l1 tl1] eqn:E1.
        specialize (IH ((pre ++ before) ++ [x]) t (Some x) l1 tl1).
        rewrite !lenN_app in IH. simpl in IH.
        rewrite <- Hst in IH.
        destruct IH as [IH1 IH2]; [rewrite Hs, Hrest, <- !app_assoc; reflexivity|exact E1|].
        destruct l1 as [|[b m'] l'].
        -- inversion H; subst l tl. simpl in *. rewrite Hw, !app_nil_r. split; [rewrite Hrest, IH1; reflexivity|auto].
        -- inversion H; subst l tl. simpl in *. rewrite Hw, app_nil_r. split.
           ++ rewrite Hrest. rewrite IH1 at 1. rewrite <- !app_assoc. simpl. rewrite <- !app_assoc. reflexivity.
           ++ constructor; [exact Sp|]. inversion IH2; subst. constructor; auto.
    + destruct (scan_loop r fuel (m_end m) _ post) as [l1 tl1] eqn:E1.
      specialize (IH ((pre ++ before) ++ matched m) post).
      rewrite !lenN_app in IH. rewrite <- Hen in IH.
      edestruct IH as [IH1 IH2]; [|exact E1|].
      { rewrite Hs, Hrest, <- !app_assoc. reflexivity. }
      inversion H; subst l tl. simpl. split.
      * rewrite Hrest at 1. rewrite IH1, <- !app_assoc. reflexivity.
      * constructor; auto.
Qed.

Corollary re_scan_partition r s l tl : re_scan r s = (l, tl) ->
  s = concat (map (fun bm => fst bm ++ matched (snd bm)) l) ++ tl /\ Forall (fun bm => match_spec r s (snd bm)) l.
Proof. intros H. eapply (scan_partition r s _ [] s None); eauto. Qed.

(* ---- group-free patterns keep the captures ---- *)
Fixpoint nogroups (r : regex) : bool :=
  match r with
  | RSeq a b | RAlt a b => nogroups a && nogroups b
  | RRep _ _ _ b | RLook _ b => nogroups b
  | RGrp _ _ => false
  | _ => true
  end.

Lemma nogroups_caps :
  (forall r s s', Matches r s s' -> nogroups r = true -> st_c s' = st_c s) /\
  (forall b s k s', Iter b s k s' -> nogroups b = true -> st_c s' = st_c s).
Proof.
  apply Matches_Iter_ind; intros; cbn [nogroups] in *; try reflexivity;
    try match goal with H : _ && _ = true |- _ => apply andb_prop in H as [? ?] end.
  - rewrite H0, H by assumption. reflexivity.
  - auto.
  - auto.
  - auto.
  - discriminate.
  - cbn. auto.
  - rewrite H0, H by assumption. reflexivity.
Qed.

(* ---- what a state transition consumed ---- *)
Definition consumed (s s' : mst) (w : str) : Prop := st_rest s = w ++ st_rest s'.

(* literal strings *)
Lemma lit_match x y : set_match false [IRange x x] y = true -> y = x.
Proof.
  unfold set_match, in_items. cbn. rewrite orb_false_r.
  destruct (N.leb_spec x y), (N.leb_spec y x); cbn; intros; try discriminate; lia.
Qed.

Lemma Matches_lit x s s' : Matches (RLit x) s s' -> consumed s s' [x] /\ st_c s' = st_c s.
Proof.
  intros M. inversion M; subst. match goal with H : set_match _ _ _ = true |- _ => apply lit_match in H; subst end.
  split; reflexivity.
Qed.

Lemma Matches_rstr q : forall s s', Matches (rstr q) s s' -> consumed s s' q /\ st_c s' = st_c s.
Proof.
  unfold rstr. induction q as [|x q IH]; intros s s' M.
  - inversion M; subst. split; [reflexivity|reflexivity].
  - destruct q as [|y q].
    + cbn in M. apply Matches_lit in M. exact M.
    + change (rseq (map (fun c => RLit c) (x :: y :: q))) with (RSeq (RLit x) (rseq (map (fun c => RLit c) (y :: q)))) in M.
      inversion M; subst.
      match goal with H : Matches (RLit x) _ _ |- _ => apply Matches_lit in H as [C1 K1] end.
      match goal with H : Matches _ s2 s' |- _ => apply IH in H as [C2 K2] end.
      unfold consumed in *. rewrite C1, C2, K2, K1. split; reflexivity.
Qed.

Lemma Matches_ralt_rstr qs : forall s s', Matches (ralt (map rstr qs)) s s' ->
  exists q, In q qs /\ consumed s s' q /\ st_c s' = st_c s.
Proof.
  induction qs as [|q qs IH]; intros s s' M.
  - cbn in M. inversion M; subst. discriminate.
  - destruct qs as [|q2 qs].
    + cbn in M. apply Matches_rstr in M. exists q. split; [left; reflexivity|exact M].
    + change (ralt (map rstr (q :: q2 :: qs))) with (RAlt (rstr q) (ralt (map rstr (q2 :: qs)))) in M.
      inversion M; subst.
      * apply Matches_rstr in H3. exists q. split; [left; reflexivity|exact H3].
      * apply IH in H3 as (q' & Hin & Hc). exists q'. split; [right; exact Hin|exact Hc].
Qed.

(* a loop over a character class consumes members of the class *)
Lemma Iter_set neg items : forall s k s', Iter (RSet neg items) s k s' ->
  exists w, consumed s s' w /\ (forall x, In x w -> set_match neg items x = true) /\ st_c s' = st_c s /\ length w = k.
Proof.
  intros s k s' H. remember (RSet neg items) as b eqn:Eb. induction H as [|b s s1 k s' M It IH]; subst.
  - exists []. split; [reflexivity|]. split; [intros x []|split; reflexivity].
  - destruct (IH eq_refl) as (w & C & Hw & Kc & Hl). inversion M; subst.
    exists (x :: w). unfold consumed in *. cbn in *. rewrite C. split; [reflexivity|]. split; [|split; [exact Kc|congruence]].
    intros y [<-|Hy]; auto.
Qed.

(* ---- inversion lemmas ---- *)
Lemma Matches_seq_inv a b s s' : Matches (RSeq a b) s s' -> exists s2, Matches a s s2 /\ Matches b s2 s'.
Proof. intros M. inversion M; subst. eauto. Qed.

Lemma Matches_alt_inv a b s s' : Matches (RAlt a b) s s' -> Matches a s s' \/ Matches b s s'.
Proof. intros M. inversion M; subst; auto. Qed.

Lemma Matches_rep_inv g mn mx b s s' : Matches (RRep g mn mx b) s s' -> exists k, Iter b s k s' /\ (N.to_nat mn <= k)%nat.
Proof. intros M. inversion M; subst. eauto. Qed.

Lemma Matches_grp_inv n b s s' : Matches (RGrp n b) s s' ->
  exists s1, Matches b s s1 /\
    s' = mkSt (st_i s1) (st_p s1) (st_rest s1) ((n, {| c_s := st_i s; c_e := st_i s1; c_txt := st_rest s |}) :: st_c s1).
Proof. intros M. inversion M; subst. eauto. Qed.

Lemma Matches_bref_inv n s s' : Matches (RBref n) s s' ->
  exists g, cap_get n (st_c s) = Some g /\ consumed s s' (cap_text g) /\ st_c s' = st_c s.
Proof.
  intros M. inversion M; subst. exists g. split; [assumption|]. split; [|reflexivity].
  unfold consumed. cbn. eapply strip_prefix_app; eauto.
Qed.

Lemma Matches_step subj r s s' : Matches r s s' -> wfst subj s ->
  wfst subj s' /\ exists w, consumed s s' w /\ st_i s' = st_i s + lenN w.
Proof. intros M W. exact (proj1 (Matches_wf subj) r s s' M W). Qed.

Lemma Iter_step subj b s k s' : Iter b s k s' -> wfst subj s ->
  wfst subj s' /\ exists w, consumed s s' w /\ st_i s' = st_i s + lenN w.
Proof. intros M W. exact (proj2 (Matches_wf subj) b s k s' M W). Qed.

(* a group records exactly what its body consumed *)
Lemma Matches_grp_text subj n b s s' : Matches (RGrp n b) s s' -> wfst subj s ->
  exists s1 g w, Matches b s s1 /\ consumed s s' w /\ st_c s' = (n, g) :: st_c s1 /\ cap_text g = w /\
                 st_rest s' = st_rest s1 /\ wfst subj s'.
Proof.
  intros M W. pose proof (Matches_step subj _ _ _ M W) as [W' _].
  apply Matches_grp_inv in M as (s1 & M1 & ->).
  destruct (Matches_step subj _ _ _ M1 W) as [W1 (w & C & I)].
  eexists s1, _, w. split; [exact M1|]. split; [exact C|]. split; [reflexivity|]. split; [|split; [reflexivity|exact W']].
  unfold cap_text. cbn. rewrite I, C. replace (st_i s + lenN w - st_i s) with (lenN w) by lia. apply takeN_app_exact.
Qed.

(* ---- captures only grow ---- *)
Definition has_cap (n : nat) (c : caps) : Prop := cap_get n c <> None.

Lemma has_cap_cons n m g c : has_cap n c -> has_cap n ((m, g) :: c).
Proof. unfold has_cap. simpl. destruct (Nat.eqb n m); [discriminate|auto]. Qed.

Lemma caps_mono n :
  (forall r s s', Matches r s s' -> has_cap n (st_c s) -> has_cap n (st_c s')) /\
  (forall b s k s', Iter b s k s' -> has_cap n (st_c s) -> has_cap n (st_c s')).
Proof.
  apply Matches_Iter_ind; intros; cbn [st_c] in *; auto.
  apply has_cap_cons. auto.
Qed.

(* ---- groups that take part in every match ---- *)
Fixpoint always_grp (n : nat) (r : regex) : bool :=
  match r with
  | RGrp m b => Nat.eqb n m || always_grp n b
  | RSeq a b => always_grp n a || always_grp n b
  | RAlt a b => always_grp n a && always_grp n b
  | RRep _ mn _ b => negb (mn =? 0) && always_grp n b
  | RLook false b => always_grp n b
  | _ => false
  end.

Lemma always_grp_sound n :
  (forall r s s', Matches r s s' -> always_grp n r = true -> has_cap n (st_c s')) /\
  (forall b s k s', Iter b s k s' -> always_grp n b = true -> (0 < k)%nat -> has_cap n (st_c s')).
Proof.
  apply Matches_Iter_ind; intros; cbn [always_grp st_c] in *; try discriminate.
  - (* seq *) apply orb_prop in H1 as [Ha|Hb]; [|auto]. eapply (proj1 (caps_mono n)); eauto.
  - apply andb_prop in H0 as [Ha _]. auto.
  - apply andb_prop in H0 as [_ Hb]. auto.
  - (* rep *) apply andb_prop in H0 as [Hm Hb]. apply negb_true_iff, N.eqb_neq in Hm. apply H; [exact Hb|lia].
  - (* grp *) unfold has_cap. simpl. destruct (Nat.eqb n n0) eqn:E; [discriminate|]. simpl in H0. apply H. exact H0.
  - (* look *) auto.
  - lia.
  - (* iter more *) destruct k as [|k]; [|apply H0; [exact H1|lia]].
    inversion i; subst. auto.
Qed.

Lemma match_spec_grp_some r text m k : match_spec r text m -> always_grp (S k) (re_ast r) = true -> (k < re_groups r)%nat ->
  exists t, grp m (S k) = Some t.
Proof.
  intros [pre w post p fin Hs Hst Hen Hg Mrun Hrest Hwf] Ha Hk.
  pose proof (proj1 (always_grp_sound (S k)) _ _ _ Mrun Ha) as Hc. unfold has_cap in Hc.
  unfold grp. rewrite Hg. cbn [nth]. rewrite group_list_nth by exact Hk.
  destruct (cap_get (S k) (st_c fin)) as [g|]; [|congruence]. cbn. eauto.
Qed.

(* ---- a pattern that cannot match the empty string consumes something ---- *)
Lemma nonnull_consumes :
  (forall r s s', Matches r s s' ->
     (length (st_rest s') <= length (st_rest s))%nat /\
     (RegexAnalysis.nullable r = false -> (length (st_rest s') < length (st_rest s))%nat)) /\
  (forall b s k s', Iter b s k s' ->
     (length (st_rest s') <= length (st_rest s))%nat /\
     (RegexAnalysis.nullable b = false -> (0 < k)%nat -> (length (st_rest s') < length (st_rest s))%nat)).
Proof.
  apply Matches_Iter_ind; intros; cbn [RegexAnalysis.nullable st_rest] in *;
    repeat match goal with H : (_ <= _)%nat /\ _ |- _ => destruct H end;
    (split; [simpl; try lia|intros Hn; try discriminate; simpl; try lia]).
  - apply andb_false_iff in Hn as [Hn|Hn]; [apply H2 in Hn|apply H1 in Hn]; lia.
  - apply orb_false_iff in Hn as [Hn _]. auto.
  - apply orb_false_iff in Hn as [_ Hn]. auto.
  - apply orb_false_iff in Hn as [Hm Hn]. apply N.eqb_neq in Hm.
    match goal with H : _ -> (0 < _)%nat -> _ |- _ => apply H; [exact Hn|lia] end.
  - auto.
  - apply strip_prefix_app in e0. rewrite e0, app_length. lia.
  - intros _. match goal with H : nullable b = false -> (_ < _)%nat |- _ => apply H in Hn end. lia.
Qed.

(* ---- a group not mentioned by a sub-pattern keeps its capture across it ---- *)
Fixpoint mentions (n : nat) (r : regex) : bool :=
  match r with
  | RGrp m b => Nat.eqb n m || mentions n b
  | RSeq a b | RAlt a b => mentions n a || mentions n b
  | RRep _ _ _ b | RLook _ b => mentions n b
  | _ => false
  end.

Lemma caps_other n :
  (forall r s s', Matches r s s' -> mentions n r = false -> cap_get n (st_c s') = cap_get n (st_c s)) /\
  (forall b s k s', Iter b s k s' -> mentions n b = false -> cap_get n (st_c s') = cap_get n (st_c s)).
Proof.
  apply Matches_Iter_ind; intros; cbn [mentions st_c] in *; try reflexivity;
    try match goal with H : _ || _ = false |- _ => apply orb_false_iff in H as [? ?] end.
  - rewrite H0, H by assumption. reflexivity.
  - auto.
  - auto.
  - auto.
  - simpl. rewrite H0. auto.
  - auto.
  - rewrite H0, H by assumption. reflexivity.
Qed.

Lemma Matches_set_inv neg items s s' : Matches (RSet neg items) s s' ->
  exists x t, st_rest s = x :: t /\ set_match neg items x = true /\ st_rest s' = t /\ st_c s' = st_c s.
Proof. intros M. inversion M; subst. cbn. eauto 10. Qed.

(* Patterns anchored at both ends: when such a pattern matches a line that holds no newline, group 0 is the whole line.
   Generic in the pattern (syntactic conditions only); used for the line-block definitions. *)
From Rimu Require Import Base Unicode Regex RegexSem RegexAnalysis RegexParse Str MatchLemmas MatchExact ScanLemmas.
From Coq Require Import Lia.

Fixpoint bref_free (r : regex) : bool :=
  match r with
  | RBref _ => false
  | RSeq a b | RAlt a b => bref_free a && bref_free b
  | RRep _ _ _ b | RGrp _ b | RLook _ b => bref_free b
  | _ => true
  end.

Definition posc (s s' : mst) (w : str) : Prop := st_rest s = w ++ st_rest s' /\ st_i s' = st_i s + lenN w.

Lemma posc_trans s1 s2 s3 w1 w2 : posc s1 s2 w1 -> posc s2 s3 w2 -> posc s1 s3 (w1 ++ w2).
Proof. intros [A1 A2] [B1 B2]. split; [rewrite A1, B1, app_assoc; reflexivity|rewrite B2, A2, lenN_app; lia]. Qed.

Lemma Matches_pos :
  (forall r s s', Matches r s s' -> bref_free r = true -> exists w, posc s s' w) /\
  (forall b s k s', Iter b s k s' -> bref_free b = true -> exists w, posc s s' w).
Proof.
  apply Matches_Iter_ind; intros; cbn [bref_free] in *;
    try (exists []; split; cbn [st_rest st_i app lenN]; [reflexivity|lia]);
    try (exists [x]; split; cbn [st_rest st_i app lenN]; [reflexivity|lia]); auto; try discriminate.
  all: try (apply andb_prop in H1 as [Ha Hb]; destruct (H Ha) as (w1 & P1); destruct (H0 Hb) as (w2 & P2); exists (w1 ++ w2); eapply posc_trans; eauto; fail).
  all: try (apply andb_prop in H0 as [Ha Hb]; auto; fail).
  all: try (destruct (H H0) as (w & P); exists w; destruct P as [P1 P2]; split; cbn [st_rest st_i] in *; auto; fail).
  all: try (destruct (H H1) as (w1 & P1); destruct (H0 H1) as (w2 & P2); exists (w1 ++ w2); eapply posc_trans; eauto; fail).
  all: try (exists []; split; cbn [st_rest st_i app lenN]; [reflexivity|lia]).
Qed.

Fixpoint ends_eol (r : regex) : bool :=
  match r with
  | REol false => true
  | RSeq _ b => ends_eol b
  | _ => false
  end.

Lemma ends_eol_sound : forall r s s', ends_eol r = true -> mx r s s' -> eol_ok false (st_rest s') = true.
Proof.
  induction r; intros s s' He H; cbn [ends_eol] in He; try discriminate.
  - cbn [mx] in H. destruct H as (s2 & _ & H2). eauto.
  - destruct multiline; [discriminate|]. cbn [mx] in H. destruct H as [-> H]. exact H.
Qed.

Lemma eol_no_newline rest : eol_ok false rest = true -> (forall x, In x rest -> x <> 10) -> rest = [].
Proof.
  intros H Hn. destruct rest as [|x t]; [reflexivity|]. cbn [eol_ok] in H. apply andb_prop in H as [Hx _].
  apply N.eqb_eq in Hx. exfalso. apply (Hn x); [left; reflexivity|exact Hx].
Qed.

Theorem anchored_grp0 (r : cre) r' L m :
  wf_exact (re_ast r) = true -> re_ast r = RSeq (RBol false) r' -> ends_eol r' = true -> bref_free r' = true ->
  (forall x, In x L -> x <> 10) -> re_search r L = Some m -> nth_error (m_groups m) 0 = Some (Some L).
Proof.
  intros Hwf Er He Hb Hn Hs. destruct (re_search_sound r L m Hwf Hs) as (pre & rest & s' & Et & _ & M & _ & Hg).
  rewrite Er in M. cbn [mx] in M. destruct M as (s2 & [-> Hbol] & M). cbn [st_p] in Hbol.
  assert (pre = []).
  { destruct pre as [|a pre] using rev_ind; [reflexivity|]. exfalso. rewrite last_of_app in Hbol. cbn in Hbol. discriminate. }
  subst pre. cbn [app lenN] in *. subst rest.
  pose proof (ends_eol_sound _ _ _ He M) as Heol.
  destruct (proj1 Matches_pos _ _ _ (mx_Matches _ _ _ M) Hb) as (w & Hw1 & Hw2). cbn [st_rest st_i] in *.
  assert (Hr : st_rest s' = []).
  { apply eol_no_newline; [exact Heol|]. intros x Hx. apply Hn. rewrite Hw1. apply in_or_app. right. exact Hx. }
  rewrite Hr, app_nil_r in Hw1. subst w. rewrite Hg. cbn [nth_error]. rewrite Hw2. replace (0 + lenN L - 0) with (lenN L) by lia.
  rewrite takeN_all. reflexivity.
Qed.
